#!/bin/bash
# Builds the analyser offline from /verif/sa and warms the Go build cache for /repo.
set -e
cd "$(dirname "$0")"
. ./env.sh
mkdir -p bin evidence
(cd sa && go build -o ../bin/scriggosa .)
# warm: type-check /repo once so the first check does not pay the cold export-data cost
(cd /repo && go build ./... >/dev/null 2>&1 || true)
echo "setup ok: $(./bin/scriggosa -list | tr '\n' ' ')"
