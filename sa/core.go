package main

// Core plumbing: loading /repo, obligations, known findings, evidence.
// See /verif/DESIGN.md §2, §3, §8.

import (
	"encoding/json"
	"fmt"
	"go/ast"
	"go/token"
	"go/types"
	"os"
	"path/filepath"
	"sort"
	"strings"
	"time"

	"golang.org/x/tools/go/packages"
)

const modulePath = "github.com/open2b/scriggo"

// Prog is the loaded, type-checked repository.
type Prog struct {
	Repo  string
	Arch  string
	Fset  *token.FileSet
	Pkgs  []*packages.Package // module packages only, sorted by path
	byRel map[string]*packages.Package
	all   map[string]*packages.Package // every package incl. dependencies

	parents map[*ast.File]map[ast.Node]ast.Node
	ssaOnce bool
	ssa     *ssaState
}

// Load loads ./... of repo with full syntax. tests adds _test files.
func Load(repo, goarch string, tests bool) (*Prog, error) {
	env := os.Environ()
	if goarch != "" {
		env = append(env, "GOARCH="+goarch, "CGO_ENABLED=0")
	}
	cfg := &packages.Config{
		Mode:  packages.LoadAllSyntax,
		Dir:   repo,
		Env:   env,
		Tests: tests,
	}
	pkgs, err := packages.Load(cfg, "./...")
	if err != nil {
		return nil, fmt.Errorf("load: %v", err)
	}
	p := &Prog{Repo: repo, Arch: goarch, byRel: map[string]*packages.Package{}, all: map[string]*packages.Package{}, parents: map[*ast.File]map[ast.Node]ast.Node{}}
	var errs []string
	packages.Visit(pkgs, nil, func(pk *packages.Package) {
		p.all[pk.ID] = pk
		if strings.HasPrefix(pk.PkgPath, modulePath) {
			for _, e := range pk.Errors {
				errs = append(errs, e.Error())
			}
		}
	})
	for _, pk := range pkgs {
		if p.Fset == nil {
			p.Fset = pk.Fset
		}
		if !strings.HasPrefix(pk.PkgPath, modulePath) {
			continue
		}
		// with Tests=true a package appears several times; prefer the variant with test files for rel lookups
		rel := strings.TrimPrefix(strings.TrimPrefix(pk.PkgPath, modulePath), "/")
		if strings.HasSuffix(pk.ID, ".test") {
			continue
		}
		p.Pkgs = append(p.Pkgs, pk)
		if old, ok := p.byRel[rel]; !ok || len(pk.Syntax) > len(old.Syntax) {
			if !strings.HasSuffix(pk.PkgPath, "_test") {
				p.byRel[rel] = pk
			}
		}
	}
	sort.Slice(p.Pkgs, func(i, j int) bool { return p.Pkgs[i].ID < p.Pkgs[j].ID })
	if len(errs) > 0 {
		return nil, fmt.Errorf("type errors in /repo: %s", strings.Join(errs, "; "))
	}
	if len(p.byRel) < 12 {
		return nil, fmt.Errorf("only %d packages loaded, expected >= 12", len(p.byRel))
	}
	// pure one-argument predicates of the module (`func isX(c byte) bool { return <expr> }`): evalPred
	// evaluates a call of one on the variable by evaluating its body
	for _, pk := range p.byRel {
		for _, f := range pk.Syntax {
			for _, d := range f.Decls {
				fd, ok := d.(*ast.FuncDecl)
				if !ok || fd.Body == nil || fd.Recv != nil || len(fd.Body.List) != 1 || fd.Type.Params.NumFields() != 1 || len(fd.Type.Params.List[0].Names) != 1 {
					continue
				}
				rs, ok := fd.Body.List[0].(*ast.ReturnStmt)
				if !ok || len(rs.Results) != 1 {
					continue
				}
				if obj, ok := pk.TypesInfo.Defs[fd.Name].(*types.Func); ok {
					predFuncs[obj] = predFunc{pk.TypesInfo, pk.TypesInfo.Defs[fd.Type.Params.List[0].Names[0]], rs.Results[0]}
				}
			}
		}
	}
	return p, nil
}

type predFunc struct {
	info  *types.Info
	param types.Object
	body  ast.Expr
}

var predFuncs = map[*types.Func]predFunc{}

// Pkg returns the module package with the given path relative to the module root ("" = root).
func (p *Prog) Pkg(rel string) *packages.Package { return p.byRel[rel] }

// Rel returns the short name of a package used in construct keys.
func relOf(pk *types.Package) string {
	if pk == nil {
		return ""
	}
	r := strings.TrimPrefix(strings.TrimPrefix(pk.Path(), modulePath), "/")
	if r == "" {
		return "scriggo"
	}
	return strings.TrimPrefix(r, "internal/")
}

// Pos renders a position relative to the repo root.
func (p *Prog) Pos(pos token.Pos) string {
	if !pos.IsValid() {
		return "-"
	}
	ps := p.Fset.Position(pos)
	f := ps.Filename
	if r, err := filepath.Rel(p.Repo, f); err == nil && !strings.HasPrefix(r, "..") {
		f = r
	}
	return fmt.Sprintf("%s:%d", f, ps.Line)
}

// FuncInfo is a declared function or method with body.
type FuncInfo struct {
	Pkg  *packages.Package
	File *ast.File
	Decl *ast.FuncDecl
	Obj  *types.Func
}

// Name renders "pkg.(*T).m" / "pkg.f".
func (f *FuncInfo) Name() string { return funcKey(f.Obj) }

func funcKey(fn *types.Func) string {
	if fn == nil {
		return "?"
	}
	sig, _ := fn.Type().(*types.Signature)
	pk := relOf(fn.Pkg())
	if sig != nil && sig.Recv() != nil {
		t := sig.Recv().Type()
		ptr := false
		if pt, ok := t.(*types.Pointer); ok {
			ptr = true
			t = pt.Elem()
		}
		n := "?"
		if nt, ok := t.(*types.Named); ok {
			n = nt.Obj().Name()
		}
		if ptr {
			return fmt.Sprintf("%s.(*%s).%s", pk, n, fn.Name())
		}
		return fmt.Sprintf("%s.%s.%s", pk, n, fn.Name())
	}
	return pk + "." + fn.Name()
}

// Funcs lists every function declaration with a body in package rel, non-test files unless tests were loaded.
func (p *Prog) Funcs(rel string) []*FuncInfo {
	pk := p.Pkg(rel)
	if pk == nil {
		return nil
	}
	var out []*FuncInfo
	for _, f := range pk.Syntax {
		for _, d := range f.Decls {
			fd, ok := d.(*ast.FuncDecl)
			if !ok || fd.Body == nil {
				continue
			}
			obj, _ := pk.TypesInfo.Defs[fd.Name].(*types.Func)
			out = append(out, &FuncInfo{Pkg: pk, File: f, Decl: fd, Obj: obj})
		}
	}
	return out
}

// Func finds a function by short name: "f", "T.m" or "(*T).m" (receiver pointer-ness is ignored).
func (p *Prog) Func(rel, name string) *FuncInfo {
	want := strings.NewReplacer("(", "", ")", "", "*", "").Replace(name)
	for _, fi := range p.Funcs(rel) {
		if p.isTestFile(fi.File) {
			continue
		}
		n := fi.Decl.Name.Name
		if fi.Decl.Recv != nil && len(fi.Decl.Recv.List) > 0 {
			t := fi.Decl.Recv.List[0].Type
			if s, ok := t.(*ast.StarExpr); ok {
				t = s.X
			}
			if ix, ok := t.(*ast.IndexExpr); ok {
				t = ix.X
			}
			if id, ok := t.(*ast.Ident); ok {
				n = id.Name + "." + n
			}
		}
		if n == want {
			return fi
		}
	}
	return nil
}

func (p *Prog) isTestFile(f *ast.File) bool {
	return strings.HasSuffix(p.Fset.Position(f.Pos()).Filename, "_test.go")
}

// FileOf returns the base file name holding pos.
func (p *Prog) FileOf(pos token.Pos) string {
	return filepath.Base(p.Fset.Position(pos).Filename)
}

// Parent map of a file (lazy).
func (p *Prog) Parents(f *ast.File) map[ast.Node]ast.Node {
	if m, ok := p.parents[f]; ok {
		return m
	}
	m := map[ast.Node]ast.Node{}
	var stack []ast.Node
	ast.Inspect(f, func(n ast.Node) bool {
		if n == nil {
			stack = stack[:len(stack)-1]
			return true
		}
		if len(stack) > 0 {
			m[n] = stack[len(stack)-1]
		}
		stack = append(stack, n)
		return true
	})
	p.parents[f] = m
	return m
}

// ---------------------------------------------------------------------------
// Obligations

type Verdict string

const (
	Discharged Verdict = "discharged"
	Violated   Verdict = "violated"
	Undecided  Verdict = "undecided"
)

type Obl struct {
	Rule       string  `json:"rule"`
	Construct  string  `json:"construct"`
	Pos        string  `json:"pos"`
	Verdict    Verdict `json:"verdict"`
	Fact       string  `json:"fact"`
	Nontrivial bool    `json:"nontrivial"`
	Known      string  `json:"known_finding,omitempty"`
}

type Run struct {
	Prop    string
	Tier    string
	P       *Prog
	Obls    []*Obl
	Min     map[string]int
	Notes   []string
	NotCov  []string
	Trusted []string
	Explain string
	Exhaust bool
	seen    map[string]*Obl
	Stats   map[string]int
}

func NewRun(prop, tier string, p *Prog) *Run {
	return &Run{Prop: prop, Tier: tier, P: p, Min: map[string]int{}, seen: map[string]*Obl{}, Stats: map[string]int{}}
}

// Ob creates an obligation (verdict undecided until set). Duplicated keys get a numeric suffix
// in order of appearance within the construct (stable under edits elsewhere).
func (r *Run) Ob(rule, construct string, pos token.Pos) *Obl {
	key := rule + " " + construct
	base := construct
	for i := 2; r.seen[key] != nil; i++ {
		construct = fmt.Sprintf("%s~%d", base, i)
		key = rule + " " + construct
	}
	o := &Obl{Rule: rule, Construct: construct, Pos: r.P.Pos(pos), Verdict: Undecided, Fact: "not decided"}
	r.seen[key] = o
	r.Obls = append(r.Obls, o)
	return o
}

func (o *Obl) OK(format string, a ...any) *Obl {
	o.Verdict, o.Fact, o.Nontrivial = Discharged, fmt.Sprintf(format, a...), true
	return o
}

// Trivial marks a discharged obligation that needed no fact (counted as evaluated, not as nontrivial).
func (o *Obl) Trivial(format string, a ...any) *Obl {
	o.Verdict, o.Fact, o.Nontrivial = Discharged, fmt.Sprintf(format, a...), false
	return o
}
func (o *Obl) Bad(format string, a ...any) *Obl {
	o.Verdict, o.Fact, o.Nontrivial = Violated, fmt.Sprintf(format, a...), true
	return o
}
func (o *Obl) Unknown(format string, a ...any) *Obl {
	o.Verdict, o.Fact, o.Nontrivial = Undecided, fmt.Sprintf(format, a...), true
	return o
}

// Set is OK when cond holds, Bad otherwise.
func (o *Obl) Set(cond bool, okFact, badFact string) *Obl {
	if cond {
		return o.OK("%s", okFact)
	}
	return o.Bad("%s", badFact)
}

// Require sets the minimum number of obligations a rule must instantiate.
func (r *Run) Require(rule string, n int) { r.Min[rule] = n }

// Anchor reports an unresolved anchor as an undecided obligation and returns false.
func (r *Run) Anchor(rule, what string, found bool) bool {
	if found {
		return true
	}
	r.Ob(rule, "anchor:"+what, token.NoPos).Unknown("anchor not resolved: %s (the mechanism was renamed or reshaped; the rule must be re-confirmed)", what)
	return false
}

func (r *Run) NeedFunc(rule, rel, name string) *FuncInfo {
	fi := r.P.Func(rel, name)
	if fi == nil {
		r.Anchor(rule, rel+"."+name, false)
	}
	return fi
}

func (r *Run) Note(format string, a ...any) { r.Notes = append(r.Notes, fmt.Sprintf(format, a...)) }

// ---------------------------------------------------------------------------
// Known findings

type Finding struct {
	Prop, Rule, Construct, Text string
	used                        bool
}

func loadFindings(path string) ([]*Finding, error) {
	b, err := os.ReadFile(path)
	if err != nil {
		if os.IsNotExist(err) {
			return nil, nil
		}
		return nil, err
	}
	var out []*Finding
	for _, ln := range strings.Split(string(b), "\n") {
		ln = strings.TrimSpace(ln)
		if !strings.HasPrefix(ln, "finding:") {
			continue
		}
		f := &Finding{}
		rest := strings.TrimSpace(strings.TrimPrefix(ln, "finding:"))
		for _, k := range []string{"property=", "rule=", "construct="} {
			if !strings.HasPrefix(rest, k) {
				return nil, fmt.Errorf("known_findings: malformed line %q", ln)
			}
			rest = rest[len(k):]
			i := strings.IndexByte(rest, ' ')
			v := rest
			if i >= 0 {
				v, rest = rest[:i], strings.TrimSpace(rest[i:])
			} else {
				rest = ""
			}
			switch k {
			case "property=":
				f.Prop = v
			case "rule=":
				f.Rule = v
			case "construct=":
				f.Construct = v
			}
		}
		f.Text = rest
		out = append(out, f)
	}
	return out, nil
}

// constructMatches compares the construct of a listed finding with that of an obligation. A listed
// construct may contain '*' (any run of characters): a finding is identified by the rule and by what
// fails (the callee whose error is mishandled, the opcode, the table entry), not by the name of the
// function that happens to contain it, so that extracting the code into a helper does not turn a listed
// finding into a new alarm; anything the pattern does not cover is still reported.
func constructMatches(pattern, s string) bool {
	if !strings.Contains(pattern, "*") {
		return pattern == s
	}
	parts := strings.Split(pattern, "*")
	if !strings.HasPrefix(s, parts[0]) {
		return false
	}
	s = s[len(parts[0]):]
	for i := 1; i < len(parts)-1; i++ {
		j := strings.Index(s, parts[i])
		if j < 0 {
			return false
		}
		s = s[j+len(parts[i]):]
	}
	return strings.HasSuffix(s, parts[len(parts)-1])
}

// ---------------------------------------------------------------------------
// Finish: evaluate, print, write evidence. Returns the exit code.

type evidence struct {
	PropertyID  string         `json:"property_id"`
	Tier        string         `json:"tier"`
	Seed        int            `json:"seed"`
	Level       string         `json:"level"`
	Coverage    map[string]any `json:"coverage"`
	Assumptions []string       `json:"assumptions"`
	WallS       float64        `json:"wall_s"`
	Violations  int            `json:"violations"`
}

func (r *Run) Finish(verifDir string, start time.Time, seed int, cmdline string) int {
	findings, ferr := loadFindings(filepath.Join(verifDir, "known_findings.txt"))
	if ferr != nil {
		r.Ob("core", "known_findings.txt", token.NoPos).Unknown("%v", ferr)
	}
	// minimum instance counts
	perRule := map[string]int{}
	for _, o := range r.Obls {
		perRule[o.Rule]++
	}
	var rules []string
	for k := range r.Min {
		rules = append(rules, k)
	}
	sort.Strings(rules)
	minInst := map[string]any{}
	for _, k := range rules {
		// The count confirmed by hand guards against a rule that passes vacuously because it no longer
		// sees its mechanism. Ordinary maintenance (extracting a helper, merging duplicated branches)
		// legitimately lowers the number of constructs, so the check fails only below HALF of the
		// confirmed count; a smaller drop is recorded as a note.
		floor := (r.Min[k] + 1) / 2
		minInst[k] = map[string]int{"confirmed": r.Min[k], "min": floor, "measured": perRule[k]}
		if perRule[k] < floor {
			r.Ob(k, "min-instances", token.NoPos).Unknown("rule matched %d constructs, fewer than half of the %d confirmed by hand: the rule no longer sees the mechanism it checks", perRule[k], r.Min[k])
		} else if perRule[k] < r.Min[k] {
			r.Note("rule %s matched %d constructs, %d were confirmed by hand (the code was restructured; above the vacuity floor %d)", k, perRule[k], r.Min[k], floor)
		}
	}
	var viol, known, undec, disch, nontriv int
	var bad []*Obl
	distinct := map[string]bool{}
	for _, o := range r.Obls {
		switch o.Verdict {
		case Discharged:
			disch++
		case Violated, Undecided:
			matched := false
			if o.Verdict == Violated {
				base := strings.TrimSuffix(strings.TrimSuffix(o.Construct, "@386"), "@tests")
				for _, f := range findings {
					if f.Prop == r.Prop && f.Rule == o.Rule && constructMatches(f.Construct, base) {
						matched = true
						f.used = true
						o.Known = f.Text
						fmt.Printf("KNOWN-FINDING: property=%s rule=%s construct=%s %s [%s]\n", r.Prop, o.Rule, o.Construct, f.Text, o.Pos)
						break
					}
				}
			}
			if matched {
				known++
			} else {
				if o.Verdict == Undecided {
					undec++
				}
				viol++
				bad = append(bad, o)
			}
		}
		if o.Nontrivial && !distinct[o.Rule+" "+o.Construct] {
			distinct[o.Rule+" "+o.Construct] = true
			nontriv++
		}
	}
	for _, f := range findings {
		if f.Prop == r.Prop && !f.used {
			r.Note("known finding no longer reproduced by the rule (repaired or reshaped): rule=%s construct=%s", f.Rule, f.Construct)
			fmt.Printf("note: listed finding not matched on this tree: property=%s rule=%s construct=%s\n", f.Prop, f.Rule, f.Construct)
		}
	}
	// samples: every non-discharged obligation and a spread of discharged ones
	var samples []any
	for _, o := range r.Obls {
		if o.Verdict != Discharged {
			samples = append(samples, o)
		}
	}
	seenRule := map[string]int{}
	for _, o := range r.Obls {
		if o.Verdict == Discharged && o.Nontrivial && seenRule[o.Rule] < 6 {
			seenRule[o.Rule]++
			samples = append(samples, o)
		}
	}
	if len(samples) == 0 {
		for i, o := range r.Obls {
			if i < 5 {
				samples = append(samples, o)
			}
		}
	}
	pkgs := []string{}
	nfuncs := 0
	for _, pk := range r.P.Pkgs {
		pkgs = append(pkgs, pk.ID)
	}
	for rel := range r.P.byRel {
		nfuncs += len(r.P.Funcs(rel))
	}
	cov := map[string]any{
		"explanation":         r.Explain,
		"not_covered":         r.NotCov,
		"obligations":         len(r.Obls),
		"discharged":          disch,
		"known_findings":      known,
		"undecided":           undec,
		"violated_unlisted":   viol - undec,
		"evaluations":         len(r.Obls),
		"distinct_nontrivial": nontriv,
		"rule":                "one obligation per (rule, construct) found in /repo's type-checked source; nontrivial = its verdict needed a fact computed from the code (set inclusion, dominance, flow), distinct = distinct rule+construct keys",
		"samples":             samples,
		"exhaustive":          r.Exhaust,
		"checker_cmd":         cmdline,
		"trusted_base":        append([]string{"go/types, go/ssa, go/cfg of golang.org/x/tools v0.50.0", "Go specification semantics of the constructs the rules interpret"}, r.Trusted...),
		"packages":            pkgs,
		"goarch":              r.P.Arch,
		"functions_loaded":    nfuncs,
		"min_instances":       minInst,
		"per_rule":            perRule,
		"stats":               r.Stats,
		"notes":               r.Notes,
		"all_obligations":     r.Obls,
	}
	if r.Tier == "thorough" {
		if b, err := os.ReadFile(filepath.Join(verifDir, "evidence", ".selftest", r.Prop+".json")); err == nil {
			var st any
			if json.Unmarshal(b, &st) == nil {
				cov["self_test"] = st
			}
		}
	}
	ev := evidence{PropertyID: r.Prop, Tier: r.Tier, Seed: seed, Level: "other", Coverage: cov,
		Assumptions: append([]string{"structural necessary conditions only: the behaviour itself is not decided (see not_covered)"}, r.Trusted...),
		WallS:       time.Since(start).Seconds(), Violations: viol}
	evDir := filepath.Join(verifDir, "evidence")
	os.MkdirAll(evDir, 0o755)
	b, _ := json.MarshalIndent(ev, "", " ")
	if err := os.WriteFile(filepath.Join(evDir, r.Prop+".json"), append(b, '\n'), 0o644); err != nil {
		fmt.Fprintf(os.Stderr, "cannot write evidence: %v\n", err)
		return 2
	}
	fmt.Printf("%s tier=%s arch=%s: %d obligations, %d discharged, %d known findings, %d violated, %d undecided (%.1fs)\n",
		r.Prop, r.Tier, r.P.Arch, len(r.Obls), disch, known, viol-undec, undec, time.Since(start).Seconds())
	for _, k := range sortedKeys(perRule) {
		fmt.Printf("  rule %-6s %4d obligations\n", k, perRule[k])
	}
	reportPath := filepath.Join(evDir, r.Prop+".report.json")
	if viol > 0 {
		for _, o := range bad {
			fmt.Printf("  %s %s %s at %s: %s\n", strings.ToUpper(string(o.Verdict)), o.Rule, o.Construct, o.Pos, o.Fact)
		}
		rb, _ := json.MarshalIndent(map[string]any{"property_id": r.Prop, "violations": bad}, "", " ")
		os.WriteFile(reportPath, append(rb, '\n'), 0o644)
		fmt.Printf("VIOLATION property=%s replay=%s\n", r.Prop, reportPath)
		return 1
	}
	os.Remove(reportPath)
	return 0
}

func sortedKeys[V any](m map[string]V) []string {
	var ks []string
	for k := range m {
		ks = append(ks, k)
	}
	sort.Strings(ks)
	return ks
}
