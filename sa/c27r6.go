package main

// C27 R-6 — the printed form lexes into the tokens that were printed.
//
// An operator node prints its operator and then its operand. When the operand is itself an operator
// expression that is printed without parentheses and without a blank, the two spellings are adjacent in
// the output and the lexer, which always takes the longest token, may read them as ONE other token:
// "&" "^x" -> "&^x" (and-not), "-" "-x" -> "--x", "+" "+x" -> "++x", "&" "&x" -> "&&x", "<" "-x" -> "<-x".
// The printed form then does not parse, or parses to another tree.
//
// For every node type that implements the operator interface of package ast (an interface with a method
// returning an operator enum), for every operator the parser can store in it, for every operand field and
// every operator expression the parser can put there, the String method is evaluated symbolically with the
// operand's own String expanded; the literal text around the border between the text written by the node
// and the text written by the operand is cut into tokens with the token spellings of the compiler's token
// table (longest match), and the border must fall between two tokens. A word spelling ("not") that runs
// into the operand is the same defect. The second half of the rule applies it to every String method: a
// literal ending in a letter is never immediately followed by the printed form of a child.

import (
	"fmt"
	"go/ast"
	"go/token"
	"go/types"
	"sort"
	"strings"
)

func init() {
	p := registry["C27"]
	if p == nil {
		return
	}
	c27more = append(c27more, c27Adjacency)
	p.explain += " R-6: in the printed form of an operator expression whose operand is an operator expression, the text written by the node and the text written by the operand never join into one longer token of the compiler's token table (\"&\" + \"^x\" = \"&^x\"), for every operator pair the parser can build; and no String method writes a literal ending in a letter immediately before the printed form of a child."
}

func c27isWord(c byte) bool {
	return c == '_' || c >= '0' && c <= '9' || c >= 'a' && c <= 'z' || c >= 'A' && c <= 'Z' || c >= 0x80
}

func c27punctOnly(s string) bool {
	if s == "" {
		return false
	}
	for i := 0; i < len(s); i++ {
		c := s[i]
		if c <= ' ' || c >= 0x7f || c27isWord(c) || c == '"' || c == '\'' || c == '`' {
			return false
		}
	}
	return true
}

// c27tokenTable reads the punctuation spellings of the compiler's tokens: the values of a map literal
// from a token enum to strings; when no such table exists, every punctuation-only string literal of the
// package.
func (c *c27) tokenTable() (map[string]bool, string) {
	pk := c.r.P.Pkg("internal/compiler")
	if pk == nil {
		return nil, ""
	}
	info := pk.TypesInfo
	best := map[string]bool{}
	where := ""
	all := map[string]bool{}
	for _, f := range pk.Syntax {
		if c.r.P.isTestFile(f) {
			continue
		}
		ast.Inspect(f, func(n ast.Node) bool {
			switch n := n.(type) {
			case *ast.BasicLit:
				if n.Kind == token.STRING {
					if s, ok := stringValue(info, n); ok && c27punctOnly(s) && len(s) <= 3 {
						all[s] = true
					}
				}
			case *ast.CompositeLit:
				mt, ok := info.TypeOf(n).Underlying().(*types.Map)
				if !ok {
					return true
				}
				kt, ok := mt.Key().(*types.Named)
				if !ok || kt.Obj().Pkg() != pk.Types {
					return true
				}
				if b, ok := kt.Underlying().(*types.Basic); !ok || b.Info()&types.IsInteger == 0 {
					return true
				}
				set := map[string]bool{}
				for _, el := range n.Elts {
					if kv, ok := el.(*ast.KeyValueExpr); ok {
						if s, ok := stringValue(info, kv.Value); ok && c27punctOnly(s) {
							set[s] = true
						}
					}
				}
				if len(set) > len(best) {
					best, where = set, "the map literal from "+kt.Obj().Name()+" to spellings at "+c.r.P.Pos(n.Pos())
				}
			}
			return true
		})
	}
	if len(best) >= 20 {
		return best, where
	}
	return all, "the punctuation string literals of internal/compiler"
}

// c27spans cuts text into tokens (longest match for punctuation, maximal runs for words).
func c27spans(text string, toks map[string]bool) [][2]int {
	var out [][2]int
	for i := 0; i < len(text); {
		ch := text[i]
		if ch == ' ' || ch == '\t' || ch == '\n' {
			i++
			continue
		}
		j := i + 1
		if c27isWord(ch) {
			for j < len(text) && c27isWord(text[j]) {
				j++
			}
		} else {
			for l := 4; l >= 2; l-- {
				if i+l <= len(text) && toks[text[i:i+l]] {
					j = i + l
					break
				}
			}
		}
		out = append(out, [2]int{i, j})
		i = j
	}
	return out
}

// c27joined looks, in one printed form, for a border between literal text of two different nodes that
// falls inside a token; it returns the token.
func c27joined(ps []c27piece, toks map[string]bool) string {
	for i := 0; i < len(ps); {
		if ps[i].ref != nil {
			i++
			continue
		}
		j := i
		var text strings.Builder
		var borders []int
		for j < len(ps) && ps[j].ref == nil {
			if j > i && ps[j].owner != ps[j-1].owner {
				borders = append(borders, text.Len())
			}
			text.WriteString(ps[j].lit)
			j++
		}
		if len(borders) > 0 {
			t := text.String()
			for _, sp := range c27spans(t, toks) {
				for _, b := range borders {
					if sp[0] < b && b < sp[1] {
						return t[sp[0]:sp[1]]
					}
				}
			}
		}
		i = j
	}
	return ""
}

func c27Adjacency(c *c27, ms []*FuncInfo) {
	r := c.r
	const R = "R-6"
	toks, where := c.tokenTable()
	if !r.Anchor(R, "token spellings of the compiler (a table from the token type to strings)", len(toks) >= 20) {
		return
	}
	// the operator interface: an interface of package ast with a method returning an enum of the package
	var opIface *types.Interface
	var opEnum *types.Named
	sc := c.astPk.Types.Scope()
	for _, nm := range sc.Names() {
		tn, ok := sc.Lookup(nm).(*types.TypeName)
		if !ok {
			continue
		}
		it, ok := tn.Type().Underlying().(*types.Interface)
		if !ok {
			continue
		}
		for i := 0; i < it.NumMethods(); i++ {
			sig := it.Method(i).Type().(*types.Signature)
			if sig.Params().Len() == 0 && sig.Results().Len() == 1 {
				if et := c.enumOf(sig.Results().At(0).Type()); et != nil && (opIface == nil || it.NumMethods() < opIface.NumMethods()) {
					opIface, opEnum = it, et
				}
			}
		}
	}
	if !r.Anchor(R, "operator interface of package ast (a method returning an operator enum)", opIface != nil) {
		return
	}
	ev := c27newEv(c)
	impl := ev.implementers(opIface)
	byType := map[*types.Named]*FuncInfo{}
	for _, fi := range ms {
		byType[c.recvNamed(fi)] = fi
	}
	type shape struct {
		nt      *types.Named
		opField string
		exprs   []string
		ops     []int64
	}
	var shapes []*shape
	for _, nt := range impl {
		st := nt.Underlying().(*types.Struct)
		sh := &shape{nt: nt}
		for i := 0; i < st.NumFields(); i++ {
			f := st.Field(i)
			if f.Embedded() {
				continue
			}
			if types.Identical(f.Type(), opEnum) && sh.opField == "" {
				sh.opField = f.Name()
			}
			if _, ok := f.Type().Underlying().(*types.Interface); ok {
				sh.exprs = append(sh.exprs, f.Name())
			}
		}
		if sh.opField == "" || byType[nt] == nil {
			continue
		}
		p := c.prod[nt.Obj().Name()+"."+sh.opField]
		for _, cst := range c.enums[opEnum] {
			v, _ := constantInt64(cst)
			if p == nil || p.all || p.vals[v] {
				sh.ops = append(sh.ops, v)
			}
		}
		shapes = append(shapes, sh)
	}
	if !r.Anchor(R, "operator node types with a String method", len(shapes) >= 2) {
		return
	}
	leaf := func(path string) *c27node {
		return &c27node{path: path, lazy: true, leaf: true, nilSt: 2, fields: map[string]c27v{}}
	}
	n := 0
	for _, sh := range shapes {
		fi := byType[sh.nt]
		for _, op := range sh.ops {
			o := r.Ob(R, fi.Name()+"#"+ev.enumName(opEnum, op), fi.Decl.Pos())
			n++
			bad, unread := "", ""
			pairs := 0
			for _, X := range sh.exprs {
				for _, ch := range shapes {
					for _, op2 := range ch.ops {
						if bad != "" || unread != "" {
							continue
						}
						runs, inc := ev.explore(200, func() (c27v, *c27node) {
							recv := ev.newNode("n", sh.nt)
							recv.fields[sh.opField] = c27int{op}
							for _, Y := range sh.exprs {
								if Y != X {
									recv.fields[Y] = leaf("n." + Y)
									continue
								}
								kid := ev.newNode("n."+Y, ch.nt)
								kid.expand = true
								kid.fields[ch.opField] = c27int{op2}
								for _, Z := range ch.exprs {
									kid.fields[Z] = leaf("n." + Y + "." + Z)
								}
								recv.fields[Y] = kid
							}
							return ev.invoke(fi, recv, nil, "n"), recv
						})
						if why := c27unreadable(runs, inc); why != "" {
							unread = why
							continue
						}
						for _, rn := range runs {
							ps := rn.pieces()
							if rn.halted || ps == nil {
								continue
							}
							pairs++
							if tok := c27joined(ps, toks); tok != "" {
								bad = fmt.Sprintf("%s{%s: %s, %s: %s{%s: %s}} is printed as %q: the text of the node and the text of its operand join into the single token %q, so the printed form does not parse back to the same tree",
									sh.nt.Obj().Name(), sh.opField, ev.enumName(opEnum, op), X, ch.nt.Obj().Name(), ch.opField, ev.enumName(opEnum, op2), c27render(ps), tok)
							}
						}
					}
				}
			}
			switch {
			case unread != "":
				o.Unknown("%s could not be evaluated symbolically (%s)", fi.Name(), unread)
			case bad != "":
				o.Bad("%s", bad)
			case pairs == 0:
				o.Trivial("%s panics for every operand shape with this operator (not an operator of this node)", fi.Name())
			default:
				o.OK("for each of the %d printable operator operands the border between the text of the node and the text of the operand falls between two tokens of %s", pairs, where)
			}
		}
	}
	r.Require(R, 20)

	// second half: a literal ending in a letter immediately before the printed form of a child
	for _, fi := range ms {
		runs, inc := c.runsOf(fi)
		if c27unreadable(runs, inc) != "" {
			continue // reported by R-4 / R-5
		}
		word, bad := false, ""
		for _, rn := range runs {
			ps := rn.pieces()
			if rn.halted {
				continue
			}
			for i, p := range ps {
				if p.ref != nil || p.lit == "" {
					continue
				}
				if c27isWord(p.lit[len(p.lit)-1]) {
					word = true
					if i+1 < len(ps) && ps[i+1].ref != nil && (ps[i+1].ref.how == "String" || ps[i+1].ref.how == "field") && bad == "" {
						bad = fmt.Sprintf("%s prints %q: the word %q runs into the printed form of %s, which may begin with a letter; the two are read as one identifier", fi.Name(), c27render(ps), c27lastWord(p.lit), ps[i+1].ref.path)
					}
				}
			}
		}
		if !word {
			continue
		}
		o := r.Ob(R, fi.Name()+"#words", fi.Decl.Pos())
		if bad != "" {
			o.Bad("%s", bad)
		} else {
			o.OK("every word written by %s is followed by a blank or punctuation before a child is printed", fi.Name())
		}
	}
}

func c27lastWord(s string) string {
	i := len(s)
	for i > 0 && c27isWord(s[i-1]) {
		i--
	}
	return s[i:]
}

var _ = sort.Strings
