package main

// Flow of an error variable whose address is handed to a function of the package (met in the false-alarm
// corpus: `defer p.stopAndRecover(&tree, &err)`). The callee's parameter is followed: every store `*p = e`
// is a source of the variable; any other use of the pointer (passed on, stored, compared) is not understood.

import (
	"go/ast"
	"go/types"
)

func (f *c03Flow) throughPointerParam(owner *FuncInfo, addr *ast.UnaryExpr, s *c03Sum, seen map[types.Object]bool) bool {
	par := f.P.Parents(owner.File)
	call, ok := par[ast.Node(addr)].(*ast.CallExpr)
	if !ok {
		return false
	}
	idx := -1
	for i, a := range call.Args {
		if a == ast.Expr(addr) {
			idx = i
		}
	}
	hf := callee(f.info, call)
	if idx < 0 || hf == nil {
		return false
	}
	h := f.decls[hf]
	if h == nil || h.Decl.Body == nil {
		return false
	}
	// the parameter receiving the address
	var pobj types.Object
	n := 0
	for _, fl := range h.Decl.Type.Params.List {
		for _, nm := range fl.Names {
			if n == idx {
				pobj = f.info.Defs[nm]
			}
			n++
		}
	}
	if pobj == nil {
		return false
	}
	hpar := f.P.Parents(h.File)
	okAll := true
	var stores []ast.Expr
	ast.Inspect(h.Decl.Body, func(m ast.Node) bool {
		id, isID := m.(*ast.Ident)
		if !isID || f.info.Uses[id] != pobj {
			return true
		}
		star, isStar := hpar[ast.Node(id)].(*ast.StarExpr)
		if !isStar {
			okAll = false // the pointer itself escapes or is compared
			return true
		}
		if as, isAs := hpar[ast.Node(star)].(*ast.AssignStmt); isAs {
			for i, l := range as.Lhs {
				if l == ast.Expr(star) {
					if len(as.Lhs) != len(as.Rhs) {
						okAll = false
					} else {
						stores = append(stores, as.Rhs[i])
					}
				}
			}
		}
		// a read of *p elsewhere reads the caller's variable: not a new source
		return true
	})
	if !okAll {
		return false
	}
	for _, e := range stores {
		f.exprSrc(h, e, -1, s, seen)
	}
	return true
}
