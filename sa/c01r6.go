package main

// C01 R-6 (added after seeded change C01-2): operand-swap tables.
//
// The emitter rewrites `x op len(s)` as `len(s) op' x`; op' must be the mirror of op in the sense of
// the Go specification (a < b ⇔ b > a, a <= b ⇔ b >= a, == and != are symmetric). Any function of
// package compiler of type func(ast.OperatorType) ast.OperatorType whose body is a switch returning
// operator constants, and that is applied where the two operands of a comparison are exchanged, is such
// a table: it must be an involution and agree with the mirror relation on every comparison operator it
// lists. The mirror relation is a fact of the language, not a copy of the code.

import (
	"go/ast"
	"go/types"
	"strings"
)

var c01Mirror = map[string]string{
	"OperatorEqual":        "OperatorEqual",
	"OperatorNotEqual":     "OperatorNotEqual",
	"OperatorLess":         "OperatorGreater",
	"OperatorLessEqual":    "OperatorGreaterEqual",
	"OperatorGreater":      "OperatorLess",
	"OperatorGreaterEqual": "OperatorLessEqual",
}

func init() {
	prev := registry["C01"]
	if prev == nil {
		return
	}
	run := prev.run
	prev.run = func(r *Run) {
		run(r)
		c01MirrorRule(r)
	}
	prev.explain += " (R-6) every operator-to-operator table of the emitter used when the operands of a comparison are exchanged is the mirror relation of the Go specification and an involution."
	prev.trusted = append(prev.trusted, "Go specification: a < b ⇔ b > a, a <= b ⇔ b >= a, == and != symmetric")
}

func c01MirrorRule(r *Run) {
	const R = "R-6"
	opT := r.P.Named("ast", "OperatorType")
	if !r.Anchor(R, "ast.OperatorType", opT != nil) {
		return
	}
	found := 0
	for _, fi := range r.P.Funcs("internal/compiler") {
		if r.P.isTestFile(fi.File) || fi.Decl.Recv != nil {
			continue
		}
		sig := fi.Obj.Type().(*types.Signature)
		if sig.Params().Len() != 1 || sig.Results().Len() != 1 || !types.Identical(sig.Params().At(0).Type(), opT) || !types.Identical(sig.Results().At(0).Type(), opT) {
			continue
		}
		info := fi.Pkg.TypesInfo
		sws := switchesOn(info, fi.Decl.Body, opT)
		if len(sws) != 1 {
			continue
		}
		// table: case constant -> returned constant
		table := map[string]string{}
		shape := true
		for _, st := range sws[0].Body.List {
			cc := st.(*ast.CaseClause)
			if cc.List == nil {
				continue
			}
			var ret *types.Const
			if len(cc.Body) == 1 {
				if rs, ok := cc.Body[0].(*ast.ReturnStmt); ok && len(rs.Results) == 1 {
					ret = constOf(info, rs.Results[0])
				}
			}
			if ret == nil {
				shape = false
				continue
			}
			for _, e := range cc.List {
				if c := constOf(info, e); c != nil {
					table[c.Name()] = ret.Name()
				} else {
					shape = false
				}
			}
		}
		// only tables over comparison operators are mirror tables
		cmp := 0
		for k := range table {
			if _, ok := c01Mirror[k]; ok {
				cmp++
			}
		}
		if cmp == 0 {
			continue
		}
		found++
		if !shape {
			r.Ob(R, fi.Name()+"#shape", fi.Decl.Pos()).Unknown("operator table with clauses that do not return a single operator constant: cannot be read")
			continue
		}
		for _, k := range sortedKeys(table) {
			v := table[k]
			o := r.Ob(R, fi.Name()+"#"+strings.TrimPrefix(k, "Operator"), fi.Decl.Pos())
			want, isCmp := c01Mirror[k]
			switch {
			case isCmp && v != want:
				o.Bad("%s maps %s to %s; with the operands exchanged `a %s b` is `b %s a`, i.e. %s: the comparison `x op len(s)` is compiled with the wrong operator", fi.Decl.Name.Name, k, v, strings.TrimPrefix(k, "Operator"), strings.TrimPrefix(want, "Operator"), want)
			case table[v] != k:
				o.Bad("%s is not an involution: %s ↦ %s ↦ %s", fi.Decl.Name.Name, k, v, table[v])
			default:
				o.OK("%s ↦ %s (mirror, involutive)", k, v)
			}
		}
	}
	if found == 0 {
		r.Ob(R, "compiler#operand-swap-table", 0).Trivial("no operator-to-operator table over comparison operators in package compiler: operands are never exchanged")
	}
}
