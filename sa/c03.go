package main

// C03 — "a rejection is always a *BuildError, never another error or a panic" (third clause only).
//
// R-1 (types + wrap): the concrete types that can flow into the error result of compiler.BuildProgram /
//      compiler.BuildTemplate are computed from the source (flow-insensitive value flow over returns,
//      assignments, type assertions and static calls inside package compiler). Every such type declared in
//      package compiler must implement compiler.Error; every other source of that result must be an
//      error of the file system / of an embedder callback, or a listed non-rejection error. In the root
//      package every function that receives an error from package compiler wraps compiler.Error into
//      *BuildError on every path to its error return (go/cfg, must-pass-through with the !ok bypass).
// R-2 (panic discipline): every panic(v) reachable from typecheck has v a checking error (static type
//      *CheckingError, or produced by the checking-error constructors), an assertion string, or a re-panic
//      of a recovered value; the root constructor returns *CheckingError on every path; every recover()
//      handler of package compiler leaves normally only with a nil value or after storing the recovered
//      value, asserted to a type implementing compiler.Error, into the error result of its function.
//
// The flow helpers of this file (c03Flow, c03ForwardReturns) are reused by c21.go.

import (
	"fmt"
	"go/ast"
	"go/token"
	"go/types"
	"sort"
	"strings"

	"golang.org/x/tools/go/cfg"
	"golang.org/x/tools/go/packages"
)

const c03Compiler = "internal/compiler"

func init() {
	register("C03", &ruleSet{
		explain: "Third clause of C03 only (a rejection is a *BuildError, never another error or a panic), structural part. R-1: the set of concrete types of package compiler that can flow into the error result of compiler.BuildProgram/BuildTemplate (computed over returns, assignments, type assertions, recovered values stored in named results and static calls) is included in the implementers of compiler.Error, every implementer is seen to flow, every other source of that result is enumerated and is a file-system error, an embedder callback error or a listed non-rejection error, and scriggo.Build/BuildTemplate wrap compiler.Error into *BuildError on every path from the compiler call to the error return. R-2: every panic reachable from typecheck raises a checking error built by the checking-error constructor, an assertion string, or re-raises a recovered value; the constructor returns *CheckingError on every return; every recover handler of package compiler either re-panics or stores the recovered value, asserted to an implementer of compiler.Error, in the error result.",
		notCov: []string{
			"which programs are accepted or rejected (first two clauses of C03): equivalence with go/types is not decided",
			"whether an assertion panic (string / listed fmt.Errorf) is reachable with some program: that is C04's crash freedom",
			"run-time faults inside the checker (nil dereference, index out of range): they are host panics but are not panic(v) statements",
			"errors flowing through struct fields, channels or reflection (reported as undecided when met)",
		},
		trusted: []string{
			"an embedder callback (fs.FS methods, FormatFS.Format, native.Importer, tree transformers) cannot construct a value of a type of internal/compiler",
			"flow-insensitive treatment of local error variables (every assignment anywhere in the function is a possible source)",
		},
		run: runC03,
	})
}

// ---------------------------------------------------------------------------
// exception tables (one symbol, one reason)

// c03NonRejection lists the errors made by package compiler itself that reach the result of Build*
// without being a compiler.Error. Each is a statement about the file system layout or about the arguments
// of the embedder, not a judgement on a program. Key: function#source.
var c03NonRejection = map[string]string{
	"compiler.parsePackage#pkgvar:compiler.ErrTooManyGoFiles": "file-system layout: more than one .go file in the directory (documented limitation of Build)",
	"compiler.parsePackage#pkgvar:compiler.ErrNoGoFiles":      "file-system layout: the directory holds no .go file",
	"compiler.ParseProgram#ext:errors.New":                    "file-system layout: 'cannot find main package' (no root directory listing)",
	"compiler.ParseTemplate#pkgvar:os.ErrInvalid":             "invalid name argument of BuildTemplate ('.' or trailing slash)",
	"compiler.rooted#pkgvar:os.ErrNotExist":                   "path leaves the root of the file system: documented as errors.Is(err, fs.ErrNotExist)",
	"compiler.readFileAndFormat#ext:fmt.Errorf":               "the embedder's FormatFS returned a format outside the enumeration",
	"compiler.ParseTemplateSource#ext:errors.New":             "invalid format argument (embedder contract; readFileAndFormat has already validated it for Build)",
}

// c03AssertionPanics lists the functions whose panic(error-valued non-checking-error) statements are
// assertions or embedder-contract panics, not rejections of a program. Key: function.
var c03AssertionPanics = map[string]string{
	"compiler.toTypeCheckerScope":    "invalid native declarations supplied by the embedder (documented panics 'scriggo: cannot import ...'), not a program rejection",
	"compiler.(*deps).nodeDeps":      "missing-case assertion after a type switch over all declaration nodes",
	"compiler.(*typechecker).typeof": "unexpected-node assertion after the exhaustive switch on expression nodes",
	"compiler.deferGoBuiltin":        "the function literal is the run-time implementation of the panic builtin, executed by the VM and never by the checker",
}

// c03RecoverExceptions lists recover handlers allowed to leave normally with a non-nil recovered value.
var c03RecoverExceptions = map[string]string{
	"compiler.(*typechecker).makeStructOf#recover@nested": "probe: the guarded body is a single types.StructOf call on a deliberately invalid field list whose panic is the expected outcome; no checker function runs under it",
}

// ---------------------------------------------------------------------------
// value flow of error values inside one package (AST, flow-insensitive)

type c03Src struct {
	Kind string      // type | ctor | ext | iface | dyn | pkgvar | recovered | param | field | unknown
	Desc string      // stable descriptor, e.g. "type:*compiler.SyntaxError", "ext:fmt.Errorf"
	Typ  types.Type  // for Kind == "type"
	Fn   *types.Func // for ctor
	In   string      // function in which the source occurs
	Pos  token.Pos
}

func (s *c03Src) key() string { return s.In + "#" + s.Desc }

type c03Key struct {
	fn  *types.Func
	idx int
}

type c03Sum struct {
	direct []*c03Src
	deps   []c03Key
}

type c03Flow struct {
	P     *Prog
	pk    *packages.Package
	info  *types.Info
	decls map[*types.Func]*FuncInfo
	sums  map[c03Key]*c03Sum
	ctor  map[*types.Func]bool
}

func c03NewFlow(p *Prog, rel string) *c03Flow {
	pk := p.Pkg(rel)
	if pk == nil {
		return nil
	}
	f := &c03Flow{P: p, pk: pk, info: pk.TypesInfo, decls: map[*types.Func]*FuncInfo{}, sums: map[c03Key]*c03Sum{}, ctor: map[*types.Func]bool{}}
	for _, fi := range p.Funcs(rel) {
		if fi.Obj != nil && !p.isTestFile(fi.File) {
			f.decls[fi.Obj] = fi
		}
	}
	return f
}

func c03IsIface(t types.Type) bool {
	if t == nil {
		return false
	}
	_, ok := t.Underlying().(*types.Interface)
	return ok
}

// ownReturns lists the return statements of a function body, not those of nested function literals.
func c03OwnReturns(body ast.Node) []*ast.ReturnStmt {
	var out []*ast.ReturnStmt
	ast.Inspect(body, func(n ast.Node) bool {
		if _, ok := n.(*ast.FuncLit); ok && n != body {
			return false
		}
		if r, ok := n.(*ast.ReturnStmt); ok {
			out = append(out, r)
		}
		return true
	})
	return out
}

// summary computes the direct sources and callee dependencies of result idx of fn.
func (f *c03Flow) summary(k c03Key) *c03Sum {
	if s, ok := f.sums[k]; ok {
		return s
	}
	s := &c03Sum{}
	f.sums[k] = s
	fi := f.decls[k.fn]
	if fi == nil {
		return s
	}
	sig := fi.Obj.Type().(*types.Signature)
	res := sig.Results()
	if k.idx >= res.Len() {
		return s
	}
	seen := map[types.Object]bool{}
	// a named result can be set by a deferred literal after the return operands were evaluated
	if nr := res.At(k.idx); nr.Name() != "" && nr.Name() != "_" {
		f.varSrc(fi, nr, s, seen, fi.Decl.Pos())
	}
	for _, ret := range c03OwnReturns(fi.Decl.Body) {
		switch {
		case len(ret.Results) == 0:
			f.varSrc(fi, res.At(k.idx), s, seen, ret.Pos())
		case len(ret.Results) == 1 && res.Len() > 1:
			f.exprSrc(fi, ret.Results[0], k.idx, s, seen)
		default:
			f.exprSrc(fi, ret.Results[k.idx], -1, s, seen)
		}
	}
	return s
}

func (f *c03Flow) add(s *c03Sum, fi *FuncInfo, kind, desc string, t types.Type, fn *types.Func, pos token.Pos) {
	s.direct = append(s.direct, &c03Src{Kind: kind, Desc: desc, Typ: t, Fn: fn, In: fi.Name(), Pos: pos})
}

// exprSrc records where the value of e (component tuple of a multi-valued call when tuple >= 0) comes from.
func (f *c03Flow) exprSrc(fi *FuncInfo, e ast.Expr, tuple int, s *c03Sum, seen map[types.Object]bool) {
	e = ast.Unparen(e)
	info := f.info
	if tuple < 0 {
		tv, ok := info.Types[e]
		if ok && tv.IsNil() {
			return
		}
		if ok && tv.Type != nil && !c03IsIface(tv.Type) {
			if _, isTuple := tv.Type.(*types.Tuple); !isTuple {
				f.add(s, fi, "type", "type:"+typeStr(tv.Type), tv.Type, nil, e.Pos())
				return
			}
		}
	}
	switch x := e.(type) {
	case *ast.Ident:
		switch o := info.Uses[x].(type) {
		case *types.Nil:
			return
		case *types.Var:
			if o.Pkg() != nil && o.Parent() == o.Pkg().Scope() {
				f.add(s, fi, "pkgvar", "pkgvar:"+relOf(o.Pkg())+"."+o.Name(), nil, nil, x.Pos())
				return
			}
			f.varSrc(fi, o, s, seen, x.Pos())
			return
		}
		if o, ok := info.Defs[x].(*types.Var); ok {
			f.varSrc(fi, o, s, seen, x.Pos())
			return
		}
		f.add(s, fi, "unknown", "unknown:ident "+x.Name, nil, nil, x.Pos())
	case *ast.SelectorExpr:
		if o, ok := info.Uses[x.Sel].(*types.Var); ok {
			if o.IsField() {
				f.add(s, fi, "field", "field:"+exprStr(x), nil, nil, x.Pos())
				return
			}
			if o.Pkg() != nil && o.Parent() == o.Pkg().Scope() {
				f.add(s, fi, "pkgvar", "pkgvar:"+relOf(o.Pkg())+"."+o.Name(), nil, nil, x.Pos())
				return
			}
		}
		f.add(s, fi, "unknown", "unknown:"+exprStr(x), nil, nil, x.Pos())
	case *ast.TypeAssertExpr:
		if x.Type == nil {
			f.exprSrc(fi, x.X, -1, s, seen)
			return
		}
		t := info.TypeOf(x.Type)
		if t != nil && !c03IsIface(t) {
			f.add(s, fi, "type", "type:"+typeStr(t), t, nil, x.Pos())
			return
		}
		f.exprSrc(fi, x.X, -1, s, seen)
	case *ast.CallExpr:
		if tv, ok := info.Types[x.Fun]; ok && tv.IsType() && len(x.Args) == 1 {
			f.exprSrc(fi, x.Args[0], -1, s, seen)
			return
		}
		if isBuiltinCall(info, x, "recover") {
			f.add(s, fi, "recovered", "recovered", nil, nil, x.Pos())
			return
		}
		idx := tuple
		if idx < 0 {
			idx = 0
		}
		fn := callee(info, x)
		if fn == nil {
			f.add(s, fi, "dyn", "dyn:"+exprStr(x.Fun), nil, nil, x.Pos())
			return
		}
		sig := fn.Type().(*types.Signature)
		if idx < sig.Results().Len() {
			if rt := sig.Results().At(idx).Type(); !c03IsIface(rt) {
				f.add(s, fi, "type", "type:"+typeStr(rt), rt, nil, x.Pos())
				return
			}
		}
		if sig.Recv() != nil && c03IsIface(sig.Recv().Type()) {
			f.add(s, fi, "iface", "iface:"+c03MethodName(fn), nil, fn, x.Pos())
			return
		}
		fn = fn.Origin()
		if _, ok := f.decls[fn]; ok {
			if f.ctor[fn] {
				f.add(s, fi, "ctor", "ctor:"+funcKey(fn), nil, fn, x.Pos())
				return
			}
			s.deps = append(s.deps, c03Key{fn, idx})
			return
		}
		f.add(s, fi, "ext", "ext:"+c03ExtName(fn), nil, fn, x.Pos())
	default:
		f.add(s, fi, "unknown", fmt.Sprintf("unknown:%T", e), nil, nil, e.Pos())
	}
}

func c03ExtName(fn *types.Func) string {
	sig := fn.Type().(*types.Signature)
	p := ""
	if fn.Pkg() != nil {
		p = fn.Pkg().Path()
		if strings.HasPrefix(p, modulePath) {
			p = relOf(fn.Pkg())
		}
	}
	if sig.Recv() != nil {
		return p + "." + strings.TrimPrefix(funcKey(fn), relOf(fn.Pkg())+".")
	}
	return p + "." + fn.Name()
}

func c03MethodName(fn *types.Func) string {
	sig := fn.Type().(*types.Signature)
	t := sig.Recv().Type()
	if n, ok := t.(*types.Named); ok {
		p := ""
		if n.Obj().Pkg() != nil {
			p = n.Obj().Pkg().Path()
			if strings.HasPrefix(p, modulePath) {
				p = relOf(n.Obj().Pkg())
			}
			p += "."
		}
		return p + n.Obj().Name() + "." + fn.Name()
	}
	return "interface." + fn.Name()
}

// declOf returns the outermost function declaration enclosing pos.
func (f *c03Flow) declOf(pos token.Pos) *FuncInfo { return f.P.enclosingFunc(f.pk, pos) }

// varSrc records every value assigned to the local variable o anywhere in its function (closures included).
func (f *c03Flow) varSrc(fi *FuncInfo, o *types.Var, s *c03Sum, seen map[types.Object]bool, at token.Pos) {
	if seen[o] {
		return
	}
	seen[o] = true
	info := f.info
	owner := f.declOf(o.Pos())
	if owner == nil {
		f.add(s, fi, "unknown", "unknown:variable "+o.Name()+" declared outside a function", nil, nil, at)
		return
	}
	// a variable of concrete type: its static type is the source
	if !c03IsIface(o.Type()) {
		f.add(s, fi, "type", "type:"+typeStr(o.Type()), o.Type(), nil, at)
		return
	}
	// parameter (of the declaration or of a literal)?
	isParam := false
	isResult := false
	checkFields := func(ft *ast.FuncType) {
		if ft.Params != nil {
			for _, fl := range ft.Params.List {
				for _, n := range fl.Names {
					if info.Defs[n] == o {
						isParam = true
					}
				}
			}
		}
		if ft.Results != nil {
			for _, fl := range ft.Results.List {
				for _, n := range fl.Names {
					if info.Defs[n] == o {
						isResult = true
					}
				}
			}
		}
	}
	if owner.Decl.Recv != nil {
		for _, fl := range owner.Decl.Recv.List {
			for _, n := range fl.Names {
				if info.Defs[n] == o {
					isParam = true
				}
			}
		}
	}
	checkFields(owner.Decl.Type)
	ast.Inspect(owner.Decl.Body, func(n ast.Node) bool {
		if fl, ok := n.(*ast.FuncLit); ok {
			checkFields(fl.Type)
		}
		return true
	})
	_ = isResult
	if isParam {
		f.add(s, owner, "param", "param:"+o.Name(), nil, nil, o.Pos())
		return
	}
	isO := func(e ast.Expr) bool {
		id, ok := ast.Unparen(e).(*ast.Ident)
		if !ok {
			return false
		}
		return info.Defs[id] == o || info.Uses[id] == o
	}
	found := false
	ast.Inspect(owner.Decl.Body, func(n ast.Node) bool {
		switch x := n.(type) {
		case *ast.AssignStmt:
			for i, l := range x.Lhs {
				if !isO(l) {
					continue
				}
				found = true
				if x.Tok != token.ASSIGN && x.Tok != token.DEFINE {
					f.add(s, owner, "unknown", "unknown:compound assignment to "+o.Name(), nil, nil, x.Pos())
					continue
				}
				if len(x.Rhs) == len(x.Lhs) {
					f.exprSrc(owner, x.Rhs[i], -1, s, seen)
					continue
				}
				rhs := ast.Unparen(x.Rhs[0])
				switch r := rhs.(type) {
				case *ast.CallExpr:
					f.exprSrc(owner, r, i, s, seen)
				case *ast.TypeAssertExpr:
					if i == 0 {
						f.exprSrc(owner, r, -1, s, seen)
					}
				default:
					f.add(s, owner, "unknown", fmt.Sprintf("unknown:multi-value %T", rhs), nil, nil, x.Pos())
				}
			}
		case *ast.ValueSpec:
			for i, nm := range x.Names {
				if info.Defs[nm] != o {
					continue
				}
				found = true
				if len(x.Values) == 0 {
					continue // zero value: nil
				}
				if len(x.Values) == len(x.Names) {
					f.exprSrc(owner, x.Values[i], -1, s, seen)
				} else if c, ok := ast.Unparen(x.Values[0]).(*ast.CallExpr); ok {
					f.exprSrc(owner, c, i, s, seen)
				} else {
					f.add(s, owner, "unknown", "unknown:multi-value var spec", nil, nil, x.Pos())
				}
			}
		case *ast.RangeStmt:
			if (x.Key != nil && isO(x.Key)) || (x.Value != nil && isO(x.Value)) {
				found = true
				f.add(s, owner, "unknown", "unknown:range variable "+o.Name(), nil, nil, x.Pos())
			}
		case *ast.UnaryExpr:
			if x.Op == token.AND && isO(x.X) {
				// `&o` handed to a function of the package that only stores through it
				// (`defer p.stopAndRecover(&tree, &err)`): what it stores is a source of o
				if f.throughPointerParam(owner, x, s, seen) {
					found = true
					break
				}
				f.add(s, owner, "unknown", "unknown:address of "+o.Name()+" taken", nil, nil, x.Pos())
			}
		case *ast.TypeSwitchStmt:
			// switch v := x.(type): the clause variables are implicit objects
			if as, ok := x.Assign.(*ast.AssignStmt); ok && len(as.Rhs) == 1 {
				for _, st := range x.Body.List {
					if info.Implicits[st] == o {
						found = true
						if ta, ok := ast.Unparen(as.Rhs[0]).(*ast.TypeAssertExpr); ok {
							f.exprSrc(owner, ta.X, -1, s, seen)
						}
					}
				}
			}
		}
		return true
	})
	if !found && !isResult {
		f.add(s, owner, "unknown", "unknown:no definition found for "+o.Name(), nil, nil, at)
	}
}

// closure returns every direct source reachable from k through callee dependencies.
func (f *c03Flow) closure(ks ...c03Key) []*c03Src {
	seen := map[c03Key]bool{}
	var out []*c03Src
	dedup := map[string]bool{}
	var walk func(k c03Key)
	walk = func(k c03Key) {
		if seen[k] {
			return
		}
		seen[k] = true
		s := f.summary(k)
		for _, d := range s.direct {
			kk := d.key()
			if d.Kind == "type" || d.Kind == "ctor" {
				// one entry per function and type is enough
				if dedup[kk] {
					continue
				}
				dedup[kk] = true
			}
			out = append(out, d)
		}
		for _, d := range s.deps {
			walk(d)
		}
	}
	for _, k := range ks {
		walk(k)
	}
	sort.SliceStable(out, func(i, j int) bool { return out[i].key() < out[j].key() })
	return out
}

// exprClosure is closure for one expression inside fi.
func (f *c03Flow) exprClosure(fi *FuncInfo, e ast.Expr) []*c03Src {
	s := &c03Sum{}
	f.exprSrc(fi, e, -1, s, map[types.Object]bool{})
	out := append([]*c03Src{}, s.direct...)
	var ks []c03Key
	ks = append(ks, s.deps...)
	out = append(out, f.closure(ks...)...)
	return out
}

// errorResultIndex returns the index of the last result if it has type error, else -1.
func c03ErrIdx(fn *types.Func) int {
	sig := fn.Type().(*types.Signature)
	n := sig.Results().Len()
	if n == 0 {
		return -1
	}
	if t := sig.Results().At(n - 1).Type(); types.Identical(t, types.Universe.Lookup("error").Type()) {
		return n - 1
	}
	return -1
}

// ---------------------------------------------------------------------------
// forward must-pass-through from a definition to the returns of a variable

// c03ForwardReturns walks the graph forward from the node after `def`, stopping at nodes for which stop
// is true and never crossing an edge for which bypass is true, and returns the return statements reached
// for which isRet is true.
func c03ForwardReturns(c *CFGInfo, def ast.Node, stop func(n ast.Node) bool, bypass func(b *cfg.Block, i int) bool, isRet func(r *ast.ReturnStmt) bool) ([]*ast.ReturnStmt, bool) {
	blk, idx := c.Locate(def)
	if blk == nil {
		return nil, false
	}
	var out []*ast.ReturnStmt
	seen := map[*cfg.Block]bool{}
	var walk func(b *cfg.Block, start int)
	walk = func(b *cfg.Block, start int) {
		for i := start; i < len(b.Nodes); i++ {
			n := b.Nodes[i]
			if stop(n) {
				return
			}
			if r, ok := n.(*ast.ReturnStmt); ok {
				if isRet(r) {
					out = append(out, r)
				}
				return
			}
		}
		for i, s := range b.Succs {
			if bypass != nil && bypass(b, i) {
				continue
			}
			if !seen[s] {
				seen[s] = true
				walk(s, 0)
			}
		}
	}
	walk(blk, idx+1)
	return out, true
}

// c03Conj splits a conjunction into its atoms.
func c03Conj(e ast.Expr) []ast.Expr {
	e = ast.Unparen(e)
	if b, ok := e.(*ast.BinaryExpr); ok && b.Op == token.LAND {
		return append(c03Conj(b.X), c03Conj(b.Y)...)
	}
	return []ast.Expr{e}
}

// c03EdgeImpliesOneFalse reports whether on edge b->succ[i] at least one atom accepted by atomOK is known
// false, and no other atom could be the false one: the edge condition is "E is false" with E a conjunction of
// accepted atoms only, or a single accepted atom negated.
func c03EdgeAllAtoms(c *CFGInfo, b *cfg.Block, i int, atomOK func(e ast.Expr) bool) bool {
	for _, l := range c.edgeLits(b, i) {
		if l.Tag != nil || l.Truth {
			continue
		}
		all := true
		for _, a := range c03Conj(l.Expr) {
			if !atomOK(a) {
				all = false
			}
		}
		if all {
			return true
		}
	}
	return false
}

func c03ObjOf(info *types.Info, e ast.Expr) types.Object {
	id, ok := ast.Unparen(e).(*ast.Ident)
	if !ok {
		return nil
	}
	if o := info.Uses[id]; o != nil {
		return o
	}
	return info.Defs[id]
}

// c03Assert describes `v, ok := x.(T)` (in an assignment or an if-init).
type c03Assert struct {
	Val, Ok types.Object
	X       ast.Expr
	T       types.Type
	Stmt    *ast.AssignStmt
}

func c03Asserts(info *types.Info, body ast.Node) []*c03Assert {
	var out []*c03Assert
	ast.Inspect(body, func(n ast.Node) bool {
		as, ok := n.(*ast.AssignStmt)
		if !ok || len(as.Rhs) != 1 || len(as.Lhs) != 2 {
			return true
		}
		ta, ok := ast.Unparen(as.Rhs[0]).(*ast.TypeAssertExpr)
		if !ok || ta.Type == nil {
			return true
		}
		a := &c03Assert{X: ta.X, T: info.TypeOf(ta.Type), Stmt: as}
		a.Val = c03ObjOf(info, as.Lhs[0])
		a.Ok = c03ObjOf(info, as.Lhs[1])
		out = append(out, a)
		return true
	})
	return out
}

// ---------------------------------------------------------------------------

type c03 struct {
	r      *Run
	flow   *c03Flow
	errT   *types.Named // compiler.Error
	errI   *types.Interface
	impls  []types.Type
	chkErr *types.Named // compiler.CheckingError
}

func runC03(r *Run) {
	x := &c03{r: r}
	x.flow = c03NewFlow(r.P, c03Compiler)
	if !r.Anchor("R-1", "package internal/compiler", x.flow != nil) {
		return
	}
	x.errT = r.P.Named(c03Compiler, "Error")
	if !r.Anchor("R-1", "compiler.Error", x.errT != nil) {
		return
	}
	x.errI, _ = x.errT.Underlying().(*types.Interface)
	if !r.Anchor("R-1", "compiler.Error is an interface", x.errI != nil) {
		return
	}
	x.impls = implementers(x.flow.pk, x.errI)
	// the checking error by role: the implementer of compiler.Error that the recover handlers reachable from
	// the type checker entry convert; by name second.
	x.chkErr = r.P.Named(c03Compiler, "CheckingError")
	if !r.Anchor("R-2", "compiler.CheckingError", x.chkErr != nil) {
		return
	}
	x.findCtors()
	x.ruleTypes()
	x.ruleWrap()
	x.rulePanics()
	x.ruleRecovers()
	r.Require("R-1", 30)
	r.Require("R-2", 300)
}

func (x *c03) implements(t types.Type) bool {
	for _, i := range x.impls {
		if types.Identical(i, t) {
			return true
		}
	}
	return false
}

func (x *c03) isChk(t types.Type) bool {
	p, ok := t.(*types.Pointer)
	return ok && types.Identical(p.Elem(), x.chkErr)
}

// findCtors resolves the checking-error constructors by role: functions of package compiler with the single
// result `error` that build a *CheckingError themselves (root), and functions with the single result `error`
// all of whose returns are calls to a constructor (wrappers).
func (x *c03) findCtors() {
	f := x.flow
	var roots, wrappers []*FuncInfo
	single := func(fi *FuncInfo) bool {
		sig := fi.Obj.Type().(*types.Signature)
		return sig.Results().Len() == 1 && c03ErrIdx(fi.Obj) == 0
	}
	var fis []*FuncInfo
	for _, fi := range f.decls {
		fis = append(fis, fi)
	}
	sort.Slice(fis, func(i, j int) bool { return fis[i].Name() < fis[j].Name() })
	for _, fi := range fis {
		if !single(fi) {
			continue
		}
		builds := false
		ast.Inspect(fi.Decl.Body, func(n ast.Node) bool {
			if cl, ok := n.(*ast.CompositeLit); ok {
				if t := f.info.TypeOf(cl); t != nil && types.Identical(t, x.chkErr) {
					builds = true
				}
			}
			return true
		})
		if builds {
			roots = append(roots, fi)
			f.ctor[fi.Obj] = true
		}
	}
	for changed := true; changed; {
		changed = false
		for _, fi := range fis {
			if !single(fi) || f.ctor[fi.Obj] {
				continue
			}
			rets := c03OwnReturns(fi.Decl.Body)
			if len(rets) == 0 {
				continue
			}
			all := true
			for _, ret := range rets {
				if len(ret.Results) != 1 {
					all = false
					break
				}
				c, ok := ast.Unparen(ret.Results[0]).(*ast.CallExpr)
				if !ok {
					all = false
					break
				}
				fn := callee(f.info, c)
				if fn == nil || !f.ctor[fn.Origin()] {
					all = false
					break
				}
			}
			if all {
				f.ctor[fi.Obj] = true
				wrappers = append(wrappers, fi)
				changed = true
			}
		}
	}
	x.r.Anchor("R-2", "checking-error constructor (function returning error that builds a CheckingError literal)", len(roots) >= 1)
	for _, fi := range roots {
		// obligation: every return of the root constructor yields a *CheckingError
		rets := c03OwnReturns(fi.Decl.Body)
		for _, ret := range rets {
			o := x.r.Ob("R-2", fi.Name()+"#return", ret.Pos())
			if len(ret.Results) != 1 {
				o.Unknown("return without operand in a checking-error constructor")
				continue
			}
			// temporarily do not treat fi itself as atomic
			srcs := f.exprClosure(fi, ret.Results[0])
			var bad []string
			for _, s := range srcs {
				if s.Kind == "type" && x.isChk(s.Typ) {
					continue
				}
				bad = append(bad, s.Desc)
			}
			if len(bad) == 0 && len(srcs) > 0 {
				o.OK("returns a value of static type *CheckingError")
			} else if len(srcs) == 0 {
				o.Bad("returns nil: a caller would panic(nil) instead of raising a rejection")
			} else {
				o.Bad("the checking-error constructor returns %s, which is not a *CheckingError: callers panic with it, no recover handler converts it, and the rejection leaves Build as a host panic (or, when returned, as an error that is not a *BuildError)", strings.Join(bad, ", "))
			}
		}
	}
	for _, fi := range wrappers {
		x.r.Ob("R-2", fi.Name()+"#return", fi.Decl.Pos()).OK("every return is a call to a checking-error constructor")
	}
	x.r.Stats["checking_error_constructors"] = len(roots) + len(wrappers)
}

// ruleTypes: R-1, the types and other sources flowing into the result of compiler.BuildProgram/BuildTemplate.
func (x *c03) ruleTypes() {
	const R = "R-1"
	r := x.r
	f := x.flow
	// roots by role: the functions of package compiler called by the API boundary of the root package
	roots := x.boundaryCallees()
	if !r.Anchor(R, "functions of package compiler called from exported functions of the root package returning (T, error)", len(roots) >= 2) {
		return
	}
	flows := map[string]bool{}
	for _, root := range roots {
		idx := c03ErrIdx(root.Obj)
		if idx < 0 {
			continue
		}
		srcs := f.closure(c03Key{root.Obj, idx})
		// group by descriptor+function
		type grp struct {
			s *c03Src
			n int
		}
		groups := map[string]*grp{}
		var order []string
		for _, s := range srcs {
			k := s.key()
			if s.Kind == "type" {
				k = s.Desc // one obligation per type, not per site
			}
			if g, ok := groups[k]; ok {
				g.n++
				continue
			}
			groups[k] = &grp{s: s, n: 1}
			order = append(order, k)
		}
		sort.Strings(order)
		for _, k := range order {
			g := groups[k]
			s := g.s
			cons := root.Name() + "#returns:" + k
			o := r.Ob(R, cons, s.Pos)
			switch s.Kind {
			case "type":
				flows[typeStr(s.Typ)] = true
				declaredHere := false
				if p, ok := s.Typ.(*types.Pointer); ok {
					if n, ok := p.Elem().(*types.Named); ok && n.Obj().Pkg() == f.pk.Types {
						declaredHere = true
					}
				} else if n, ok := s.Typ.(*types.Named); ok && n.Obj().Pkg() == f.pk.Types {
					declaredHere = true
				}
				if x.implements(s.Typ) {
					o.OK("%s implements compiler.Error (first seen in %s, %d sites): wrapped into *BuildError by the API boundary", typeStr(s.Typ), s.In, g.n)
				} else if declaredHere {
					o.Bad("%s is declared in package compiler, can be returned by %s (from %s) and does not implement compiler.Error: the root package would return it unwrapped", typeStr(s.Typ), root.Name(), s.In)
				} else {
					o.Unknown("value of concrete type %s flows into the result of %s from %s; it is not a compiler.Error and not a listed source", typeStr(s.Typ), root.Name(), s.In)
				}
			case "ctor":
				o.OK("built by the checking-error constructor %s (its own obligation: R-2 %s#return)", funcKey(s.Fn), funcKey(s.Fn))
			case "iface":
				// a method of an interface: implemented by the embedder unless package compiler implements it
				if x.compilerImplements(s.Fn) {
					o.Unknown("call of interface method %s which package compiler implements itself: callee set not resolved", s.Desc)
				} else {
					o.OK("error of an embedder-supplied implementation (%s), not made by the compiler", s.Desc)
				}
			case "dyn":
				if x.isCallbackField(s) {
					o.OK("error returned by an embedder callback (%s)", s.Desc)
				} else {
					o.Unknown("dynamic call %s: callee not resolved", s.Desc)
				}
			case "ext":
				if p := s.Fn.Pkg(); p != nil && (p.Path() == "io/fs" || p.Path() == "io" || p.Path() == "os") {
					o.OK("file-system/reader error from %s, not made by the compiler", s.Desc)
				} else if why, ok := c03NonRejection[s.key()]; ok {
					o.OK("listed non-rejection error: %s", why)
				} else {
					o.Bad("%s makes an error with %s that can reach the result of %s: it is not a compiler.Error, so a rejection decided here is returned to the caller of Build without being a *BuildError", s.In, strings.TrimPrefix(s.Desc, "ext:"), root.Name())
				}
			case "pkgvar":
				if why, ok := c03NonRejection[s.key()]; ok {
					o.OK("listed non-rejection error: %s", why)
				} else {
					o.Bad("%s returns the package variable %s which can reach the result of %s and is not a compiler.Error", s.In, strings.TrimPrefix(s.Desc, "pkgvar:"), root.Name())
				}
			default:
				o.Unknown("source not understood: %s in %s", s.Desc, s.In)
			}
		}
	}
	// converse: every implementer is seen to flow (otherwise the analysis lost track of a rejection type)
	for _, t := range x.impls {
		o := r.Ob(R, "compiler.Error#implementer:"+typeStr(t), c03NamedPos(t))
		if flows[typeStr(t)] {
			o.OK("%s is seen flowing into the result of a build entry point", typeStr(t))
		} else {
			o.Unknown("%s implements compiler.Error but no flow into a build entry point was found: the flow analysis does not see how it is returned", typeStr(t))
		}
	}
	r.Stats["compiler_Error_implementers"] = len(x.impls)
}

func (x *c03) compilerImplements(m *types.Func) bool {
	sig := m.Type().(*types.Signature)
	it, ok := sig.Recv().Type().Underlying().(*types.Interface)
	if !ok {
		return true
	}
	return len(implementers(x.flow.pk, it)) > 0
}

// isCallbackField: the dynamic callee is a field of function type (an option supplied by the embedder).
func (x *c03) isCallbackField(s *c03Src) bool {
	fi := x.flow.declOf(s.Pos)
	if fi == nil {
		return false
	}
	res := false
	ast.Inspect(fi.Decl.Body, func(n ast.Node) bool {
		c, ok := n.(*ast.CallExpr)
		if !ok || c.Pos() != s.Pos {
			return true
		}
		if sel, ok := ast.Unparen(c.Fun).(*ast.SelectorExpr); ok {
			if v, ok := x.flow.info.Uses[sel.Sel].(*types.Var); ok && v.IsField() {
				res = true
			}
		}
		return false
	})
	return res
}

// boundary returns the exported functions of the root package with results (T, error).
func (x *c03) boundary() []*FuncInfo {
	var out []*FuncInfo
	for _, fi := range x.r.P.Funcs("") {
		if fi.Obj == nil || x.r.P.isTestFile(fi.File) || !fi.Obj.Exported() || fi.Decl.Recv != nil {
			continue
		}
		if c03ErrIdx(fi.Obj) < 0 {
			continue
		}
		out = append(out, fi)
	}
	return out
}

// boundaryCallees: functions of package compiler with an error result called by the API boundary.
func (x *c03) boundaryCallees() []*FuncInfo {
	seen := map[*types.Func]bool{}
	var out []*FuncInfo
	root := x.r.P.Pkg("")
	if root == nil {
		return nil
	}
	for _, fi := range x.boundary() {
		for _, c := range calls(fi.Decl.Body, true) {
			fn := callee(root.TypesInfo, c)
			if fn == nil || fn.Pkg() != x.flow.pk.Types || c03ErrIdx(fn) < 0 || seen[fn] {
				continue
			}
			if d := x.flow.decls[fn]; d != nil {
				seen[fn] = true
				out = append(out, d)
			}
		}
	}
	sort.Slice(out, func(i, j int) bool { return out[i].Name() < out[j].Name() })
	return out
}

// ruleWrap: R-1, the wrap into *BuildError dominates every error return of the API boundary.
func (x *c03) ruleWrap() {
	const R = "R-1"
	r := x.r
	root := r.P.Pkg("")
	info := root.TypesInfo
	buildErr := r.P.Named("", "BuildError")
	if !r.Anchor(R, "scriggo.BuildError", buildErr != nil) {
		return
	}
	n := 0
	for _, fi := range x.boundary() {
		var defs []*ast.AssignStmt
		bad := false
		ast.Inspect(fi.Decl.Body, func(nd ast.Node) bool {
			as, ok := nd.(*ast.AssignStmt)
			if !ok || len(as.Rhs) != 1 {
				return true
			}
			c, ok := ast.Unparen(as.Rhs[0]).(*ast.CallExpr)
			if !ok {
				return true
			}
			fn := callee(info, c)
			if fn == nil || fn.Pkg() != x.flow.pk.Types || c03ErrIdx(fn) < 0 {
				return true
			}
			defs = append(defs, as)
			return true
		})
		// a call into package compiler whose error result is not bound by an assignment statement
		for _, c := range calls(fi.Decl.Body, true) {
			fn := callee(info, c)
			if fn == nil || fn.Pkg() != x.flow.pk.Types || c03ErrIdx(fn) < 0 {
				continue
			}
			bound := false
			for _, d := range defs {
				if ast.Unparen(d.Rhs[0]) == c {
					bound = true
				}
			}
			if !bound {
				r.Ob(R, fi.Name()+"#wrap:"+funcKey(fn), c.Pos()).Unknown("the error result of %s is not bound by an assignment statement: shape not understood", funcKey(fn))
				bad = true
			}
		}
		if bad || len(defs) == 0 {
			continue
		}
		c := r.P.CFGOf(fi)
		asserts := c03Asserts(info, fi.Decl.Body)
		for _, d := range defs {
			n++
			fn := callee(info, ast.Unparen(d.Rhs[0]).(*ast.CallExpr))
			o := r.Ob(R, fi.Name()+"#wrap:"+funcKey(fn), d.Pos())
			ev := c03ObjOf(info, d.Lhs[len(d.Lhs)-1])
			if ev == nil {
				o.Bad("the error result of %s is discarded", funcKey(fn))
				continue
			}
			if par := r.P.Parents(fi.File); func() bool {
				for p := par[ast.Node(d)]; p != nil; p = par[p] {
					if _, ok := p.(*ast.FuncLit); ok {
						return true
					}
				}
				return false
			}() {
				o.Unknown("the call is inside a function literal: shape not understood")
				continue
			}
			// assertions of ev to compiler.Error
			var okObjs, valObjs []types.Object
			var partial []string
			for _, a := range asserts {
				if c03ObjOf(info, a.X) != ev {
					continue
				}
				if types.Identical(a.T, x.errT) {
					okObjs = append(okObjs, a.Ok)
					valObjs = append(valObjs, a.Val)
				} else {
					partial = append(partial, typeStr(a.T))
				}
			}
			isOk := func(e ast.Expr) bool {
				ob := c03ObjOf(info, e)
				if ob == nil {
					return false
				}
				for _, k := range okObjs {
					if k == ob {
						return true
					}
				}
				return false
			}
			var wraps []ast.Node
			stop := func(nd ast.Node) bool {
				as, ok := nd.(*ast.AssignStmt)
				if !ok {
					return false
				}
				for i, l := range as.Lhs {
					if c03ObjOf(info, l) != ev {
						continue
					}
					if as == d {
						return false
					}
					if len(as.Rhs) == len(as.Lhs) && x.isWrap(info, as.Rhs[i], buildErr, valObjs) {
						wraps = append(wraps, as)
					}
					return true // any redefinition ends the responsibility of this definition
				}
				return false
			}
			bypass := func(b *cfg.Block, i int) bool {
				if c03EdgeAllAtoms(c, b, i, isOk) {
					return true
				}
				// ev == nil edges: no error is returned on them
				for _, l := range c.edgeLits(b, i) {
					if be, ok := ast.Unparen(l.Expr).(*ast.BinaryExpr); ok && l.Tag == nil {
						isNilCmp := func(a, bb ast.Expr) bool {
							tv, ok := info.Types[bb]
							return c03ObjOf(info, a) == ev && ok && tv.IsNil()
						}
						if isNilCmp(be.X, be.Y) || isNilCmp(be.Y, be.X) {
							if (be.Op == token.NEQ && !l.Truth) || (be.Op == token.EQL && l.Truth) {
								return true
							}
						}
					}
				}
				return false
			}
			isRet := func(ret *ast.ReturnStmt) bool {
				if len(ret.Results) == 0 {
					return true
				}
				return c03ObjOf(info, ret.Results[len(ret.Results)-1]) == ev
			}
			rets, ok := c03ForwardReturns(c, d, stop, bypass, isRet)
			if !ok {
				o.Unknown("definition not located in the control-flow graph")
				continue
			}
			// the wraps must be guarded by ok == true
			guarded := true
			for _, w := range wraps {
				if !c.GuardedBy(w, func(l Lit) bool { return l.Truth && l.Tag == nil && isOk(l.Expr) }) {
					guarded = false
				}
			}
			// a wrap can also be returned directly: `return nil, &BuildError{err: e}`
			nWrapRets := 0
			ast.Inspect(fi.Decl.Body, func(m ast.Node) bool {
				if _, isLit := m.(*ast.FuncLit); isLit {
					return false
				}
				if ret, ok := m.(*ast.ReturnStmt); ok && len(ret.Results) > 0 && x.isWrap(info, ret.Results[len(ret.Results)-1], buildErr, valObjs) {
					nWrapRets++
					if !c.GuardedBy(ret, func(l Lit) bool { return l.Truth && l.Tag == nil && isOk(l.Expr) }) {
						guarded = false
					}
				}
				return true
			})
			switch {
			case len(rets) > 0:
				extra := ""
				if len(partial) > 0 {
					extra = fmt.Sprintf(" (the value is asserted only to %s, not to compiler.Error)", strings.Join(partial, ", "))
				}
				o.Bad("a path from the call of %s reaches `return` at %s with the error neither wrapped into *BuildError nor known not to be a compiler.Error%s", funcKey(fn), r.P.Pos(rets[0].Pos()), extra)
			case len(wraps)+nWrapRets == 0:
				o.Bad("no assignment wrapping the error of %s into *BuildError found before the returns", funcKey(fn))
			case !guarded:
				o.Bad("the wrap into *BuildError is not guarded by the success of the assertion to compiler.Error")
			default:
				o.OK("every path to an error return passes `%s = &BuildError{...}` (or returns the wrap) under ok of the assertion to compiler.Error, or the edge on which that assertion failed (%d wrap sites)", ev.Name(), len(wraps)+nWrapRets)
			}
		}
	}
	r.Stats["api_boundary_compiler_calls"] = n
}

// isWrap: e is &BuildError{...} (or BuildError literal address) whose wrapped field is one of vals.
func (x *c03) isWrap(info *types.Info, e ast.Expr, buildErr *types.Named, vals []types.Object) bool {
	e = ast.Unparen(e)
	u, ok := e.(*ast.UnaryExpr)
	if !ok || u.Op != token.AND {
		return false
	}
	cl, ok := ast.Unparen(u.X).(*ast.CompositeLit)
	if !ok || !types.Identical(info.TypeOf(cl), buildErr) {
		return false
	}
	for _, el := range cl.Elts {
		v := el
		if kv, ok := el.(*ast.KeyValueExpr); ok {
			v = kv.Value
		}
		ob := c03ObjOf(info, v)
		for _, k := range vals {
			if ob != nil && ob == k {
				return true
			}
		}
	}
	return false
}

// ---------------------------------------------------------------------------
// R-2 panics

// reach computes the functions of package compiler statically reachable from start (calls and references,
// function literals included).
func (x *c03) reach(start *FuncInfo) map[*types.Func]*FuncInfo {
	f := x.flow
	out := map[*types.Func]*FuncInfo{start.Obj: start}
	work := []*FuncInfo{start}
	for len(work) > 0 {
		fi := work[len(work)-1]
		work = work[:len(work)-1]
		ast.Inspect(fi.Decl.Body, func(n ast.Node) bool {
			var id *ast.Ident
			switch v := n.(type) {
			case *ast.Ident:
				id = v
			case *ast.SelectorExpr:
				id = v.Sel
			}
			if id == nil {
				return true
			}
			fn, ok := f.info.Uses[id].(*types.Func)
			if !ok {
				return true
			}
			fn = fn.Origin()
			sig := fn.Type().(*types.Signature)
			if sig.Recv() != nil && c03IsIface(sig.Recv().Type()) {
				// interface method declared anywhere: add every method of package compiler with that name whose
				// receiver implements the interface
				it := sig.Recv().Type().Underlying().(*types.Interface)
				for cand, cfi := range f.decls {
					if cand.Name() != fn.Name() || out[cand] != nil {
						continue
					}
					cs := cand.Type().(*types.Signature)
					if cs.Recv() == nil {
						continue
					}
					if types.Implements(cs.Recv().Type(), it) || types.Implements(types.NewPointer(cs.Recv().Type()), it) {
						out[cand] = cfi
						work = append(work, cfi)
					}
				}
				return true
			}
			if d := f.decls[fn]; d != nil && out[fn] == nil {
				out[fn] = d
				work = append(work, d)
			}
			return true
		})
	}
	return out
}

func (x *c03) rulePanics() {
	const R = "R-2"
	r := x.r
	f := x.flow
	// entry by role: the function of package compiler called by both build entry points that returns the
	// per-package information map and an error; by name second.
	entry := r.NeedFunc(R, c03Compiler, "typecheck")
	if entry == nil {
		return
	}
	scope := x.reach(entry)
	r.Stats["functions_reachable_from_typecheck"] = len(scope)
	var fis []*FuncInfo
	for _, fi := range scope {
		fis = append(fis, fi)
	}
	sort.Slice(fis, func(i, j int) bool { return fis[i].Name() < fis[j].Name() })
	counts := map[string]int{}
	for _, fi := range fis {
		par := r.P.Parents(fi.File)
		for _, c := range calls(fi.Decl.Body, true) {
			if !isBuiltinCall(f.info, c, "panic") || len(c.Args) != 1 {
				continue
			}
			arg := ast.Unparen(c.Args[0])
			cons := fi.Name() + "#panic"
			tv := f.info.Types[arg]
			t := tv.Type
			switch {
			case t == nil:
				r.Ob(R, cons, c.Pos()).Unknown("panic argument has no type")
			case x.isChk(t):
				counts["checking"]++
				r.Ob(R, cons+":*CheckingError", c.Pos()).OK("panic value has static type *CheckingError")
			case func() bool { b, ok := t.Underlying().(*types.Basic); return ok && b.Info()&types.IsString != 0 }():
				counts["assertion"]++
				r.Ob(R, cons+":string", c.Pos()).Trivial("assertion: the panic value is a string (%s), never converted to a rejection", exprStr(arg))
			case c03IsIface(t):
				x.panicIface(fi, par, c, arg, cons, counts)
			default:
				if why, ok := c03AssertionPanics[fi.Name()]; ok {
					r.Ob(R, cons+":"+typeStr(t), c.Pos()).Trivial("listed assertion: %s", why)
				} else {
					r.Ob(R, cons+":"+typeStr(t), c.Pos()).Bad("panic with a value of type %s in the type checker: not a *CheckingError, not an assertion string; no recover handler converts it", typeStr(t))
				}
			}
		}
	}
	for k, v := range counts {
		r.Stats["panics_"+k] = v
	}
}

func (x *c03) panicIface(fi *FuncInfo, par map[ast.Node]ast.Node, c *ast.CallExpr, arg ast.Expr, cons string, counts map[string]int) {
	const R = "R-2"
	r := x.r
	f := x.flow
	// direct constructor call
	if call, ok := arg.(*ast.CallExpr); ok {
		if fn := callee(f.info, call); fn != nil && f.ctor[fn.Origin()] {
			counts["checking"]++
			r.Ob(R, cons+":"+funcKey(fn.Origin()), c.Pos()).OK("panic value is built by the checking-error constructor %s", funcKey(fn.Origin()))
			return
		}
	}
	srcs := f.exprClosure(fi, arg)
	var bad, unk []string
	recovered := false
	good := 0
	for _, s := range srcs {
		switch {
		case s.Kind == "ctor":
			good++
		case s.Kind == "type" && x.isChk(s.Typ):
			good++
		case s.Kind == "recovered":
			recovered = true
		case s.Kind == "param" || s.Kind == "unknown" || s.Kind == "field" || s.Kind == "dyn":
			unk = append(unk, s.Desc+" in "+s.In)
		default:
			bad = append(bad, s.Desc+" in "+s.In)
		}
	}
	switch {
	case recovered && len(bad) == 0 && len(unk) == 0 && good == 0:
		counts["repanic"]++
		r.Ob(R, cons+":recovered", c.Pos()).OK("re-panic of the value obtained from recover()")
	case len(bad) == 0 && len(unk) == 0 && good > 0 && !recovered:
		counts["checking"]++
		r.Ob(R, cons+":error", c.Pos()).OK("every value reaching the panic argument %s is a *CheckingError (%d sources: constructor calls or values of static type *CheckingError)", exprStr(arg), good)
	default:
		if why, ok := c03AssertionPanics[fi.Name()]; ok {
			counts["assertion"]++
			r.Ob(R, cons+":error", c.Pos()).Trivial("listed assertion: %s", why)
			return
		}
		if len(bad) > 0 {
			r.Ob(R, cons+":error", c.Pos()).Bad("the panic value %s can be %s: neither a *CheckingError nor an assertion string; the recover handlers re-panic it and it leaves Build as a host panic", exprStr(arg), strings.Join(bad, "; "))
		} else {
			r.Ob(R, cons+":error", c.Pos()).Unknown("origin of the panic value %s not resolved: %s", exprStr(arg), strings.Join(unk, "; "))
		}
	}
}

// ---------------------------------------------------------------------------
// R-2 recover handlers

func (x *c03) ruleRecovers() {
	const R = "R-2"
	r := x.r
	f := x.flow
	n := 0
	var fis []*FuncInfo
	for _, fi := range f.decls {
		fis = append(fis, fi)
	}
	sort.Slice(fis, func(i, j int) bool { return fis[i].Name() < fis[j].Name() })
	for _, fi := range fis {
		par := r.P.Parents(fi.File)
		for _, c := range calls(fi.Decl.Body, true) {
			if !isBuiltinCall(f.info, c, "recover") {
				continue
			}
			n++
			// enclosing literal = the handler
			var lit *ast.FuncLit
			depth := 0
			for p := par[ast.Node(c)]; p != nil; p = par[p] {
				if l, ok := p.(*ast.FuncLit); ok {
					if lit == nil {
						lit = l
					}
					depth++
				}
			}
			cons := fi.Name() + "#recover"
			// a handler nested inside another handler's literal (depth >= 3: handler, guarded literal, outer handler)
			if depth >= 3 {
				cons += "@nested"
			}
			o := r.Ob(R, cons, c.Pos())
			if why, ok := c03RecoverExceptions[cons]; ok && lit != nil {
				o.Trivial("listed exception: %s", why)
				continue
			}
			if lit == nil {
				// a handler written as a named function: every call of it must be a deferred call
				ncalls, deferred := 0, true
				for _, g := range fis {
					gpar := r.P.Parents(g.File)
					for _, gc := range calls(g.Decl.Body, true) {
						if callee(f.info, gc) == fi.Obj {
							ncalls++
							if _, isDefer := gpar[ast.Node(gc)].(*ast.DeferStmt); !isDefer {
								deferred = false
							}
						}
					}
				}
				if ncalls == 0 || !deferred {
					o.Unknown("recover() in the body of %s, which is not (only) called in defer statements: shape not understood", fi.Name())
					continue
				}
				x.checkHandler(o, fi, fi.Decl.Body, c)
				continue
			}
			x.checkHandler(o, fi, lit.Body, c)
		}
	}
	r.Stats["recover_handlers"] = n
}

// checkHandler decides that the handler `lit` leaves normally only (a) with a nil recovered value or (b)
// after storing the value, asserted to an implementer of compiler.Error, into an error variable of the
// enclosing function.
func (x *c03) checkHandler(o *Obl, fi *FuncInfo, body *ast.BlockStmt, rc *ast.CallExpr) {
	f := x.flow
	info := f.info
	c := x.r.P.CFG(info, fi.File, body)
	par := x.r.P.Parents(fi.File)
	// the variable bound to recover(), if any
	var rv types.Object
	var bindStmt ast.Node
	switch p := par[ast.Node(rc)].(type) {
	case *ast.AssignStmt:
		if len(p.Lhs) == 1 && len(p.Rhs) == 1 {
			rv = c03ObjOf(info, p.Lhs[0])
			bindStmt = p
		}
	case *ast.TypeAssertExpr:
		// v, _ := recover().(T)
		if as, ok := par[ast.Node(p)].(*ast.AssignStmt); ok {
			bindStmt = as
		}
	case *ast.BinaryExpr:
		// recover() != x used directly as a condition
		bindStmt = nil
	}
	asserts := c03Asserts(info, body)
	// ok-objects and value objects of assertions of rv to implementers of compiler.Error
	var convs []*c03Assert
	for _, a := range asserts {
		if rv != nil && c03ObjOf(info, a.X) == rv && x.implements(a.T) {
			convs = append(convs, a)
		}
	}
	isNilEdge := func(b *cfg.Block, i int) bool {
		for _, l := range c.edgeLits(b, i) {
			if l.Tag != nil {
				continue
			}
			be, ok := ast.Unparen(l.Expr).(*ast.BinaryExpr)
			if !ok {
				continue
			}
			isNilCmp := func(a, bb ast.Expr) bool {
				tv, ok := info.Types[bb]
				if !ok || !tv.IsNil() {
					return false
				}
				if rv != nil && c03ObjOf(info, a) == rv {
					return true
				}
				return ast.Unparen(a) == ast.Expr(rc)
			}
			if isNilCmp(be.X, be.Y) || isNilCmp(be.Y, be.X) {
				if (be.Op == token.NEQ && !l.Truth) || (be.Op == token.EQL && l.Truth) {
					return true
				}
			}
		}
		return false
	}
	// a store of a converted value into an error variable, under ok
	isStore := func(n ast.Node) bool {
		as, ok := n.(*ast.AssignStmt)
		if !ok || as.Tok != token.ASSIGN {
			return false
		}
		for i, l := range as.Lhs {
			errT := types.Universe.Lookup("error").Type()
			lo, ok := c03ObjOf(info, l).(*types.Var)
			isErrVar := ok && types.Identical(lo.Type(), errT)
			// `*perr = e` in a handler that is a named function given the address of the error result
			if st, isStar := ast.Unparen(l).(*ast.StarExpr); isStar {
				if po, ok := c03ObjOf(info, st.X).(*types.Var); ok {
					if pt, ok := po.Type().(*types.Pointer); ok && types.Identical(pt.Elem(), errT) {
						isErrVar = true
					}
				}
			}
			if !isErrVar {
				continue
			}
			if len(as.Rhs) != len(as.Lhs) {
				continue
			}
			ro := c03ObjOf(info, as.Rhs[i])
			for _, a := range convs {
				if ro != nil && ro == a.Val {
					// guarded by ok
					okObj := a.Ok
					if c.GuardedBy(as, func(l Lit) bool { return l.Truth && l.Tag == nil && c03ObjOf(info, l.Expr) == okObj }) {
						return true
					}
				}
			}
		}
		return false
	}
	// start: the node holding recover()
	var start ast.Node = rc
	if bindStmt != nil {
		start = bindStmt
	}
	blk, idx := c.Locate(start)
	if blk == nil {
		o.Unknown("recover() not located in the control-flow graph of its handler")
		return
	}
	// walk: normal exits (return statements and the end of the literal) reached without crossing a nil edge or a store
	swallow := token.NoPos
	seen := map[*cfg.Block]bool{}
	stores := 0
	var walk func(b *cfg.Block, from int)
	walk = func(b *cfg.Block, from int) {
		for i := from; i < len(b.Nodes); i++ {
			n := b.Nodes[i]
			if isStore(n) {
				stores++
				return
			}
			if ret, ok := n.(*ast.ReturnStmt); ok {
				if swallow == token.NoPos {
					swallow = ret.Pos()
				}
				return
			}
		}
		if len(b.Succs) == 0 {
			// end of block without successor: either a panic (no return) or the end of the function body
			if len(b.Nodes) > 0 {
				if es, ok := b.Nodes[len(b.Nodes)-1].(*ast.ExprStmt); ok {
					if call, ok := es.X.(*ast.CallExpr); ok && isBuiltinCall(info, call, "panic") {
						return
					}
				}
			}
			if swallow == token.NoPos {
				swallow = body.Rbrace
			}
			return
		}
		for i, s := range b.Succs {
			if isNilEdge(b, i) {
				continue
			}
			if !seen[s] {
				seen[s] = true
				walk(s, 0)
			}
		}
	}
	// the condition holding recover() may itself be the last node of its block
	walk(blk, idx+1)
	if swallow != token.NoPos {
		o.Bad("the handler can leave normally (at %s) with a non-nil recovered value that was not stored as a compiler.Error in the error result: the panic is swallowed and the guarded function continues with its zero results", x.r.P.Pos(swallow))
		return
	}
	if stores > 0 {
		var ts []string
		for _, a := range convs {
			ts = append(ts, typeStr(a.T))
		}
		o.OK("non-nil recovered values are either stored after assertion to %s (an implementer of compiler.Error) or re-panicked on every path", strings.Join(ts, ","))
	} else {
		o.OK("every path with a non-nil recovered value ends in panic (conversion or re-panic), none leaves normally")
	}
}

func c03NamedPos(t types.Type) token.Pos {
	if p, ok := t.(*types.Pointer); ok {
		t = p.Elem()
	}
	if n, ok := t.(*types.Named); ok {
		return n.Obj().Pos()
	}
	return token.NoPos
}
