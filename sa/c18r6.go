package main

// C18 R-6 (added after seeded change C18-2): the error of the file loader is never dropped.
//
// While expanding extends/import/render the loader's error (a *CycleError, a read error, a syntax
// error of the loaded file) must leave the expansion as an error; the only error that may be ignored is
// "file does not exist" (an import that is not a template file, `render … default`). For every call of
// the loader in the expansion function, in the case "err != nil and not errors.Is(err, os.ErrNotExist)"
// every path from the call reaches a return that carries err, without passing a return that does not, an
// overwrite of err, or the next iteration. Conditions are evaluated three-valued under that assumption.

import (
	"go/ast"
	"go/token"
	"go/types"

	"golang.org/x/tools/go/cfg"
)

func init() {
	p := registry["C18"]
	if p == nil {
		return
	}
	run := p.run
	p.run = func(r *Run) { run(r); c18LoaderErrorKept(r) }
	p.explain += " R-6: in the expansion, an error of the file loader other than 'does not exist' reaches a return carrying it on every path (a cycle is reported, never skipped)."
}

// eval3 evaluates cond under: errObj != nil, !errors.Is(errObj, ErrNotExist). 1 true, 0 false, -1 unknown.
func c18eval3(info *types.Info, e ast.Expr, errObj types.Object) int {
	e = ast.Unparen(e)
	switch x := e.(type) {
	case *ast.UnaryExpr:
		if x.Op == token.NOT {
			v := c18eval3(info, x.X, errObj)
			if v < 0 {
				return -1
			}
			return 1 - v
		}
	case *ast.BinaryExpr:
		switch x.Op {
		case token.LAND:
			a, b := c18eval3(info, x.X, errObj), c18eval3(info, x.Y, errObj)
			if a == 0 || b == 0 {
				return 0
			}
			if a == 1 && b == 1 {
				return 1
			}
			return -1
		case token.LOR:
			a, b := c18eval3(info, x.X, errObj), c18eval3(info, x.Y, errObj)
			if a == 1 || b == 1 {
				return 1
			}
			if a == 0 && b == 0 {
				return 0
			}
			return -1
		case token.EQL, token.NEQ:
			id, ok := ast.Unparen(x.X).(*ast.Ident)
			if ok && info.Uses[id] == errObj {
				if tv := info.Types[x.Y]; tv.IsNil() {
					if x.Op == token.NEQ {
						return 1
					}
					return 0
				}
			}
		}
	case *ast.CallExpr:
		if f := callee(info, x); f != nil && f.Pkg() != nil && f.Pkg().Path() == "errors" && f.Name() == "Is" && len(x.Args) == 2 {
			if id, ok := ast.Unparen(x.Args[0]).(*ast.Ident); ok && info.Uses[id] == errObj {
				if sel, ok := ast.Unparen(x.Args[1]).(*ast.SelectorExpr); ok && sel.Sel.Name == "ErrNotExist" {
					return 0
				}
			}
		}
	}
	return -1
}

func c18LoaderErrorKept(r *Run) {
	const R = "R-6"
	// the loader: the method of the expansion type that returns (*ast.Tree, error) and is called from expand
	loader := r.P.Func("internal/compiler", "(*templateExpansion).parseNodeFile")
	if !r.Anchor(R, "compiler.(*templateExpansion).parseNodeFile (the file loader of the expansion)", loader != nil) {
		return
	}
	n := 0
	for _, fi := range r.P.Funcs("internal/compiler") {
		if r.P.isTestFile(fi.File) || fi.Obj == loader.Obj {
			continue
		}
		info := fi.Pkg.TypesInfo
		g := r.P.CFGOf(fi)
		ord := map[string]int{}
		ast.Inspect(fi.Decl.Body, func(m ast.Node) bool {
			as, ok := m.(*ast.AssignStmt)
			if !ok || len(as.Rhs) != 1 || len(as.Lhs) != 2 {
				return true
			}
			c, ok := ast.Unparen(as.Rhs[0]).(*ast.CallExpr)
			if !ok || callee(info, c) != loader.Obj {
				return true
			}
			errObj := objOfIdent(info, as.Lhs[1])
			key := fi.Name() + "#loader-error-kept"
			ord[key]++
			n++
			o := r.Ob(R, key, c.Pos())
			if errObj == nil {
				o.Bad("the loader's error is assigned to the blank identifier: a cycle or a read error is dropped")
				return true
			}
			blk, idx := g.Locate(as)
			if blk == nil {
				o.Unknown("call not found in the control-flow graph")
				return true
			}
			mentionsErr := func(nd ast.Node) bool {
				found := false
				ast.Inspect(nd, func(x ast.Node) bool {
					if id, ok := x.(*ast.Ident); ok && info.Uses[id] == errObj {
						found = true
					}
					return true
				})
				return found
			}
			bad := ""
			seen := map[*cfg.Block]bool{}
			var walk func(b *cfg.Block, start int)
			walk = func(b *cfg.Block, start int) {
				if bad != "" {
					return
				}
				for i := start; i < len(b.Nodes); i++ {
					switch x := b.Nodes[i].(type) {
					case *ast.ReturnStmt:
						if !mentionsErr(x) {
							bad = "a return at " + r.P.Pos(x.Pos()) + " that does not carry the error"
						}
						return
					case *ast.AssignStmt:
						for j, l := range x.Lhs {
							if objOfIdent(info, l) == errObj {
								rhs := x.Rhs[0]
								if j < len(x.Rhs) {
									rhs = x.Rhs[j]
								}
								if !mentionsErr(rhs) {
									bad = "the error is overwritten at " + r.P.Pos(x.Pos())
									return
								}
							}
						}
					}
				}
				if len(b.Succs) == 0 {
					return // panic / unreachable
				}
				cd := g.CondOf(b)
				for i, s := range b.Succs {
					if cd != nil && cd.Tag == nil {
						v := c18eval3(info, cd.Expr, errObj)
						if (v == 1 && i == 1) || (v == 0 && i == 0) {
							continue // infeasible under the assumption
						}
					}
					// leaving the iteration: loop heads and posts
					if s.Kind == cfg.KindRangeLoop || s.Kind == cfg.KindForLoop || s.Kind == cfg.KindForPost {
						bad = "the next iteration is reached (the error is skipped)"
						return
					}
					if !seen[s] {
						seen[s] = true
						walk(s, 0)
					}
				}
			}
			walk(blk, idx+1)
			if bad == "" {
				o.OK("with err != nil and not 'does not exist', every path from the call reaches a return carrying err")
			} else {
				o.Bad("with err != nil and not 'does not exist' (a *CycleError, a read error) %s: the build goes on instead of reporting it", bad)
			}
			return true
		})
	}
	r.Require(R, 3)
}
