package main

// C12 — Run reports Stop, Fatal and unrecovered panics exactly as documented (DESIGN.md §5 C12).
// Needs c11.go (anchors of package runtime and go/cfg walks).
//
//	R-1  the panic values the runtime uses as control signals are classified before, and independently
//	     of, the opcode switch of the panic classifier, each to its canonical result.
//	R-2  in the run driver a result that is not a *PanicError is returned at once: the loop (and with it
//	     the deferred calls of the interpreted program) is not re-entered.
//	R-3  VM.Run unwraps every concrete error type the classifier can return; both public Run methods
//	     wrap *runtime.PanicError.
//	R-4  chain bookkeeping: a new *PanicError is linked in front of vm.panic; recover marks the panic it
//	     hands out; the constructor fills message/path/position from the right sources.
//	R-5  the public accessors forward to the same-named accessor, copy same-named fields and propagate nil.

import (
	"fmt"
	"go/ast"
	"go/token"
	"go/types"
	"sort"
	"strings"

	"golang.org/x/tools/go/cfg"
)

func init() {
	register("C12", &ruleSet{
		explain: "Structural necessary conditions of the documented outcomes of Run: " +
			"(R-1) every type of package runtime that is passed to panic inside package runtime and that VM.Run unwraps (the control signals: the Stop, Fatal and output-error carriers) is matched, in clause order, by a type switch or type-assertion guard on the recovered value that precedes the classifier's opcode switch, and the clause returns the canonical result (the value itself, or a *PanicError around it for the signal VM.Run looks for inside a *PanicError); the remaining runtime panic type (the runtime-error message) is turned into a *PanicError after the opcode switch; " +
			"(R-2) in the run driver the edge on which the recovered result is not a *PanicError only reaches returns of that result and never the recoverable section again; " +
			"(R-3) the type switch of VM.Run has a clause for every concrete type the classifier or the driver returns, the Stop clause hands back the field that carried Stop's argument, the Fatal clause panics with the field that carried Fatal's argument, the *PanicError clause replaces an output-error message by the writer's error, and both public Run methods wrap a *runtime.PanicError into the public type; " +
			"(R-4) the driver stores vm.panic in the new panic's link before making it vm.panic, the recover instruction sets `recovered` in the block that reads the message, and the constructor maps message/path/position from the parameter and the same-named instruction info; " +
			"(R-5) each public accessor of PanicError/BuildError calls the inner accessor of its own name exactly once, a Position literal copies every field from the same-named field, and a method returning a pointer to a wrapper builds it only under a nil test of the inner value.",
		notCov: []string{
			"positions and chain content for nested defers (the values stored, not the bookkeeping shape)",
			"panic values whose static type at the panic site is an interface (user panics, errors re-raised by callable.Value) are not enumerated",
			"the vm.fn == nil window of the classifier (DESIGN §7 row 3) belongs to C05",
		},
		trusted: []string{"recover() returns the value passed to panic", "type switch clause order semantics"},
		run:     runC12,
	})
}

type c12 struct {
	r    *Run
	a    *c11Anchors
	info *types.Info

	panicT   *types.Named        // runtime.PanicError
	msgParam *types.Var          // the classifier's parameter
	opSwitch *ast.SwitchStmt     // opcode switch of the classifier
	newPanic *FuncInfo           // constructor of *PanicError
	entrySw  *ast.TypeSwitchStmt // unwrapping switch of VM.Run
	entryErr types.Object
	direct   map[string]types.Type // types with their own clause in VM.Run
	inner    map[string]types.Type // types VM.Run asserts on the message of a *PanicError
	fMessage *types.Var            // PanicError field filled from the constructor's parameter
}

func runC12(r *Run) {
	a := c11Resolve(r.P)
	if !c11Need(r, "R-1", a) {
		return
	}
	x := &c12{r: r, a: a, info: a.info, direct: map[string]types.Type{}, inner: map[string]types.Type{}}
	x.panicT = c11NamedOf(a.fPanic.Type())
	if !x.resolve() {
		return
	}
	x.r1()
	x.r2()
	x.r3()
	x.r4()
	x.r5()
	r.Require("R-1", 4)
	r.Require("R-2", 1)
	r.Require("R-3", 6)
	r.Require("R-4", 4)
	r.Require("R-5", 14)
}

func (x *c12) rtFuncs() []*FuncInfo {
	var out []*FuncInfo
	for _, fi := range x.r.P.Funcs(c11RT) {
		if !x.r.P.isTestFile(fi.File) && fi.Obj != nil {
			out = append(out, fi)
		}
	}
	return out
}

func (x *c12) isRTType(t types.Type) bool {
	n := c11NamedOf(t)
	return n != nil && n.Obj().Pkg() == x.a.pk.Types
}

// subjectIs reports whether a type switch / assertion subject denotes obj.
func (x *c12) assertOn(e ast.Expr) (subject ast.Expr, typ ast.Expr, ok bool) {
	ta, isTA := ast.Unparen(e).(*ast.TypeAssertExpr)
	if !isTA {
		return nil, nil, false
	}
	return ta.X, ta.Type, true
}

func c12SwitchSubject(s *ast.TypeSwitchStmt) ast.Expr {
	var e ast.Expr
	switch a := s.Assign.(type) {
	case *ast.ExprStmt:
		e = a.X
	case *ast.AssignStmt:
		if len(a.Rhs) == 1 {
			e = a.Rhs[0]
		}
	}
	if ta, ok := ast.Unparen(e).(*ast.TypeAssertExpr); ok {
		return ta.X
	}
	return nil
}

func (x *c12) resolve() bool {
	r, a := x.r, x.a
	const R = "R-1"
	// classifier parameter and opcode switch
	sig := a.classifier.Obj.Type().(*types.Signature)
	for _, arg := range a.classCall.Args {
		_ = arg
	}
	if sig.Params().Len() != 1 {
		return r.Anchor(R, "classifier with one parameter (the recovered value)", false)
	}
	x.msgParam = sig.Params().At(0)
	for _, s := range switchesOn(x.info, a.classifier.Decl.Body, a.opT) {
		if r.P.Parents(a.classifier.File)[s] == ast.Node(a.classifier.Decl.Body) {
			x.opSwitch = s
		}
	}
	if !r.Anchor(R, "opcode switch at the top level of the classifier", x.opSwitch != nil) {
		return false
	}
	// constructor of *PanicError: the function of the package returning *PanicError from a literal
	for _, fi := range x.rtFuncs() {
		s := fi.Obj.Type().(*types.Signature)
		if s.Results().Len() != 1 || c11NamedOf(s.Results().At(0).Type()) != x.panicT || s.Params().Len() != 1 {
			continue
		}
		// its body builds a PanicError literal one of whose fields is the parameter (returned directly
		// or through a local)
		par0 := s.Params().At(0)
		ast.Inspect(fi.Decl.Body, func(n ast.Node) bool {
			if cl, ok := n.(*ast.CompositeLit); ok && c11NamedOf(x.info.TypeOf(cl)) == x.panicT {
				for _, el := range cl.Elts {
					if kv, ok := el.(*ast.KeyValueExpr); ok && c11ObjOf(x.info, kv.Value) == types.Object(par0) {
						x.newPanic = fi
					}
				}
			}
			return true
		})
	}
	if !r.Anchor(R, "constructor of the panic record (one parameter, returns a *PanicError literal)", x.newPanic != nil) {
		return false
	}
	// the message field: the literal's element whose value is the constructor's parameter
	par := x.newPanic.Obj.Type().(*types.Signature).Params().At(0)
	ast.Inspect(x.newPanic.Decl.Body, func(n ast.Node) bool {
		if cl, ok := n.(*ast.CompositeLit); ok && c11NamedOf(x.info.TypeOf(cl)) == x.panicT {
			for _, el := range cl.Elts {
				if kv, ok := el.(*ast.KeyValueExpr); ok && c11ObjOf(x.info, kv.Value) == types.Object(par) {
					if id, ok := kv.Key.(*ast.Ident); ok {
						if f, ok := x.info.Uses[id].(*types.Var); ok {
							x.fMessage = f
						}
					}
				}
			}
		}
		return true
	})
	if !r.Anchor(R, "field of the panic record initialised with the constructor's parameter (message)", x.fMessage != nil) {
		return false
	}
	// unwrapping switch of VM.Run
	for _, c := range c11CallsTo(x.info, a.entry.Decl.Body, a.driver.Obj, false) {
		if as, ok := r.P.Parents(a.entry.File)[c].(*ast.AssignStmt); ok && len(as.Lhs) == 1 {
			x.entryErr = c11ObjOf(x.info, as.Lhs[0])
		}
	}
	ast.Inspect(a.entry.Decl.Body, func(n ast.Node) bool {
		if ts, ok := n.(*ast.TypeSwitchStmt); ok {
			if sub := c12SwitchSubject(ts); sub != nil && x.entryErr != nil && c11ObjOf(x.info, sub) == x.entryErr {
				x.entrySw = ts
			}
		}
		return true
	})
	if !r.Anchor(R, "type switch of "+a.entry.Name()+" on the run driver's result", x.entrySw != nil) {
		return false
	}
	for _, st := range x.entrySw.Body.List {
		cc := st.(*ast.CaseClause)
		for _, te := range cc.List {
			t := x.info.TypeOf(te)
			if t == nil || !x.isRTType(t) {
				continue
			}
			x.direct[typeStr(t)] = t
			if c11NamedOf(t) == x.panicT {
				// assertions on the message inside the clause
				ast.Inspect(cc, func(n ast.Node) bool {
					if sub, te2, ok := x.assertOn(exprOf(n)); ok && c11FieldOf(x.info, sub) == x.fMessage && te2 != nil {
						if t2 := x.info.TypeOf(te2); t2 != nil && x.isRTType(t2) {
							x.inner[typeStr(t2)] = t2
						}
					}
					// … or a type switch on the message: `switch m := e.message.(type) { case outError: … }`
					if ts, ok := n.(*ast.TypeSwitchStmt); ok {
						if sub := c12SwitchSubject(ts); sub != nil && c11FieldOf(x.info, sub) == x.fMessage {
							for _, st2 := range ts.Body.List {
								for _, te2 := range st2.(*ast.CaseClause).List {
									if t2 := x.info.TypeOf(te2); t2 != nil && x.isRTType(t2) {
										x.inner[typeStr(t2)] = t2
									}
								}
							}
						}
					}
					return true
				})
			}
		}
	}
	return true
}

func exprOf(n ast.Node) ast.Expr {
	e, _ := n.(ast.Expr)
	return e
}

// ---------------------------------------------------------------------------
// R-1

type c12Site struct {
	fn  string
	pos token.Pos
}

func (x *c12) r1() {
	const R = "R-1"
	r, a := x.r, x.a
	// panic sites by argument type
	sites := map[string][]c12Site{}
	typesByName := map[string]types.Type{}
	for _, fi := range x.rtFuncs() {
		for _, c := range calls(fi.Decl.Body, true) {
			if !isBuiltinCall(x.info, c, "panic") || len(c.Args) != 1 {
				continue
			}
			t := x.info.TypeOf(c.Args[0])
			if t == nil || !x.isRTType(t) {
				continue
			}
			if _, isIface := t.Underlying().(*types.Interface); isIface {
				continue
			}
			k := typeStr(t)
			typesByName[k] = t
			sites[k] = append(sites[k], c12Site{fi.Name(), c.Pos()})
		}
	}
	r.Stats["panic_sites_with_runtime_type"] = 0
	for _, s := range sites {
		r.Stats["panic_sites_with_runtime_type"] += len(s)
	}
	key := a.classifier.Name()
	// a signal VM.Run unwraps but nobody raises means the anchors disagree
	for k := range x.direct {
		if c11NamedOf(x.direct[k]) == x.panicT {
			continue
		}
		if _, raised := sites[k]; !raised {
			r.Ob(R, key+"#"+k, a.entry.Decl.Pos()).Unknown("%s unwraps %s but no panic site of package runtime raises a value of that static type", a.entry.Name(), k)
		}
	}
	for _, k := range sortedKeys(sites) {
		t := typesByName[k]
		o := r.Ob(R, key+"#"+k, a.classifier.Decl.Pos())
		var where []string
		seen := map[string]bool{}
		for _, s := range sites[k] {
			if !seen[s.fn] {
				seen[s.fn] = true
				where = append(where, s.fn)
			}
		}
		_, isDirect := x.direct[k]
		_, isInner := x.inner[k]
		switch {
		case isDirect || isInner:
			x.signal(o, t, k, isInner, len(sites[k]), where)
		default:
			x.tailClass(o, t, k, len(sites[k]))
		}
	}
}

// matches: a value of dynamic type t is caught by a clause listing type c.
func c12Matches(t, c types.Type) bool {
	if types.Identical(t, c) {
		return true
	}
	if it, ok := c.Underlying().(*types.Interface); ok {
		return types.Implements(t, it)
	}
	return false
}

// returnsCanonical checks the returns of a clause body: the value itself (bound variable or the
// recovered value), or the panic constructor applied to it.
func (x *c12) returnsCanonical(body []ast.Stmt, bound types.Object, wrapped bool) (string, bool) {
	if len(body) == 0 {
		return "the clause falls out of the switch", false
	}
	var rets []*ast.ReturnStmt
	for _, s := range body {
		ast.Inspect(s, func(n ast.Node) bool {
			if _, ok := n.(*ast.FuncLit); ok {
				return false
			}
			if rs, ok := n.(*ast.ReturnStmt); ok {
				rets = append(rets, rs)
			}
			return true
		})
	}
	if _, ok := body[len(body)-1].(*ast.ReturnStmt); !ok {
		return "the clause does not end in a return", false
	}
	isVal := func(e ast.Expr) bool {
		if ta, ok := ast.Unparen(e).(*ast.TypeAssertExpr); ok {
			e = ta.X // an assertion of the value is still the value
		}
		o := c11ObjOf(x.info, e)
		return o != nil && (o == bound || o == types.Object(x.msgParam))
	}
	for _, rs := range rets {
		if len(rs.Results) != 1 {
			return "unexpected result list", false
		}
		res := ast.Unparen(rs.Results[0])
		if wrapped {
			c, ok := res.(*ast.CallExpr)
			if !ok || callee(x.info, c) != x.newPanic.Obj || len(c.Args) != 1 || !isVal(c.Args[0]) {
				return "returns " + exprStr(res) + ", not " + x.newPanic.Obj.Name() + "(value)", false
			}
		} else if !isVal(res) {
			return "returns " + exprStr(res) + ", not the value itself", false
		}
	}
	return "", true
}

func (x *c12) signal(o *Obl, t types.Type, k string, wrapped bool, nsites int, where []string) {
	a := x.a
	body := a.classifier.Decl.Body
	canon := "the value itself"
	if wrapped {
		canon = x.newPanic.Obj.Name() + "(value)"
	}
	// guards before the opcode switch, at the top level of the function, in source order
	for _, st := range body.List {
		if st.Pos() >= x.opSwitch.Pos() {
			break
		}
		switch s := st.(type) {
		case *ast.TypeSwitchStmt:
			sub := c12SwitchSubject(s)
			if sub == nil || c11ObjOf(x.info, sub) != types.Object(x.msgParam) {
				continue
			}
			for _, cs := range s.Body.List {
				cc := cs.(*ast.CaseClause)
				for _, te := range cc.List {
					ct := x.info.TypeOf(te)
					if ct == nil || !c12Matches(t, ct) {
						continue
					}
					why, ok := x.returnsCanonical(cc.Body, x.info.Implicits[cc], wrapped)
					if ok {
						o.OK("%d panic site(s) in %s; clause `case %s` of the type switch preceding the opcode switch returns %s for every opcode", nsites, strings.Join(where, ", "), exprStr(te), canon)
					} else {
						o.Bad("values of type %s are caught before the opcode switch by `case %s`, which does not produce the canonical result (%s): %s", k, exprStr(te), canon, why)
					}
					return
				}
			}
		case *ast.IfStmt:
			as, ok := s.Init.(*ast.AssignStmt)
			if !ok || len(as.Rhs) != 1 || len(as.Lhs) != 2 {
				continue
			}
			sub, te, isTA := x.assertOn(as.Rhs[0])
			if !isTA || te == nil || c11ObjOf(x.info, sub) != types.Object(x.msgParam) {
				continue
			}
			if c11ObjOf(x.info, s.Cond) != c11ObjOf(x.info, as.Lhs[1]) {
				continue
			}
			if ct := x.info.TypeOf(te); ct != nil && c12Matches(t, ct) {
				why, ok := x.returnsCanonical(s.Body.List, c11ObjOf(x.info, as.Lhs[0]), wrapped)
				if ok {
					o.OK("%d panic site(s); guard `%s` preceding the opcode switch returns %s for every opcode", nsites, exprStr(as.Rhs[0]), canon)
				} else {
					o.Bad("values of type %s are caught before the opcode switch by `%s`, which does not produce the canonical result (%s): %s", k, exprStr(as.Rhs[0]), canon, why)
				}
				return
			}
		}
	}
	// not classified before the opcode switch: report under which opcodes it is
	var under []string
	for _, cs := range x.opSwitch.Body.List {
		cc := cs.(*ast.CaseClause)
		hit := false
		ast.Inspect(cc, func(n ast.Node) bool {
			switch s := n.(type) {
			case *ast.CaseClause:
				if s == cc {
					return true
				}
				for _, te := range s.List {
					if tv, ok := x.info.Types[te]; ok && tv.IsType() && types.Identical(tv.Type, t) {
						hit = true
					}
				}
			case *ast.TypeAssertExpr:
				if s.Type != nil {
					if ct := x.info.TypeOf(s.Type); ct != nil && types.Identical(ct, t) {
						hit = true
					}
				}
			}
			return true
		})
		if hit {
			under = append(under, c11ClauseLabel(x.info, cc))
		}
	}
	// clauses falling through into one of those
	for i := len(x.opSwitch.Body.List) - 2; i >= 0; i-- {
		cc := x.opSwitch.Body.List[i].(*ast.CaseClause)
		if len(cc.Body) == 0 {
			continue
		}
		if bs, ok := cc.Body[len(cc.Body)-1].(*ast.BranchStmt); ok && bs.Tok == token.FALLTHROUGH {
			next := c11ClauseLabel(x.info, x.opSwitch.Body.List[i+1].(*ast.CaseClause))
			for _, u := range under {
				if u == next {
					under = append(under, c11ClauseLabel(x.info, cc)+" (falls through)")
					break
				}
			}
		}
	}
	sort.Strings(under)
	o.Bad("the control signal %s (raised at %d site(s): %s) is not classified before the opcode switch of %s; it is matched only under opcode(s) %s. Raised while any other instruction is current (a deferred native call runs under the Return instruction) it falls to the final wrap and %s receives a wrapper instead of the signal",
		k, nsites, strings.Join(where, ", "), a.classifier.Name(), fmtSet(under), a.entry.Name())
}

// tailClass: a runtime panic type that is not a control signal must become a *PanicError after the
// opcode switch, whatever the opcode.
func (x *c12) tailClass(o *Obl, t types.Type, k string, nsites int) {
	a := x.a
	for _, st := range a.classifier.Decl.Body.List {
		if st.Pos() <= x.opSwitch.Pos() {
			continue
		}
		s, ok := st.(*ast.IfStmt)
		if !ok {
			continue
		}
		as, ok := s.Init.(*ast.AssignStmt)
		if !ok || len(as.Rhs) != 1 || len(as.Lhs) != 2 {
			continue
		}
		sub, te, isTA := x.assertOn(as.Rhs[0])
		if !isTA || te == nil || c11ObjOf(x.info, sub) != types.Object(x.msgParam) || c11ObjOf(x.info, s.Cond) != c11ObjOf(x.info, as.Lhs[1]) {
			continue
		}
		if ct := x.info.TypeOf(te); ct != nil && c12Matches(t, ct) {
			if why, ok := x.returnsCanonical(s.Body.List, c11ObjOf(x.info, as.Lhs[0]), true); ok {
				o.OK("%s is not a control signal (not unwrapped by %s): %d panic site(s); the guard `%s` after the opcode switch turns it into a *PanicError for every opcode that did not return", k, a.entry.Name(), nsites, exprStr(as.Rhs[0]))
			} else {
				o.Bad("%s reaches the guard after the opcode switch, which does not wrap it in a *PanicError: %s", k, why)
			}
			return
		}
	}
	o.Bad("values of the runtime type %s (raised at %d site(s)) are neither a control signal of %s nor turned into a *PanicError after the opcode switch: they end as a fatal error in the host", k, nsites, a.entry.Name())
}

// ---------------------------------------------------------------------------
// R-2

// driverSplit finds, in the run driver, the comma-ok assertion of the recoverable section's result to
// *PanicError and returns the bound variables and the blocks of the ok / not-ok edges.
func (x *c12) driverSplit() (c *CFGInfo, errObj, pObj types.Object, okBlk, notOkBlk *cfg.Block, why string) {
	a := x.a
	c = x.r.P.CFGOf(a.driver)
	par := x.r.P.Parents(a.driver.File)
	if as, ok := par[a.driverCall].(*ast.AssignStmt); ok && len(as.Lhs) == 1 {
		errObj = c11ObjOf(x.info, as.Lhs[0])
	}
	if errObj == nil {
		return c, nil, nil, nil, nil, "the result of the recoverable section is not assigned to a variable"
	}
	var okObj types.Object
	ast.Inspect(a.driverFor.Body, func(n ast.Node) bool {
		as, ok := n.(*ast.AssignStmt)
		if !ok || len(as.Lhs) != 2 || len(as.Rhs) != 1 {
			return true
		}
		sub, te, isTA := x.assertOn(as.Rhs[0])
		if isTA && te != nil && c11ObjOf(x.info, sub) == errObj && c11NamedOf(x.info.TypeOf(te)) == x.panicT {
			pObj, okObj = c11ObjOf(x.info, as.Lhs[0]), c11ObjOf(x.info, as.Lhs[1])
		}
		return true
	})
	if okObj == nil {
		return c, errObj, nil, nil, nil, "no `p, ok := err.(*PanicError)` in the driver loop (a type switch form is not understood by the rule)"
	}
	for _, b := range c.G.Blocks {
		cd := c.CondOf(b)
		if cd == nil || cd.Tag != nil {
			continue
		}
		e := ast.Unparen(cd.Expr)
		neg := false
		if u, ok := e.(*ast.UnaryExpr); ok && u.Op == token.NOT {
			neg, e = true, ast.Unparen(u.X)
		}
		if c11ObjOf(x.info, e) == okObj {
			if neg {
				notOkBlk, okBlk = b.Succs[0], b.Succs[1]
			} else {
				okBlk, notOkBlk = b.Succs[0], b.Succs[1]
			}
		}
	}
	if okBlk == nil {
		return c, errObj, pObj, nil, nil, "no branch on the ok flag of the assertion"
	}
	return c, errObj, pObj, okBlk, notOkBlk, ""
}

func (x *c12) r2() {
	const R = "R-2"
	r, a := x.r, x.a
	o := r.Ob(R, a.driver.Name()+"#non-panic-result-returns-at-once", a.driverFor.Pos())
	c, errObj, _, _, notOk, why := x.driverSplit()
	if why != "" {
		o.Unknown("%s", why)
		return
	}
	bad := ""
	nret := 0
	c11Walk(c, notOk, 0, nil, func(b *cfg.Block, i int, n ast.Node) bool {
		if rs, ok := n.(*ast.ReturnStmt); ok {
			nret++
			if len(rs.Results) != 1 || c11ObjOf(x.info, rs.Results[0]) != errObj {
				bad = "the return at " + r.P.Pos(rs.Pos()) + " does not return the recovered result unchanged"
			}
			return true
		}
		if containsNode(n, a.driverCall) {
			bad = "the recoverable section is entered again: pending deferred calls of the program would run after Stop/Fatal"
			return true
		}
		for _, cl := range calls(n, false) {
			if fn := callee(x.info, cl); fn != nil && fn.Pkg() == a.pk.Types && c11RecvNamed(fn) == a.vmT {
				bad = "interpreter method " + fn.Name() + " is called before returning"
				return true
			}
		}
		ast.Inspect(n, func(m ast.Node) bool {
			if as, ok := m.(*ast.AssignStmt); ok {
				for _, l := range as.Lhs {
					if se, ok := ast.Unparen(l).(*ast.SelectorExpr); ok {
						if f := c11FieldOf(x.info, se); f != nil {
							for _, vf := range c11StructFields(a.vmT) {
								if vf == f {
									bad = "VM state (" + f.Name() + ") is modified before returning"
								}
							}
						}
					}
				}
			}
			return true
		})
		return bad != ""
	}, func(b *cfg.Block) { bad = "a path ends without return" })
	if bad != "" || nret == 0 {
		o.Bad("a result of %s that is not a *PanicError (Stop, Fatal) does not leave the driver at once: %s", a.recoverable.Name(), bad)
		return
	}
	o.OK("the not-ok edge of the *PanicError assertion reaches only `return %s` (%d return(s)), touching neither the call stack nor the loop", errObj.Name(), nret)
}

// ---------------------------------------------------------------------------
// R-3

// carrier returns the field of the struct type named n that carries the argument of the env method /
// the error of the write: the only field, or the field initialised from a parameter of a method of env.
func (x *c12) carrier(n *types.Named) *types.Var {
	fs := c11StructFields(n)
	if len(fs) == 1 {
		return fs[0]
	}
	var found *types.Var
	for _, fi := range x.rtFuncs() {
		if c11RecvNamed(fi.Obj) != x.a.envT {
			continue
		}
		params := map[types.Object]bool{}
		sig := fi.Obj.Type().(*types.Signature)
		for i := 0; i < sig.Params().Len(); i++ {
			params[sig.Params().At(i)] = true
		}
		ast.Inspect(fi.Decl.Body, func(nd ast.Node) bool {
			cl, ok := nd.(*ast.CompositeLit)
			if !ok || c11NamedOf(x.info.TypeOf(cl)) != n {
				return true
			}
			for i, el := range cl.Elts {
				if kv, ok := el.(*ast.KeyValueExpr); ok {
					if params[c11ObjOf(x.info, kv.Value)] {
						if id, ok := kv.Key.(*ast.Ident); ok {
							found, _ = x.info.Uses[id].(*types.Var)
						}
					}
				} else if params[c11ObjOf(x.info, el)] && i < len(fs) {
					found = fs[i]
				}
			}
			return true
		})
	}
	return found
}

func (x *c12) r3() {
	const R = "R-3"
	r, a := x.r, x.a
	key := a.entry.Name()
	// E1: concrete runtime types returned by the classifier and the driver
	ret := map[string]types.Type{}
	ifaceRet := 0
	for _, fi := range []*FuncInfo{a.classifier, a.driver} {
		for _, rs := range r.P.CFGOf(fi).Returns() {
			if len(rs.Results) != 1 {
				continue
			}
			t := x.info.TypeOf(rs.Results[0])
			if tv, ok := x.info.Types[rs.Results[0]]; ok && tv.IsNil() {
				continue
			}
			if t == nil {
				continue
			}
			if _, isIface := t.Underlying().(*types.Interface); isIface {
				ifaceRet++
				continue
			}
			if x.isRTType(t) {
				ret[typeStr(t)] = t
			}
		}
	}
	r.Stats["classifier_returns_of_interface_type"] = ifaceRet
	clauseOf := func(t types.Type) (*ast.CaseClause, ast.Expr) {
		for _, st := range x.entrySw.Body.List {
			cc := st.(*ast.CaseClause)
			for _, te := range cc.List {
				if ct := x.info.TypeOf(te); ct != nil && c12Matches(t, ct) {
					return cc, te
				}
			}
		}
		return nil, nil
	}
	retVar := func() types.Object { return x.entryErr }
	vouched := map[*ast.ReturnStmt]bool{} // returns inside a clause, judged with the clause
	for _, k := range sortedKeys(ret) {
		t := ret[k]
		o := r.Ob(R, key+"#"+k, x.entrySw.Pos())
		cc, te := clauseOf(t)
		if cc == nil {
			o.Bad("%s or %s can return a %s, but the type switch of %s has no clause for it: the internal value reaches the caller of Run", a.classifier.Name(), a.driver.Name(), k, key)
			continue
		}
		if ct := x.info.TypeOf(te); !types.Identical(ct, t) {
			o.Bad("%s is caught by the earlier clause `case %s`", k, exprStr(te))
			continue
		}
		bound := x.info.Implicits[cc]
		n := c11NamedOf(t)
		switch {
		case n == x.panicT:
			// message asserted to the output-error type, replaced by its carrier
			done := false
			ast.Inspect(cc, func(nd ast.Node) bool {
				is, ok := nd.(*ast.IfStmt)
				if !ok {
					return true
				}
				as, ok := is.Init.(*ast.AssignStmt)
				if !ok || len(as.Rhs) != 1 || len(as.Lhs) != 2 {
					return true
				}
				sub, te2, isTA := x.assertOn(as.Rhs[0])
				if !isTA || te2 == nil || c11FieldOf(x.info, sub) != x.fMessage {
					return true
				}
				se, _ := ast.Unparen(sub).(*ast.SelectorExpr)
				if se == nil || c11ObjOf(x.info, se.X) != bound {
					return true
				}
				it := c11NamedOf(x.info.TypeOf(te2))
				car := x.carrier(it)
				inner := c11ObjOf(x.info, as.Lhs[0])
				for _, s := range is.Body.List {
					// err = outErr.err (returned later)   or   return outErr.err
					var delivered ast.Expr
					if as2, ok := s.(*ast.AssignStmt); ok && len(as2.Lhs) == 1 && len(as2.Rhs) == 1 && c11ObjOf(x.info, as2.Lhs[0]) == retVar() {
						delivered = as2.Rhs[0]
					} else if rs, ok := s.(*ast.ReturnStmt); ok && len(rs.Results) == 1 {
						delivered = rs.Results[0]
						vouched[rs] = true
					}
					if delivered != nil {
						if se2, ok := ast.Unparen(delivered).(*ast.SelectorExpr); ok && c11ObjOf(x.info, se2.X) == inner && car != nil && c11FieldOf(x.info, se2) == car {
							o.OK("clause `case %s`: a message of type %s is replaced by its field %s (the writer's error); other panics are returned as they are", exprStr(te), typeStr(x.info.TypeOf(te2)), car.Name())
							done = true
						}
					}
				}
				return true
			})
			if !done {
				// another spelling (a type switch on the message, `if !ok { return err }`, ok tested on its own
				// line): the question is decided on the control-flow graph by the path rule (c13r7.go)
				sub := NewRun("C13", r.Tier, r.P)
				safeRun(sub, c13UnwrapUnconditional)
				good, why := len(sub.Obls) > 0, ""
				for _, so := range sub.Obls {
					if so.Verdict != Discharged {
						good, why = false, so.Fact
					}
				}
				if good {
					// the returns of the clause have been judged by the path rule
					ast.Inspect(cc, func(nd ast.Node) bool {
						if rs, ok := nd.(*ast.ReturnStmt); ok {
							vouched[rs] = true
						}
						return true
					})
					o.OK("on every path of %s on which the result is a panic record its message is tested against the output-error type, and where the test succeeds the writer's error is returned (path rule, %d obligations)", key, len(sub.Obls))
				} else if why != "" {
					o.Bad("the *PanicError clause does not replace an output-error message by the writer's error: %s", why)
				} else {
					o.Bad("the *PanicError clause does not replace an output-error message by the writer's error")
				}
			}
		default:
			car := x.carrier(n)
			if car == nil {
				o.Unknown("the field of %s carrying the argument of Stop/Fatal could not be determined", k)
				continue
			}
			// either `err = e.car` (then returned) or panic(e.car)
			verdict := ""
			for _, s := range cc.Body {
				switch st := s.(type) {
				case *ast.AssignStmt:
					if len(st.Lhs) == 1 && len(st.Rhs) == 1 && c11ObjOf(x.info, st.Lhs[0]) == retVar() {
						if se, ok := ast.Unparen(st.Rhs[0]).(*ast.SelectorExpr); ok && c11ObjOf(x.info, se.X) == bound {
							if c11FieldOf(x.info, se) == car {
								verdict = "returns " + exprStr(st.Rhs[0])
							} else {
								verdict = "!returns field " + exprStr(st.Rhs[0]) + " instead of " + car.Name()
							}
						}
					}
				case *ast.ReturnStmt:
					if len(st.Results) == 1 {
						vouched[st] = true
						if se, ok := ast.Unparen(st.Results[0]).(*ast.SelectorExpr); ok && c11ObjOf(x.info, se.X) == bound && c11FieldOf(x.info, se) == car {
							verdict = "returns " + exprStr(st.Results[0])
						} else {
							verdict = "!returns " + exprStr(st.Results[0]) + " instead of the field " + car.Name()
						}
					}
				case *ast.ExprStmt:
					if cl, ok := st.X.(*ast.CallExpr); ok && isBuiltinCall(x.info, cl, "panic") && len(cl.Args) == 1 {
						if se, ok := ast.Unparen(cl.Args[0]).(*ast.SelectorExpr); ok && c11ObjOf(x.info, se.X) == bound && c11FieldOf(x.info, se) == car {
							verdict = "panics with " + exprStr(cl.Args[0])
						} else {
							verdict = "!panics with " + exprStr(cl.Args[0]) + " instead of the field " + car.Name()
						}
					}
				}
			}
			switch {
			case verdict == "":
				o.Bad("clause `case %s` neither returns nor panics with the field %s that carried the argument", exprStr(te), car.Name())
			case strings.HasPrefix(verdict, "!"):
				o.Bad("clause `case %s` %s", exprStr(te), verdict[1:])
			default:
				o.OK("clause `case %s` %s, the field filled with the argument of the env method", exprStr(te), verdict)
			}
		}
	}
	// the value assigned in the clauses is what the function returns
	o := r.Ob(R, key+"#returns-unwrapped", x.entrySw.Pos())
	c := r.P.CFGOf(a.entry)
	sb, _ := c.Locate(x.entrySw.Assign)
	bad := ""
	if sb == nil {
		o.Unknown("type switch not located in the graph")
	} else {
		c11Walk(c, sb, 0, nil, func(b *cfg.Block, i int, n ast.Node) bool {
			if rs, ok := n.(*ast.ReturnStmt); ok {
				if vouched[rs] {
					return true
				}
				if len(rs.Results) != 1 || c11ObjOf(x.info, rs.Results[0]) != x.entryErr {
					bad = "the return at " + r.P.Pos(rs.Pos()) + " does not return " + x.entryErr.Name()
				}
				return true
			}
			return false
		}, nil)
		o.Set(bad == "", "every return reached from the type switch returns "+x.entryErr.Name(), bad)
	}

	// both public Run methods wrap *runtime.PanicError
	root := r.P.Pkg("")
	nrun := 0
	if root != nil {
		rinfo := root.TypesInfo
		for _, g := range r.P.Funcs("") {
			if r.P.isTestFile(g.File) {
				continue
			}
			runs := c11CallsTo(rinfo, g.Decl.Body, a.entry.Obj, false)
			if len(runs) == 0 {
				continue
			}
			nrun++
			o := r.Ob(R, g.Name()+"#wraps-PanicError", runs[0].Pos())
			var errObj types.Object
			if as, ok := r.P.Parents(g.File)[runs[0]].(*ast.AssignStmt); ok && len(as.Lhs) == 1 {
				errObj = c11ObjOf(rinfo, as.Lhs[0])
			}
			// checkWrap reads one function: is the error held by errObj, when it asserts to the runtime panic
			// type, replaced by the public wrapper, and is that what every return reached after `from` returns?
			// A return of `h(err)`, h a function of the package, delegates the question to h.
			var checkWrap func(fi *FuncInfo, errObj types.Object, from ast.Node, depth int) (bool, bool)
			checkWrap = func(fi *FuncInfo, errObj types.Object, from ast.Node, depth int) (wrapped, retOK bool) {
				directReturn := map[*ast.ReturnStmt]bool{}
				ast.Inspect(fi.Decl.Body, func(nd ast.Node) bool {
					is, ok := nd.(*ast.IfStmt)
					if !ok {
						return true
					}
					as, ok := is.Init.(*ast.AssignStmt)
					if !ok || len(as.Rhs) != 1 || len(as.Lhs) != 2 {
						return true
					}
					ta, ok := ast.Unparen(as.Rhs[0]).(*ast.TypeAssertExpr)
					if !ok || ta.Type == nil || c11ObjOf(rinfo, ta.X) != errObj || c11NamedOf(rinfo.TypeOf(ta.Type)) != x.panicT {
						return true
					}
					if c11ObjOf(rinfo, is.Cond) != c11ObjOf(rinfo, as.Lhs[1]) {
						return true
					}
					inner := c11ObjOf(rinfo, as.Lhs[0])
					for _, s := range is.Body.List {
						// err = &PanicError{p}   or   return &PanicError{p}
						var wrapExpr ast.Expr
						if as2, ok := s.(*ast.AssignStmt); ok && len(as2.Lhs) == 1 && len(as2.Rhs) == 1 && c11ObjOf(rinfo, as2.Lhs[0]) == errObj {
							wrapExpr = as2.Rhs[0]
						} else if rs, ok := s.(*ast.ReturnStmt); ok && len(rs.Results) == 1 {
							wrapExpr = rs.Results[0]
							directReturn[rs] = true
						}
						if wrapExpr == nil {
							continue
						}
						if u, ok := ast.Unparen(wrapExpr).(*ast.UnaryExpr); ok && u.Op == token.AND {
							if cl, ok := u.X.(*ast.CompositeLit); ok && len(cl.Elts) == 1 {
								v := cl.Elts[0]
								if kv, ok := v.(*ast.KeyValueExpr); ok {
									v = kv.Value
								}
								wn := c11NamedOf(rinfo.TypeOf(cl))
								if c11ObjOf(rinfo, v) == inner && wn != nil && wn.Obj().Pkg() == root.Types {
									wrapped = true
								}
							}
						}
					}
					return true
				})
				// and err is what is returned
				retOK = true
				delegated, plain := 0, 0
				gc := r.P.CFGOf(fi)
				rb, ri := gc.G.Blocks[0], -1
				if from != nil {
					rb, ri = gc.Locate(from)
				}
				if rb != nil {
					c11Walk(gc, rb, ri+1, nil, func(b *cfg.Block, i int, n ast.Node) bool {
						rs, ok := n.(*ast.ReturnStmt)
						if !ok {
							return false
						}
						if len(rs.Results) == 1 {
							if tv, ok := rinfo.Types[rs.Results[0]]; ok && tv.IsNil() {
								return true
							}
							if directReturn[rs] {
								return true // the wrap itself is returned
							}
							if hc, ok := ast.Unparen(rs.Results[0]).(*ast.CallExpr); ok && depth < 2 && len(hc.Args) == 1 && c11ObjOf(rinfo, hc.Args[0]) == errObj {
								if hf := callee(rinfo, hc); hf != nil {
									for _, h := range r.P.Funcs("") {
										if h.Obj == hf && !r.P.isTestFile(h.File) && h.Decl.Type.Params.NumFields() == 1 && len(h.Decl.Type.Params.List[0].Names) == 1 {
											hw, hr := checkWrap(h, rinfo.Defs[h.Decl.Type.Params.List[0].Names[0]], nil, depth+1)
											if hw && hr {
												delegated++
											} else {
												retOK = false
											}
											return true
										}
									}
								}
							}
							if c11ObjOf(rinfo, rs.Results[0]) != errObj {
								retOK = false
							} else {
								plain++
							}
						}
						return true
					}, nil)
				}
				if !wrapped && delegated > 0 && plain == 0 {
					wrapped = true // every non-nil return goes through a helper that wraps
				}
				return wrapped, retOK
			}
			wrapped, retOK := checkWrap(g, errObj, runs[0], 0)
			switch {
			case !wrapped:
				o.Bad("%s does not wrap a *runtime.PanicError result into the public *PanicError: the caller would receive the internal type", g.Name())
			case !retOK:
				o.Bad("%s wraps the panic but returns another value", g.Name())
			default:
				o.OK("a result asserting to *runtime.PanicError is replaced by &PanicError{p} and returned")
			}
		}
	}
	if nrun < 2 {
		r.Ob(R, "scriggo#callers-of-VM.Run", token.NoPos).Unknown("found %d functions of the root package calling %s, expected the two Run methods", nrun, a.entry.Name())
	}
}

// ---------------------------------------------------------------------------
// R-4

func (x *c12) r4() {
	const R = "R-4"
	r, a := x.r, x.a
	// (a) linking in the driver
	o := r.Ob(R, a.driver.Name()+"#link-in-front", a.driverFor.Pos())
	c, _, pObj, okBlk, _, why := x.driverSplit()
	fNext := c11UniqueField(x.panicT, func(w *types.Var) bool { return c11NamedOf(w.Type()) == x.panicT })
	if why != "" || pObj == nil || fNext == nil {
		o.Unknown("driver shape not understood: %s", why)
	} else {
		// walk from the ok edge: first `p.next = vm.panic`, then `vm.panic = p`, before leaving
		state := 0
		bad := ""
		c11Walk(c, okBlk, 0, nil, func(b *cfg.Block, i int, n ast.Node) bool {
			if as, ok := n.(*ast.AssignStmt); ok && len(as.Lhs) == 1 && len(as.Rhs) == 1 {
				lf, rf := c11FieldOf(x.info, as.Lhs[0]), c11FieldOf(x.info, as.Rhs[0])
				if lf == fNext {
					se := ast.Unparen(as.Lhs[0]).(*ast.SelectorExpr)
					if c11ObjOf(x.info, se.X) == pObj && rf == a.fPanic && state == 0 {
						state = 1
						return false
					}
					bad = "the link field is assigned from " + exprStr(as.Rhs[0])
					return true
				}
				if lf == a.fPanic {
					if state == 1 && c11ObjOf(x.info, as.Rhs[0]) == pObj {
						state = 2
						return true
					}
					bad = fmt.Sprintf("vm.%s is overwritten with %s before the previous panic was stored in the new panic's %s", a.fPanic.Name(), exprStr(as.Rhs[0]), fNext.Name())
					return true
				}
			}
			if _, ok := n.(*ast.ReturnStmt); ok {
				bad = "the driver returns before the new panic is linked"
				return true
			}
			if containsNode(n, a.driverCall) {
				bad = "the loop is re-entered before the new panic is linked"
				return true
			}
			if b.Kind == cfg.KindForDone {
				bad = "the loop is left before the new panic is linked"
				return true
			}
			return false
		}, nil)
		if bad == "" && state == 2 {
			o.OK("on the ok edge: %s.%s = vm.%s, then vm.%s = %s, before any exit", pObj.Name(), fNext.Name(), a.fPanic.Name(), a.fPanic.Name(), pObj.Name())
		} else {
			if bad == "" {
				bad = "the two assignments were not found in order on every path"
			}
			o.Bad("the chain of panics is not extended at its head: %s", bad)
		}
	}
	// the driver hands back vm.panic
	o = r.Ob(R, a.driver.Name()+"#returns-chain-head", a.driver.Decl.Pos())
	retHead := false
	dc := r.P.CFGOf(a.driver)
	for _, rs := range dc.Returns() {
		if len(rs.Results) == 1 && c11FieldOf(x.info, rs.Results[0]) == a.fPanic {
			if dc.GuardedBy(rs, func(l Lit) bool {
				e, isNil, ok := c11LitNil(x.info, l)
				return ok && !isNil && c11FieldOf(x.info, e) == a.fPanic
			}) {
				retHead = true
			}
		}
	}
	o.Set(retHead, "the driver returns vm."+a.fPanic.Name()+" under vm."+a.fPanic.Name()+" != nil (a nil pointer is never returned as a non-nil error)", "the driver does not return the head of the panic chain under a nil test")

	// (b) recover marks the panic whose message it reads
	fRecovered := c11UniqueField(x.panicT, func(w *types.Var) bool {
		b, ok := w.Type().Underlying().(*types.Basic)
		return ok && b.Kind() == types.Bool
	})
	nread := 0
	// the read is looked for in every function of the package: the recover instruction may be implemented
	// in the interpreter loop or in a method it calls
	for _, fi := range x.rtFuncs() {
		fi := fi
		var lc *CFGInfo
		ast.Inspect(fi.Decl.Body, func(nd ast.Node) bool {
			se, ok := nd.(*ast.SelectorExpr)
			if !ok || c11FieldOf(x.info, se) != x.fMessage || c11FieldOf(x.info, se.X) != a.fPanic {
				return true
			}
			nread++
			if lc == nil {
				lc = r.P.CFGOf(fi)
			}
			cl := ""
			if fi.Obj == a.loop.Obj {
				cl = c11ClauseName(x.info, a.dispatch, se)
			}
			o := r.Ob(R, fi.Name()+"#"+cl+":message-read-marks-recovered", se.Pos())
			if fRecovered == nil {
				o.Unknown("the panic record has no single bool field")
				return true
			}
			blk, _ := lc.Locate(se)
			marked := false
			if blk != nil {
				for _, m := range blk.Nodes {
					if as, ok := m.(*ast.AssignStmt); ok && len(as.Lhs) == 1 && len(as.Rhs) == 1 && c11FieldOf(x.info, as.Lhs[0]) == fRecovered {
						ls := ast.Unparen(as.Lhs[0]).(*ast.SelectorExpr)
						if tv, ok := x.info.Types[as.Rhs[0]]; ok && tv.Value != nil && tv.Value.String() == "true" && c11FieldOf(x.info, ls.X) == a.fPanic {
							marked = true
						}
					}
				}
			}
			// … or the read is taken only on the true edge of a function of the package every `return true` of
			// which has passed the assignment of the flag (`if vm.recoverFrame(last) { msg = … }`)
			isMark := func(m ast.Node) bool {
				as, ok := m.(*ast.AssignStmt)
				if !ok || len(as.Lhs) != 1 || len(as.Rhs) != 1 || c11FieldOf(x.info, as.Lhs[0]) != fRecovered {
					return false
				}
				ls, ok := ast.Unparen(as.Lhs[0]).(*ast.SelectorExpr)
				tv, has := x.info.Types[as.Rhs[0]]
				return ok && has && tv.Value != nil && tv.Value.String() == "true" && c11FieldOf(x.info, ls.X) == a.fPanic
			}
			if !marked && lc.GuardedBy(se, func(l Lit) bool {
				hc, ok := ast.Unparen(l.Expr).(*ast.CallExpr)
				if !ok || l.Tag != nil || !l.Truth {
					return false
				}
				hf := callee(x.info, hc)
				for _, h := range x.rtFuncs() {
					if h.Obj != hf || hf == nil {
						continue
					}
					hcfg := r.P.CFGOf(h)
					ntrue, all := 0, true
					for _, rs := range hcfg.Returns() {
						if len(rs.Results) != 1 {
							return false
						}
						tv, has := x.info.Types[rs.Results[0]]
						if !has || tv.Value == nil {
							return false // not a constant: the summary is not readable
						}
						if tv.Value.String() != "true" {
							continue
						}
						ntrue++
						if !hcfg.MustPassNode(rs, isMark) {
							all = false
						}
					}
					return ntrue > 0 && all
				}
				return false
			}) {
				marked = true
			}
			o.Set(marked, "the block that reads vm."+a.fPanic.Name()+"."+x.fMessage.Name()+" also sets vm."+a.fPanic.Name()+"."+fRecovered.Name()+" = true", "the message of the current panic is handed to the program without setting its "+fRecovered.Name()+" flag in the same block")
			return true
		})
	}
	if nread == 0 {
		r.Ob(R, a.loop.Name()+"#message-read-marks-recovered", a.loop.Decl.Pos()).Unknown("no function of package runtime reads vm.%s.%s: recover not found", a.fPanic.Name(), x.fMessage.Name())
	}

	// (c) constructor mapping (E10)
	o = r.Ob(R, x.newPanic.Name()+"#field-mapping", x.newPanic.Decl.Pos())
	par := x.newPanic.Obj.Type().(*types.Signature).Params().At(0)
	var problems, facts []string
	ast.Inspect(x.newPanic.Decl.Body, func(nd ast.Node) bool {
		cl, ok := nd.(*ast.CompositeLit)
		if !ok || c11NamedOf(x.info.TypeOf(cl)) != x.panicT {
			return true
		}
		for _, el := range cl.Elts {
			kv, ok := el.(*ast.KeyValueExpr)
			if !ok {
				problems = append(problems, "positional literal")
				continue
			}
			k := exprStr(kv.Key)
			if c11ObjOf(x.info, kv.Value) == types.Object(par) {
				facts = append(facts, k+"←"+par.Name())
				continue
			}
			if se, ok := ast.Unparen(kv.Value).(*ast.SelectorExpr); ok {
				if strings.EqualFold(se.Sel.Name, k) {
					facts = append(facts, k+"←"+exprStr(kv.Value))
				} else {
					problems = append(problems, fmt.Sprintf("field %s is filled from %s", k, exprStr(kv.Value)))
				}
				continue
			}
			problems = append(problems, fmt.Sprintf("field %s is filled from %s", k, exprStr(kv.Value)))
		}
		return true
	})
	// fields filled by assignments to the record after the literal: p.path = info.Path
	ast.Inspect(x.newPanic.Decl.Body, func(nd ast.Node) bool {
		as, ok := nd.(*ast.AssignStmt)
		if !ok || len(as.Lhs) != len(as.Rhs) {
			return true
		}
		for i, l := range as.Lhs {
			ls, ok := ast.Unparen(l).(*ast.SelectorExpr)
			if !ok || c11NamedOf(x.info.TypeOf(ls.X)) != x.panicT {
				continue
			}
			k := ls.Sel.Name
			if se, ok := ast.Unparen(as.Rhs[i]).(*ast.SelectorExpr); ok && strings.EqualFold(se.Sel.Name, k) {
				facts = append(facts, k+"←"+exprStr(as.Rhs[i]))
			} else if c11ObjOf(x.info, as.Rhs[i]) == types.Object(par) {
				facts = append(facts, k+"←"+par.Name())
			} else {
				problems = append(problems, fmt.Sprintf("field %s is assigned %s", k, exprStr(as.Rhs[i])))
			}
		}
		return true
	})
	if len(problems) > 0 || len(facts) < 3 {
		o.Bad("the panic record is not built from the parameter and the same-named instruction info: %s (mapped: %s)", strings.Join(problems, "; "), strings.Join(facts, ", "))
	} else {
		o.OK("%s", strings.Join(facts, ", "))
	}
}

// ---------------------------------------------------------------------------
// R-5

func (x *c12) r5() {
	const R = "R-5"
	r := x.r
	root := r.P.Pkg("")
	if !r.Anchor(R, "root package", root != nil) {
		return
	}
	info := root.TypesInfo
	// wrapper types: structs of the root package with exactly one field whose type is declared in an internal package
	wrappers := map[*types.Named]*types.Var{}
	sc := root.Types.Scope()
	for _, nm := range sc.Names() {
		tn, ok := sc.Lookup(nm).(*types.TypeName)
		if !ok || tn.IsAlias() {
			continue
		}
		n, _ := tn.Type().(*types.Named)
		fs := c11StructFields(n)
		if len(fs) != 1 {
			continue
		}
		in := c11NamedOf(fs[0].Type())
		if in == nil || in.Obj().Pkg() == nil || !strings.Contains(in.Obj().Pkg().Path(), "/internal/") {
			continue
		}
		if !tn.Exported() {
			continue
		}
		errT := types.Universe.Lookup("error").Type().Underlying().(*types.Interface)
		if !types.Implements(types.NewPointer(n), errT) {
			continue
		}
		wrappers[n] = fs[0]
	}
	r.Stats["public_error_wrappers"] = len(wrappers)
	for _, g := range r.P.Funcs("") {
		if r.P.isTestFile(g.File) || g.Decl.Recv == nil {
			continue
		}
		wn := c11RecvNamed(g.Obj)
		inner, ok := wrappers[wn]
		if !ok {
			continue
		}
		x.accessor(R, g, info, wn, inner, wrappers)
	}
}

func (x *c12) accessor(R string, g *FuncInfo, info *types.Info, wn *types.Named, inner *types.Var, wrappers map[*types.Named]*types.Var) {
	r := x.r
	name := g.Obj.Name()
	o := r.Ob(R, g.Name()+"#forwards", g.Decl.Pos())
	// calls on the inner field
	var fwd []*ast.CallExpr
	for _, c := range calls(g.Decl.Body, false) {
		se, ok := ast.Unparen(c.Fun).(*ast.SelectorExpr)
		if ok && c11FieldOf(info, se.X) == inner {
			fwd = append(fwd, c)
		}
	}
	if len(fwd) != 1 {
		o.Unknown("expected exactly one call on the inner value %s, found %d", inner.Name(), len(fwd))
		return
	}
	callee := ast.Unparen(fwd[0].Fun).(*ast.SelectorExpr).Sel.Name
	if callee != name {
		o.Bad("accessor %s forwards to the inner %s: the caller reads another attribute", name, callee)
		return
	}
	o.OK("forwards to the inner accessor of the same name")
	sig := g.Obj.Type().(*types.Signature)
	if sig.Results().Len() != 1 {
		return
	}
	res := sig.Results().At(0).Type()
	// pointer to a wrapper: nil must be propagated
	if pt, ok := res.(*types.Pointer); ok {
		if rn, _ := pt.Elem().(*types.Named); rn != nil {
			if _, isW := wrappers[rn]; isW {
				o2 := r.Ob(R, g.Name()+"#propagates-nil", g.Decl.Pos())
				c := r.P.CFGOf(g)
				found := false
				var bad string
				ast.Inspect(g.Decl.Body, func(nd ast.Node) bool {
					u, ok := nd.(*ast.UnaryExpr)
					if !ok || u.Op != token.AND {
						return true
					}
					cl, ok := u.X.(*ast.CompositeLit)
					if !ok || c11NamedOf(info.TypeOf(cl)) != rn || len(cl.Elts) != 1 {
						return true
					}
					found = true
					v := cl.Elts[0]
					if kv, ok := v.(*ast.KeyValueExpr); ok {
						v = kv.Value
					}
					if ast.Unparen(v) == ast.Expr(fwd[0]) {
						bad = fmt.Sprintf("the result of the inner %s() is wrapped unconditionally: on the last element the inner value is nil but the method returns a non-nil %s, so a walk `for p != nil; p = p.%s()` never ends and the next accessor dereferences nil", callee, typeStr(res), name)
						return true
					}
					vo := c11ObjOf(info, v)
					if vo == nil {
						bad = "the wrapped value is not a variable the rule can follow"
						return true
					}
					if !c.GuardedBy(u, func(l Lit) bool {
						e, isNil, ok := c11LitNil(info, l)
						return ok && !isNil && c11ObjOf(info, e) == vo
					}) {
						bad = fmt.Sprintf("&%s{%s} is built without a dominating `%s != nil` test", rn.Obj().Name(), vo.Name(), vo.Name())
					}
					return true
				})
				switch {
				case !found:
					o2.Unknown("no wrapper literal found in a method returning %s", typeStr(res))
				case bad != "":
					o2.Bad("%s", bad)
				default:
					o2.OK("the wrapper is built only under a non-nil test of the inner value; nil is returned otherwise")
				}
			}
		}
		return
	}
	// struct result built by a literal: same-named fields, none dropped
	if rn, _ := res.(*types.Named); rn != nil && rn.Obj().Pkg() == g.Obj.Pkg() {
		fs := c11StructFields(rn)
		if len(fs) == 0 {
			return
		}
		o2 := r.Ob(R, g.Name()+"#field-mapping", g.Decl.Pos())
		var src types.Object
		if as, ok := r.P.Parents(g.File)[fwd[0]].(*ast.AssignStmt); ok && len(as.Lhs) == 1 {
			src = c11ObjOf(info, as.Lhs[0])
		}
		var problems []string
		nlit := 0
		ast.Inspect(g.Decl.Body, func(nd ast.Node) bool {
			cl, ok := nd.(*ast.CompositeLit)
			if !ok || c11NamedOf(info.TypeOf(cl)) != rn {
				return true
			}
			nlit++
			seen := map[string]bool{}
			for _, el := range cl.Elts {
				kv, ok := el.(*ast.KeyValueExpr)
				if !ok {
					problems = append(problems, "positional element")
					continue
				}
				k := exprStr(kv.Key)
				seen[k] = true
				se, ok := ast.Unparen(kv.Value).(*ast.SelectorExpr)
				if !ok || (src != nil && c11ObjOf(info, se.X) != src) {
					problems = append(problems, fmt.Sprintf("%s is not copied from the inner result", k))
					continue
				}
				if se.Sel.Name != k {
					problems = append(problems, fmt.Sprintf("%s is copied from %s", k, exprStr(kv.Value)))
				}
			}
			for _, f := range fs {
				if !seen[f.Name()] {
					problems = append(problems, "field "+f.Name()+" is not copied")
				}
			}
			return true
		})
		switch {
		case nlit == 0:
			o2.Unknown("no %s literal found", rn.Obj().Name())
		case len(problems) > 0:
			o2.Bad("the %s returned does not mirror the inner one: %s", rn.Obj().Name(), strings.Join(problems, "; "))
		default:
			o2.OK("all %d fields of %s are copied from the same-named field of the inner result", len(fs), rn.Obj().Name())
		}
	}
}
