package main

// C16 R-5: the writer of a renderer is never storage that outlives the call.
//
// Calls of macros nest: the body of a macro called as an expression (`v := render "f"`, `F(M())`) can call
// another macro as an expression, or a Markdown macro shown in HTML, before it returns; and every goroutine
// and every function value called from native code has a machine of its own on the same environment. The
// output of each such call is captured in the writer of the renderer created for it and read back when the
// call returns. So the writer handed to a new renderer is one of
//
//	* the writer of an existing renderer (the callee writes through to the caller's output),
//	* a value allocated for this renderer (&T{}, new(T), the address of a variable declared for it, a
//	  constructor that returns such a value),
//	* a value supplied by the caller of the exported API (the output of the template);
//
// it is never a field of the machine or of the environment, nor a package-level variable: a nested call
// would reset or extend the partial output of the call that is still running, and `{% v := render "f" %}{{ v }}`
// would differ from `{{ render "f" }}` (seeded change C16-2). The rule follows the writer through
// parameters to every call of the helper and through the results of the functions of the module.

import (
	"fmt"
	"go/ast"
	"go/token"
	"go/types"
	"strings"
)

func init() {
	p := registry["C16"]
	if p == nil {
		return
	}
	run := p.run
	p.run = func(r *Run) { run(r); c16FreshWriter(r, "R-5") }
	p.explain += " (R-5) every renderer is created over the writer of an existing renderer, over a value allocated for it, or over a writer supplied through the exported API, never over storage kept in the machine, the environment or a package-level variable (calls of macros as expressions nest, so shared storage is overwritten by the inner call); followed through helper parameters and function results."
}

type c16Verdict int

const (
	c16VOK c16Verdict = iota
	c16VUnknown
	c16VBad
)

type c16WRes struct {
	v   c16Verdict
	why string
}

type c16Writer struct {
	r      *Run
	rule   string
	rel    string
	info   *types.Info
	rendT  *types.Named
	outFld *types.Var
	byObj  map[*types.Func]*FuncInfo
	nObl   int
}

// c16Binding maps the parameters of a function being read to the arguments of the call under analysis.
type c16Binding struct {
	ctx    c16Ctx
	args   []ast.Expr  // nil: no binding (the function is read on its own)
	recv   ast.Expr    // receiver expression of the call, if any
	caller *c16Binding // the context the arguments live in
}

func c16Join(a, b c16WRes) c16WRes {
	if b.v > a.v {
		return b
	}
	return a
}

// passThrough: e is the writer of an existing renderer: R.out, or R.M() where M returns the out field.
func (w *c16Writer) passThrough(e ast.Expr) bool {
	switch x := ast.Unparen(e).(type) {
	case *ast.SelectorExpr:
		return w.info.Uses[x.Sel] == w.outFld
	case *ast.CallExpr:
		fn := callee(w.info, x)
		fi := w.byObj[fn]
		if fn == nil || fi == nil || fi.Decl.Recv == nil || len(fi.Decl.Recv.List) != 1 {
			return false
		}
		sig := fn.Type().(*types.Signature)
		rt := sig.Recv().Type()
		if p, ok := rt.(*types.Pointer); ok {
			rt = p.Elem()
		}
		if !types.Identical(rt, w.rendT) || sig.Params().Len() != 0 {
			return false
		}
		n := 0
		all := true
		ast.Inspect(fi.Decl.Body, func(m ast.Node) bool {
			if ret, ok := m.(*ast.ReturnStmt); ok {
				n++
				if len(ret.Results) != 1 {
					all = false
				} else if s, ok := ast.Unparen(ret.Results[0]).(*ast.SelectorExpr); !ok || w.info.Uses[s.Sel] != w.outFld {
					all = false
				}
			}
			return true
		})
		return n > 0 && all
	}
	return false
}

// declaredForUse: the variable is declared inside every loop and function literal that holds the use, so
// that each execution of the use has a variable of its own.
func (w *c16Writer) declaredForUse(ctx c16Ctx, obj types.Object, use ast.Node) bool {
	par := w.r.P.Parents(ctx.fi.File)
	for m := par[use]; m != nil; m = par[m] {
		switch m.(type) {
		case *ast.ForStmt, *ast.RangeStmt, *ast.FuncLit:
			if !(m.Pos() <= obj.Pos() && obj.Pos() < m.End()) {
				return false
			}
		}
	}
	return true
}

func (w *c16Writer) rootIdent(e ast.Expr) *ast.Ident {
	for {
		switch x := ast.Unparen(e).(type) {
		case *ast.Ident:
			return x
		case *ast.SelectorExpr:
			if _, isField := w.info.Selections[x]; !isField {
				return x.Sel // qualified identifier pkg.V
			}
			e = x.X
		case *ast.IndexExpr:
			e = x.X
		case *ast.StarExpr:
			e = x.X
		case *ast.UnaryExpr:
			e = x.X
		case *ast.CallExpr:
			return nil
		case *ast.TypeAssertExpr:
			e = x.X
		default:
			return nil
		}
	}
}

// classify decides where the writer e comes from, read in the function of b.
func (w *c16Writer) classify(e ast.Expr, b *c16Binding, use ast.Node, depth int) c16WRes {
	if depth > 8 {
		return c16WRes{c16VUnknown, "the writer passes through more than 8 helpers"}
	}
	info := w.info
	e = ast.Unparen(e)
	if w.passThrough(e) {
		return c16WRes{c16VOK, "the writer of an existing renderer (" + exprStr(e) + ")"}
	}
	switch x := e.(type) {
	case *ast.UnaryExpr:
		if x.Op != token.AND {
			break
		}
		switch y := ast.Unparen(x.X).(type) {
		case *ast.CompositeLit:
			return c16WRes{c16VOK, "allocated here (" + exprStr(e) + ")"}
		case *ast.Ident:
			o := info.Uses[y]
			if c16IsLocalVar(o) && w.declaredForUse(b.ctx, o, use) {
				return c16WRes{c16VOK, "the address of the variable " + y.Name + " declared for this renderer"}
			}
			if c16IsLocalVar(o) {
				return c16WRes{c16VBad, "the address of the variable " + y.Name + ", declared outside the loop or function literal that creates the renderer: every renderer created there shares it"}
			}
			return c16WRes{c16VBad, "the address of the package-level variable " + y.Name}
		default:
			return w.shared(x.X, b, "the address of ")
		}
	case *ast.CallExpr:
		if isBuiltinCall(info, x, "new") {
			return c16WRes{c16VOK, "allocated here (" + exprStr(e) + ")"}
		}
		if tv, ok := info.Types[x.Fun]; ok && tv.IsType() && len(x.Args) == 1 {
			return w.classify(x.Args[0], b, use, depth) // conversion
		}
		fn := callee(info, x)
		if fn == nil {
			return c16WRes{c16VUnknown, "the result of the dynamic call " + exprStr(e)}
		}
		if fi := w.byObj[fn]; fi != nil {
			nb := &c16Binding{ctx: c16Ctx{fi: fi, body: fi.Decl.Body}, args: x.Args, caller: b}
			if s, ok := ast.Unparen(x.Fun).(*ast.SelectorExpr); ok {
				nb.recv = s.X
			}
			res := c16WRes{c16VOK, ""}
			n := 0
			ast.Inspect(fi.Decl.Body, func(m ast.Node) bool {
				if _, ok := m.(*ast.FuncLit); ok {
					return false
				}
				if ret, ok := m.(*ast.ReturnStmt); ok {
					n++
					if len(ret.Results) != 1 {
						res = c16Join(res, c16WRes{c16VUnknown, "a result of " + fn.Name() + " that is not one expression"})
					} else {
						one := w.classify(ret.Results[0], nb, ret, depth+1)
						if one.v != c16VOK {
							one.why = "the result of " + funcKey(fn) + ": " + one.why
						} else if res.why == "" {
							if strings.HasPrefix(one.why, "param:") {
								res.why = one.why
							} else {
								res.why = "the result of " + funcKey(fn) + ": " + one.why
							}
						}
						res = c16Join(res, one)
					}
				}
				return true
			})
			if n == 0 {
				return c16WRes{c16VUnknown, "the result of " + fn.Name() + ", which has no return statement"}
			}
			return res
		}
		// a function outside the package: it cannot reach the machine unless handed a part of it
		if s, ok := ast.Unparen(x.Fun).(*ast.SelectorExpr); ok {
			if _, isMethod := info.Selections[s]; isMethod {
				return c16WRes{c16VUnknown, "the result of the method call " + exprStr(e) + " (a pool or a cache hands out shared values)"}
			}
		}
		for _, a := range x.Args {
			t := info.TypeOf(a)
			if t == nil {
				continue
			}
			if _, basic := t.Underlying().(*types.Basic); basic {
				continue
			}
			if isMake, ok := ast.Unparen(a).(*ast.CallExpr); ok && isBuiltinCall(info, isMake, "make") {
				continue
			}
			if one := w.classify(a, b, use, depth+1); one.v != c16VOK || strings.HasPrefix(one.why, "the writer of an existing") {
				return c16WRes{c16VUnknown, "the result of " + exprStr(e) + ", built from " + exprStr(a)}
			}
		}
		return c16WRes{c16VOK, "allocated by " + exprStr(x.Fun) + " for this renderer"}
	case *ast.TypeAssertExpr:
		return w.classify(x.X, b, use, depth)
	case *ast.Ident:
		o := info.Uses[x]
		if o == nil {
			break
		}
		if _, isNil := o.(*types.Nil); isNil {
			return c16WRes{c16VOK, "nil"}
		}
		if !c16IsLocalVar(o) {
			return c16WRes{c16VBad, "the package-level variable " + x.Name + ", shared by every call and every goroutine"}
		}
		if i := w.paramIdx(b.ctx, o); i >= 0 {
			if b.args != nil && b.ctx.lit == nil {
				if i < len(b.args) && b.caller != nil {
					return w.classify(b.args[i], b.caller, use, depth+1)
				}
				return c16WRes{c16VUnknown, "the parameter " + x.Name + " of a call with a multi-value argument list"}
			}
			return c16WRes{c16VOK, "param:" + fmt.Sprint(i)}
		}
		if b.ctx.fi.Decl.Recv != nil && len(b.ctx.fi.Decl.Recv.List) == 1 && len(b.ctx.fi.Decl.Recv.List[0].Names) == 1 && info.Defs[b.ctx.fi.Decl.Recv.List[0].Names[0]] == o {
			return c16WRes{c16VBad, "the receiver " + x.Name + " itself"}
		}
		if !w.declaredForUse(b.ctx, o, use) {
			return c16WRes{c16VBad, "the variable " + x.Name + ", declared outside the loop or function literal that creates the renderer: it keeps its value from one renderer to the next"}
		}
		defs := c16DefsOf(info, b.ctx.fi.Decl.Body, o)
		res := c16WRes{c16VOK, ""}
		n := 0
		for _, d := range defs {
			if d.Zero {
				continue
			}
			if d.Rhs == nil {
				return c16WRes{c16VUnknown, "the variable " + x.Name + " has a definition the rule cannot read"}
			}
			n++
			one := w.classify(d.Rhs, b, d.Node, depth+1)
			if res.why == "" || one.v > res.v {
				res.why = one.why
			}
			res.v = max(res.v, one.v)
		}
		if n == 0 {
			return c16WRes{c16VUnknown, "the variable " + x.Name + " has no definition with a value"}
		}
		return res
	case *ast.SelectorExpr, *ast.IndexExpr, *ast.StarExpr:
		return w.shared(e, b, "")
	}
	return c16WRes{c16VUnknown, "the expression " + exprStr(e)}
}

// shared: e is a field, element or dereference; decide by the variable it is rooted in.
func (w *c16Writer) shared(e ast.Expr, b *c16Binding, prefix string) c16WRes {
	id := w.rootIdent(e)
	if id == nil {
		return c16WRes{c16VUnknown, prefix + exprStr(e)}
	}
	o := w.info.Uses[id]
	if o == nil {
		return c16WRes{c16VUnknown, prefix + exprStr(e)}
	}
	if !c16IsLocalVar(o) {
		return c16WRes{c16VBad, prefix + exprStr(e) + ", rooted in the package-level variable " + id.Name}
	}
	// the receiver or a parameter, also of the declaration around a function literal (captured)
	isRecv := b.ctx.fi.Decl.Recv != nil && len(b.ctx.fi.Decl.Recv.List) == 1 && len(b.ctx.fi.Decl.Recv.List[0].Names) == 1 && w.info.Defs[b.ctx.fi.Decl.Recv.List[0].Names[0]] == o
	if isRecv || w.paramIdx(b.ctx, o) >= 0 || c16ParamIndex(w.info, b.ctx.fi.Decl.Type, o) >= 0 {
		_, hasIndex := ast.Unparen(e).(*ast.IndexExpr)
		if hasIndex {
			return c16WRes{c16VUnknown, prefix + exprStr(e) + ", an element of storage kept in " + typeStr(o.Type())}
		}
		return c16WRes{c16VBad, prefix + exprStr(e) + ", storage kept in " + typeStr(o.Type()) + " across calls"}
	}
	// rooted in a local variable: a value reached through a pointer held by the local
	for _, d := range c16DefsOf(w.info, b.ctx.fi.Decl.Body, o) {
		if d.Rhs == nil && !d.Zero {
			return c16WRes{c16VUnknown, prefix + exprStr(e)}
		}
	}
	if _, isPtr := o.Type().Underlying().(*types.Pointer); !isPtr {
		if _, isStruct := o.Type().Underlying().(*types.Struct); isStruct {
			return c16WRes{c16VUnknown, prefix + exprStr(e) + ", a part of the local variable " + id.Name}
		}
	}
	return c16WRes{c16VUnknown, prefix + exprStr(e) + ", reached through the local variable " + id.Name}
}

func (w *c16Writer) paramIdx(ctx c16Ctx, o types.Object) int {
	if ctx.lit != nil {
		return c16ParamIndex(w.info, ctx.lit.Type, o)
	}
	return c16ParamIndex(w.info, ctx.fi.Decl.Type, o)
}

// sink decides one place where a writer enters a renderer; a parameter moves the decision to the callers.
func (w *c16Writer) sink(fi *FuncInfo, at ast.Node, e ast.Expr, seen map[*types.Func]bool) {
	ctx := c16Enclosing(w.r.P, fi, at)
	res := w.classify(e, &c16Binding{ctx: ctx}, at, 0)
	var idx int
	if res.v == c16VOK && strings.HasPrefix(res.why, "param:") {
		fmt.Sscanf(res.why, "param:%d", &idx)
		if ctx.lit != nil || fi.Obj == nil {
			w.ob(fi, at).Unknown("the writer is a parameter of a function literal")
			return
		}
		if seen[fi.Obj] {
			return
		}
		seen[fi.Obj] = true
		sites := c16CallsOf(w.r.P, w.rel, fi.Obj)
		if len(sites) == 0 {
			if fi.Obj.Exported() {
				w.ob(fi, at).OK("the writer is the parameter %s of the exported %s, not called inside the package: it is supplied by the user of the API", exprStr(e), fi.Name())
			} else {
				w.ob(fi, at).Trivial("the writer is a parameter of %s, which is never called", fi.Name())
			}
			return
		}
		for _, cs := range sites {
			if idx >= len(cs.call.Args) {
				w.ob(cs.fi, cs.call).Unknown("call of %s with a multi-value argument list", fi.Name())
				continue
			}
			w.sink(cs.fi, cs.call, cs.call.Args[idx], seen)
		}
		return
	}
	o := w.ob(fi, at)
	switch res.v {
	case c16VOK:
		o.OK("the renderer is created over %s", res.why)
	case c16VBad:
		o.Bad("a renderer is created over %s: calls of macros as expressions nest (and goroutines share the environment), so an inner call overwrites or extends the output captured for the call still running, and assigning `render \"f\"` to a variable no longer equals showing it", res.why)
	default:
		o.Unknown("cannot decide whether the writer of this renderer is allocated for it: %s", res.why)
	}
}

func (w *c16Writer) ob(fi *FuncInfo, at ast.Node) *Obl {
	w.nObl++
	return w.r.Ob(w.rule, fi.Name()+"#renderer-writer", at.Pos())
}

func c16FreshWriter(r *Run, rule string) {
	const rel = "internal/runtime"
	pk := r.P.Pkg(rel)
	vmT := r.P.Named(rel, "VM")
	if !r.Anchor(rule, "runtime.VM", pk != nil && vmT != nil) {
		return
	}
	info := pk.TypesInfo
	w := &c16Writer{r: r, rule: rule, rel: rel, info: info, byObj: map[*types.Func]*FuncInfo{}}
	// the renderer: the struct behind a pointer field of VM that holds exactly one io.Writer
	st, _ := vmT.Underlying().(*types.Struct)
	n := 0
	for i := 0; st != nil && i < st.NumFields(); i++ {
		p, ok := st.Field(i).Type().(*types.Pointer)
		if !ok {
			continue
		}
		nt, ok := p.Elem().(*types.Named)
		if !ok {
			continue
		}
		es, ok := nt.Underlying().(*types.Struct)
		if !ok {
			continue
		}
		var out *types.Var
		k := 0
		for j := 0; j < es.NumFields(); j++ {
			if typeStr(es.Field(j).Type()) == "io.Writer" {
				out = es.Field(j)
				k++
			}
		}
		if k == 1 {
			w.rendT, w.outFld = nt, out
			n++
		}
	}
	if !r.Anchor(rule, "the renderer type of the virtual machine (the struct with one io.Writer field that VM points to)", n == 1) {
		return
	}
	funcs := r.P.Funcs(rel)
	for _, fi := range funcs {
		if fi.Obj != nil && !r.P.isTestFile(fi.File) {
			w.byObj[fi.Obj] = fi
		}
	}
	es := w.rendT.Underlying().(*types.Struct)
	outIdx := -1
	for j := 0; j < es.NumFields(); j++ {
		if es.Field(j) == w.outFld {
			outIdx = j
		}
	}
	seen := map[*types.Func]bool{}
	for _, fi := range funcs {
		if r.P.isTestFile(fi.File) {
			continue
		}
		fi := fi
		ast.Inspect(fi.Decl.Body, func(m ast.Node) bool {
			switch x := m.(type) {
			case *ast.CompositeLit:
				t := info.TypeOf(x)
				if t == nil || !types.Identical(t, w.rendT) {
					return true
				}
				for j, el := range x.Elts {
					if kv, ok := el.(*ast.KeyValueExpr); ok {
						if id, ok := kv.Key.(*ast.Ident); ok && info.Uses[id] == w.outFld {
							w.sink(fi, x, kv.Value, seen)
						}
					} else if j == outIdx {
						w.sink(fi, x, el, seen)
					}
				}
			case *ast.AssignStmt:
				if len(x.Lhs) != len(x.Rhs) {
					return true
				}
				for j, l := range x.Lhs {
					if sel, ok := ast.Unparen(l).(*ast.SelectorExpr); ok && info.Uses[sel.Sel] == w.outFld {
						w.sink(fi, x, x.Rhs[j], seen)
					}
				}
			}
			return true
		})
	}
	r.Stats[rule+"_renderer_writers"] = w.nObl
	r.Anchor(rule, "a construction of a renderer with its writer", w.nObl > 0)
	r.Require(rule, 8)
}
