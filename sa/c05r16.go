package main

// C05 R-16 (added after seeded change C05-5): helper switches agree with the clause that calls them.
// A helper of package runtime that switches on the running opcode and panics in its default clause (for
// example the function that formats "index out of range [i] with length n") is total only over the opcodes
// it lists. When it is called from a clause `case OpA, OpB, …` of another switch on the opcode — the panic
// classifier, which runs inside the recover handler — every opcode of that clause must be listed by the
// helper: otherwise the helper's own panic("unexpected operation") is raised inside the recover handler
// and leaves Run as a host panic.

import (
	"go/ast"
	"go/types"
	"sort"
)

func init() {
	p := registry["C05"]
	if p == nil {
		return
	}
	run := p.run
	p.run = func(r *Run) { run(r); c05HelperSwitches(r) }
	p.explain += " R-16: a helper that switches on the opcode and panics by default lists every opcode of each clause it is called from."
}

func c05HelperSwitches(r *Run) {
	const R = "R-16"
	const rel = "internal/runtime"
	opT := r.P.Named(rel, "Operation")
	if !r.Anchor(R, "runtime.Operation", opT != nil) {
		return
	}
	opName := map[int64]string{}
	for _, c := range EnumConsts(opT) {
		v, _ := constantInt64(c)
		opName[v] = c.Name()
	}
	label := func(v int64) string {
		if v < 0 {
			return "-" + opName[-v]
		}
		return opName[v]
	}
	// partial helpers
	partial := map[*types.Func]*switchCover{}
	var fns []*FuncInfo
	for _, fi := range r.P.Funcs(rel) {
		if r.P.isTestFile(fi.File) || fi.Obj == nil {
			continue
		}
		fns = append(fns, fi)
		sws := switchesOn(fi.Pkg.TypesInfo, fi.Decl.Body, opT)
		if len(sws) != 1 {
			continue
		}
		cov := coverOfSwitch(fi.Pkg.TypesInfo, sws[0])
		if len(cov.NonConst) > 0 || len(cov.Vals) > 40 {
			continue // the interpreter loop and the classifier list (almost) everything
		}
		panics := cov.Default == nil
		if cov.Default != nil {
			for _, c := range calls(cov.Default, false) {
				if isBuiltinCall(fi.Pkg.TypesInfo, c, "panic") {
					panics = true
				}
			}
		}
		if cov.Default != nil && panics {
			partial[fi.Obj] = cov
		}
	}
	n := 0
	for _, fi := range fns {
		info := fi.Pkg.TypesInfo
		for _, sw := range switchesOn(info, fi.Decl.Body, opT) {
			for _, st := range sw.Body.List {
				cc := st.(*ast.CaseClause)
				if cc.List == nil {
					continue
				}
				var vals []int64
				for _, e := range cc.List {
					if v, ok := intValue(info, e); ok {
						vals = append(vals, v)
					}
				}
				for _, s := range cc.Body {
					for _, c := range calls(s, false) {
						g := callee(info, c)
						cov := partial[g]
						if cov == nil || g == fi.Obj {
							continue
						}
						n++
						var missing []string
						for _, v := range vals {
							if cov.Vals[v] == nil {
								missing = append(missing, label(v))
							}
						}
						sort.Strings(missing)
						first := ""
						if len(vals) > 0 {
							first = label(vals[0])
						}
						o := r.Ob(R, fi.Name()+"#case "+first+"…:calls:"+g.Name(), c.Pos())
						if len(missing) == 0 {
							o.OK("%s lists the %d opcodes of the clause", funcKey(g), len(vals))
						} else {
							o.Bad("%s is called for the opcodes of this clause but its own switch has no case for %v and panics by default: raised inside the recover handler, that panic leaves Run as a host panic", funcKey(g), missing)
						}
					}
				}
			}
		}
	}
	r.Require(R, 1)
}
