package main

// C14 R-5: the recycled-select-case rule of c05r17.go (C05 R-17), chained here because this file is
// initialised after c14.go.

func init() {
	p := registry["C14"]
	if p == nil {
		return
	}
	run := p.run
	p.run = func(r *Run) { run(r); selectSlotRule(r, "R-5") }
	p.explain += " R-5: the handler collecting select cases leaves every recycled reflect.SelectCase with exactly the fields its direction allows (a stale Send value makes reflect.Select panic in the goroutine, whose error is dropped: a deadlock)."
}
