package main

// C13 R-6 (added after seeded change C13-5): an error is never re-created from another error. Run must
// return the writer's error E itself; a wrapper such as fmt.Errorf("…: %s", err) or errors.New(err.Error())
// on the way (the Markdown converter adaptor, a renderer helper) returns a new value that is neither E nor
// wraps it. In the root package and in package runtime no call of fmt.Errorf, errors.New, fmt.Sprint* takes
// an argument that is an error (or the result of its Error method), except fmt.Errorf with the verb %w for
// that argument.

import (
	"go/ast"
	"go/types"
	"strings"
)

func init() {
	p := registry["C13"]
	if p == nil {
		return
	}
	run := p.run
	p.run = func(r *Run) { run(r); c13ErrorIdentity(r) }
	p.explain += " R-6: in the root package and package runtime no error is re-created from another error (fmt.Errorf without %w, errors.New(err.Error())): the writer's error keeps its identity up to Run's result."
}

func c13ErrorIdentity(r *Run) {
	const R = "R-6"
	errT := types.Universe.Lookup("error").Type().Underlying().(*types.Interface)
	nfuncs, nsites := 0, 0
	for _, rel := range []string{"", "internal/runtime"} {
		for _, fi := range r.P.Funcs(rel) {
			if r.P.isTestFile(fi.File) {
				continue
			}
			nfuncs++
			info := fi.Pkg.TypesInfo
			isErrVal := func(e ast.Expr) bool {
				t := info.TypeOf(e)
				if t == nil {
					return false
				}
				if tv, ok := info.Types[e]; ok && tv.IsNil() {
					return false
				}
				if types.Implements(t, errT) {
					return true
				}
				// err.Error()
				if c, ok := ast.Unparen(e).(*ast.CallExpr); ok && len(c.Args) == 0 {
					if sel, ok := c.Fun.(*ast.SelectorExpr); ok && sel.Sel.Name == "Error" {
						if rt := info.TypeOf(sel.X); rt != nil && types.Implements(rt, errT) {
							return true
						}
					}
				}
				return false
			}
			for _, c := range calls(fi.Decl.Body, true) {
				f := callee(info, c)
				if f == nil || f.Pkg() == nil {
					continue
				}
				pk, nm := f.Pkg().Path(), f.Name()
				creates := pk == "fmt" && (nm == "Errorf" || strings.HasPrefix(nm, "Sprint")) || pk == "errors" && nm == "New"
				if !creates {
					continue
				}
				first := 0
				format, haveFormat := "", false
				if pk == "fmt" && strings.HasSuffix(nm, "f") && len(c.Args) > 0 {
					format, haveFormat = stringValue(info, c.Args[0])
					first = 1
				}
				for i := first; i < len(c.Args); i++ {
					if !isErrVal(c.Args[i]) {
						continue
					}
					nsites++
					o := r.Ob(R, fi.Name()+"#"+nm+"("+exprStr(c.Args[i])+")", c.Pos())
					if nm == "Errorf" && haveFormat && verbOf(format, i-first) == 'w' {
						o.OK("wrapped with %%w: errors.Is/As still find the original error")
						continue
					}
					if nm == "Errorf" && !haveFormat {
						o.Unknown("the format of fmt.Errorf is not a constant: cannot tell whether %s is wrapped with %%w", exprStr(c.Args[i]))
						continue
					}
					o.Bad("%s.%s builds a new value from the error %s: the error returned further up is neither the original (the failing writer's error) nor wraps it", pk, nm, exprStr(c.Args[i]))
				}
			}
		}
	}
	// the expected count of re-creations is zero: record what was scanned
	r.Ob(R, "scriggo+runtime#error-creating-calls-scanned", 0).OK("%d functions scanned, %d error-typed arguments of error-creating calls found", nfuncs, nsites)
	r.Require(R, 1)
}

// verbOf returns the verb letter consumed by the n-th operand of a format (0 when not found);
// explicit argument indexes are not supported (0).
func verbOf(format string, n int) byte {
	k := 0
	for i := 0; i < len(format); i++ {
		if format[i] != '%' {
			continue
		}
		i++
		for i < len(format) && strings.IndexByte("+-# 0123456789.", format[i]) >= 0 {
			i++
		}
		if i >= len(format) {
			return 0
		}
		if format[i] == '%' {
			continue
		}
		if format[i] == '[' || format[i] == '*' {
			return 0
		}
		if k == n {
			return format[i]
		}
		k++
	}
	return 0
}
