package main

// C24 R-1, second accepted form of the HTML escaper (met in the false-alarm corpus): instead of one counting
// switch and one writing switch, both passes ask ONE function of the package for the entity of a byte
// (`e := htmlEntity(s[i])`, empty for an ordinary byte). The same obligations are decided on that form:
// the function maps exactly the five characters to a non-empty constant, each constant decodes to its
// character, the first pass adds len(e)-1 only where e is non-empty, the second pass copies e at the
// output index and advances by what it copied, an ordinary byte is stored and advances by one, and the
// buffer has len(s)+n bytes. The byte→entity function is evaluated from its syntax over all 256 bytes (E2).

import (
	"fmt"
	"go/ast"
	"go/token"
	"go/types"
	"html"
	"os"
	"sort"

	"golang.org/x/tools/go/cfg"
)

// c24EvalByteToString returns, for a function of one byte parameter made of a switch over the parameter
// whose clauses return constants, followed by a constant return, the result for every byte.
func c24EvalByteToString(info *types.Info, h *FuncInfo) (map[int64]string, bool) {
	if h.Decl.Type.Params.NumFields() != 1 || len(h.Decl.Type.Params.List[0].Names) != 1 {
		return nil, false
	}
	par := info.Defs[h.Decl.Type.Params.List[0].Names[0]]
	out := map[int64]string{}
	set := map[int64]bool{}
	deflt, hasDeflt := "", false
	for _, st := range h.Decl.Body.List {
		switch x := st.(type) {
		case *ast.SwitchStmt:
			if x.Init != nil || x.Tag == nil {
				return nil, false
			}
			if id, ok := ast.Unparen(x.Tag).(*ast.Ident); !ok || info.Uses[id] != par {
				return nil, false
			}
			for _, cs := range x.Body.List {
				cc := cs.(*ast.CaseClause)
				if len(cc.Body) != 1 {
					return nil, false
				}
				rs, ok := cc.Body[0].(*ast.ReturnStmt)
				if !ok || len(rs.Results) != 1 {
					return nil, false
				}
				lit, ok := stringValue(info, rs.Results[0])
				if !ok {
					return nil, false
				}
				if cc.List == nil {
					deflt, hasDeflt = lit, true
					continue
				}
				for _, e := range cc.List {
					v, ok := intValue(info, e)
					if !ok || set[v] {
						return nil, false
					}
					set[v], out[v] = true, lit
				}
			}
		case *ast.IfStmt:
			// if c == 'x' { return "lit" }
			be, ok := ast.Unparen(x.Cond).(*ast.BinaryExpr)
			if !ok || be.Op != token.EQL || x.Else != nil || x.Init != nil || len(x.Body.List) != 1 {
				return nil, false
			}
			id, ok := ast.Unparen(be.X).(*ast.Ident)
			v, vok := intValue(info, be.Y)
			rs, rok := x.Body.List[0].(*ast.ReturnStmt)
			if !ok || info.Uses[id] != par || !vok || !rok || len(rs.Results) != 1 || hasDeflt {
				return nil, false
			}
			lit, ok := stringValue(info, rs.Results[0])
			if !ok {
				return nil, false
			}
			if !set[v] {
				set[v], out[v] = true, lit
			}
		case *ast.ReturnStmt:
			if len(x.Results) != 1 || hasDeflt {
				return nil, false
			}
			lit, ok := stringValue(info, x.Results[0])
			if !ok {
				return nil, false
			}
			deflt, hasDeflt = lit, true
		default:
			return nil, false
		}
	}
	if !hasDeflt {
		return nil, false
	}
	for b := int64(0); b < 256; b++ {
		if !set[b] {
			out[b] = deflt
		}
	}
	return out, true
}

func c24EntityForm(r *Run, fi *FuncInfo, subj *types.Var, key string) bool {
	const R1 = "R-1"
	info := fi.Pkg.TypesInfo
	isByteOfS := func(e ast.Expr) bool {
		e = ast.Unparen(e)
		if ix, ok := e.(*ast.IndexExpr); ok {
			id, ok := ast.Unparen(ix.X).(*ast.Ident)
			return ok && info.Uses[id] == subj
		}
		if id, ok := e.(*ast.Ident); ok {
			if v, ok := info.Uses[id].(*types.Var); ok {
				rhs, clean := c11Defs(info, fi.Decl.Body, v)
				if clean && len(rhs) == 1 {
					if ix, ok := ast.Unparen(rhs[0]).(*ast.IndexExpr); ok {
						id, ok := ast.Unparen(ix.X).(*ast.Ident)
						return ok && info.Uses[id] == subj
					}
				}
			}
		}
		return false
	}
	// the entity function: every call in the body to a func(byte) string of the package with a byte of s
	var h *FuncInfo
	type evar struct {
		obj  types.Object
		def  *ast.AssignStmt
		byt  ast.Expr
		call *ast.CallExpr
	}
	var evars []*evar
	ast.Inspect(fi.Decl.Body, func(n ast.Node) bool {
		as, ok := n.(*ast.AssignStmt)
		if !ok || len(as.Lhs) != 1 || len(as.Rhs) != 1 {
			return true
		}
		call, ok := ast.Unparen(as.Rhs[0]).(*ast.CallExpr)
		if !ok || len(call.Args) != 1 || !isByteOfS(call.Args[0]) {
			return true
		}
		hf := callee(info, call)
		if hf == nil || hf.Pkg() != fi.Obj.Pkg() {
			return true
		}
		sig, ok := hf.Type().(*types.Signature)
		if !ok || sig.Params().Len() != 1 || sig.Results().Len() != 1 {
			return true
		}
		if b, ok := sig.Results().At(0).Type().Underlying().(*types.Basic); !ok || b.Kind() != types.String {
			return true
		}
		for _, g := range r.P.Funcs("") {
			if g.Obj == hf && !r.P.isTestFile(g.File) {
				if h != nil && h.Obj != g.Obj {
					h = nil
					return false
				}
				h = g
			}
		}
		id, ok := as.Lhs[0].(*ast.Ident)
		if !ok {
			return true
		}
		obj := info.Defs[id]
		if obj == nil {
			obj = info.Uses[id]
		}
		evars = append(evars, &evar{obj, as, call.Args[0], call})
		return true
	})
	if os.Getenv("C24_DEBUG") != "" {
		fmt.Fprintf(os.Stderr, "c24 entity form: h=%v evars=%d\n", h != nil, len(evars))
	}
	if h == nil || len(evars) < 2 {
		return false
	}
	table, ok := c24EvalByteToString(info, h)
	if !ok {
		r.Ob(R1, key+"#entity-function", h.Decl.Pos()).Unknown("%s is not a switch over its parameter returning constants: the rule cannot evaluate it", h.Name())
		return true
	}
	hk := funcKey(h.Obj)
	// case set
	set := map[int64]bool{}
	for b, e := range table {
		if e != "" {
			set[b] = true
		}
	}
	o := r.Ob(R1, key+"#caseset:entity", h.Decl.Pos())
	if c07SetStr(set) != c07SetStr(c24Five) {
		o.Bad("%s gives an entity for %s; the five characters are %s (extra %s, missing %s)", hk, c07SetStr(set), c07SetStr(c24Five), c07SetStr(c07Minus(set, c24Five)), c07SetStr(c07Minus(c24Five, set)))
	} else {
		o.OK("%s gives an entity exactly for %s", hk, c07SetStr(set))
	}
	var chars []int64
	for v := range c24Five {
		chars = append(chars, v)
	}
	sort.Slice(chars, func(i, j int) bool { return chars[i] < chars[j] })
	for _, ch := range chars {
		o := r.Ob(R1, key+"#entity:"+fmt.Sprintf("0x%02x", ch), h.Decl.Pos())
		if e := table[ch]; e == "" {
			o.Bad("%s has no entity for %s", hk, c07Ch(ch))
		} else if got := html.UnescapeString(e); got == string(rune(ch)) {
			o.OK("html.UnescapeString(%q) = %q", e, got)
		} else {
			o.Bad("for %s the entity is %q, and html.UnescapeString gives %q", c07Ch(ch), e, got)
		}
	}

	c := r.P.CFGOf(fi)
	// nonEmptyOnly: every path from the definition of e to site crosses an edge on which e != "" holds
	isEmptyLit := func(l Lit, e types.Object) (isEmpty bool, ok bool) {
		be, isBin := ast.Unparen(l.Expr).(*ast.BinaryExpr)
		if !isBin || (be.Op != token.EQL && be.Op != token.NEQ) {
			return false, false
		}
		x, y := ast.Unparen(be.X), ast.Unparen(be.Y)
		if s, ok := stringValue(info, x); ok && s == "" {
			x, y = y, x
		}
		if s, ok := stringValue(info, y); !ok || s != "" {
			// len(e) == 0
			if v, ok := intValue(info, y); ok && v == 0 {
				if lc, ok := x.(*ast.CallExpr); ok && isBuiltinCall(info, lc, "len") && len(lc.Args) == 1 {
					x = ast.Unparen(lc.Args[0])
				} else {
					return false, false
				}
			} else {
				return false, false
			}
		}
		id, isId := x.(*ast.Ident)
		if !isId || info.Uses[id] != e {
			return false, false
		}
		return (be.Op == token.EQL) == l.Truth, true
	}
	guarded := func(ev *evar, site ast.Node, wantEmpty bool) bool {
		db, _ := c.Locate(ev.def)
		sb, _ := c.Locate(site)
		if db == nil || sb == nil {
			return false
		}
		return !c.reachable(db, sb, func(b *cfg.Block, i int) bool {
			for _, l := range c.edgeLits(b, i) {
				if emp, ok := isEmptyLit(l, ev.obj); ok && emp == wantEmpty {
					return true
				}
			}
			return false
		}, nil)
	}
	lenMinus1 := func(e ast.Expr, obj types.Object) bool {
		be, ok := ast.Unparen(e).(*ast.BinaryExpr)
		if !ok || be.Op != token.SUB {
			return false
		}
		if v, ok := intValue(info, be.Y); !ok || v != 1 {
			return false
		}
		lc, ok := ast.Unparen(be.X).(*ast.CallExpr)
		if !ok || !isBuiltinCall(info, lc, "len") || len(lc.Args) != 1 {
			return false
		}
		id, ok := ast.Unparen(lc.Args[0]).(*ast.Ident)
		return ok && info.Uses[id] == obj
	}
	var nObj, jObj, bObj types.Object
	var countEv, writeEv *evar
	var countSite, writeSite ast.Node
	advanceOK, advanceWhy := false, ""
	for _, ev := range evars {
		ast.Inspect(fi.Decl.Body, func(n ast.Node) bool {
			as, ok := n.(*ast.AssignStmt)
			if !ok || len(as.Lhs) != 1 || len(as.Rhs) != 1 || as.Tok != token.ADD_ASSIGN {
				return true
			}
			id, ok := ast.Unparen(as.Lhs[0]).(*ast.Ident)
			if !ok {
				return true
			}
			if lenMinus1(as.Rhs[0], ev.obj) && countEv == nil {
				nObj, countEv, countSite = info.Uses[id], ev, as
			}
			if call, ok := ast.Unparen(as.Rhs[0]).(*ast.CallExpr); ok && isBuiltinCall(info, call, "copy") && len(call.Args) == 2 {
				if src, ok := ast.Unparen(call.Args[1]).(*ast.Ident); ok && info.Uses[src] == ev.obj && writeEv == nil {
					writeEv, writeSite, jObj = ev, as, info.Uses[id]
					if se, ok := ast.Unparen(call.Args[0]).(*ast.SliceExpr); ok && se.High == nil && se.Low != nil {
						b, ok1 := ast.Unparen(se.X).(*ast.Ident)
						j, ok2 := ast.Unparen(se.Low).(*ast.Ident)
						if ok1 && ok2 && info.Uses[j] == jObj {
							bObj, advanceOK = info.Uses[b], true
						} else {
							advanceWhy = "the entity is not copied at " + exprStr(se.X) + "[" + id.Name + ":]"
						}
					} else {
						advanceWhy = "the destination of the copy is not buf[j:]"
					}
				}
			}
			return true
		})
	}
	o = r.Ob(R1, key+"#counted:entity", fi.Decl.Pos())
	switch {
	case countEv == nil:
		o.Unknown("no statement `n += len(e) - 1` on a result of %s found in the first pass", hk)
	case !guarded(countEv, countSite, false):
		o.pos(r, countSite.Pos())
		o.Bad("%s is added where the entity may be empty: an ordinary byte subtracts one from the size of the buffer", exprStr(countSite.(*ast.AssignStmt).Rhs[0]))
	default:
		o.pos(r, countSite.Pos())
		o.OK("the first pass adds len(entity)-1 to %s only where the entity is not empty", nObj.Name())
	}
	o = r.Ob(R1, key+"#advance:entity", fi.Decl.Pos())
	switch {
	case writeEv == nil:
		o.Unknown("no statement `j += copy(buf[j:], e)` on a result of %s found in the second pass", hk)
	case !advanceOK:
		o.pos(r, writeSite.Pos())
		o.Bad("%s", advanceWhy)
	case writeEv == countEv:
		o.Unknown("the two passes share one call of %s: shape not understood", hk)
	default:
		o.pos(r, writeSite.Pos())
		o.OK("the second pass copies the entity at %s[%s:] and advances %s by the number of bytes copied", bObj.Name(), jObj.Name(), jObj.Name())
	}
	// ordinary byte: buf[j] = the byte, j++, only where the entity is empty
	o = r.Ob(R1, key+"#default:write", fi.Decl.Pos())
	if writeEv == nil || bObj == nil {
		o.Unknown("second pass not recognised")
	} else {
		var store *ast.AssignStmt
		var inc ast.Stmt
		ast.Inspect(fi.Decl.Body, func(n ast.Node) bool {
			switch x := n.(type) {
			case *ast.AssignStmt:
				if len(x.Lhs) == 1 && len(x.Rhs) == 1 && x.Tok == token.ASSIGN {
					if ix, ok := ast.Unparen(x.Lhs[0]).(*ast.IndexExpr); ok {
						b, ok1 := ast.Unparen(ix.X).(*ast.Ident)
						j, ok2 := ast.Unparen(ix.Index).(*ast.Ident)
						if ok1 && ok2 && info.Uses[b] == bObj && info.Uses[j] == jObj && isByteOfS(x.Rhs[0]) {
							store = x
						}
					}
				}
			case *ast.IncDecStmt:
				if id, ok := ast.Unparen(x.X).(*ast.Ident); ok && x.Tok == token.INC && info.Uses[id] == jObj {
					inc = x
				}
			}
			return true
		})
		switch {
		case store == nil:
			o.Bad("no store of the current byte at %s[%s]: ordinary bytes are not copied", bObj.Name(), jObj.Name())
		case inc == nil:
			o.pos(r, store.Pos())
			o.Bad("%s is not advanced by one after an ordinary byte is stored", jObj.Name())
		case !guarded(writeEv, store, true):
			o.pos(r, store.Pos())
			o.Bad("the byte is stored also where it has an entity: the character is written unescaped")
		default:
			sb, _ := c.Locate(store)
			ib, _ := c.Locate(inc)
			if sb == nil || sb != ib {
				o.pos(r, store.Pos())
				o.Unknown("the store of the byte and the advance of %s are not in one block", jObj.Name())
			} else {
				o.pos(r, store.Pos())
				o.OK("where the entity is empty: %s[%s] = the byte; %s advances by 1", bObj.Name(), jObj.Name(), jObj.Name())
			}
		}
	}
	if bObj != nil && nObj != nil {
		c24BufferSize(r, key, fi, info, bObj, nObj, subj)
	}
	if nObj != nil && countSite != nil {
		want := map[int64]int64{}
		for b, e := range table {
			if e != "" {
				want[b] = int64(len(e)) - 1
			}
		}
		c24CounterWrites(r, key, fi, nObj, subj, want, countSite)
	}
	r.Require(R1, 5*3+5)
	return true
}
