package main

// C01 R-10 (added after seed C01-4): an iteration variable is a copy.
//
// "The iteration values are assigned to the respective iteration variables" (Go specification, For statements
// with range clause): the variable holds a copy of the element, so modifying it in the body does not modify
// the ranged slice, array or map. In the run loop's clause of the range operation the element comes from the
// container as a reflect.Value — (reflect.Value).Index, (*reflect.MapIter).Key / Value — which for a slice or
// an addressable array is ADDRESSABLE and aliases the element: stored as it is in a general register, a struct
// or array iteration variable that the body modifies writes through into the container. Every call in that
// clause of the VM method that stores a reflect.Value in a register must therefore receive such an element
// through a copying helper: a function of the package from reflect.Value to reflect.Value whose body allocates
// (reflect.New), copies (Set) and selects both composite value kinds (reflect.Array and reflect.Struct).
// A local handed to the setter is followed to its definitions in the clause. The rule decides that the copy is
// on the path, not the values copied.

import (
	"go/ast"
	"go/types"
)

func init() {
	p := registry["C01"]
	if p == nil {
		return
	}
	run := p.run
	p.run = func(r *Run) {
		run(r)
		if r.P.Arch == "" {
			c01RangeCopies(r)
		}
	}
	p.explain += " R-10: in the range operation's clause every container element stored in a register goes through the copying helper (iteration variables are copies)."
}

func c01RangeCopies(r *Run) {
	const R = "R-10"
	r.Require(R, 3)
	runFn := r.NeedFunc(R, "internal/runtime", "(*VM).run")
	if runFn == nil {
		return
	}
	info := runFn.Pkg.TypesInfo
	isReflectValue := func(t types.Type) bool {
		n, ok := t.(*types.Named)
		return ok && n.Obj().Pkg() != nil && n.Obj().Pkg().Path() == "reflect" && n.Obj().Name() == "Value"
	}
	var clause *ast.CaseClause
	ast.Inspect(runFn.Decl.Body, func(n ast.Node) bool {
		cc, ok := n.(*ast.CaseClause)
		if !ok || clause != nil {
			return clause == nil
		}
		for _, e := range cc.List {
			if id, ok := ast.Unparen(e).(*ast.Ident); ok {
				if c, ok := info.Uses[id].(*types.Const); ok && c.Name() == "OpRange" && c.Pkg() == runFn.Pkg.Types {
					clause = cc
					return false
				}
			}
		}
		return true
	})
	if !r.Anchor(R, "the clause of OpRange in the run loop", clause != nil) {
		return
	}
	funcs := map[*types.Func]*FuncInfo{}
	for _, f := range r.P.Funcs("internal/runtime") {
		if f.Obj != nil && !r.P.isTestFile(f.File) {
			funcs[f.Obj] = f
		}
	}
	// isCopyHelper: func(reflect.Value) reflect.Value of the package that allocates, copies and names both kinds
	isCopyHelper := func(fn *types.Func) (bool, string) {
		fi := funcs[fn]
		if fi == nil || fi.Decl.Body == nil {
			return false, "not a function of the package"
		}
		sig := fn.Type().(*types.Signature)
		if sig.Recv() != nil || sig.Params().Len() != 1 || sig.Results().Len() != 1 || !isReflectValue(sig.Params().At(0).Type()) || !isReflectValue(sig.Results().At(0).Type()) {
			return false, "not a function from reflect.Value to reflect.Value"
		}
		var hasNew, hasSet, arr, str bool
		ast.Inspect(fi.Decl.Body, func(n ast.Node) bool {
			switch x := n.(type) {
			case *ast.CallExpr:
				if sel, ok := ast.Unparen(x.Fun).(*ast.SelectorExpr); ok {
					if f, ok := info.Uses[sel.Sel].(*types.Func); ok && f.Pkg() != nil && f.Pkg().Path() == "reflect" {
						switch f.Name() {
						case "New":
							hasNew = true
						case "Set":
							hasSet = true
						}
					}
				}
			case *ast.SelectorExpr:
				if c, ok := info.Uses[x.Sel].(*types.Const); ok && c.Pkg() != nil && c.Pkg().Path() == "reflect" {
					switch c.Name() {
					case "Array":
						arr = true
					case "Struct":
						str = true
					}
				}
			}
			return true
		})
		switch {
		case !hasNew || !hasSet:
			return false, "the helper does not allocate and copy (reflect.New, Set)"
		case !arr || !str:
			return false, "the helper does not select both reflect.Array and reflect.Struct"
		}
		return true, ""
	}
	isElemAccessor := func(e ast.Expr) (string, bool) {
		call, ok := ast.Unparen(e).(*ast.CallExpr)
		if !ok {
			return "", false
		}
		sel, ok := ast.Unparen(call.Fun).(*ast.SelectorExpr)
		if !ok {
			return "", false
		}
		f, ok := info.Uses[sel.Sel].(*types.Func)
		if !ok || f.Pkg() == nil || f.Pkg().Path() != "reflect" {
			return "", false
		}
		switch f.Name() {
		case "Index", "Key", "Value", "MapIndex", "Elem", "Field":
			return f.FullName(), true
		}
		return "", false
	}
	// definitions of locals in the clause
	defs := map[types.Object][]ast.Expr{}
	ast.Inspect(clause, func(n ast.Node) bool {
		as, ok := n.(*ast.AssignStmt)
		if !ok || len(as.Lhs) != len(as.Rhs) {
			return true
		}
		for i, l := range as.Lhs {
			if id, ok := l.(*ast.Ident); ok {
				o := info.Defs[id]
				if o == nil {
					o = info.Uses[id]
				}
				if o != nil {
					defs[o] = append(defs[o], as.Rhs[i])
				}
			}
		}
		return true
	})
	// verdict of a value expression: "copied", "aliased <accessor>", "other"
	var classify func(e ast.Expr, depth int) (string, string)
	classify = func(e ast.Expr, depth int) (string, string) {
		e = ast.Unparen(e)
		if acc, ok := isElemAccessor(e); ok {
			return "aliased", acc
		}
		if call, ok := e.(*ast.CallExpr); ok && len(call.Args) == 1 {
			if id, ok := ast.Unparen(call.Fun).(*ast.Ident); ok {
				if fn, ok := info.Uses[id].(*types.Func); ok {
					if ok, why := isCopyHelper(fn); ok {
						return "copied", fn.Name()
					} else if isReflectValue(info.TypeOf(call)) {
						if k, acc := classify(call.Args[0], depth+1); k == "aliased" {
							return "aliased", acc + " through " + fn.Name() + " (" + why + ")"
						}
					}
				}
			}
		}
		if id, ok := e.(*ast.Ident); ok && depth < 3 {
			if o := info.Uses[id]; o != nil {
				for _, d := range defs[o] {
					if k, acc := classify(d, depth+1); k == "aliased" {
						return k, acc
					}
				}
			}
		}
		return "other", ""
	}
	ast.Inspect(clause, func(n ast.Node) bool {
		call, ok := n.(*ast.CallExpr)
		if !ok || len(call.Args) != 2 {
			return true
		}
		sel, ok := ast.Unparen(call.Fun).(*ast.SelectorExpr)
		if !ok {
			return true
		}
		f, ok := info.Uses[sel.Sel].(*types.Func)
		if !ok || f.Pkg() != runFn.Pkg.Types {
			return true
		}
		sig := f.Type().(*types.Signature)
		if sig.Recv() == nil || sig.Params().Len() != 2 || !isReflectValue(sig.Params().At(1).Type()) {
			return true
		}
		o := r.Ob(R, runFn.Name()+"#range-store:"+f.Name(), call.Pos())
		switch k, what := classify(call.Args[1], 0); k {
		case "aliased":
			o.Bad("the iteration variable receives the result of %s as it is: for a slice or an addressable array it aliases the element, so modifying a struct or array iteration variable in the body modifies the container (gc assigns a copy)", what)
		case "copied":
			o.OK("the value stored goes through the copying helper %s (allocates, copies, selects Array and Struct)", what)
		default:
			o.Trivial("the value stored is not a container element obtained in this clause")
		}
		return true
	})
}
