package main

// C25 — builtin functions honour their documentation and never panic instead of returning an error.
//
// R-1 byte-indexed tables (types): an array or constant string indexed by a non-constant expression
//     of type byte has at least 256 elements, or the index is bounded by construction (an arithmetic
//     function of one byte whose maximum is below the length) or by a dominating comparison.
// R-2 error-returning builtins do not panic: from every exported function or method of package builtin
//     with an `error` result, no explicit panic and no unchecked type assertion is reachable through
//     static callees inside the module, and every call into the yaml package is preceded on every
//     path by a deferred closure that recovers and assigns the named error result.
// R-3 pure wrappers (E10): a builtin whose body is `return pkg.F(params…)` of a function outside the
//     module passes each parameter once, at the position of the callee's parameter of the same role.
// R-4 QueryEscape pass-through class = C07 R-3 applied to builtin.QueryEscape, plus agreement of the
//     counting and writing passes and the percent triple.
//
// Uses the one-variable walker of c07.go (c07LoopPass, c07PercentTriple, c07Walker.eval).

import (
	"fmt"
	"go/ast"
	"go/token"
	"go/types"
	"strings"

	"golang.org/x/tools/go/cfg"
)

func init() {
	register("C25", &ruleSet{
		explain: "Structural necessary conditions of 'each builtin returns what its documentation states and functions documented to return an error never panic': (R-1) every array / constant string of the module indexed by a byte-typed expression can be indexed by all values the expression takes (length >= 256, or the index is an arithmetic function of one byte with maximum below the length, or a dominating comparison bounds it); (R-2) for the exported functions and methods of package builtin that return an error, the static call closure inside the module contains no explicit panic and no single-value type assertion outside the reviewed exceptions, and calls into gopkg.in/yaml.v3 happen after a deferred recover that sets the named error; (R-3) builtins that only forward to one function outside the module pass every parameter exactly once at the matching position; (R-4) builtin.QueryEscape copies only RFC 3986 unreserved bytes, its two passes agree on that class, and the escape it writes percent-decodes to the byte.",
		notCov:  []string{"Abbreviate's length bound, case/search helpers versus their Unicode definitions (numeric/semantic)", "run-time panics other than byte-indexed tables: slice/string indexing by int (engine E6 is not part of this rule set), nil dereference, panics raised inside the standard library", "dynamic calls (interface methods, function values) are not followed in R-2", "builtins documented to panic (FormatFloat, FormatInt, RegExp, IndentJSON, Sort, Reverse, FormData methods): out of the clause"},
		trusted: []string{"strconv.ParseFloat/ParseInt return errors of concrete type *strconv.NumError (documented)", "parameter names of standard-library functions as read from their source", "RFC 3986 §2.3 unreserved set"},
		run:     runC25,
	})
}

// c25AssertExceptions: reviewed unchecked type assertions (one symbol, one reason).
var c25AssertExceptions = map[string]string{
	"builtin.ParseFloat#assert:*strconv.NumError": "strconv.ParseFloat documents: 'The errors that ParseFloat returns have concrete type *NumError'",
	"builtin.ParseInt#assert:*strconv.NumError":   "strconv.ParseInt documents: 'The errors that ParseInt returns have concrete type *NumError'",
}

func runC25(r *Run) {
	r.Exhaust = true
	c25R1(r)
	c25R2(r)
	c25R3(r)
	c25R4(r)
}

// ---------------------------------------------------------------------------
// R-1

func c25R1(r *Run) {
	const R1 = "R-1"
	n := 0
	for _, pk := range r.P.Pkgs {
		rel := strings.TrimPrefix(strings.TrimPrefix(pk.PkgPath, modulePath), "/")
		if r.P.Pkg(rel) != pk {
			continue
		}
		for _, fi := range r.P.Funcs(rel) {
			if r.P.isTestFile(fi.File) || fi.Obj == nil {
				continue
			}
			info := fi.Pkg.TypesInfo
			ast.Inspect(fi.Decl.Body, func(nd ast.Node) bool {
				ix, ok := nd.(*ast.IndexExpr)
				if !ok {
					return true
				}
				it, ok := info.TypeOf(ix.Index).(*types.Basic)
				if !ok || it.Kind() != types.Uint8 {
					return true // only expressions of the predeclared type byte/uint8; enum-typed indices are another invariant
				}
				if tv := info.Types[ix.Index]; tv.Value != nil {
					return true
				}
				var length int64 = -1
				what := ""
				if tv, ok := info.Types[ix.X]; ok && tv.Value != nil {
					if s, ok := stringValue(info, ix.X); ok {
						length, what = int64(len(s)), "constant string "+exprStr(ix.X)
					}
				} else if t := info.TypeOf(ix.X); t != nil {
					u := t.Underlying()
					if p, ok := u.(*types.Pointer); ok {
						u = p.Elem().Underlying()
					}
					if a, ok := u.(*types.Array); ok {
						length, what = a.Len(), "array "+exprStr(ix.X)
					}
				}
				if length < 0 {
					return true
				}
				n++
				name := exprStr(ix.X)
				if i := strings.LastIndexByte(name, '.'); i >= 0 {
					name = name[i+1:]
				}
				o := r.Ob(R1, funcKey(fi.Obj)+"#index:"+name, ix.Pos())
				if length >= 256 {
					o.OK("%s has %d >= 256 elements", what, length)
					return true
				}
				// bounded by construction
				if max, ok := c25MaxOfByteExpr(r.P, fi, ix.Index); ok {
					if max < length {
						o.OK("index %s is at most %d for every value of its byte operand, below the length %d of %s", exprStr(ix.Index), max, length, what)
						return true
					}
				}
				// bounded by a dominating comparison
				if c25Guarded(r.P, fi, ix, length) {
					o.OK("a dominating comparison bounds %s below %d", exprStr(ix.Index), length)
					return true
				}
				o.Bad("%s has %d elements but is indexed by %s of type byte, which can be up to 255, with no dominating bound: a byte >= %d makes the function panic with 'index out of range'", what, length, exprStr(ix.Index), length)
				return true
			})
		}
	}
	r.Stats["byte_indexed_sites"] = n
	r.Require(R1, 3)
}

// c25Binder finds the single byte operand of e (one byte-typed variable, or one x[i] of a string or
// []byte) and returns a walker plus a function binding that operand to a value.
func c25Binder(p *Prog, fi *FuncInfo, e ast.Expr) (*c07Walker, func(v int64) *c07State, bool) {
	info := fi.Pkg.TypesInfo
	w := c07NewWalker(p, fi)
	var vars []types.Object
	var idxs []*ast.IndexExpr
	ok := true
	ast.Inspect(e, func(n ast.Node) bool {
		switch x := n.(type) {
		case *ast.IndexExpr:
			idxs = append(idxs, x)
			return false
		case *ast.CallExpr:
			if tv, has := info.Types[x.Fun]; !(has && tv.IsType()) {
				ok = false
			}
		case *ast.Ident:
			if o, isVar := info.Uses[x].(*types.Var); isVar {
				vars = append(vars, o)
			}
		}
		return true
	})
	if !ok || len(vars)+len(idxs) != 1 {
		return nil, nil, false
	}
	if len(idxs) == 1 {
		a, ok1 := ast.Unparen(idxs[0].X).(*ast.Ident)
		b, ok2 := ast.Unparen(idxs[0].Index).(*ast.Ident)
		if !ok1 || !ok2 {
			return nil, nil, false
		}
		sv, ok := info.Uses[a].(*types.Var)
		if !ok {
			return nil, nil, false
		}
		switch u := sv.Type().Underlying().(type) {
		case *types.Basic:
			if u.Kind() != types.String {
				return nil, nil, false
			}
		case *types.Slice:
			if b, ok := u.Elem().Underlying().(*types.Basic); !ok || b.Kind() != types.Uint8 {
				return nil, nil, false
			}
		default:
			return nil, nil, false
		}
		w.subj, w.idx = sv, info.Uses[b]
		return w, func(v int64) *c07State {
			w.cur = v
			return &c07State{env: map[types.Object]c07Val{}}
		}, true
	}
	if b, ok := vars[0].Type().Underlying().(*types.Basic); !ok || b.Kind() != types.Uint8 {
		return nil, nil, false
	}
	return w, func(v int64) *c07State {
		return &c07State{env: map[types.Object]c07Val{vars[0]: c07Int(v)}}
	}, true
}

// c25MaxOfByteExpr evaluates e for the 256 values of the single byte it depends on.
func c25MaxOfByteExpr(p *Prog, fi *FuncInfo, e ast.Expr) (int64, bool) {
	w, bind, ok := c25Binder(p, fi, e)
	if !ok {
		return 0, false
	}
	max := int64(-1)
	for v := int64(0); v < 256; v++ {
		r := w.eval(e, bind(v))
		if r.k != 1 || r.i < 0 {
			return 0, false
		}
		if r.i > max {
			max = r.i
		}
	}
	return max, true
}

// c25Guarded: every path to the index site crosses an edge whose condition, read as a predicate over
// the index expression (E2), holds only for values below length.
func c25Guarded(p *Prog, fi *FuncInfo, ix *ast.IndexExpr, length int64) bool {
	info := fi.Pkg.TypesInfo
	w, bind, ok := c25Binder(p, fi, ix.Index)
	if !ok {
		return false
	}
	// operands of the index
	ops := map[types.Object]bool{}
	ast.Inspect(ix.Index, func(n ast.Node) bool {
		if id, ok := n.(*ast.Ident); ok {
			if v, ok := info.Uses[id].(*types.Var); ok {
				ops[v] = true
			}
		}
		return true
	})
	g := p.CFGOf(fi)
	// a guard literal: whenever it has the truth value of the edge, the index is below length
	// (both evaluated, with byte wrap-around, for the 256 values of the operand)
	isGuard := func(l Lit) bool {
		if l.Tag != nil || !w.pure(l.Expr) {
			return false
		}
		for v := int64(0); v < 256; v++ {
			st := bind(v)
			gv := w.eval(l.Expr, st)
			if gv.k != 2 {
				return false
			}
			if gv.b == l.Truth {
				if iv := w.eval(ix.Index, st); iv.k != 1 || iv.i < 0 || iv.i >= length {
					return false
				}
			}
		}
		return true
	}
	if !g.GuardedBy(ix, isGuard) {
		return false
	}
	// short-circuit guard inside the same expression: nothing can be assigned in between
	for _, l := range g.within(ix) {
		if isGuard(l) {
			return !c25Writes(info, ix.Index, ops, true)
		}
	}
	// no write to an operand may reach the site without crossing a guard edge again
	site, si := g.Locate(ix)
	cut := func(b *cfg.Block, i int) bool {
		for _, l := range g.edgeLits(b, i) {
			if isGuard(l) {
				return true
			}
		}
		return false
	}
	for _, b := range g.G.Blocks {
		for k, n := range b.Nodes {
			if !c25Writes(info, n, ops, false) {
				continue
			}
			if b == site && k < si {
				return false
			}
			if b == site && k == si {
				continue
			}
			for i, sc := range b.Succs {
				if cut(b, i) {
					continue
				}
				if sc == site || g.reachable(sc, site, cut, nil) {
					return false
				}
			}
		}
	}
	return true
}

// c25Writes reports whether node n assigns (or takes the address of) one of the variables.
func c25Writes(info *types.Info, n ast.Node, vars map[types.Object]bool, onlyAddr bool) bool {
	w := false
	is := func(e ast.Expr) bool {
		id, ok := ast.Unparen(e).(*ast.Ident)
		return ok && (vars[info.Uses[id]] || vars[info.Defs[id]])
	}
	ast.Inspect(n, func(nd ast.Node) bool {
		switch x := nd.(type) {
		case *ast.FuncLit:
			return false
		case *ast.AssignStmt:
			if !onlyAddr {
				for _, l := range x.Lhs {
					w = w || is(l)
				}
			}
		case *ast.IncDecStmt:
			w = w || (!onlyAddr && is(x.X))
		case *ast.RangeStmt:
			if !onlyAddr {
				w = w || (x.Key != nil && is(x.Key)) || (x.Value != nil && is(x.Value))
			}
		case *ast.UnaryExpr:
			w = w || (x.Op == token.AND && is(x.X))
		}
		return !w
	})
	return w
}

// ---------------------------------------------------------------------------
// R-2

type c25Hazard struct {
	node ast.Node
	key  string // construct detail
	desc string
}

// c25Hazards lists, for the body of fi, the constructs that can panic by the function's own doing:
// explicit panic, single-value type assertion, call into yaml, and calls to module functions whose
// closure contains one (with the chain).
func c25Hazards(p *Prog, fi *FuncInfo, memo map[*types.Func][]c25Hazard, stack map[*types.Func]bool) []c25Hazard {
	if h, ok := memo[fi.Obj]; ok {
		return h
	}
	if stack[fi.Obj] {
		return nil
	}
	stack[fi.Obj] = true
	defer delete(stack, fi.Obj)
	info := fi.Pkg.TypesInfo
	par := p.Parents(fi.File)
	var out []c25Hazard
	ast.Inspect(fi.Decl.Body, func(n ast.Node) bool {
		switch x := n.(type) {
		case *ast.CallExpr:
			if isBuiltinCall(info, x, "panic") {
				out = append(out, c25Hazard{x, "panic", "explicit panic(" + exprStr(x.Args[0]) + ")"})
				return true
			}
			fn := callee(info, x)
			if fn == nil || fn.Pkg() == nil {
				return true
			}
			if fn.Pkg().Path() == "gopkg.in/yaml.v3" {
				out = append(out, c25Hazard{x, "call:yaml." + fn.Name(), "call of yaml." + fn.Name() + " (the yaml package reports some failures by panicking)"})
				return true
			}
			if strings.HasPrefix(fn.Pkg().Path(), modulePath) {
				if cf := c07FuncOf(p, fn); cf != nil {
					for _, h := range c25Hazards(p, cf, memo, stack) {
						out = append(out, c25Hazard{x, "call:" + funcKey(fn) + ">" + h.key, "call of " + funcKey(fn) + ", which reaches " + h.desc})
					}
				}
			}
		case *ast.TypeAssertExpr:
			if x.Type == nil {
				return true // type switch
			}
			commaOK := false
			switch pp := par[x].(type) {
			case *ast.AssignStmt:
				commaOK = len(pp.Lhs) == 2 && len(pp.Rhs) == 1 && pp.Rhs[0] == x
			case *ast.ValueSpec:
				commaOK = len(pp.Names) == 2 && len(pp.Values) == 1 && pp.Values[0] == x
			}
			if !commaOK {
				out = append(out, c25Hazard{x, "assert:" + typeStr(info.TypeOf(x.Type)), "single-value type assertion " + exprStr(x)})
			}
		}
		return true
	})
	memo[fi.Obj] = out
	return out
}

// c25RecoverDefer: a `defer func() { … recover() … err = … }()` assigning a named error result of fi.
func c25RecoverDefer(fi *FuncInfo, n ast.Node) bool {
	d, ok := n.(*ast.DeferStmt)
	if !ok {
		return false
	}
	lit, ok := ast.Unparen(d.Call.Fun).(*ast.FuncLit)
	if !ok {
		return false
	}
	info := fi.Pkg.TypesInfo
	res := fi.Obj.Type().(*types.Signature).Results()
	errT := types.Universe.Lookup("error").Type()
	recovers, assigns := false, false
	ast.Inspect(lit.Body, func(m ast.Node) bool {
		switch x := m.(type) {
		case *ast.CallExpr:
			if isBuiltinCall(info, x, "recover") {
				recovers = true
			}
		case *ast.AssignStmt:
			for _, l := range x.Lhs {
				if id, ok := ast.Unparen(l).(*ast.Ident); ok {
					for i := 0; i < res.Len(); i++ {
						if info.Uses[id] == res.At(i) && types.Identical(res.At(i).Type(), errT) {
							assigns = true
						}
					}
				}
			}
		}
		return true
	})
	return recovers && assigns
}

func c25R2(r *Run) {
	const R2 = "R-2"
	errT := types.Universe.Lookup("error").Type()
	memo := map[*types.Func][]c25Hazard{}
	roots := 0
	for _, fi := range r.P.Funcs("builtin") {
		if r.P.isTestFile(fi.File) || fi.Obj == nil || !fi.Obj.Exported() {
			continue
		}
		res := fi.Obj.Type().(*types.Signature).Results()
		hasErr := false
		for i := 0; i < res.Len(); i++ {
			hasErr = hasErr || types.Identical(res.At(i).Type(), errT)
		}
		if !hasErr {
			continue
		}
		roots++
		key := funcKey(fi.Obj)
		hz := c25Hazards(r.P, fi, memo, map[*types.Func]bool{})
		if len(hz) == 0 {
			r.Ob(R2, key+"#no-panic", fi.Decl.Pos()).OK("no explicit panic, unchecked type assertion or yaml call in %s or its static callees inside the module", key)
			continue
		}
		g := r.P.CFGOf(fi)
		for _, h := range hz {
			construct := key + "#" + h.key
			o := r.Ob(R2, construct, h.node.Pos())
			blk, _ := g.Locate(h.node)
			under := blk != nil && g.MustPassNode(h.node, func(n ast.Node) bool { return c25RecoverDefer(fi, n) })
			switch {
			case under:
				o.OK("%s is preceded on every path by a deferred closure that recovers and assigns the named error result", h.desc)
			case c25AssertExceptions[construct] != "":
				o.Trivial("exception: %s", c25AssertExceptions[construct])
			case blk == nil:
				o.Unknown("%s: site not found in the control-flow graph (inside a function literal?)", h.desc)
			default:
				o.Bad("%s documents an error result but %s with no deferred recover before it: the caller gets a panic instead of an error", key, h.desc)
			}
		}
	}
	r.Stats["error_returning_builtins"] = roots
	r.Require(R2, 11)
}

// ---------------------------------------------------------------------------
// R-3

func c25R3(r *Run) {
	const R3 = "R-3"
	for _, fi := range r.P.Funcs("builtin") {
		if r.P.isTestFile(fi.File) || fi.Obj == nil || !fi.Obj.Exported() || len(fi.Decl.Body.List) != 1 {
			continue
		}
		ret, ok := fi.Decl.Body.List[0].(*ast.ReturnStmt)
		if !ok || len(ret.Results) != 1 {
			continue
		}
		info := fi.Pkg.TypesInfo
		var call *ast.CallExpr
		ncalls := 0
		for _, c := range calls(ret, true) {
			if tv, ok := info.Types[c.Fun]; ok && tv.IsType() {
				continue
			}
			ncalls++
			call = c
		}
		if ncalls != 1 {
			continue
		}
		fn := callee(info, call)
		if fn == nil || fn.Pkg() == nil || strings.HasPrefix(fn.Pkg().Path(), modulePath) {
			continue
		}
		sig := fi.Obj.Type().(*types.Signature)
		csig := fn.Type().(*types.Signature)
		if sig.Params().Len() < 2 || len(call.Args) != sig.Params().Len() {
			continue // nothing to order, or not a pure forwarder
		}
		// every argument must be a parameter (or a field of one)
		argPar := make([]int, len(call.Args))
		pure := true
		for i, a := range call.Args {
			a = ast.Unparen(a)
			for {
				if s, ok := a.(*ast.SelectorExpr); ok {
					a = ast.Unparen(s.X)
					continue
				}
				break
			}
			id, ok := a.(*ast.Ident)
			argPar[i] = -1
			if ok {
				for k := 0; k < sig.Params().Len(); k++ {
					if info.Uses[id] == sig.Params().At(k) {
						argPar[i] = k
					}
				}
			}
			if argPar[i] < 0 {
				pure = false
			}
		}
		if !pure {
			// not a pure forwarder; but a one-line forwarder with as many arguments as parameters that
			// never mentions one of its parameters has dropped it
			var dropped []string
			for k := 0; k < sig.Params().Len(); k++ {
				usedAny := false
				ast.Inspect(ret, func(n ast.Node) bool {
					if id, ok := n.(*ast.Ident); ok && info.Uses[id] == sig.Params().At(k) {
						usedAny = true
					}
					return !usedAny
				})
				if !usedAny && sig.Params().At(k).Name() != "_" {
					dropped = append(dropped, sig.Params().At(k).Name())
				}
			}
			if len(dropped) > 0 {
				r.Ob(R3, funcKey(fi.Obj)+"#forwards:"+fn.Pkg().Name()+"."+fn.Name(), call.Pos()).Bad("%s only forwards to %s.%s but never uses its parameter(s) %s: the documented argument has no effect", fi.Name(), fn.Pkg().Name(), fn.Name(), strings.Join(dropped, ", "))
			}
			continue
		}
		cname := func(k int) string {
			n := csig.Params().Len()
			if k >= n {
				k = n - 1
			}
			return csig.Params().At(k).Name()
		}
		cnames := map[string]int{}
		for k := 0; k < csig.Params().Len(); k++ {
			cnames[csig.Params().At(k).Name()] = k
		}
		o := r.Ob(R3, funcKey(fi.Obj)+"#forwards:"+fn.Pkg().Name()+"."+fn.Name(), call.Pos())
		used := map[int]int{}
		var bad, unk []string
		for i, k := range argPar {
			used[k]++
			wn := sig.Params().At(k).Name()
			switch j, named := cnames[wn]; {
			case wn == cname(i):
			case named && j != i && types.Identical(sig.Params().At(k).Type(), csig.Params().At(min(i, csig.Params().Len()-1)).Type()):
				bad = append(bad, fmt.Sprintf("argument %d is the parameter %q, but %s.%s takes %q there and %q at position %d", i+1, wn, fn.Pkg().Name(), fn.Name(), cname(i), wn, j+1))
			case k == i:
			default:
				unk = append(unk, fmt.Sprintf("argument %d is parameter %d (%q) and the names give no evidence for the reordering", i+1, k+1, wn))
			}
		}
		for k := 0; k < sig.Params().Len(); k++ {
			if used[k] != 1 {
				bad = append(bad, fmt.Sprintf("parameter %q is passed %d times", sig.Params().At(k).Name(), used[k]))
			}
		}
		switch {
		case len(bad) > 0:
			o.Bad("%s forwards to %s.%s with swapped or dropped parameters: %s", fi.Name(), fn.Pkg().Name(), fn.Name(), strings.Join(bad, "; "))
		case len(unk) > 0:
			o.Unknown("%s", strings.Join(unk, "; "))
		default:
			var ps []string
			for i := range argPar {
				ps = append(ps, sig.Params().At(argPar[i]).Name()+"→"+cname(i))
			}
			o.OK("%s.%s(%s): every parameter passed once at the matching position", fn.Pkg().Name(), fn.Name(), strings.Join(ps, ", "))
		}
	}
	r.Require(R3, 20)
}

// ---------------------------------------------------------------------------
// R-4

func c25R4(r *Run) {
	const R4 = "R-4"
	var qs []*FuncInfo
	for _, fi := range r.P.Funcs("builtin") {
		if r.P.isTestFile(fi.File) || fi.Obj == nil || !fi.Obj.Exported() || fi.Decl.Recv != nil || c07StrParam(fi) == nil {
			continue
		}
		if c07PercentTriple(r.P, fi).found {
			qs = append(qs, fi)
		}
	}
	if !r.Anchor(R4, "the exported percent-escaping function of package builtin (QueryEscape)", len(qs) == 1) {
		return
	}
	fi := qs[0]
	if fi.Decl.Name.Name != "QueryEscape" {
		r.Note("query escaper resolved by role to %s", fi.Name())
	}
	c07TripleObls(r, R4, fi)
	subj := c07StrParam(fi)
	loops := c07Loops(fi, subj)
	if !r.Anchor(R4, "counting loop and writing loop over the parameter of "+fi.Name(), len(loops) == 2) {
		return
	}
	var sets []c07PassResult
	for i, l := range loops {
		res := c07LoopPass(r.P, fi, subj, l, nil, c07ByteDomain())
		sets = append(sets, res)
		b := c07Binding{name: fmt.Sprintf("pass %d", i+1)}
		c07Within(r, R4, fi, b, res, "unreserved", c07Unreserved, "the RFC 3986 unreserved set {A-Z a-z 0-9 - . _ ~}")
	}
	o := r.Ob(R4, funcKey(fi.Obj)+"#passes-agree", loops[1].node.Pos())
	switch {
	case sets[0].undec != "" || sets[1].undec != "":
		o.Unknown("pass-through sets not computed")
	case c07SetStr(sets[0].pass) != c07SetStr(sets[1].pass):
		o.Bad("the counting pass treats %s as unescaped but the writing pass %s: the buffer of len(s)+2*numHex bytes does not fit what is written for %s", c07SetStr(sets[0].pass), c07SetStr(sets[1].pass), c07SetStr(c07Minus(c07Union(sets[0].pass, sets[1].pass), c07Inter(sets[0].pass, sets[1].pass))))
	default:
		o.OK("both passes copy exactly %s", c07SetStr(sets[0].pass))
	}
	r.Require(R4, 5)
}

func c07Union(a, b map[int64]bool) map[int64]bool {
	m := map[int64]bool{}
	for k := range a {
		m[k] = true
	}
	for k := range b {
		m[k] = true
	}
	return m
}
