package main

// C08 R-7 (added after a defect reported on the unmodified tree: complex(1, 2) was shown as "2i", also as
// a JSON object key). In the functions of package runtime that build the text of a shown value (file
// renderer.go and escapers.go), an accumulation into a local (`s += x`, `s = s + x`, `n += k`) whose
// result can never be read — every path from it reaches an overwriting assignment or the end of the
// function without a use of the variable — is a part of the output that is silently lost (the real part
// followed by `s = imaginary`). Decided by a forward walk on the control-flow graph from each accumulation.

import (
	"go/ast"
	"go/token"
	"go/types"

	"golang.org/x/tools/go/cfg"
)

func init() {
	p := registry["C08"]
	if p == nil {
		return
	}
	run := p.run
	p.run = func(r *Run) { run(r); c08DeadAccumulation(r) }
	p.explain += " R-7: in the renderer no accumulation into a local (s += x) is dead, i.e. overwritten or dropped on every path before being read."
}

func c08DeadAccumulation(r *Run) {
	const R = "R-7"
	n := 0
	for _, fi := range r.P.Funcs("internal/runtime") {
		if r.P.isTestFile(fi.File) {
			continue
		}
		if f := r.P.FileOf(fi.Decl.Pos()); f != "renderer.go" && f != "escapers.go" {
			continue
		}
		info := fi.Pkg.TypesInfo
		// locals captured by a closure are skipped (the flow graph does not order closure bodies)
		captured := map[types.Object]bool{}
		ast.Inspect(fi.Decl.Body, func(m ast.Node) bool {
			if fl, ok := m.(*ast.FuncLit); ok {
				ast.Inspect(fl.Body, func(q ast.Node) bool {
					if id, ok := q.(*ast.Ident); ok {
						if o := info.Uses[id]; o != nil {
							captured[o] = true
						}
					}
					return true
				})
				return false
			}
			return true
		})
		type acc struct {
			stmt *ast.AssignStmt
			obj  types.Object
		}
		var accs []acc
		ast.Inspect(fi.Decl.Body, func(m ast.Node) bool {
			if _, ok := m.(*ast.FuncLit); ok {
				return false
			}
			as, ok := m.(*ast.AssignStmt)
			if !ok || len(as.Lhs) != 1 || len(as.Rhs) != 1 {
				return true
			}
			o := objOfIdent(info, as.Lhs[0])
			v, isVar := o.(*types.Var)
			if o == nil || !isVar || v.IsField() || captured[o] || v.Parent() == v.Pkg().Scope() {
				return true
			}
			// named results are read by the return: skip them
			sig := fi.Obj.Type().(*types.Signature)
			for i := 0; i < sig.Results().Len(); i++ {
				if sig.Results().At(i) == v {
					return true
				}
			}
			isAcc := as.Tok == token.ADD_ASSIGN
			if as.Tok == token.ASSIGN {
				if be, ok := ast.Unparen(as.Rhs[0]).(*ast.BinaryExpr); ok && be.Op == token.ADD && objOfIdent(info, be.X) == o {
					isAcc = true
				}
			}
			if isAcc {
				accs = append(accs, acc{as, o})
			}
			return true
		})
		if len(accs) == 0 {
			continue
		}
		g := r.P.CFGOf(fi)
		for k, a := range accs {
			n++
			blk, idx := g.Locate(a.stmt)
			o := r.Ob(R, fi.Name()+"#"+a.obj.Name()+"+=:"+itoa(k+1), a.stmt.Pos())
			if blk == nil {
				o.OK("unreachable code")
				continue
			}
			// reads of obj in a node, other than as the sole LHS of a plain assignment
			reads := func(nd ast.Node) bool {
				found := false
				ast.Inspect(nd, func(q ast.Node) bool {
					if _, ok := q.(*ast.FuncLit); ok {
						return false
					}
					if as, ok := q.(*ast.AssignStmt); ok && as.Tok != token.ADD_ASSIGN && len(as.Lhs) == 1 && objOfIdent(info, as.Lhs[0]) == a.obj {
						// only the RHS is read
						for _, rh := range as.Rhs {
							ast.Inspect(rh, func(z ast.Node) bool {
								if id, ok := z.(*ast.Ident); ok && info.Uses[id] == a.obj {
									found = true
								}
								return true
							})
						}
						return false
					}
					if id, ok := q.(*ast.Ident); ok && info.Uses[id] == a.obj {
						found = true
					}
					return true
				})
				return found
			}
			kills := func(nd ast.Node) bool {
				as, ok := nd.(*ast.AssignStmt)
				if !ok || (as.Tok != token.ASSIGN && as.Tok != token.DEFINE) {
					return false
				}
				for _, l := range as.Lhs {
					if objOfIdent(info, l) == a.obj {
						return true
					}
				}
				return false
			}
			live := false
			seen := map[*cfg.Block]bool{}
			var walk func(b *cfg.Block, from int)
			walk = func(b *cfg.Block, from int) {
				if live {
					return
				}
				for i := from; i < len(b.Nodes); i++ {
					nd := b.Nodes[i]
					if reads(nd) {
						live = true
						return
					}
					if kills(nd) {
						return
					}
				}
				for _, s := range b.Succs {
					if !seen[s] {
						seen[s] = true
						walk(s, 0)
					}
				}
			}
			walk(blk, idx+1)
			if live {
				o.OK("the accumulated value reaches a read")
			} else {
				o.Bad("the value accumulated into %s here is never read: on every path it is overwritten by a plain assignment or the function ends — a part of the text of the shown value is silently dropped", a.obj.Name())
			}
		}
	}
	r.Require(R, 10)
}
