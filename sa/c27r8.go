package main

// C27 R-8 — printing and parsing are inverse on operator tokens.
//
// A node that stores an operator in an enum field (Assignment.Type, UnaryOperator.Op, BinaryOperator.Op) prints
// it as some text; the parser reads that text back as a token and maps the token to an enum value (the
// token -> enum functions of the parser: a switch over the token type returning constants of the enum). For
// every value the parser can store in the field, the text printed must be the spelling (compiler's token
// table) of a token that the parser maps back to THAT value: "x &= m" printed as "x &&= m" is no token, and
// printed as "x |= m" it is the token of another value.
//
// The text printed for the field is isolated without looking at how it is computed (switch, table of
// spellings, another enum's spelling + "=", helper): the String method is evaluated symbolically for each
// value with everything else fixed (operands that are no operators, one-element lists); the literal text that
// follows the same child in all the outputs and differs between values is the text printed for the value.
// Values the parser builds without a mapping function (OperatorNotContains from two tokens) only need to be
// printed as a sequence of spellings of the token table.

import (
	"fmt"
	"go/ast"
	"go/types"
	"sort"
	"strings"
)

func init() {
	p := registry["C27"]
	if p == nil {
		return
	}
	c27more = append(c27more, c27TokenInverse)
	p.explain += " R-8: for every node with a String method and an enum field that the parser fills from a token (through a function mapping token types to constants of the enum), and for every value the parser can store there, the text the method prints for the value is the spelling, in the compiler's token table, of a token that the parser maps back to the same value (for values built without such a function: a sequence of spellings of the table)."
}

// c27tokenMaps resolves, by role, the token spellings (token constant -> spelling) and the parser's
// token -> enum relation: enum type -> enum value -> spellings of the tokens mapped to it.
func (c *c27) tokenMaps() (spell map[int64]string, tokT *types.Named, back map[*types.Named]map[int64]map[string]bool, seqs map[*types.Named]map[int64][][]string, where []string) {
	pk := c.r.P.Pkg("internal/compiler")
	if pk == nil {
		return
	}
	info := pk.TypesInfo
	// the spelling table: the largest map literal from a named integer type of the package to strings
	for _, f := range pk.Syntax {
		if c.r.P.isTestFile(f) {
			continue
		}
		ast.Inspect(f, func(n ast.Node) bool {
			lit, ok := n.(*ast.CompositeLit)
			if !ok {
				return true
			}
			mt, ok := info.TypeOf(lit).Underlying().(*types.Map)
			if !ok {
				return true
			}
			kt, ok := mt.Key().(*types.Named)
			if !ok || kt.Obj().Pkg() != pk.Types {
				return true
			}
			if b, ok := mt.Elem().Underlying().(*types.Basic); !ok || b.Info()&types.IsString == 0 {
				return true
			}
			m := map[int64]string{}
			punct := 0
			for _, el := range lit.Elts {
				kv, ok := el.(*ast.KeyValueExpr)
				if !ok {
					continue
				}
				k, kok := intValue(info, kv.Key)
				s, sok := stringValue(info, kv.Value)
				if kok && sok {
					m[k] = s
					if c27punctOnly(s) {
						punct++
					}
				}
			}
			if punct >= 20 && len(m) > len(spell) {
				spell, tokT = m, kt
			}
			return true
		})
	}
	if tokT == nil {
		return
	}
	back = map[*types.Named]map[int64]map[string]bool{}
	add := func(et *types.Named, v, tok int64) {
		s, ok := spell[tok]
		if !ok {
			return
		}
		if back[et] == nil {
			back[et] = map[int64]map[string]bool{}
		}
		if back[et][v] == nil {
			back[et][v] = map[string]bool{}
		}
		back[et][v][s] = true
	}
	enumConst := func(e ast.Expr) (*types.Named, int64, bool) {
		cst := constOf(info, e)
		if cst == nil {
			return nil, 0, false
		}
		et := c.enumOf(cst.Type())
		if et == nil {
			return nil, 0, false
		}
		v, ok := constantInt64(cst)
		return et, v, ok
	}
	for _, fi := range c.r.P.Funcs("internal/compiler") {
		if fi.Obj == nil || c.r.P.isTestFile(fi.File) {
			continue
		}
		// a mapping function returns an enum of package ast
		res := fi.Obj.Type().(*types.Signature).Results()
		var ret *types.Named
		for i := 0; i < res.Len(); i++ {
			if et := c.enumOf(res.At(i).Type()); et != nil {
				ret = et
			}
		}
		found := false
		ast.Inspect(fi.Decl.Body, func(n ast.Node) bool {
			switch n := n.(type) {
			case *ast.FuncLit:
				return false
			case *ast.SwitchStmt:
				if ret == nil || n.Tag == nil || !types.Identical(info.TypeOf(n.Tag), tokT) {
					return true
				}
				for _, st := range n.Body.List {
					cc := st.(*ast.CaseClause)
					var toks []int64
					for _, ce := range cc.List {
						if v, ok := intValue(info, ce); ok {
							toks = append(toks, v)
						}
					}
					for _, b := range cc.Body {
						ast.Inspect(b, func(m ast.Node) bool {
							rs, ok := m.(*ast.ReturnStmt)
							if !ok {
								return true
							}
							for _, e := range rs.Results {
								if et, v, ok := enumConst(e); ok && et == ret {
									for _, t := range toks {
										add(et, v, t)
										found = true
									}
								}
							}
							return true
						})
					}
				}
			}
			return true
		})
		if found {
			where = append(where, fi.Name())
		}
	}
	// a table from token types to an enum of package ast
	for _, f := range pk.Syntax {
		if c.r.P.isTestFile(f) {
			continue
		}
		ast.Inspect(f, func(n ast.Node) bool {
			lit, ok := n.(*ast.CompositeLit)
			if !ok {
				return true
			}
			mt, ok := info.TypeOf(lit).Underlying().(*types.Map)
			if !ok || !types.Identical(mt.Key(), tokT) || c.enumOf(mt.Elem()) == nil {
				return true
			}
			for _, el := range lit.Elts {
				if kv, ok := el.(*ast.KeyValueExpr); ok {
					t, tok := intValue(info, kv.Key)
					if et, v, ok := enumConst(kv.Value); ok && tok {
						add(et, v, t)
					}
				}
			}
			where = append(where, "the table at "+c.r.P.Pos(lit.Pos()))
			return true
		})
	}
	// values stored directly at a construction site guarded by token tests: `if tok.typ == tokenA { next := …;
	// if next.typ == tokenB { … NewX(…, ast.V, …) } }` reads the token sequence A B as V
	seqs = map[*types.Named]map[int64][][]string{}
	for _, f := range pk.Syntax {
		if c.r.P.isTestFile(f) {
			continue
		}
		parents := c.r.P.Parents(f)
		ast.Inspect(f, func(n ast.Node) bool {
			call, ok := n.(*ast.CallExpr)
			if !ok {
				return true
			}
			fn := callee(info, call)
			if fn == nil || fn.Pkg() != c.astPk.Types || !c.x.ctorOf(fn).ok {
				return true
			}
			for _, a := range call.Args {
				et, v, ok := enumConst(a)
				if !ok {
					continue
				}
				var seq []string
				var child ast.Node = call
				for p := parents[child]; p != nil; child, p = p, parents[p] {
					if _, isF := p.(*ast.FuncDecl); isF {
						break
					}
					is, ok := p.(*ast.IfStmt)
					if !ok || child != ast.Node(is.Body) {
						continue
					}
					for _, cj := range splitAnd(is.Cond) {
						be, ok := ast.Unparen(cj).(*ast.BinaryExpr)
						if !ok || be.Op.String() != "==" || !types.Identical(info.TypeOf(be.X), tokT) {
							continue
						}
						if t, ok := intValue(info, be.Y); ok {
							if sp, ok := spell[t]; ok {
								seq = append([]string{sp}, seq...)
							}
						}
					}
				}
				if len(seq) >= 2 {
					if seqs[et] == nil {
						seqs[et] = map[int64][][]string{}
					}
					seqs[et][v] = append(seqs[et][v], seq)
				}
			}
			return true
		})
	}
	sort.Strings(where)
	return
}

func c27TokenInverse(c *c27, ms []*FuncInfo) {
	r := c.r
	const R = "R-8"
	spell, tokT, back, seqs, where := c.tokenMaps()
	if !r.Anchor(R, "token spellings of the compiler (a map literal from the token type to strings)", tokT != nil && len(spell) >= 40) {
		return
	}
	if !r.Anchor(R, "parser functions mapping a token type to a constant of an enum of package ast", len(back) >= 2) {
		return
	}
	all := map[string]bool{}
	for _, s := range spell {
		all[s] = true
	}
	punct := map[string]bool{}
	for s := range all {
		if c27punctOnly(s) {
			punct[s] = true
		}
	}
	n := 0
	for _, fi := range ms {
		nt := c.recvNamed(fi)
		st := nt.Underlying().(*types.Struct)
		for i := 0; i < st.NumFields(); i++ {
			fld := st.Field(i)
			et := c.enumOf(fld.Type())
			if et == nil || back[et] == nil || fld.Embedded() {
				continue
			}
			F := fld.Name()
			key := nt.Obj().Name() + "." + F
			var vals []int64
			p := c.prod[key]
			for _, cst := range c.enums[et] {
				v, _ := constantInt64(cst)
				if p == nil || p.all || p.vals[v] {
					vals = append(vals, v)
				}
			}
			// evaluate the method for each value, everything else fixed
			ev := c27newEv(c)
			ev.lensFor = func(string) []int { return []int{1} }
			ev.typeDom = func(*c27node, []*types.Named) []*types.Named { return nil } // operands are no operators
			type seg struct{ after, text string }
			byShape := map[string]map[int64][]seg{} // other decisions -> value -> segments
			unread := ""
			for _, v := range vals {
				runs, inc := ev.explore(4000, func() (c27v, *c27node) {
					recv := ev.newNode("n", nt)
					recv.fields[F] = c27int{v}
					return ev.invoke(fi, recv, nil, "n"), recv
				})
				if why := c27unreadable(runs, inc); why != "" {
					unread = why
					break
				}
				for _, rn := range runs {
					ps := rn.pieces()
					if rn.halted || ps == nil {
						continue
					}
					var segs []seg
					cur := seg{after: "^"}
					for _, pc := range ps {
						if pc.ref != nil {
							segs = append(segs, cur)
							cur = seg{after: pc.ref.path}
							continue
						}
						cur.text += pc.lit
					}
					segs = append(segs, cur)
					sh := rn.shape()
					if byShape[sh] == nil {
						byShape[sh] = map[int64][]seg{}
					}
					byShape[sh][v] = segs
				}
			}
			if unread != "" {
				r.Ob(R, fi.Name()+"#token:"+F, fi.Decl.Pos()).Unknown("%s could not be evaluated symbolically (%s)", fi.Name(), unread)
				continue
			}
			// the text printed for a value: segments (keyed by the child they follow) whose text differs between values
			printed := map[int64]map[string]bool{}
			example := map[int64]string{}
			for _, sh := range sortedKeys(byShape) {
				perVal := byShape[sh]
				texts := map[string]map[string]bool{} // after -> texts seen
				for _, segs := range perVal {
					for _, s := range segs {
						if texts[s.after] == nil {
							texts[s.after] = map[string]bool{}
						}
						texts[s.after][s.text] = true
					}
				}
				for v, segs := range perVal {
					for _, s := range segs {
						if len(texts[s.after]) < 2 || len(perVal) < 2 {
							continue
						}
						t := strings.TrimSpace(s.text)
						if printed[v] == nil {
							printed[v] = map[string]bool{}
						}
						printed[v][t] = true
						if example[v] == "" {
							var b strings.Builder
							for _, x := range segs {
								if x.after != "^" {
									b.WriteString("‹" + x.after + "›")
								}
								b.WriteString(x.text)
							}
							example[v] = b.String()
						}
					}
				}
			}
			if len(printed) == 0 {
				continue // the method prints nothing that depends on this field
			}
			for _, v := range vals {
				name := ev.enumName(et, v)
				o := r.Ob(R, fi.Name()+"#token:"+F+":"+name, fi.Decl.Pos())
				n++
				want := back[et][v]
				var wants []string
				for s := range want {
					wants = append(wants, fmt.Sprintf("%q", s))
				}
				sort.Strings(wants)
				if len(printed[v]) == 0 {
					if _, any := byShape[""]; !any && len(byShape) == 0 {
						o.Trivial("%s panics for every shape with %s", fi.Name(), name)
					} else {
						o.Trivial("no text of %s depends on %s = %s (the method panics for it, or prints a description)", fi.Name(), F, name)
					}
					continue
				}
				bad := ""
				for _, t := range sortedKeys(printed[v]) {
					switch {
					case len(want) > 0 && !want[t]:
						bad = fmt.Sprintf("%s prints %s = %s as %q (in %q), but the parser maps to %s only the token spelled %s (%s): the printed form does not parse back to the same tree", fi.Name(), F, name, t, example[v], name, strings.Join(wants, " or "), strings.Join(where, ", "))
					case len(want) == 0:
						var got []string
						for _, sp := range c27spans(t, punct) {
							w := t[sp[0]:sp[1]]
							got = append(got, w)
							if !all[w] {
								bad = fmt.Sprintf("%s prints %s = %s as %q (in %q): %q is not a spelling of the compiler's token table", fi.Name(), F, name, t, example[v], w)
							}
						}
						if sq := seqs[et][v]; len(sq) > 0 && bad == "" {
							match := false
							var alts []string
							for _, q := range sq {
								alts = append(alts, fmt.Sprintf("%q", strings.Join(q, " ")))
								if strings.Join(q, "\x00") == strings.Join(got, "\x00") {
									match = true
								}
							}
							if !match {
								bad = fmt.Sprintf("%s prints %s = %s as %q (in %q), but the parser stores %s only after reading the tokens %s: the printed form does not parse back to the same tree", fi.Name(), F, name, t, example[v], name, strings.Join(alts, " or "))
							}
						}
					}
				}
				switch {
				case bad != "":
					o.Bad("%s", bad)
				case len(want) > 0:
					o.OK("%s is printed as %s, the spelling of the token the parser maps back to it", name, strings.Join(wants, " or "))
				default:
					o.OK("%s is printed as %s: spellings of the token table (the parser builds this value without a token -> %s function)", name, strings.Join(c27quoteAll(sortedKeys(printed[v])), " "), et.Obj().Name())
				}
			}
		}
	}
	r.Require(R, 30)
}

func c27quoteAll(xs []string) []string {
	out := make([]string, len(xs))
	for i, x := range xs {
		out[i] = fmt.Sprintf("%q", x)
	}
	return out
}
