package main

// C14 — goroutine and channel programs: isolation conditions of the interpreter itself.
//
// R-1 no shared register files   R-2 env after start   R-3 unsynchronised lazy initialisation
// (R-4 of DESIGN.md, the go statement gate, is C19 R-2.)
//
// Uses the role resolution, reachability and origin tracer of c10.go.

import (
	"fmt"
	"go/token"
	"go/types"
	"sort"
	"strings"

	"golang.org/x/tools/go/ssa"
)

func init() {
	register("C14", &ruleSet{
		explain: "Necessary conditions for the interpreter to be free of data races when the interpreted program starts goroutines. R-1: the machine a go statement starts is made by the VM constructor in the same call, the constructor fills it with freshly made register slices and takes nothing but the env from its caller, and no register-slice field is ever assigned anything but a slice made on the spot (so two machines never share a register file). R-2: once the run driver is entered, fields of the shared env are written only through sync/atomic or while env.mu is held, the fields written that way are read the same way, and the setters that write env without synchronisation are called only before the run starts. R-3: objects handed from one machine to another by pointer through the copied general registers (found as the runtime struct types whose pointers are wrapped with reflect.ValueOf) are written only while they are still private to the function that allocates them, or under a lock / atomically.",
		notCov: []string{
			"agreement with gc and schedule independence of the output",
			"races on the interpreted program's own data (closure variables, slices, maps shared by the program's goroutines), which Go semantics leave to the program",
			"races inside native functions and in values reached through reflect",
		},
		trusted: []string{"sync.Mutex and sync/atomic semantics", "copy() copies elements, it does not alias"},
		run:     runC14,
	})
}

func runC14(r *Run) {
	ro := c10ResolveRoles(r, "R-1")
	if ro == nil {
		return
	}
	c14R1(r, ro)
	c14R2(r, ro)
	c14R3(r, ro)
	// R-4 (added after seeded change C14-2): the pool discipline of C10 R-3 — the argument slice of a
	// native call started with `go` must not go back to the pool while the new goroutine can still read it.
	found := 0
	for _, fi := range r.P.Funcs("internal/runtime") {
		if r.P.isTestFile(fi.File) {
			continue
		}
		f := r.P.SSAFunc(fi)
		if f == nil {
			continue
		}
		for _, fn := range append([]*ssa.Function{f}, f.AnonFuncs...) {
			c10PoolDiscipline(r, "R-4", ro, fn, &found)
		}
	}
	r.Anchor("R-4", "a function taking a slice from NativeFunction.argsPool (callNative)", found > 0)
}

// c14ModuleFuncs lists the SSA functions (with anonymous ones) of the non-test module source.
func c14ModuleFuncs(r *Run) []*ssa.Function {
	var out []*ssa.Function
	seen := map[*ssa.Function]bool{}
	var add func(f *ssa.Function)
	add = func(f *ssa.Function) {
		if f == nil || seen[f] || f.Blocks == nil {
			return
		}
		seen[f] = true
		out = append(out, f)
		for _, a := range f.AnonFuncs {
			add(a)
		}
	}
	var rels []string
	for rel := range r.P.byRel {
		rels = append(rels, rel)
	}
	sort.Strings(rels)
	for _, rel := range rels {
		for _, fi := range r.P.Funcs(rel) {
			if r.P.isTestFile(fi.File) {
				continue
			}
			add(r.P.SSAFunc(fi))
		}
		// package initialisers
		if pk := r.P.Pkg(rel); pk != nil {
			if sp := r.P.SSA().prog.Package(pk.Types); sp != nil {
				add(sp.Func("init"))
			}
		}
	}
	return out
}

// ---------------------------------------------------------------------------
// R-1

func c14R1(r *Run, ro *c10Roles) {
	const R = "R-1"
	r.Require(R, 11)
	createF := r.P.SSAFunc(ro.create)
	newVMF := r.P.SSAFunc(ro.newVM)
	all := c14ModuleFuncs(r)

	// (a) go statements starting a VM method
	nGo := 0
	for _, f := range all {
		for _, b := range f.Blocks {
			for _, in := range b.Instrs {
				g, ok := in.(*ssa.Go)
				if !ok {
					continue
				}
				sc := g.Common().StaticCallee()
				if sc == nil || sc.Signature.Recv() == nil || c10NamedOf(sc.Signature.Recv().Type()) != ro.vm {
					continue
				}
				nGo++
				o := r.Ob(R, ssaFuncName(f)+"#go:"+sc.Name(), g.Pos())
				var why []string
				var made []*ssa.Call
				for _, src := range c10StripPhi(g.Common().Args[0]) {
					c, ok := src.(*ssa.Call)
					if ok && c.Parent() == f && (c.Common().StaticCallee() == createF || c.Common().StaticCallee() == newVMF) {
						made = append(made, c)
						continue
					}
					why = append(why, fmt.Sprintf("receiver is %s (%T)", src, src))
				}
				// stores into the new machine between construction and start must not hand over reference values of the parent
				for _, c := range made {
					for _, b2 := range f.Blocks {
						for _, in2 := range b2.Instrs {
							st, ok := in2.(*ssa.Store)
							if !ok {
								continue
							}
							if root, _ := c10Peel(st.Addr); root == ssa.Value(c) && c10HoldsRefs(st.Val.Type()) {
								why = append(why, "the new machine's "+c10Path(st.Addr)+" is assigned a reference value by the spawner")
							}
						}
					}
				}
				if len(why) == 0 {
					o.OK("the machine started by the go statement is the result of %s() called in the same function and only element copies are written into it", ro.create.Name())
				} else {
					o.Bad("the goroutine does not run on a private machine: %s", strings.Join(why, "; "))
				}
			}
		}
	}
	r.Anchor(R, "go statement starting a VM method (startGoroutine)", nGo > 0)

	// (b) who may write a register-slice field, and what
	regFields := map[*types.Var]bool{}
	rs := c10StructOf(ro.registers)
	for i := 0; i < rs.NumFields(); i++ {
		if _, ok := rs.Field(i).Type().Underlying().(*types.Slice); ok {
			regFields[rs.Field(i)] = true
		}
	}
	r.Anchor(R, "slice fields of the registers struct", len(regFields) >= 4)
	for _, f := range all {
		type agg struct {
			pos token.Pos
			n   int
			bad []string
		}
		groups := map[string]*agg{}
		var order []string
		for _, b := range f.Blocks {
			for _, in := range b.Instrs {
				st, ok := in.(*ssa.Store)
				if !ok {
					continue
				}
				var key string
				if fa, ok := st.Addr.(*ssa.FieldAddr); ok && regFields[c10FieldVar(fa)] {
					key = ro.registers.Obj().Name() + "." + c10FieldVar(fa).Name()
				} else if n := c10NamedOf(st.Val.Type()); n == ro.registers {
					if _, isPtr := st.Val.Type().(*types.Pointer); !isPtr {
						key = ro.registers.Obj().Name() + "(whole)"
					}
				}
				if key == "" {
					continue
				}
				gp := groups[key]
				if gp == nil {
					gp = &agg{pos: st.Pos()}
					groups[key] = gp
					order = append(order, key)
				}
				gp.n++
				for _, src := range c10StripPhi(st.Val) {
					if !c14FreshIn(src, f, 0) {
						gp.bad = append(gp.bad, fmt.Sprintf("%s (%T)", src, src))
					}
				}
			}
		}
		for _, key := range order {
			gp := groups[key]
			o := r.Ob(R, ssaFuncName(f)+"#store:"+key, gp.pos)
			if len(gp.bad) > 0 {
				o.Bad("a register file is assigned something other than a slice made on the spot, so two machines can share it: %s", strings.Join(gp.bad, "; "))
			} else {
				o.OK("%d store(s), each of a slice made with make in this function", gp.n)
			}
		}
	}

	// (c) the constructor takes only the env from its caller
	if createF != nil {
		o := r.Ob(R, ssaFuncName(createF)+"#inputs", createF.Pos())
		var why []string
		n := 0
		for _, b := range createF.Blocks {
			for _, in := range b.Instrs {
				st, ok := in.(*ssa.Store)
				if !ok || !c10HoldsRefs(st.Val.Type()) {
					continue
				}
				n++
				for _, src := range c10StripPhi(st.Val) {
					if !c14FreshIn(src, createF, 0) && !c14FromEnvOrFresh(src, ro, 0) {
						why = append(why, fmt.Sprintf("%s receives %s", c10Path(st.Addr), src))
					}
				}
			}
		}
		if len(why) > 0 {
			o.Bad("the VM constructor stores caller state other than the env: %s", strings.Join(why, "; "))
		} else {
			o.OK("%d reference-valued stores: each is a fresh slice/object, the env parameter or reflect.ValueOf of it", n)
		}
	}
}

// c14FreshIn reports whether v is storage made by f itself: make(...) (lowered to MakeSlice, or to a
// slice of a new array when the size is constant), nil, or a composite literal built only from such values.
func c14FreshIn(v ssa.Value, f *ssa.Function, depth int) bool {
	if depth > 4 {
		return false
	}
	switch x := v.(type) {
	case *ssa.Const:
		return true
	case *ssa.MakeSlice:
		return x.Parent() == f
	case *ssa.Slice:
		al, ok := x.X.(*ssa.Alloc)
		return ok && al.Parent() == f && al.Heap
	case *ssa.Extract:
		return c14FreshIn(x.Tuple, f, depth+1)
	case *ssa.Call:
		// a helper of the module that returns only storage it made itself
		callee := x.Common().StaticCallee()
		if callee == nil || !inModule(callee) || callee.Blocks == nil || x.Parent() != f {
			return false
		}
		for _, b := range callee.Blocks {
			for _, in := range b.Instrs {
				if ret, ok := in.(*ssa.Return); ok {
					for _, res := range ret.Results {
						if !c10HoldsRefs(res.Type()) {
							continue
						}
						for _, src := range c10StripPhi(res) {
							if !c14FreshIn(src, callee, depth+1) {
								return false
							}
						}
					}
				}
			}
		}
		return true
	case *ssa.UnOp:
		al, ok := x.X.(*ssa.Alloc)
		if !ok || x.Op != token.MUL || al.Parent() != f {
			return false
		}
		for _, ref := range *al.Referrers() {
			switch y := ref.(type) {
			case *ssa.Store:
				if y.Addr == ssa.Value(al) && !c14FreshIn(y.Val, f, depth+1) {
					return false
				}
			case *ssa.FieldAddr:
				for _, r2 := range *y.Referrers() {
					if st, ok := r2.(*ssa.Store); ok && st.Addr == ssa.Value(y) && c10HoldsRefs(st.Val.Type()) && !c14FreshIn(st.Val, f, depth+1) {
						return false
					}
				}
			}
		}
		return true
	}
	return false
}

func c14FromEnvOrFresh(v ssa.Value, ro *c10Roles, depth int) bool {
	if depth > 4 {
		return false
	}
	switch x := v.(type) {
	case *ssa.Const, *ssa.MakeSlice, *ssa.MakeMap, *ssa.Alloc:
		return true
	case *ssa.Slice:
		if al, ok := x.X.(*ssa.Alloc); ok && al.Heap {
			return true
		}
	case *ssa.Parameter:
		return c10NamedOf(x.Type()) == ro.env
	case *ssa.MakeInterface:
		return c14FromEnvOrFresh(x.X, ro, depth+1)
	case *ssa.Call:
		if c10CalleeName(x.Common()) == "reflect.ValueOf" {
			return c14FromEnvOrFresh(x.Common().Args[0], ro, depth+1)
		}
	case *ssa.UnOp:
		if al, ok := x.X.(*ssa.Alloc); ok && x.Op == token.MUL {
			// a composite literal value built in a local
			ok2 := true
			for _, ref := range *al.Referrers() {
				if st, ok := ref.(*ssa.Store); ok && c10HoldsRefs(st.Val.Type()) {
					for _, src := range c10StripPhi(st.Val) {
						ok2 = ok2 && c14FromEnvOrFresh(src, ro, depth+1)
					}
				}
			}
			return ok2
		}
	case *ssa.Phi:
		for _, e := range x.Edges {
			if !c14FromEnvOrFresh(e, ro, depth+1) {
				return false
			}
		}
		return true
	}
	return false
}

// ---------------------------------------------------------------------------
// lock-held analysis

type c14LockKey struct {
	base ssa.Value
	fld  *types.Var
}

// c14Held computes, for every instruction of f, the mutexes (base value, field) that are certainly
// held when it executes (forward must-analysis; deferred Unlock releases at return only).
func c14Held(f *ssa.Function) map[ssa.Instruction]map[c14LockKey]bool {
	lockOf := func(in ssa.Instruction) (c14LockKey, int) {
		c, ok := in.(*ssa.Call)
		if !ok {
			return c14LockKey{}, 0
		}
		n := c10CalleeName(c.Common())
		d := 0
		switch n {
		case "sync.(*Mutex).Lock", "sync.(*RWMutex).Lock":
			d = 1
		case "sync.(*Mutex).Unlock", "sync.(*RWMutex).Unlock":
			d = -1
		default:
			return c14LockKey{}, 0
		}
		fa, ok := c.Common().Args[0].(*ssa.FieldAddr)
		if !ok {
			return c14LockKey{}, 0
		}
		return c14LockKey{fa.X, c10FieldVar(fa)}, d
	}
	type set = map[c14LockKey]bool
	out := map[*ssa.BasicBlock]set{}
	computed := map[*ssa.BasicBlock]bool{}
	res := map[ssa.Instruction]map[c14LockKey]bool{}
	for changed, iter := true, 0; changed && iter < 50; iter++ {
		changed = false
		for _, b := range f.Blocks {
			var in set
			first := true
			if b == f.Blocks[0] {
				in = set{}
				first = false
			}
			for _, p := range b.Preds {
				if !computed[p] {
					continue
				}
				if first {
					in = set{}
					for k := range out[p] {
						in[k] = true
					}
					first = false
				} else {
					for k := range in {
						if !out[p][k] {
							delete(in, k)
						}
					}
				}
			}
			if first {
				continue // no computed predecessor yet
			}
			cur := set{}
			for k := range in {
				cur[k] = true
			}
			for _, ins := range b.Instrs {
				snap := set{}
				for k := range cur {
					snap[k] = true
				}
				res[ins] = snap
				if k, d := lockOf(ins); d == 1 {
					cur[k] = true
				} else if d == -1 {
					delete(cur, k)
				}
			}
			if !computed[b] || len(cur) != len(out[b]) {
				changed = true
			} else {
				for k := range cur {
					if !out[b][k] {
						changed = true
					}
				}
			}
			out[b] = cur
			computed[b] = true
		}
	}
	return res
}

// c14HeldFor reports whether, at in, a mutex field of the struct pointed to by base is held.
func c14HeldFor(held map[ssa.Instruction]map[c14LockKey]bool, in ssa.Instruction, base ssa.Value) (string, bool) {
	for k := range held[in] {
		if k.base == base && k.fld != nil {
			return k.fld.Name(), true
		}
	}
	return "", false
}

// c14OwnerBase returns, for an address, the innermost FieldAddr whose struct is the named type n,
// i.e. the field of n being accessed and the pointer to the n object.
func c14OwnerBase(addr ssa.Value, n *types.Named) (fld *types.Var, base ssa.Value) {
	a := addr
	for {
		switch x := a.(type) {
		case *ssa.FieldAddr:
			if c10NamedOf(x.X.Type()) == n {
				return c10FieldVar(x), x.X
			}
			a = x.X
			continue
		case *ssa.IndexAddr:
			if _, isPtr := x.X.Type().Underlying().(*types.Pointer); isPtr {
				a = x.X
				continue
			}
		}
		return nil, nil
	}
}

// ---------------------------------------------------------------------------
// R-2

func c14R2(r *Run, ro *c10Roles) {
	const R = "R-2"
	r.Require(R, 8)
	prog := r.P.SSA().prog
	g := r.Graph()
	driver := r.P.SSAFunc(ro.runDriver)
	vmRunF := r.P.SSAFunc(ro.vmRun)
	if !r.Anchor(R, "run driver in SSA", driver != nil && vmRunF != nil) {
		return
	}
	// after start: the run driver and everything it can reach, plus the methods of env (native code calls them at any time)
	roots := []*ssa.Function{driver}
	for _, t := range []types.Type{ro.env, types.NewPointer(ro.env)} {
		ms := prog.MethodSets.MethodSet(t)
		for i := 0; i < ms.Len(); i++ {
			if f := prog.MethodValue(ms.At(i)); f != nil && inModule(f) {
				roots = append(roots, f)
			}
		}
	}
	started := c10Reach(prog, g, roots)
	for f := range started {
		if inModule(f) && f.Synthetic == "" {
			r.Stats["r2_functions_after_start"]++
		}
	}
	all := c14ModuleFuncs(r)

	type wsite struct {
		f    *ssa.Function
		wr   *c10Write
		fld  *types.Var
		base ssa.Value
	}
	var sites []wsite
	for _, f := range all {
		ws, _ := c10WritesOf(f)
		for _, wr := range ws {
			var fld *types.Var
			var base ssa.Value
			if wr.Addr != nil {
				fld, base = c14OwnerBase(wr.Addr, ro.env)
			} else if u, ok := wr.Ref.(*ssa.UnOp); ok && u.Op == token.MUL {
				fld, base = c14OwnerBase(u.X, ro.env)
			}
			if fld != nil {
				sites = append(sites, wsite{f, wr, fld, base})
			}
		}
		// whole-struct overwrite of an env
		for _, b := range f.Blocks {
			for _, in := range b.Instrs {
				if st, ok := in.(*ssa.Store); ok && c10NamedOf(st.Val.Type()) == ro.env {
					if _, isPtr := st.Val.Type().(*types.Pointer); !isPtr {
						if root, _ := c10Peel(st.Addr); root != nil {
							if _, isAlloc := root.(*ssa.Alloc); !isAlloc {
								r.Ob(R, ssaFuncName(f)+"#env(whole)", st.Pos()).Bad("a whole env is overwritten in place")
							}
						}
					}
				}
			}
		}
	}
	hot := map[*types.Var]string{} // fields written after start -> how
	heldCache := map[*ssa.Function]map[ssa.Instruction]map[c14LockKey]bool{}
	heldOf := func(f *ssa.Function) map[ssa.Instruction]map[c14LockKey]bool {
		if h, ok := heldCache[f]; ok {
			return h
		}
		h := c14Held(f)
		heldCache[f] = h
		return h
	}
	setters := map[*ssa.Function][]string{}
	for _, s := range sites {
		key := ssaFuncName(s.f) + "#env." + s.fld.Name()
		if started[s.f] {
			o := r.Ob(R, key, s.wr.Instr.Pos())
			switch {
			case s.wr.How == "atomic":
				hot[s.fld] = "atomic"
				o.OK("written after start through sync/atomic")
			default:
				if mu, ok := c14HeldFor(heldOf(s.f), s.wr.Instr, s.base); ok {
					hot[s.fld] = "mutex"
					o.OK("written after start while env.%s is held on every path", mu)
				} else {
					hot[s.fld] = "unsynchronised"
					o.Bad("env.%s is written (%s) after the run has started without holding the env mutex and not through sync/atomic: goroutines of the same run share the env", s.fld.Name(), s.wr.How)
				}
			}
			continue
		}
		if s.wr.How == "atomic" {
			r.Ob(R, key, s.wr.Instr.Pos()).OK("written before start through sync/atomic")
			hot[s.fld] = "atomic"
			continue
		}
		if _, ok := c14HeldFor(heldOf(s.f), s.wr.Instr, s.base); ok {
			r.Ob(R, key, s.wr.Instr.Pos()).OK("written before start under the env mutex")
			continue
		}
		setters[s.f] = append(setters[s.f], s.fld.Name())
	}
	// setters: unsynchronised writers outside the started set; their calls must precede the start
	var sfns []*ssa.Function
	for f := range setters {
		sfns = append(sfns, f)
	}
	sort.Slice(sfns, func(i, j int) bool { return sfns[i].String() < sfns[j].String() })
	for _, sf := range sfns {
		o := r.Ob(R, ssaFuncName(sf)+"#pre-start", sf.Pos())
		flds := strings.Join(c14Uniq(setters[sf]), ",")
		var why []string
		ncall := 0
		// the setter itself may be the function that starts the run: its stores must precede the start
		for _, b := range sf.Blocks {
			for _, in := range b.Instrs {
				ci, ok := in.(ssa.CallInstruction)
				if !ok || (ci.Common().StaticCallee() != driver && ci.Common().StaticCallee() != vmRunF) {
					continue
				}
				for _, s := range sites {
					if s.f == sf && s.wr.How != "atomic" && c10Reaches(in, s.wr.Instr, nil) {
						why = append(why, "env."+s.fld.Name()+" is stored after the call that starts the run")
					}
				}
			}
		}
		if n := g.Nodes[sf]; n != nil {
			for _, e := range n.In {
				caller := e.Caller.Func
				if !inModule(caller) || e.Site == nil {
					continue
				}
				if strings.HasSuffix(r.P.Fset.Position(caller.Pos()).Filename, "_test.go") {
					continue
				}
				ncall++
				if started[caller] {
					why = append(why, "called from "+ssaFuncName(caller)+", which runs after start")
					continue
				}
				for _, b := range caller.Blocks {
					for _, in := range b.Instrs {
						ci, ok := in.(ssa.CallInstruction)
						if ok && (ci.Common().StaticCallee() == vmRunF || ci.Common().StaticCallee() == driver) && c10Reaches(in, e.Site, nil) {
							why = append(why, "called in "+ssaFuncName(caller)+" after the run was started")
						}
					}
				}
			}
		}
		if len(why) > 0 {
			o.Bad("unsynchronised writer of env.{%s}: %s", flds, strings.Join(c14Uniq(why), "; "))
		} else {
			o.OK("writes env.{%s} without synchronisation; not reachable from the run driver; its %d module call site(s) precede the start of the run", flds, ncall)
		}
	}
	// readers of the fields written after start
	for _, f := range all {
		type agg struct {
			pos token.Pos
			n   int
			bad int
		}
		groups := map[string]*agg{}
		var order []string
		for _, b := range f.Blocks {
			for _, in := range b.Instrs {
				u, ok := in.(*ssa.UnOp)
				if !ok || u.Op != token.MUL {
					continue
				}
				fa, ok := u.X.(*ssa.FieldAddr)
				if !ok || c10NamedOf(fa.X.Type()) != ro.env {
					continue
				}
				fld := c10FieldVar(fa)
				if _, isHot := hot[fld]; !isHot {
					continue
				}
				key := fld.Name()
				gp := groups[key]
				if gp == nil {
					gp = &agg{pos: u.Pos()}
					groups[key] = gp
					order = append(order, key)
				}
				gp.n++
				if _, ok := c14HeldFor(heldOf(f), in, fa.X); !ok {
					gp.bad++
				}
			}
		}
		for _, key := range order {
			gp := groups[key]
			o := r.Ob(R, ssaFuncName(f)+"#read:env."+key, gp.pos)
			if gp.bad > 0 {
				o.Bad("env.%s is written after start but %d of %d plain read(s) here hold no lock", key, gp.bad, gp.n)
			} else {
				o.OK("%d plain read(s) of env.%s, all under the env mutex", gp.n, key)
			}
		}
	}
	var hs []string
	for f, how := range hot {
		hs = append(hs, f.Name()+"("+how+")")
	}
	sort.Strings(hs)
	r.Note("env fields written after start: %s", strings.Join(hs, ", "))
}

func c14Uniq(in []string) []string {
	seen := map[string]bool{}
	var out []string
	for _, s := range in {
		if !seen[s] {
			seen[s] = true
			out = append(out, s)
		}
	}
	sort.Strings(out)
	return out
}

// ---------------------------------------------------------------------------
// R-3

func c14R3(r *Run, ro *c10Roles) {
	const R = "R-3"
	r.Require(R, 3)
	all := c14ModuleFuncs(r)
	rtPkg := r.P.Pkg("internal/runtime").Types
	// types whose pointers are put into a reflect.Value (and so can sit in a general register)
	shared := map[*types.Named]token.Pos{}
	for _, f := range all {
		if f.Pkg == nil && f.Parent() == nil {
			continue
		}
		for _, b := range f.Blocks {
			for _, in := range b.Instrs {
				c, ok := in.(*ssa.Call)
				if !ok || c10CalleeName(c.Common()) != "reflect.ValueOf" {
					continue
				}
				mi, ok := c.Common().Args[0].(*ssa.MakeInterface)
				if !ok {
					continue
				}
				pt, ok := mi.X.Type().(*types.Pointer)
				if !ok {
					continue
				}
				n, _ := pt.Elem().(*types.Named)
				if n == nil || n.Obj().Pkg() != rtPkg || n == ro.env {
					continue
				}
				if _, isStruct := n.Underlying().(*types.Struct); isStruct {
					if _, seen := shared[n]; !seen {
						shared[n] = c.Pos()
					}
				}
			}
		}
	}
	_, hasCallable := shared[ro.callable]
	if !r.Anchor(R, "runtime struct types wrapped by pointer with reflect.ValueOf (callable)", hasCallable) {
		return
	}
	var names []string
	for n := range shared {
		names = append(names, n.Obj().Name())
	}
	sort.Strings(names)
	r.Note("types shared by pointer through general registers: %s", strings.Join(names, ", "))
	heldCache := map[*ssa.Function]map[ssa.Instruction]map[c14LockKey]bool{}
	for _, f := range all {
		type agg struct {
			pos                token.Pos
			n, private, synced int
			unsynced           int
			how                []string
		}
		groups := map[string]*agg{}
		var order []string
		ws, nlocal := c10WritesOf(f)
		_ = nlocal
		// private (Alloc-rooted) stores are skipped by c10WritesOf; count them for the evidence
		for _, b := range f.Blocks {
			for _, in := range b.Instrs {
				st, ok := in.(*ssa.Store)
				if !ok {
					continue
				}
				root, _ := c10Peel(st.Addr)
				if _, isAlloc := root.(*ssa.Alloc); !isAlloc {
					continue
				}
				for n := range shared {
					if fld, _ := c14OwnerBase(st.Addr, n); fld != nil {
						key := n.Obj().Name() + "." + fld.Name()
						gp := groups[key]
						if gp == nil {
							gp = &agg{pos: st.Pos()}
							groups[key] = gp
							order = append(order, key)
						}
						gp.n++
						gp.private++
					}
				}
			}
		}
		for _, wr := range ws {
			for n := range shared {
				var fld *types.Var
				var base ssa.Value
				if wr.Addr != nil {
					fld, base = c14OwnerBase(wr.Addr, n)
				} else if u, ok := wr.Ref.(*ssa.UnOp); ok && u.Op == token.MUL {
					fld, base = c14OwnerBase(u.X, n)
				}
				if fld == nil {
					continue
				}
				key := n.Obj().Name() + "." + fld.Name()
				gp := groups[key]
				if gp == nil {
					gp = &agg{pos: wr.Instr.Pos()}
					groups[key] = gp
					order = append(order, key)
				}
				gp.n++
				if wr.How == "atomic" {
					gp.synced++
					continue
				}
				h, ok := heldCache[f]
				if !ok {
					h = c14Held(f)
					heldCache[f] = h
				}
				if _, ok := c14HeldFor(h, wr.Instr, base); ok {
					gp.synced++
					continue
				}
				if gp.unsynced == 0 {
					gp.pos = wr.Instr.Pos()
				}
				gp.unsynced++
				gp.how = append(gp.how, wr.How)
			}
		}
		for _, key := range order {
			gp := groups[key]
			o := r.Ob(R, ssaFuncName(f)+"#"+key, gp.pos)
			switch {
			case gp.unsynced > 0:
				o.Bad("%d unsynchronised write(s) to %s of an object that is not private to this function: a pointer to it may sit in the general registers that startGoroutine copies, so two machines can execute this write and the reads of the field concurrently", gp.unsynced, key)
			case gp.synced > 0:
				o.OK("%d write(s): %d while constructing a private object, %d under a lock or atomic", gp.n, gp.private, gp.synced)
			default:
				o.Trivial("%d write(s), all while the object is still private to the allocating function (construction)", gp.n)
			}
		}
	}
}
