package main

// C10 — compiled programs and templates run in isolation, repeatedly and concurrently.
//
// R-1 compiled code is immutable at run time (engine E3, who-may-write on go/ssa + call graph)
// R-2 fresh machine per run
// R-3 pool discipline in the native-call path
// R-4 per-run variable cells
//
// This file also holds the origin tracer (c10Tracer) shared with C14 and C15: a backward,
// context-insensitive, cycle-safe value-flow walk on go/ssa that answers "which memory does
// this address / slice / map / pointer refer to" with a set of origins.

import (
	"fmt"
	"go/ast"
	"go/parser"
	"go/token"
	"go/types"
	"sort"
	"strings"

	"golang.org/x/tools/go/callgraph"
	"golang.org/x/tools/go/callgraph/cha"
	"golang.org/x/tools/go/ssa"
	"golang.org/x/tools/go/ssa/ssautil"
)

func init() {
	register("C10", &ruleSet{
		explain: "Necessary conditions for running one compiled artefact many times and concurrently. R-1: in every module function reachable (call graph) from Program.Run, Template.Run, (*VM).Run and the run driver, each memory write that go/ssa can see (Store, MapUpdate, copy/append/delete/clear, sync/atomic writes) is traced back to the object owning the written location; writes landing in a compiled object (*runtime.Function, *runtime.NativeFunction, compiler.Global, *types.Types, a Scriggo type object, the Program/Template struct) or in a package-level variable are violations, writes landing in per-run objects (VM, env, renderer, callFrame, callable, register slices, objects allocated by the running code) are allowed; a fixture that must be flagged is analysed on every run. R-2: Program.Run/Template.Run get their VM from runtime.NewVM() in the same call and the artefact structs hold no VM/env/renderer. R-3: the argument slice taken from NativeFunction.argsPool is Put back only after a synchronous call consumed it, never on a path that handed it to a goroutine. R-4: the run-time initialisers of global variables store, per variable, only a cell made with reflect.New in that call, the predefined value of the compiled Global, or the target of a caller-supplied pointer, and never write the compiled Global table.",
		notCov: []string{
			"race freedom and output equality under interleavings (the behaviour itself)",
			"writes performed by package reflect (Value.Set*, reflect.Copy) on values the interpreted program can reach; which values the emitter turns into shared constants (Function.Values.General) is not decided here",
			"writes done by native functions supplied by the embedder, and by the standard library on objects passed to it (sync.Pool internals, strings.Builder)",
			"aliasing through elements of slices of non-reference element type (an element load is attributed to the container's origin)",
		},
		trusted: []string{"the call graph (CHA in quick, VTA in thorough) resolves every dynamic call site of the module; functions outside the module call back into it only through function values and interface values that reachable module code created or handed out", "sync.Pool Get/Put are safe for concurrent use", "reflect.New returns fresh storage"},
		run:     runC10,
	})
}

// ---------------------------------------------------------------------------
// Origin tracer

type c10Kind int

const (
	c10Fresh   c10Kind = iota // allocated by the code under analysis (Alloc, make, new, composite literal, []byte(s))
	c10Const                  // constant, nil, function value, zero value: nothing to write through
	c10PerRun                 // object of a per-run type
	c10Shared                 // object of a compiled (shared) type
	c10Global                 // package-level variable
	c10Extern                 // result of a call outside the module (named)
	c10Entry                  // parameter of a function without callers in the graph (API entry)
	c10Unknown                // shape not understood
)

func (k c10Kind) String() string {
	return [...]string{"fresh", "const", "per-run", "shared", "global", "extern", "entry", "unknown"}[k]
}

type c10Origin struct {
	Kind c10Kind
	Desc string
}

func (o c10Origin) String() string {
	if o.Desc == "" {
		return o.Kind.String()
	}
	return o.Kind.String() + ":" + o.Desc
}

// c10Class classifies named types by ownership.
type c10Class struct {
	perRun map[*types.TypeName]bool
	shared map[*types.TypeName]bool
}

func c10NamedOf(t types.Type) *types.Named {
	for {
		switch x := t.(type) {
		case *types.Pointer:
			t = x.Elem()
			continue
		case *types.Alias:
			t = types.Unalias(x)
			continue
		case *types.Named:
			return x
		}
		return nil
	}
}

// of classifies a type: a named type or a pointer to one. ok is false when the type is not classified.
func (c *c10Class) of(t types.Type) (c10Origin, bool) {
	n := c10NamedOf(t)
	if n == nil {
		return c10Origin{}, false
	}
	tn := n.Origin().Obj()
	if c.shared[tn] {
		return c10Origin{c10Shared, typeStr(n)}, true
	}
	if c.perRun[tn] {
		return c10Origin{c10PerRun, typeStr(n)}, true
	}
	return c10Origin{}, false
}

type c10Tracer struct {
	prog   *ssa.Program
	graph  *callgraph.Graph
	class  *c10Class
	inMod  func(*ssa.Function) bool
	funcs  []*ssa.Function // functions whose stores are indexed (module functions incl. anonymous)
	byFld  map[*types.Var][]*ssa.Store
	byElem map[string][]*ssa.Store // stores into slice/array elements, keyed by element type (reference element types only)
	whole  map[*types.TypeName][]*ssa.Store
	mkClos map[*ssa.Function][]*ssa.MakeClosure
	// inScope limits value flow (callers of a parameter, stores to a field) to the functions under
	// analysis; by default every module function.
	inScope func(*ssa.Function) bool
	// fieldOrigin, when set, names struct fields whose content is an origin of its own (the walk stops there).
	fieldOrigin func(*types.Var) (c10Origin, bool)
}

// Restrict narrows value flow to the functions of set (callers outside it never run in the analysed phase).
func (t *c10Tracer) Restrict(set map[*ssa.Function]bool) {
	t.inScope = func(f *ssa.Function) bool { return set[f] }
	for k, v := range t.byFld {
		t.byFld[k] = c10FilterStores(v, set)
	}
	for k, v := range t.byElem {
		t.byElem[k] = c10FilterStores(v, set)
	}
	for k, v := range t.whole {
		t.whole[k] = c10FilterStores(v, set)
	}
}

func c10FilterStores(in []*ssa.Store, set map[*ssa.Function]bool) []*ssa.Store {
	var out []*ssa.Store
	for _, s := range in {
		if set[s.Parent()] {
			out = append(out, s)
		}
	}
	return out
}

func c10NewTracer(prog *ssa.Program, g *callgraph.Graph, class *c10Class, inMod func(*ssa.Function) bool) *c10Tracer {
	t := &c10Tracer{prog: prog, graph: g, class: class, inMod: inMod, inScope: inMod,
		byFld: map[*types.Var][]*ssa.Store{}, byElem: map[string][]*ssa.Store{}, whole: map[*types.TypeName][]*ssa.Store{}, mkClos: map[*ssa.Function][]*ssa.MakeClosure{}}
	for f := range ssautil.AllFunctions(prog) {
		if inMod(f) && f.Blocks != nil {
			t.funcs = append(t.funcs, f)
		}
	}
	sort.Slice(t.funcs, func(i, j int) bool { return t.funcs[i].String() < t.funcs[j].String() })
	for _, f := range t.funcs {
		for _, b := range f.Blocks {
			for _, in := range b.Instrs {
				switch x := in.(type) {
				case *ssa.Store:
					switch a := x.Addr.(type) {
					case *ssa.FieldAddr:
						if fv := c10FieldVar(a); fv != nil {
							t.byFld[fv] = append(t.byFld[fv], x)
						}
					case *ssa.IndexAddr:
						if c10IsRefType(x.Val.Type()) {
							k := types.TypeString(x.Val.Type(), nil)
							t.byElem[k] = append(t.byElem[k], x)
						}
					}
					if n := c10NamedOf(x.Val.Type()); n != nil {
						if _, isStruct := n.Underlying().(*types.Struct); isStruct {
							if _, isPtr := x.Val.Type().(*types.Pointer); !isPtr {
								t.whole[n.Origin().Obj()] = append(t.whole[n.Origin().Obj()], x)
							}
						}
					}
				case *ssa.MakeClosure:
					if fn, ok := x.Fn.(*ssa.Function); ok {
						t.mkClos[fn] = append(t.mkClos[fn], x)
					}
				}
			}
		}
	}
	return t
}

// c10IsRefType: slices, maps and pointers (types through which memory can be written by a Store).
func c10IsRefType(t types.Type) bool {
	switch t.Underlying().(type) {
	case *types.Slice, *types.Map, *types.Pointer:
		return true
	}
	return false
}

func c10FieldVar(a *ssa.FieldAddr) *types.Var {
	pt, ok := a.X.Type().Underlying().(*types.Pointer)
	if !ok {
		return nil
	}
	st, ok := pt.Elem().Underlying().(*types.Struct)
	if !ok || a.Field >= st.NumFields() {
		return nil
	}
	return st.Field(a.Field)
}

func c10FieldOfValue(f *ssa.Field) *types.Var {
	st, ok := f.X.Type().Underlying().(*types.Struct)
	if !ok || f.Field >= st.NumFields() {
		return nil
	}
	return st.Field(f.Field)
}

// c10Peel strips FieldAddr and IndexAddr-on-array-pointer steps from an address and returns the
// root together with the steps (outermost first).
func c10Peel(a ssa.Value) (root ssa.Value, steps []ssa.Value) {
	for {
		switch x := a.(type) {
		case *ssa.FieldAddr:
			steps = append(steps, x)
			a = x.X
			continue
		case *ssa.IndexAddr:
			if _, isPtr := x.X.Type().Underlying().(*types.Pointer); isPtr {
				steps = append(steps, x)
				a = x.X
				continue
			}
		}
		return a, steps
	}
}

// c10Path renders the written location relative to its nearest named owner: "VM.regs.int[]".
func c10Path(addr ssa.Value) string {
	var parts []string
	a := addr
	for {
		switch x := a.(type) {
		case *ssa.FieldAddr:
			fv := c10FieldVar(x)
			name := "?"
			if fv != nil {
				name = fv.Name()
			}
			parts = append([]string{"." + name}, parts...)
			if n := c10NamedOf(x.X.Type()); n != nil {
				return n.Obj().Name() + strings.Join(parts, "")
			}
			a = x.X
			continue
		case *ssa.IndexAddr:
			parts = append([]string{"[]"}, parts...)
			if _, isPtr := x.X.Type().Underlying().(*types.Pointer); isPtr {
				a = x.X
				continue
			}
			// element of a slice: name the slice by where it was loaded from
			if u, ok := x.X.(*ssa.UnOp); ok && u.Op == token.MUL {
				return c10Path(u.X) + strings.Join(parts, "")
			}
			if s, ok := x.X.(*ssa.Slice); ok {
				if u, ok := s.X.(*ssa.UnOp); ok && u.Op == token.MUL {
					return c10Path(u.X) + strings.Join(parts, "")
				}
			}
			return types.TypeString(x.X.Type(), func(p *types.Package) string { return relOf(p) }) + strings.Join(parts, "")
		case *ssa.Global:
			return "global:" + x.Name() + strings.Join(parts, "")
		}
		tn := types.TypeString(a.Type(), func(p *types.Package) string { return relOf(p) })
		return "(" + tn + ")" + strings.Join(parts, "")
	}
}

type c10Walk struct {
	t    *c10Tracer
	seen map[ssa.Value]bool
	out  map[c10Origin]bool
}

// Origins returns the set of origins of the memory a pointer/slice/map value refers to.
func (t *c10Tracer) Origins(v ssa.Value) []c10Origin {
	w := &c10Walk{t: t, seen: map[ssa.Value]bool{}, out: map[c10Origin]bool{}}
	w.val(v)
	return w.result()
}

// AddrOrigins is Origins for the address operand of a store.
func (t *c10Tracer) AddrOrigins(a ssa.Value) []c10Origin {
	w := &c10Walk{t: t, seen: map[ssa.Value]bool{}, out: map[c10Origin]bool{}}
	w.addr(a)
	return w.result()
}

func (w *c10Walk) result() []c10Origin {
	var out []c10Origin
	for o := range w.out {
		out = append(out, o)
	}
	sort.Slice(out, func(i, j int) bool {
		if out[i].Kind != out[j].Kind {
			return out[i].Kind > out[j].Kind
		}
		return out[i].Desc < out[j].Desc
	})
	return out
}

func (w *c10Walk) emit(k c10Kind, desc string) { w.out[c10Origin{k, desc}] = true }

// addr: the memory region a points into.
func (w *c10Walk) addr(a ssa.Value) {
	root, steps := c10Peel(a)
	switch r := root.(type) {
	case *ssa.Alloc:
		w.emit(c10Fresh, "")
		return
	case *ssa.Global:
		w.emit(c10Global, r.Pkg.Pkg.Name()+"."+r.Name())
		return
	}
	// nearest classified owner along the chain
	for _, s := range steps {
		var xt types.Type
		switch x := s.(type) {
		case *ssa.FieldAddr:
			xt = x.X.Type()
		case *ssa.IndexAddr:
			xt = x.X.Type()
		}
		if o, ok := w.t.class.of(xt); ok {
			w.out[o] = true
			return
		}
	}
	if ia, ok := root.(*ssa.IndexAddr); ok { // element of a slice
		w.val(ia.X)
		return
	}
	w.val(root)
}

// val: the memory the references contained in v refer to.
func (w *c10Walk) val(v ssa.Value) {
	if v == nil || w.seen[v] {
		return
	}
	w.seen[v] = true
	switch x := v.(type) {
	case *ssa.Const, *ssa.Function, *ssa.Builtin:
		w.emit(c10Const, "")
		return
	case *ssa.Alloc, *ssa.MakeSlice, *ssa.MakeMap, *ssa.MakeChan, *ssa.MakeClosure:
		w.emit(c10Fresh, "")
		return
	case *ssa.Global:
		w.emit(c10Global, x.Pkg.Pkg.Name()+"."+x.Name())
		return
	case *ssa.FieldAddr, *ssa.IndexAddr:
		w.addr(v)
		return
	}
	// opaque sources are decided by their type when it is classified
	if _, isPtr := v.Type().Underlying().(*types.Pointer); isPtr || c10NamedOf(v.Type()) != nil {
		if o, ok := w.t.class.of(v.Type()); ok {
			if _, isIface := v.Type().Underlying().(*types.Interface); !isIface {
				w.out[o] = true
				return
			}
		}
	}
	switch x := v.(type) {
	case *ssa.Phi:
		for _, e := range x.Edges {
			w.val(e)
		}
	case *ssa.Slice:
		if _, isPtr := x.X.Type().Underlying().(*types.Pointer); isPtr {
			w.addr(x.X)
		} else if b, ok := x.X.Type().Underlying().(*types.Basic); ok && b.Info()&types.IsString != 0 {
			w.emit(c10Const, "")
		} else {
			w.val(x.X)
		}
	case *ssa.Convert:
		_, toSlice := x.Type().Underlying().(*types.Slice)
		if b, ok := x.X.Type().Underlying().(*types.Basic); ok && toSlice && b.Info()&types.IsString != 0 {
			w.emit(c10Fresh, "") // []byte(s) allocates
			return
		}
		if b, ok := x.Type().Underlying().(*types.Basic); ok && b.Kind() != types.UnsafePointer {
			w.emit(c10Const, "")
			return
		}
		w.val(x.X)
	case *ssa.ChangeType:
		w.val(x.X)
	case *ssa.ChangeInterface:
		w.val(x.X)
	case *ssa.MakeInterface:
		w.val(x.X)
	case *ssa.SliceToArrayPointer:
		w.val(x.X)
	case *ssa.TypeAssert:
		w.val(x.X)
	case *ssa.Extract:
		w.val(x.Tuple)
	case *ssa.Field:
		// value of a field of a struct value: what was put in that field
		if w.t.fieldOrigin != nil {
			if fv := c10FieldOfValue(x); fv != nil {
				if o, ok := w.t.fieldOrigin(fv); ok {
					w.out[o] = true
					return
				}
			}
		}
		w.val(x.X)
	case *ssa.Index:
		w.val(x.X)
	case *ssa.Lookup:
		w.val(x.X)
	case *ssa.Next:
		w.val(x.Iter)
	case *ssa.Range:
		w.val(x.X)
	case *ssa.BinOp:
		w.emit(c10Const, "")
	case *ssa.UnOp:
		switch x.Op {
		case token.MUL:
			w.load(x)
		case token.ARROW:
			w.emit(c10Unknown, "value received from a channel in "+ssaFuncName(x.Parent()))
		default:
			w.emit(c10Const, "")
		}
	case *ssa.Select:
		w.emit(c10Unknown, "select in "+ssaFuncName(x.Parent()))
	case *ssa.Parameter:
		w.param(x)
	case *ssa.FreeVar:
		w.freeVar(x, func(b ssa.Value) { w.val(b) })
	case *ssa.Call:
		w.call(x)
	default:
		w.emit(c10Unknown, fmt.Sprintf("%T in %s", v, ssaFuncName(c10ParentOf(v))))
	}
}

func c10ParentOf(v ssa.Value) *ssa.Function {
	if in, ok := v.(ssa.Instruction); ok {
		return in.Parent()
	}
	return v.Parent()
}

// load: the value read from address x.X.
func (w *c10Walk) load(x *ssa.UnOp) {
	if !c10HoldsRefs(x.Type()) {
		w.emit(c10Const, "")
		return
	}
	w.loadFrom(x.X, x.Type())
}

// c10HoldsRefs reports whether a value of type t can contain something to write through.
func c10HoldsRefs(t types.Type) bool {
	return c10holds(t, 0)
}

func c10holds(t types.Type, depth int) bool {
	if depth > 6 {
		return true
	}
	switch u := t.Underlying().(type) {
	case *types.Basic:
		return u.Kind() == types.UnsafePointer
	case *types.Struct:
		for i := 0; i < u.NumFields(); i++ {
			if c10holds(u.Field(i).Type(), depth+1) {
				return true
			}
		}
		return false
	case *types.Array:
		return c10holds(u.Elem(), depth+1)
	case *types.Signature:
		return false
	case *types.Chan:
		return false
	}
	return true
}

func (w *c10Walk) loadFrom(a ssa.Value, valType types.Type) {
	root, steps := c10Peel(a)
	if w.t.fieldOrigin != nil && len(steps) > 0 {
		if fa, ok := steps[0].(*ssa.FieldAddr); ok {
			if fv := c10FieldVar(fa); fv != nil {
				if o, ok := w.t.fieldOrigin(fv); ok {
					w.out[o] = true
					return
				}
			}
		}
	}
	switch r := root.(type) {
	case *ssa.Alloc:
		w.allocContent(r)
		return
	case *ssa.Global:
		w.emit(c10Global, r.Pkg.Pkg.Name()+"."+r.Name())
		return
	case *ssa.FreeVar:
		// a captured variable: its cell lives in the enclosing function
		w.freeVar(r, func(b ssa.Value) {
			if al, ok := b.(*ssa.Alloc); ok {
				w.allocContent(al)
			} else {
				w.val(b)
			}
		})
		return
	}
	// nearest owner
	if len(steps) > 0 {
		if fa, ok := steps[0].(*ssa.FieldAddr); ok {
			if w.t.fieldOrigin != nil {
				if fv := c10FieldVar(fa); fv != nil {
					if o, ok := w.t.fieldOrigin(fv); ok {
						w.out[o] = true
						return
					}
				}
			}
			// is some owner along the chain shared?
			for _, s := range steps {
				var xt types.Type
				switch y := s.(type) {
				case *ssa.FieldAddr:
					xt = y.X.Type()
				case *ssa.IndexAddr:
					xt = y.X.Type()
				}
				if o, ok := w.t.class.of(xt); ok {
					if o.Kind == c10Shared {
						w.out[o] = true
						return
					}
					break
				}
			}
			// field flow: everything ever stored to this field
			fv := c10FieldVar(fa)
			n := 0
			if fv != nil {
				for _, st := range w.t.byFld[fv] {
					n++
					w.val(st.Val)
				}
				// whole-struct stores of the owning struct
				if own := c10NamedOf(fa.X.Type()); own != nil {
					for _, st := range w.t.whole[own.Origin().Obj()] {
						n++
						w.val(st.Val)
					}
				}
			}
			if n == 0 {
				// never stored by module code: zero value, or set by a composite literal lowered to
				// stores (already indexed). Attribute to the container.
				w.val(fa.X)
			}
			return
		}
		// element of an array reached through a pointer: container's origin
		w.addr(a)
		return
	}
	if ia, ok := root.(*ssa.IndexAddr); ok {
		// element of a slice: reference-typed elements flow through every store of that element type
		if c10IsRefType(valType) {
			k := types.TypeString(valType, nil)
			for _, st := range w.t.byElem[k] {
				w.val(st.Val)
			}
		}
		w.val(ia.X)
		return
	}
	// *p for an opaque pointer p
	w.val(root)
}

// allocContent: everything stored into a local cell (any sub-path), in its function and the closures capturing it.
func (w *c10Walk) allocContent(al *ssa.Alloc) {
	if w.seen[al] {
		return
	}
	w.seen[al] = true
	n := 0
	var scan func(f *ssa.Function, base ssa.Value)
	scan = func(f *ssa.Function, base ssa.Value) {
		for _, b := range f.Blocks {
			for _, in := range b.Instrs {
				switch x := in.(type) {
				case *ssa.Store:
					if r, _ := c10Peel(x.Addr); r == base {
						n++
						w.val(x.Val)
					}
				case *ssa.MakeClosure:
					for i, bnd := range x.Bindings {
						if bnd == base {
							if fn, ok := x.Fn.(*ssa.Function); ok && i < len(fn.FreeVars) {
								scan(fn, fn.FreeVars[i])
							}
						}
					}
				}
			}
		}
	}
	if al.Parent() != nil {
		scan(al.Parent(), al)
	}
	if n == 0 {
		w.emit(c10Const, "")
	}
}

func (w *c10Walk) freeVar(fv *ssa.FreeVar, f func(binding ssa.Value)) {
	fn := fv.Parent()
	idx := -1
	for i, x := range fn.FreeVars {
		if x == fv {
			idx = i
		}
	}
	mcs := w.t.mkClos[fn]
	if idx < 0 || len(mcs) == 0 {
		w.emit(c10Unknown, "free variable "+fv.Name()+" of "+ssaFuncName(fn)+" without a visible closure creation")
		return
	}
	for _, mc := range mcs {
		if idx < len(mc.Bindings) {
			f(mc.Bindings[idx])
		}
	}
}

func (w *c10Walk) param(p *ssa.Parameter) {
	fn := p.Parent()
	idx := -1
	for i, x := range fn.Params {
		if x == p {
			idx = i
		}
	}
	var node *callgraph.Node
	if w.t.graph != nil {
		node = w.t.graph.Nodes[fn]
	}
	if idx < 0 || node == nil || len(node.In) == 0 {
		w.emit(c10Entry, "parameter "+p.Name()+" of "+ssaFuncName(fn))
		return
	}
	ncallers := 0
	defer func() {
		if ncallers == 0 {
			w.emit(c10Entry, "parameter "+p.Name()+" of "+ssaFuncName(fn))
		}
	}()
	for _, e := range node.In {
		if e.Site == nil {
			continue
		}
		if w.t.inMod(e.Caller.Func) && !w.t.inScope(e.Caller.Func) {
			continue
		}
		ncallers++
		c := e.Site.Common()
		var arg ssa.Value
		if c.IsInvoke() {
			if idx == 0 {
				arg = c.Value
			} else if idx-1 < len(c.Args) {
				arg = c.Args[idx-1]
			}
		} else if len(c.Args) == len(fn.Params) {
			arg = c.Args[idx]
		} else if len(c.Args) == len(fn.Params)-1 && idx > 0 {
			// bound method value called through a closure: receiver is bound
			arg = c.Args[idx-1]
		}
		if arg == nil {
			// callers outside the module (the standard library calling back) cannot be followed
			if !w.t.inMod(e.Caller.Func) {
				w.emit(c10Extern, "callback argument "+p.Name()+" of "+ssaFuncName(fn))
			} else {
				w.emit(c10Unknown, "argument for "+p.Name()+" of "+ssaFuncName(fn)+" not matched at a call in "+ssaFuncName(e.Caller.Func))
			}
			continue
		}
		if !w.t.inMod(e.Caller.Func) {
			w.emit(c10Extern, "argument "+p.Name()+" of "+ssaFuncName(fn)+" passed by "+e.Caller.Func.String())
			continue
		}
		w.val(arg)
	}
}

// c10FreshExtern lists functions outside the module whose result is storage nobody else holds.
var c10FreshExtern = map[string]bool{
	"reflect.New": true, "reflect.MakeSlice": true, "reflect.MakeMap": true, "reflect.MakeMapWithSize": true,
	"reflect.MakeChan": true, "reflect.Zero": true, "reflect.MakeFunc": true, "reflect.NewAt": false,
	"errors.New": true, "fmt.Errorf": true, "fmt.Sprintf": true, "fmt.Sprint": true,
	"strings.NewReader": true, "bytes.NewReader": true, "bytes.NewBuffer": false,
	"math/big.NewInt": true, "math/big.NewFloat": true, "math/big.NewRat": true,
}

func (w *c10Walk) call(c *ssa.Call) {
	cc := c.Common()
	if b, ok := cc.Value.(*ssa.Builtin); ok {
		switch b.Name() {
		case "append":
			// the result may share the backing array of the first operand
			w.val(cc.Args[0])
			w.emit(c10Fresh, "")
		default:
			w.emit(c10Const, "")
		}
		return
	}
	if !c10HoldsRefs(c.Type()) {
		if _, isTuple := c.Type().(*types.Tuple); !isTuple {
			w.emit(c10Const, "")
			return
		}
	}
	var callees []*ssa.Function
	if sc := cc.StaticCallee(); sc != nil {
		callees = []*ssa.Function{sc}
	} else if w.t.graph != nil {
		if n := w.t.graph.Nodes[c.Parent()]; n != nil {
			for _, e := range n.Out {
				if e.Site == ssa.CallInstruction(c) {
					callees = append(callees, e.Callee.Func)
				}
			}
		}
	}
	if len(callees) == 0 {
		w.emit(c10Unknown, "dynamic call without callees in "+ssaFuncName(c.Parent()))
		return
	}
	for _, f := range callees {
		if w.t.inMod(f) && f.Blocks != nil {
			for _, b := range f.Blocks {
				for _, in := range b.Instrs {
					if r, ok := in.(*ssa.Return); ok {
						for _, res := range r.Results {
							if c10HoldsRefs(res.Type()) {
								w.val(res)
							}
						}
					}
				}
			}
			continue
		}
		name := f.String()
		if f.Object() != nil {
			name = c10ExtName(f)
		}
		if c10FreshExtern[name] {
			w.emit(c10Fresh, "")
			continue
		}
		if f.Pkg != nil && f.Pkg.Pkg.Path() == "reflect" || strings.HasPrefix(name, "reflect.") {
			// reflect accessors hand out views of their operands
			for _, a := range cc.Args {
				if c10HoldsRefs(a.Type()) {
					w.val(a)
				}
			}
			if cc.IsInvoke() {
				w.val(cc.Value)
			}
			continue
		}
		w.emit(c10Extern, name)
	}
}

func c10ExtName(f *ssa.Function) string {
	fn, ok := f.Object().(*types.Func)
	if !ok || fn.Pkg() == nil {
		return f.String()
	}
	sig := fn.Type().(*types.Signature)
	if sig.Recv() != nil {
		if n := c10NamedOf(sig.Recv().Type()); n != nil {
			star := ""
			if _, p := sig.Recv().Type().(*types.Pointer); p {
				star = "*"
			}
			return fmt.Sprintf("%s.(%s%s).%s", fn.Pkg().Path(), star, n.Obj().Name(), fn.Name())
		}
	}
	return fn.Pkg().Path() + "." + fn.Name()
}

// ---------------------------------------------------------------------------
// Write sites

// c10Write is one memory write visible in SSA.
type c10Write struct {
	Fn    *ssa.Function
	Instr ssa.Instruction
	Addr  ssa.Value // address (Store, atomic) or nil
	Ref   ssa.Value // slice/map written into (copy, append, delete, clear, MapUpdate) or nil
	How   string    // "store", "mapupdate", "copy", "append", "delete", "clear", "atomic"
}

func (wr *c10Write) Path() string {
	if wr.Addr != nil {
		return c10Path(wr.Addr)
	}
	// name a slice/map by where it was loaded from
	v := wr.Ref
	for {
		switch x := v.(type) {
		case *ssa.Slice:
			v = x.X
			continue
		case *ssa.UnOp:
			if x.Op == token.MUL {
				return c10Path(x.X) + "[]"
			}
		case *ssa.FieldAddr, *ssa.IndexAddr:
			return c10Path(x) + "[]"
		}
		return types.TypeString(v.Type(), func(p *types.Package) string { return relOf(p) }) + "[]"
	}
}

// c10WritesOf lists the writes of a function. Stores to plain local cells are skipped (counted in nlocal).
func c10WritesOf(f *ssa.Function) (out []*c10Write, nlocal int) {
	for _, b := range f.Blocks {
		for _, in := range b.Instrs {
			switch x := in.(type) {
			case *ssa.Store:
				if r, _ := c10Peel(x.Addr); r != nil {
					if _, isAlloc := r.(*ssa.Alloc); isAlloc {
						nlocal++
						continue
					}
				}
				out = append(out, &c10Write{Fn: f, Instr: in, Addr: x.Addr, How: "store"})
			case *ssa.MapUpdate:
				out = append(out, &c10Write{Fn: f, Instr: in, Ref: x.Map, How: "mapupdate"})
			case ssa.CallInstruction:
				cc := x.Common()
				if bi, ok := cc.Value.(*ssa.Builtin); ok {
					switch bi.Name() {
					case "copy", "delete", "clear":
						out = append(out, &c10Write{Fn: f, Instr: in, Ref: cc.Args[0], How: bi.Name()})
					case "append":
						out = append(out, &c10Write{Fn: f, Instr: in, Ref: cc.Args[0], How: "append"})
					}
					continue
				}
				// methods of the sync/atomic value types (atomic.Pointer[T].Store, atomic.Int32.Add, …):
				// the receiver is the written location
				if sc := cc.StaticCallee(); sc != nil && sc.Signature.Recv() != nil && len(cc.Args) > 0 {
					rt := sc.Signature.Recv().Type()
					if p, ok := rt.(*types.Pointer); ok {
						rt = p.Elem()
					}
					if nt, ok := rt.(*types.Named); ok && nt.Obj().Pkg() != nil && nt.Obj().Pkg().Path() == "sync" && nt.Obj().Name() == "Map" {
						// a sync.Map is written by these methods (added after seeded change C10-9: a per
						// call-site cache kept in the compiled Function)
						switch sc.Name() {
						case "Store", "LoadOrStore", "LoadAndDelete", "Delete", "Swap", "CompareAndSwap", "CompareAndDelete", "Clear":
							out = append(out, &c10Write{Fn: f, Instr: in, Addr: cc.Args[0], How: "atomic"})
						}
						continue
					}
					if nt, ok := rt.(*types.Named); ok && nt.Obj().Pkg() != nil && nt.Obj().Pkg().Path() == "sync/atomic" {
						n := sc.Name()
						if n == "Store" || n == "Add" || n == "Swap" || n == "CompareAndSwap" || n == "And" || n == "Or" {
							out = append(out, &c10Write{Fn: f, Instr: in, Addr: cc.Args[0], How: "atomic"})
						}
						continue
					}
				}
				// library functions that reorder or overwrite the slice they are given (added after seeded
				// change C10-8: UsedVars sorted the compiled globals in place)
				if sc := cc.StaticCallee(); sc != nil && sc.Pkg != nil && len(cc.Args) > 0 {
					pk, n := sc.Pkg.Pkg.Path(), sc.Name()
					if i := strings.IndexByte(n, '['); i >= 0 {
						n = n[:i] // generic instance
					}
					inPlace := pk == "sort" && (n == "Slice" || n == "SliceStable" || n == "Sort" || n == "Stable" || n == "Strings" || n == "Ints" || n == "Float64s") ||
						pk == "slices" && (strings.HasPrefix(n, "Sort") || n == "Reverse" || n == "Compact" || n == "CompactFunc" || n == "Delete" || n == "DeleteFunc" || n == "Insert" || n == "Replace")
					if inPlace {
						arg := cc.Args[0]
						// sort.Slice takes the slice boxed in an interface
						if mi, ok := arg.(*ssa.MakeInterface); ok {
							arg = mi.X
						}
						out = append(out, &c10Write{Fn: f, Instr: in, Ref: arg, How: "copy"})
						continue
					}
				}
				if sc := cc.StaticCallee(); sc != nil && sc.Pkg != nil && sc.Pkg.Pkg.Path() == "sync/atomic" && len(cc.Args) > 0 {
					n := sc.Name()
					if strings.HasPrefix(n, "Store") || strings.HasPrefix(n, "Add") || strings.HasPrefix(n, "Swap") || strings.HasPrefix(n, "CompareAndSwap") || strings.HasPrefix(n, "And") || strings.HasPrefix(n, "Or") {
						if _, isPtr := cc.Args[0].Type().Underlying().(*types.Pointer); isPtr {
							out = append(out, &c10Write{Fn: f, Instr: in, Addr: cc.Args[0], How: "atomic"})
						}
					}
				}
			}
		}
	}
	return
}

func (t *c10Tracer) WriteOrigins(wr *c10Write) []c10Origin {
	if wr.Addr != nil {
		return t.AddrOrigins(wr.Addr)
	}
	return t.Origins(wr.Ref)
}

// ---------------------------------------------------------------------------
// Roles

type c10Roles struct {
	vm, env, renderer, callFrame, callable, registers *types.Named
	function, nativeFunction, global, typesT          *types.Named
	program, template                                 *types.Named
	scriggoTypes                                      []*types.Named
	vmRun, runDriver, newVM, create                   *FuncInfo
	argsPool                                          *types.Var
}

func c10StructOf(n *types.Named) *types.Struct {
	if n == nil {
		return nil
	}
	s, _ := n.Underlying().(*types.Struct)
	return s
}

func c10FieldNamed(n *types.Named, name string) *types.Var {
	s := c10StructOf(n)
	if s == nil {
		return nil
	}
	for i := 0; i < s.NumFields(); i++ {
		if s.Field(i).Name() == name {
			return s.Field(i)
		}
	}
	return nil
}

// c10ElemNamed: the named type behind pointers, slices and arrays.
func c10ElemNamed(t types.Type) *types.Named {
	for {
		switch x := t.(type) {
		case *types.Pointer:
			t = x.Elem()
		case *types.Slice:
			t = x.Elem()
		case *types.Array:
			t = x.Elem()
		case *types.Alias:
			t = types.Unalias(x)
		case *types.Named:
			return x
		default:
			return nil
		}
	}
}

// c10ResolveRoles finds the types and functions by role (DESIGN.md §10.1), names second.
func c10ResolveRoles(r *Run, rule string) *c10Roles {
	const rt = "internal/runtime"
	ro := &c10Roles{}
	// the interpreter loop: method with a for whose body reads <recv>.fn.Body[<recv>.pc]; its receiver is the VM.
	rtPkg := r.P.Pkg(rt)
	if !r.Anchor(rule, "package internal/runtime", rtPkg != nil) {
		return nil
	}
	var loop *FuncInfo
	for _, fi := range r.P.Funcs(rt) {
		if fi.Decl.Recv == nil || r.P.isTestFile(fi.File) {
			continue
		}
		found := false
		ast.Inspect(fi.Decl.Body, func(n ast.Node) bool {
			sw, ok := n.(*ast.SwitchStmt)
			if !ok || sw.Tag == nil || found {
				return !found
			}
			if nt, _ := fi.Pkg.TypesInfo.TypeOf(sw.Tag).(*types.Named); nt != nil && nt.Obj().Name() == "Operation" && len(sw.Body.List) > 50 {
				found = true
			}
			return !found
		})
		if found {
			if loop != nil {
				r.Anchor(rule, "interpreter loop (several candidates)", false)
				return nil
			}
			loop = fi
		}
	}
	if !r.Anchor(rule, "interpreter loop (method switching on Operation with > 50 clauses)", loop != nil) {
		return nil
	}
	ro.vm = c10NamedOf(loop.Obj.Type().(*types.Signature).Recv().Type())
	if !r.Anchor(rule, "VM type (receiver of the interpreter loop)", ro.vm != nil) {
		return nil
	}
	st := c10StructOf(ro.vm)
	for i := 0; i < st.NumFields(); i++ {
		f := st.Field(i)
		n := c10ElemNamed(f.Type())
		if n == nil || n.Obj().Pkg() != rtPkg.Types {
			continue
		}
		switch f.Name() {
		case "env":
			ro.env = n
		case "renderer":
			ro.renderer = n
		case "calls":
			ro.callFrame = n
		case "regs":
			ro.registers = n
		case "fn":
			ro.function = n
		}
	}
	if ro.callFrame != nil {
		if f := c10FieldNamed(ro.callFrame, "cl"); f != nil {
			ro.callable = c10ElemNamed(f.Type())
		}
	}
	if ro.function != nil {
		if f := c10FieldNamed(ro.function, "NativeFunctions"); f != nil {
			ro.nativeFunction = c10ElemNamed(f.Type())
		}
	}
	if ro.nativeFunction != nil {
		s := c10StructOf(ro.nativeFunction)
		for i := 0; s != nil && i < s.NumFields(); i++ {
			if n := c10ElemNamed(s.Field(i).Type()); n != nil && n.Obj().Pkg() != nil && n.Obj().Pkg().Path() == "sync" && n.Obj().Name() == "Pool" {
				ro.argsPool = s.Field(i)
			}
		}
	}
	ok := true
	for _, a := range []struct {
		what string
		n    *types.Named
	}{{"env type (VM.env)", ro.env}, {"renderer type (VM.renderer)", ro.renderer}, {"callFrame type (VM.calls)", ro.callFrame},
		{"registers type (VM.regs)", ro.registers}, {"Function type (VM.fn)", ro.function}, {"callable type (callFrame.cl)", ro.callable},
		{"NativeFunction type (Function.NativeFunctions)", ro.nativeFunction}} {
		ok = r.Anchor(rule, a.what, a.n != nil) && ok
	}
	ok = r.Anchor(rule, "sync.Pool field of NativeFunction", ro.argsPool != nil) && ok
	ro.global = r.P.Named("internal/compiler", "Global")
	ro.typesT = r.P.Named("internal/compiler/types", "Types")
	ro.program = r.P.Named("", "Program")
	ro.template = r.P.Named("", "Template")
	ok = r.Anchor(rule, "compiler.Global", ro.global != nil) && ok
	ok = r.Anchor(rule, "types.Types", ro.typesT != nil) && ok
	ok = r.Anchor(rule, "scriggo.Program", ro.program != nil) && ok
	ok = r.Anchor(rule, "scriggo.Template", ro.template != nil) && ok
	// Scriggo type objects: every named non-interface type of the module implementing runtime.ScriggoType
	if st := r.P.Named(rt, "ScriggoType"); r.Anchor(rule, "runtime.ScriggoType", st != nil) {
		iface := st.Underlying().(*types.Interface)
		for _, pk := range r.P.Pkgs {
			for _, t := range implementers(pk, iface) {
				if n := c10NamedOf(t); n != nil {
					ro.scriggoTypes = append(ro.scriggoTypes, n)
				}
			}
		}
		ok = r.Anchor(rule, "implementations of runtime.ScriggoType", len(ro.scriggoTypes) >= 5) && ok
	} else {
		ok = false
	}
	// functions: the run driver is the VM method called in a go statement and by the exported Run;
	// (*VM).Run is the exported VM method taking a *Function.
	for _, fi := range r.P.Funcs(rt) {
		if r.P.isTestFile(fi.File) || fi.Obj == nil {
			continue
		}
		sig := fi.Obj.Type().(*types.Signature)
		recvVM := sig.Recv() != nil && c10NamedOf(sig.Recv().Type()) == ro.vm
		takesFn := sig.Params().Len() > 0 && c10NamedOf(sig.Params().At(0).Type()) == ro.function
		switch {
		case recvVM && takesFn && fi.Obj.Exported():
			ro.vmRun = fi
		case recvVM && takesFn && !fi.Obj.Exported():
			ro.runDriver = fi
		case sig.Recv() == nil && fi.Obj.Exported() && sig.Params().Len() == 0 && sig.Results().Len() == 1 && c10NamedOf(sig.Results().At(0).Type()) == ro.vm:
			ro.newVM = fi
		case sig.Recv() == nil && !fi.Obj.Exported() && sig.Results().Len() == 1 && c10NamedOf(sig.Results().At(0).Type()) == ro.vm && sig.Params().Len() == 1 && c10NamedOf(sig.Params().At(0).Type()) == ro.env:
			ro.create = fi
		}
	}
	ok = r.Anchor(rule, "exported VM method taking *Function ((*VM).Run)", ro.vmRun != nil) && ok
	ok = r.Anchor(rule, "run driver (unexported VM method taking *Function)", ro.runDriver != nil) && ok
	ok = r.Anchor(rule, "VM constructor without parameters (NewVM)", ro.newVM != nil) && ok
	ok = r.Anchor(rule, "VM constructor taking *env (create)", ro.create != nil) && ok
	if !ok {
		return nil
	}
	return ro
}

func (ro *c10Roles) class() *c10Class {
	c := &c10Class{perRun: map[*types.TypeName]bool{}, shared: map[*types.TypeName]bool{}}
	for _, n := range []*types.Named{ro.vm, ro.env, ro.renderer, ro.callFrame, ro.callable, ro.registers} {
		c.perRun[n.Obj()] = true
	}
	for _, n := range []*types.Named{ro.function, ro.nativeFunction, ro.global, ro.typesT, ro.program, ro.template} {
		c.shared[n.Obj()] = true
	}
	for _, n := range ro.scriggoTypes {
		c.shared[n.Obj()] = true
	}
	return c
}

// ---------------------------------------------------------------------------
// Exceptions (one symbol, one reason)

// c10ExternOK: results of these functions outside the module may be written by run-time code.
var c10ExternOK = map[string]string{
	"sync.(*Pool).Get": "argument slices recycled through sync.Pool: Get hands the slice to exactly one caller until Put (pool discipline is R-3)",
}

// c10PerRunExtra: named types of package runtime, besides the ones found by role, whose instances are made per run.
var c10PerRunExtra = map[string]string{
	"PanicError": "error value created by the running VM for one panic; linked into vm.panic of that VM only",
	"fatalError": "error value created by the running VM",
}

// ---------------------------------------------------------------------------

func runC10(r *Run) {
	ro := c10ResolveRoles(r, "R-1")
	if ro == nil {
		return
	}
	c10R1(r, ro)
	c10R2(r, ro)
	c10R3(r, ro)
	c10R4(r, ro)
}

func c10Tracer0(r *Run, ro *c10Roles) (*c10Tracer, *c10Class) {
	class := ro.class()
	for name := range c10PerRunExtra {
		if n := r.P.Named("internal/runtime", name); n != nil {
			class.perRun[n.Obj()] = true
		}
	}
	s := r.P.SSA()
	return c10NewTracer(s.prog, r.Graph(), class, inModule), class
}

// c10Verdict folds a set of origins into a verdict.
func c10Verdict(os []c10Origin) (bad, unknown []c10Origin) {
	for _, o := range os {
		switch o.Kind {
		case c10Shared, c10Global:
			bad = append(bad, o)
		case c10Extern:
			if _, ok := c10ExternOK[o.Desc]; !ok {
				unknown = append(unknown, o)
			}
		case c10Entry, c10Unknown:
			unknown = append(unknown, o)
		}
	}
	return
}

func c10Join(os []c10Origin) string {
	var s []string
	for _, o := range os {
		s = append(s, o.String())
	}
	return strings.Join(s, ", ")
}

func c10R1(r *Run, ro *c10Roles) {
	const R = "R-1"
	tr, _ := c10Tracer0(r, ro)
	g := r.Graph()
	var roots []*ssa.Function
	for _, fi := range []*FuncInfo{ro.vmRun, ro.runDriver} {
		if f := r.P.SSAFunc(fi); f != nil {
			roots = append(roots, f)
		}
	}
	// the API methods that call (*VM).Run
	api := c10APIRuns(r, ro)
	for _, fi := range api {
		if f := r.P.SSAFunc(fi); f != nil {
			roots = append(roots, f)
		}
	}
	// … and every other method of the artefact types (UsedVars, Disassemble, …): after the build,
	// whatever a caller may invoke on a compiled Program / Template must leave it unchanged, since it may
	// run before, between or during runs (added after seeded change C10-8)
	seenRecv := map[*types.Named]bool{}
	for _, fi := range api {
		sig := fi.Obj.Type().(*types.Signature)
		if sig.Recv() == nil {
			continue
		}
		rt := sig.Recv().Type()
		if p, ok := rt.(*types.Pointer); ok {
			rt = p.Elem()
		}
		n, ok := rt.(*types.Named)
		if !ok || seenRecv[n] {
			continue
		}
		seenRecv[n] = true
		for _, t := range []types.Type{n, types.NewPointer(n)} {
			ms := tr.prog.MethodSets.MethodSet(t)
			for i := 0; i < ms.Len(); i++ {
				if f := tr.prog.MethodValue(ms.At(i)); f != nil && inModule(f) && f.Object() != nil && f.Object().Exported() {
					roots = append(roots, f)
				}
			}
		}
	}
	if !r.Anchor(R, "root functions in SSA", len(roots) >= 2) {
		return
	}
	// the Scriggo type objects a compiled artefact carries are called back by reflect-like code paths
	for _, n := range ro.scriggoTypes {
		for _, t := range []types.Type{n, types.NewPointer(n)} {
			ms := tr.prog.MethodSets.MethodSet(t)
			for i := 0; i < ms.Len(); i++ {
				if f := tr.prog.MethodValue(ms.At(i)); f != nil && inModule(f) {
					roots = append(roots, f)
				}
			}
		}
	}
	reach := c10Reach(tr.prog, g, roots)
	tr.Restrict(reach)
	var fns []*ssa.Function
	for f := range reach {
		if inModule(f) && f.Blocks != nil {
			fns = append(fns, f)
			if f.Synthetic == "" {
				r.Stats["r1_reachable_declared_functions"]++
			}
		}
	}
	sort.Slice(fns, func(i, j int) bool { return fns[i].String() < fns[j].String() })
	r.Stats["r1_reachable_module_functions"] = len(fns)
	nlocal, nwrites := 0, 0
	for _, f := range fns {
		ws, nl := c10WritesOf(f)
		nlocal += nl
		c10Judge(r, R, tr, f, ws, &nwrites)
	}
	r.Stats["r1_writes_classified"] = nwrites
	r.Stats["r1_local_cell_stores_skipped"] = nlocal
	r.Require(R, 100)
	c10Control(r, ro)
}

// c10Judge groups the writes of one function by written location and records one obligation per group.
func c10Judge(r *Run, rule string, tr *c10Tracer, f *ssa.Function, ws []*c10Write, count *int) {
	type group struct {
		pos          token.Pos
		n            int
		bad, unknown map[string]bool
		okKinds      map[string]bool
	}
	groups := map[string]*group{}
	var order []string
	for _, wr := range ws {
		*count++
		key := ssaFuncName(f) + "#" + wr.How + ":" + wr.Path()
		gp := groups[key]
		if gp == nil {
			gp = &group{pos: wr.Instr.Pos(), bad: map[string]bool{}, unknown: map[string]bool{}, okKinds: map[string]bool{}}
			groups[key] = gp
			order = append(order, key)
		}
		gp.n++
		os := tr.WriteOrigins(wr)
		bad, unk := c10Verdict(os)
		for _, o := range bad {
			gp.bad[o.String()] = true
		}
		for _, o := range unk {
			gp.unknown[o.String()] = true
		}
		for _, o := range os {
			gp.okKinds[o.Kind.String()] = true
		}
		if len(os) == 0 {
			gp.unknown["no origin found"] = true
		}
	}
	for _, key := range order {
		gp := groups[key]
		o := r.Ob(rule, key, gp.pos)
		switch {
		case len(gp.bad) > 0:
			o.Bad("%d write(s) land in compiled/shared storage: %s", gp.n, strings.Join(sortedKeys(gp.bad), ", "))
		case len(gp.unknown) > 0:
			o.Unknown("%d write(s) whose target could not be attributed: %s", gp.n, strings.Join(sortedKeys(gp.unknown), ", "))
		default:
			o.OK("%d write(s), every origin is %s", gp.n, strings.Join(sortedKeys(gp.okKinds), "/"))
		}
	}
}

// c10Reach computes the module functions a run can execute, starting from roots: static callees,
// the call graph's callees of dynamic and interface call sites, every function used as a value
// (closures, method values, callbacks handed to the standard library), and, because the standard
// library calls back only through values it was given, every method of a module type that reachable
// code converts to an interface. Functions outside the module are not entered.
func c10Reach(prog *ssa.Program, g *callgraph.Graph, roots []*ssa.Function) map[*ssa.Function]bool {
	seen := map[*ssa.Function]bool{}
	var work []*ssa.Function
	add := func(f *ssa.Function) {
		if f == nil || seen[f] || f.Blocks == nil {
			return
		}
		if !inModule(f) && (f.Synthetic == "" || f.Pkg != nil) {
			return // not entered: other packages; their synthetic functions (init, wrappers of std types)
		}
		seen[f] = true
		work = append(work, f)
	}
	for _, f := range roots {
		add(f)
	}
	ifaceSeen := map[types.Type]bool{}
	for len(work) > 0 {
		f := work[len(work)-1]
		work = work[:len(work)-1]
		var node *callgraph.Node
		if g != nil {
			node = g.Nodes[f]
		}
		dyn := map[ssa.CallInstruction]bool{}
		for _, b := range f.Blocks {
			for _, in := range b.Instrs {
				var ops [16]*ssa.Value
				for _, op := range in.Operands(ops[:0]) {
					if op == nil || *op == nil {
						continue
					}
					if fn, ok := (*op).(*ssa.Function); ok {
						add(fn)
					}
				}
				switch x := in.(type) {
				case ssa.CallInstruction:
					if x.Common().StaticCallee() == nil {
						dyn[x] = true
					}
				case *ssa.MakeInterface:
					t := x.X.Type()
					if n := c10NamedOf(t); n != nil && n.Obj().Pkg() != nil && strings.HasPrefix(n.Obj().Pkg().Path(), modulePath) && !ifaceSeen[t] {
						ifaceSeen[t] = true
						ms := prog.MethodSets.MethodSet(t)
						for i := 0; i < ms.Len(); i++ {
							add(prog.MethodValue(ms.At(i)))
						}
					}
				}
			}
		}
		if node != nil {
			for _, e := range node.Out {
				if e.Site != nil && dyn[e.Site] {
					add(e.Callee.Func)
				}
			}
		}
	}
	return seen
}

// c10APIRuns: methods of the root package that call (*VM).Run.
func c10APIRuns(r *Run, ro *c10Roles) []*FuncInfo {
	var out []*FuncInfo
	for _, fi := range r.P.Funcs("") {
		if r.P.isTestFile(fi.File) {
			continue
		}
		for _, c := range calls(fi.Decl.Body, true) {
			if callee(fi.Pkg.TypesInfo, c) == ro.vmRun.Obj {
				out = append(out, fi)
				break
			}
		}
	}
	return out
}

// ---------------------------------------------------------------------------
// Positive control for R-1

const c10ControlSrc = `package c10control

import (
	rt "github.com/open2b/scriggo/internal/runtime"
)

var counter int

// every function below performs one write R-1 must flag
func constValue(fn *rt.Function)  { fn.Values.Int[0] = 1 }
func bodyAppend(fn *rt.Function)  { fn.Body = append(fn.Body, rt.Instruction{}) }
func textByte(fn *rt.Function)    { fn.Text[0][0] = 'x' }
func infoMap(fn *rt.Function)     { fn.InstructionInfo[0] = rt.InstructionInfo{} }
func nested(fn *rt.Function)      { fn.Functions[0].NumReg[1] = 2 }
func viaHelper(fn *rt.Function)   { helper(fn.FieldIndexes[0]) }
func helper(s []int)              { s[0] = 7 }
func copyInto(fn *rt.Function)    { copy(fn.Values.String, []string{"x"}) }
func global()                     { counter++ }
func viaLocal(fn *rt.Function)    { t := fn.Types; t[0] = nil }

// and these must stay silent
func fresh() *rt.Function         { f := &rt.Function{}; f.Name = "x"; f.Body = make([]rt.Instruction, 1); f.Body[0].A = 1; return f }
func local(fn *rt.Function) int   { x := make([]int64, 2); x[0] = fn.Values.Int[0]; return int(x[0]) }
`

var c10ControlExpect = map[string]bool{
	"constValue": true, "bodyAppend": true, "textByte": true, "infoMap": true, "nested": true,
	"helper": true, "copyInto": true, "global": true, "viaLocal": true,
	"fresh": false, "local": false, "viaHelper": false,
}

func c10Control(r *Run, ro *c10Roles) {
	const R = "R-1"
	fset := r.P.Fset
	file, err := parser.ParseFile(fset, "c10control.go", c10ControlSrc, 0)
	if err != nil {
		r.Ob(R, "control#parse", token.NoPos).Unknown("control fixture does not parse: %v", err)
		return
	}
	imp := c10Importer{r.P}
	pkg := types.NewPackage("c10control", "c10control")
	spkg, _, err := ssautil.BuildPackage(&types.Config{Importer: imp}, fset, pkg, []*ast.File{file}, ssa.InstantiateGenerics)
	if err != nil || spkg == nil {
		r.Ob(R, "control#typecheck", token.NoPos).Unknown("control fixture does not type-check: %v", err)
		return
	}
	prog := spkg.Prog
	inCtl := func(f *ssa.Function) bool {
		for f != nil && f.Parent() != nil {
			f = f.Parent()
		}
		return f != nil && f.Pkg == spkg
	}
	tr := c10NewTracer(prog, cha.CallGraph(prog), ro.class(), inCtl)
	names := sortedKeys(c10ControlExpect)
	for _, name := range names {
		f := spkg.Func(name)
		if f == nil {
			r.Ob(R, "control#"+name, token.NoPos).Unknown("control function missing")
			continue
		}
		ws, _ := c10WritesOf(f)
		fired := false
		var facts []string
		for _, wr := range ws {
			os := tr.WriteOrigins(wr)
			bad, _ := c10Verdict(os)
			if len(bad) > 0 {
				fired = true
			}
			facts = append(facts, wr.How+":"+wr.Path()+" -> "+c10Join(os))
		}
		o := r.Ob(R, "control#"+name, f.Pos())
		want := c10ControlExpect[name]
		switch {
		case want && fired:
			o.OK("fixture write flagged as expected (%s)", strings.Join(facts, "; "))
		case want && !fired:
			o.Bad("the rule no longer flags a write into compiled code in the fixture (%s): R-1 would pass vacuously", strings.Join(facts, "; "))
		case !want && fired:
			o.Bad("the rule flags a harmless write in the fixture (%s)", strings.Join(facts, "; "))
		default:
			o.OK("harmless fixture write stays silent (%s)", strings.Join(facts, "; "))
		}
	}
}

// c10Importer serves the already loaded packages to go/types.
type c10Importer struct{ p *Prog }

func (i c10Importer) Import(path string) (*types.Package, error) {
	for _, pk := range i.p.all {
		if pk.PkgPath == path && pk.Types != nil && !strings.HasSuffix(pk.ID, "]") {
			return pk.Types, nil
		}
	}
	for _, pk := range i.p.all {
		if pk.PkgPath == path && pk.Types != nil {
			return pk.Types, nil
		}
	}
	return nil, fmt.Errorf("package %s not loaded", path)
}

// ---------------------------------------------------------------------------
// R-2 fresh machine per run

// c10StripPhi follows phis and returns the non-phi sources of v.
func c10StripPhi(v ssa.Value) []ssa.Value {
	seen := map[ssa.Value]bool{}
	var out []ssa.Value
	var walk func(v ssa.Value)
	walk = func(v ssa.Value) {
		if seen[v] {
			return
		}
		seen[v] = true
		if p, ok := v.(*ssa.Phi); ok {
			for _, e := range p.Edges {
				walk(e)
			}
			return
		}
		out = append(out, v)
	}
	walk(v)
	return out
}

func c10CalleeName(c *ssa.CallCommon) string {
	if sc := c.StaticCallee(); sc != nil {
		if sc.Object() != nil {
			return c10ExtName(sc)
		}
		return sc.String()
	}
	if c.IsInvoke() && c.Method != nil && c.Method.Pkg() != nil {
		if n := c10NamedOf(c.Value.Type()); n != nil {
			return c.Method.Pkg().Path() + "." + n.Obj().Name() + "." + c.Method.Name()
		}
	}
	return ""
}

// c10TypeHolds reports the field path through which t contains one of the targets (by value, pointer,
// slice, array, map, channel or a field of a module struct).
func c10TypeHolds(t types.Type, targets map[*types.TypeName]bool, seen map[types.Type]bool, path string) string {
	if seen[t] {
		return ""
	}
	seen[t] = true
	switch x := t.(type) {
	case *types.Alias:
		return c10TypeHolds(types.Unalias(x), targets, seen, path)
	case *types.Named:
		if targets[x.Origin().Obj()] {
			return path + " (" + typeStr(x) + ")"
		}
		if x.Obj().Pkg() == nil || !strings.HasPrefix(x.Obj().Pkg().Path(), modulePath) {
			return ""
		}
		return c10TypeHolds(x.Underlying(), targets, seen, path)
	case *types.Pointer:
		return c10TypeHolds(x.Elem(), targets, seen, path)
	case *types.Slice:
		return c10TypeHolds(x.Elem(), targets, seen, path+"[]")
	case *types.Array:
		return c10TypeHolds(x.Elem(), targets, seen, path+"[]")
	case *types.Chan:
		return c10TypeHolds(x.Elem(), targets, seen, path+"<-")
	case *types.Map:
		if p := c10TypeHolds(x.Key(), targets, seen, path+"[key]"); p != "" {
			return p
		}
		return c10TypeHolds(x.Elem(), targets, seen, path+"[]")
	case *types.Struct:
		for i := 0; i < x.NumFields(); i++ {
			if p := c10TypeHolds(x.Field(i).Type(), targets, seen, path+"."+x.Field(i).Name()); p != "" {
				return p
			}
		}
	}
	return ""
}

// c10MakesVM reports whether call c returns a machine made by newVM during the call: newVM() itself or
// a module helper all of whose returned machines are.
func c10MakesVM(c *ssa.Call, newVM *ssa.Function, depth int) bool {
	callee := c.Common().StaticCallee()
	if callee == nil {
		return false
	}
	if callee == newVM {
		return true
	}
	if depth > 2 || !inModule(callee) || callee.Blocks == nil {
		return false
	}
	n := 0
	for _, b := range callee.Blocks {
		for _, in := range b.Instrs {
			ret, ok := in.(*ssa.Return)
			if !ok {
				continue
			}
			for _, res := range ret.Results {
				if !types.Identical(res.Type(), c.Type()) && c.Type() != nil {
					if _, isTuple := c.Type().(*types.Tuple); !isTuple {
						continue
					}
					if n2 := c10NamedOf(res.Type()); n2 == nil || n2 != c10NamedOf(newVM.Signature.Results().At(0).Type()) {
						continue
					}
				}
				for _, src := range c10StripPhi(res) {
					inner, ok := src.(*ssa.Call)
					if !ok || inner.Parent() != callee || !c10MakesVM(inner, newVM, depth+1) {
						return false
					}
					n++
				}
			}
		}
	}
	return n > 0
}

func c10R2(r *Run, ro *c10Roles) {
	const R = "R-2"
	r.Require(R, 5)
	api := c10APIRuns(r, ro)
	if !r.Anchor(R, "API methods calling (*VM).Run (Program.Run, Template.Run)", len(api) >= 2) {
		return
	}
	vmRunF := r.P.SSAFunc(ro.vmRun)
	newVMF := r.P.SSAFunc(ro.newVM)
	targets := map[*types.TypeName]bool{ro.vm.Obj(): true, ro.env.Obj(): true, ro.renderer.Obj(): true}
	seenRecv := map[*types.Named]bool{}
	for _, fi := range api {
		f := r.P.SSAFunc(fi)
		if f == nil {
			r.Ob(R, fi.Name()+"#vm", fi.Decl.Pos()).Unknown("no SSA for the function")
			continue
		}
		n := 0
		for _, b := range f.Blocks {
			for _, in := range b.Instrs {
				ci, ok := in.(ssa.CallInstruction)
				if !ok || ci.Common().StaticCallee() != vmRunF || len(ci.Common().Args) == 0 {
					continue
				}
				n++
				o := r.Ob(R, fi.Name()+"#vm", in.Pos())
				var why []string
				for _, src := range c10StripPhi(ci.Common().Args[0]) {
					if c, ok := src.(*ssa.Call); ok && c.Parent() == f && c10MakesVM(c, newVMF, 0) {
						continue
					}
					why = append(why, fmt.Sprintf("%s (%T)", src.String(), src))
				}
				if _, isGo := in.(*ssa.Go); isGo {
					why = append(why, "the run is started with a go statement")
				}
				if len(why) == 0 {
					o.OK("the machine passed to (*VM).Run is the result of %s() called in the same invocation", ro.newVM.Name())
				} else {
					o.Bad("the machine passed to (*VM).Run is not a VM made by %s() in this call: %s", ro.newVM.Name(), strings.Join(why, "; "))
				}
			}
		}
		if n == 0 {
			r.Ob(R, fi.Name()+"#vm", fi.Decl.Pos()).Unknown("call of (*VM).Run not found in SSA")
		}
		if sig := fi.Obj.Type().(*types.Signature); sig.Recv() != nil {
			if rn := c10NamedOf(sig.Recv().Type()); rn != nil && !seenRecv[rn] {
				seenRecv[rn] = true
				o := r.Ob(R, relOf(rn.Obj().Pkg())+"."+rn.Obj().Name()+"#fields", rn.Obj().Pos())
				if p := c10TypeHolds(rn.Underlying(), targets, map[types.Type]bool{}, rn.Obj().Name()); p != "" {
					o.Bad("the compiled artefact holds per-run machine state: %s", p)
				} else {
					o.OK("no field of %s reaches a VM, env or renderer", rn.Obj().Name())
				}
			}
		}
	}
	// no package-level variable of the module holds a machine
	for _, rel := range []string{"", "internal/runtime", "internal/compiler"} {
		pk := r.P.Pkg(rel)
		if pk == nil {
			continue
		}
		var bad []string
		nvars := 0
		sc := pk.Types.Scope()
		for _, name := range sc.Names() {
			v, ok := sc.Lookup(name).(*types.Var)
			if !ok {
				continue
			}
			nvars++
			if p := c10TypeHolds(v.Type(), targets, map[types.Type]bool{}, name); p != "" {
				bad = append(bad, p)
			}
		}
		o := r.Ob(R, relOf(pk.Types)+"#package-variables", token.NoPos)
		if len(bad) > 0 {
			o.Bad("package-level variable holds per-run machine state: %s", strings.Join(bad, ", "))
		} else {
			o.OK("none of the %d package-level variables has a type reaching VM, env or renderer", nvars)
		}
	}
}

// ---------------------------------------------------------------------------
// R-3 pool discipline

// c10InstrIndex returns the index of in inside its block.
func c10InstrIndex(in ssa.Instruction) int {
	for i, x := range in.Block().Instrs {
		if x == in {
			return i
		}
	}
	return -1
}

// c10Reaches reports whether execution can flow from just after instruction a to instruction b
// without executing an instruction for which cut is true.
func c10Reaches(a, b ssa.Instruction, cut func(ssa.Instruction) bool) bool {
	ai := c10InstrIndex(a)
	seen := map[*ssa.BasicBlock]bool{}
	var walk func(blk *ssa.BasicBlock, from int) bool
	walk = func(blk *ssa.BasicBlock, from int) bool {
		for i := from; i < len(blk.Instrs); i++ {
			in := blk.Instrs[i]
			if in == b {
				return true
			}
			if cut != nil && cut(in) {
				return false
			}
		}
		for _, s := range blk.Succs {
			if !seen[s] {
				seen[s] = true
				if walk(s, 0) {
					return true
				}
			}
		}
		return false
	}
	return walk(a.Block(), ai+1)
}

func c10R3(r *Run, ro *c10Roles) {
	const R = "R-3"
	r.Require(R, 2)
	found := 0
	for _, fi := range r.P.Funcs("internal/runtime") {
		if r.P.isTestFile(fi.File) {
			continue
		}
		f := r.P.SSAFunc(fi)
		if f == nil {
			continue
		}
		fns := []*ssa.Function{f}
		fns = append(fns, f.AnonFuncs...)
		for _, fn := range fns {
			c10PoolDiscipline(r, R, ro, fn, &found)
		}
	}
	r.Anchor(R, "a function taking a slice from NativeFunction.argsPool (callNative)", found > 0)
}

func c10IsPoolField(v ssa.Value, fld *types.Var) bool {
	u, ok := v.(*ssa.UnOp)
	if !ok || u.Op != token.MUL {
		return false
	}
	fa, ok := u.X.(*ssa.FieldAddr)
	return ok && c10FieldVar(fa) == fld
}

func c10PoolDiscipline(r *Run, R string, ro *c10Roles, f *ssa.Function, found *int) {
	var gets, puts, others []ssa.CallInstruction
	for _, b := range f.Blocks {
		for _, in := range b.Instrs {
			ci, ok := in.(ssa.CallInstruction)
			if !ok {
				continue
			}
			cc := ci.Common()
			if len(cc.Args) == 0 || !c10IsPoolField(cc.Args[0], ro.argsPool) {
				continue
			}
			switch c10CalleeName(cc) {
			case "sync.(*Pool).Get":
				gets = append(gets, ci)
			case "sync.(*Pool).Put":
				puts = append(puts, ci)
			default:
				others = append(others, ci)
			}
		}
	}
	if len(gets) == 0 && len(puts) == 0 {
		return
	}
	*found++
	name := ssaFuncName(f)
	// aliases of the Get results
	alias := map[ssa.Value]bool{}
	for _, g := range gets {
		if v := g.Value(); v != nil {
			alias[v] = true
		}
	}
	for changed := true; changed; {
		changed = false
		for _, b := range f.Blocks {
			for _, in := range b.Instrs {
				v, ok := in.(ssa.Value)
				if !ok || alias[v] {
					continue
				}
				hit := false
				switch x := in.(type) {
				case *ssa.TypeAssert:
					hit = alias[x.X]
				case *ssa.Extract:
					hit = alias[x.Tuple]
				case *ssa.ChangeType:
					hit = alias[x.X]
				case *ssa.MakeInterface:
					hit = alias[x.X]
				case *ssa.Slice:
					hit = alias[x.X]
				case *ssa.Phi:
					for _, e := range x.Edges {
						hit = hit || alias[e]
					}
				}
				if hit {
					alias[v] = true
					changed = true
				}
			}
		}
	}
	uses := func(ci ssa.CallInstruction) bool {
		cc := ci.Common()
		for _, a := range cc.Args {
			if alias[a] {
				return true
			}
		}
		return alias[cc.Value]
	}
	var gos []ssa.Instruction
	var escapes []string
	isConsumer := func(in ssa.Instruction) bool {
		c, ok := in.(*ssa.Call)
		if !ok || !uses(c) {
			return false
		}
		if _, isB := c.Common().Value.(*ssa.Builtin); isB {
			return false
		}
		n := c10CalleeName(c.Common())
		return n != "sync.(*Pool).Put" && n != "sync.(*Pool).Get"
	}
	nConsumers := 0
	for _, b := range f.Blocks {
		for _, in := range b.Instrs {
			switch x := in.(type) {
			case *ssa.Go:
				if uses(x) {
					gos = append(gos, x)
				}
			case *ssa.Defer:
				if uses(x) && c10CalleeName(x.Common()) != "sync.(*Pool).Put" {
					escapes = append(escapes, "deferred call using the pooled slice")
				}
			case *ssa.MakeClosure:
				for _, bnd := range x.Bindings {
					if alias[bnd] {
						escapes = append(escapes, "closure capturing the pooled slice")
					}
				}
			case *ssa.Store:
				if alias[x.Val] {
					if r, _ := c10Peel(x.Addr); r != nil {
						if _, isAlloc := r.(*ssa.Alloc); !isAlloc {
							escapes = append(escapes, "pooled slice stored to "+c10Path(x.Addr))
						} else {
							escapes = append(escapes, "pooled slice kept in an address-taken local")
						}
					}
				}
			}
			if isConsumer(in) {
				nConsumers++
			}
		}
	}
	for _, g := range gets {
		o := r.Ob(R, name+"#Get", g.Pos())
		if len(escapes) > 0 {
			o.Unknown("the slice taken from the pool escapes the straight-line discipline the rule understands: %s", strings.Join(escapes, "; "))
		} else {
			o.OK("slice taken from argsPool is used by %d synchronous call(s), %d go statement(s) and %d Put(s); it is not stored, captured or deferred", nConsumers, len(gos), len(puts))
		}
	}
	for _, ci := range others {
		r.Ob(R, name+"#pool-op", ci.Pos()).Unknown("unrecognised operation on argsPool: %s", c10CalleeName(ci.Common()))
	}
	for _, p := range puts {
		o := r.Ob(R, name+"#Put", p.Pos())
		cc := p.Common()
		if len(cc.Args) < 2 || !alias[cc.Args[1]] {
			o.Unknown("Put of a value that is not the slice obtained from Get in this function")
			continue
		}
		if _, isGo := p.(*ssa.Go); isGo {
			o.Bad("Put is issued by a go statement: the slice may still be in use by the call that received it")
			continue
		}
		if d, isDefer := p.(*ssa.Defer); isDefer {
			// runs when the function returns, i.e. after every synchronous call; harmful only if the same
			// invocation can also hand the slice to a goroutine
			mixed := false
			for _, g := range gos {
				if c10Reaches(g, d, nil) || c10Reaches(d, g, nil) {
					mixed = true
				}
			}
			if mixed {
				o.Bad("a deferred Put and a go statement using the same slice can execute in one invocation: the goroutine's arguments return to the pool while it runs")
			} else {
				o.OK("deferred Put: executes when the function returns, after any synchronous call; no go statement using the slice shares a path with it")
			}
			continue
		}
		var onGo bool
		for _, g := range gos {
			if c10Reaches(g, p, nil) {
				onGo = true
			}
		}
		if onGo {
			o.Bad("Put is reachable after a go statement that received the same slice: the goroutine's arguments can be overwritten by the next caller of Get")
			continue
		}
		early := false
		for _, g := range gets {
			if c10Reaches(g, p, isConsumer) {
				early = true
			}
		}
		if early {
			o.Bad("Put can execute without a synchronous call having consumed the slice first (returned to the pool before or without the call)")
			continue
		}
		// nothing may use the slice after Put
		late := false
		for _, b := range f.Blocks {
			for _, in := range b.Instrs {
				if ci, ok := in.(ssa.CallInstruction); ok && ci != p && uses(ci) && c10CalleeName(ci.Common()) != "sync.(*Pool).Get" && c10Reaches(p, in, func(x ssa.Instruction) bool {
					for _, g := range gets {
						if x == g {
							return true
						}
					}
					return false
				}) {
					if _, isB := ci.Common().Value.(*ssa.Builtin); !isB {
						late = true
					}
				}
			}
		}
		if late {
			o.Bad("the slice is passed to a call after it was Put back")
			continue
		}
		o.OK("every path Get -> Put passes a synchronous call that received the slice; no go statement using it reaches Put; no use after Put")
	}
}

// ---------------------------------------------------------------------------
// R-4 per-run variable cells

func c10R4(r *Run, ro *c10Roles) {
	const R = "R-4"
	r.Require(R, 4)
	vmRunF := r.P.SSAFunc(ro.vmRun)
	inits := map[*ssa.Function]bool{}
	for _, fi := range c10APIRuns(r, ro) {
		f := r.P.SSAFunc(fi)
		if f == nil {
			continue
		}
		for _, b := range f.Blocks {
			for _, in := range b.Instrs {
				ci, ok := in.(ssa.CallInstruction)
				if !ok || ci.Common().StaticCallee() != vmRunF {
					continue
				}
				args := ci.Common().Args
				last := args[len(args)-1]
				for _, src := range c10StripPhi(last) {
					if c, ok := src.(*ssa.Call); ok && c.Common().StaticCallee() != nil && inModule(c.Common().StaticCallee()) {
						inits[c.Common().StaticCallee()] = true
					} else {
						r.Ob(R, fi.Name()+"#globals", in.Pos()).Unknown("the global variables passed to (*VM).Run are not the result of a module function called here: %s", src)
					}
				}
			}
		}
	}
	if !r.Anchor(R, "functions producing the globals of a run (initGlobalVariables, initPackageLevelVariables)", len(inits) >= 2) {
		return
	}
	var fns []*ssa.Function
	for f := range inits {
		fns = append(fns, f)
	}
	sort.Slice(fns, func(i, j int) bool { return fns[i].String() < fns[j].String() })
	for _, f := range fns {
		name := ssaFuncName(f)
		// the result slice: values returned that are made in this function
		results := map[ssa.Value]bool{}
		for _, b := range f.Blocks {
			for _, in := range b.Instrs {
				if ret, ok := in.(*ssa.Return); ok {
					for _, res := range ret.Results {
						for _, src := range c10StripPhi(res) {
							switch x := src.(type) {
							case *ssa.MakeSlice:
								results[x] = true
							case *ssa.Const:
							default:
								r.Ob(R, name+"#result", ret.Pos()).Unknown("returned globals are not a slice made in this call: %s", src)
							}
						}
					}
				}
			}
		}
		n := 0
		for _, b := range f.Blocks {
			for _, in := range b.Instrs {
				st, ok := in.(*ssa.Store)
				if !ok {
					continue
				}
				ia, ok := st.Addr.(*ssa.IndexAddr)
				if !ok || !results[ia.X] {
					continue
				}
				n++
				kind, fact := c10CellKind(f, st.Val, ro)
				o := r.Ob(R, name+"#cell:"+kind, st.Pos())
				switch kind {
				case "fresh", "predefined", "pointer-target":
					o.OK("%s", fact)
				case "alias":
					o.Bad("%s", fact)
				default:
					o.Unknown("%s", fact)
				}
			}
		}
		if n == 0 {
			r.Ob(R, name+"#cells", f.Pos()).Unknown("no store into the returned slice found")
		}
	}
}

// c10CellKind classifies the reflect.Value stored as the cell of a global variable.
func c10CellKind(f *ssa.Function, v ssa.Value, ro *c10Roles) (kind, fact string) {
	// load of a local holding the value: follow the single stored value
	srcs := c10StripPhi(v)
	if len(srcs) != 1 {
		return "unknown", "cell value merges several sources"
	}
	v = srcs[0]
	switch x := v.(type) {
	case *ssa.Call:
		cc := x.Common()
		switch c10CalleeName(cc) {
		case "reflect.(Value).Elem":
			recv := cc.Args[0]
			inner, ok := recv.(*ssa.Call)
			if !ok {
				return "unknown", "Elem of a value that is not a direct call result"
			}
			switch c10CalleeName(inner.Common()) {
			case "reflect.New":
				// is the initialiser copied in?
				copied := false
				for _, ref := range *x.Referrers() {
					if c, ok := ref.(*ssa.Call); ok && c10CalleeName(c.Common()) == "reflect.(Value).Set" && c.Common().Args[0] == ssa.Value(x) {
						copied = true
					}
				}
				if copied {
					return "fresh", "cell is reflect.New(T).Elem() made in this call; the initialiser is copied into it with Set"
				}
				return "fresh", "cell is reflect.New(T).Elem() made in this call (zero value)"
			case "reflect.ValueOf":
				return "pointer-target", "cell is the target of a caller-supplied pointer (reflect.ValueOf(p).Elem()): aliasing asked for by the caller"
			}
			return "unknown", "Elem of " + c10CalleeName(inner.Common())
		case "reflect.ValueOf":
			return "alias", "cell is reflect.ValueOf(initialiser) itself: not a cell of this run (not addressable, shares the caller's value)"
		}
		// a helper of the module that builds the cell: classify what each of its returns hands back
		if callee := cc.StaticCallee(); callee != nil && inModule(callee) && callee != f && len(callee.Blocks) > 0 && callee.Signature.Results().Len() == 1 {
			kinds := map[string]bool{}
			var facts []string
			for _, b := range callee.Blocks {
				for _, in := range b.Instrs {
					ret, ok := in.(*ssa.Return)
					if !ok || len(ret.Results) != 1 {
						continue
					}
					for _, src := range c10StripPhi(ret.Results[0]) {
						if c, ok := src.(*ssa.Call); ok && c.Common().StaticCallee() != nil && inModule(c.Common().StaticCallee()) {
							return "unknown", "cell produced by a helper of " + ssaFuncName(callee) + ": nesting not followed"
						}
						k, fact := c10CellKind(callee, src, ro)
						kinds[k] = true
						facts = append(facts, fact)
					}
				}
			}
			switch {
			case len(kinds) == 0:
				return "unknown", "cell produced by " + c10CalleeName(cc) + ", which has no return"
			case kinds["alias"]:
				for i, fact := range facts {
					if strings.HasPrefix(fact, "cell is reflect.ValueOf(initialiser)") || strings.HasPrefix(fact, "cell is a package-level") {
						return "alias", "in " + ssaFuncName(callee) + ": " + facts[i]
					}
				}
				return "alias", "a return of " + ssaFuncName(callee) + " aliases"
			case kinds["unknown"]:
				return "unknown", "cell produced by " + ssaFuncName(callee) + ", a return of which is not understood: " + strings.Join(facts, "; ")
			case len(kinds) == 1:
				for k := range kinds {
					return k, "through " + ssaFuncName(callee) + ": " + facts[0]
				}
			}
			sort.Strings(facts)
			return "fresh", "through " + ssaFuncName(callee) + ", each return of which is a fresh cell or the target of a caller-supplied pointer: " + strings.Join(facts, "; ")
		}
		return "unknown", "cell produced by " + c10CalleeName(cc)
	case *ssa.Field:
		if fv := c10FieldOfValue(x); fv != nil && c10NamedOf(x.X.Type()) == ro.global {
			return "predefined", "cell is the predefined " + ro.global.Obj().Name() + "." + fv.Name() + " of the compiled artefact (native variable shared by design)"
		}
	case *ssa.UnOp:
		if x.Op == token.MUL {
			if fa, ok := x.X.(*ssa.FieldAddr); ok {
				if fv := c10FieldVar(fa); fv != nil && c10NamedOf(fa.X.Type()) == ro.global {
					return "predefined", "cell is the predefined " + ro.global.Obj().Name() + "." + fv.Name() + " of the compiled artefact (native variable shared by design)"
				}
			}
			if al, ok := x.X.(*ssa.Alloc); ok {
				// single store into the local
				var vals []ssa.Value
				for _, ref := range *al.Referrers() {
					if st, ok := ref.(*ssa.Store); ok && st.Addr == ssa.Value(al) {
						vals = append(vals, st.Val)
					}
				}
				if len(vals) == 1 {
					return c10CellKind(f, vals[0], ro)
				}
			}
		}
	case *ssa.Global:
		return "alias", "cell is a package-level variable"
	}
	return "unknown", fmt.Sprintf("cell value of unrecognised shape: %s (%T)", v, v)
}
