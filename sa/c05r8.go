package main

// Register-class agreement (C01 R-7, C05 R-8; added after seeded change C05-3).
//
// The emitter decides in which of the four register files a value of a given reflect.Kind lives
// (compiler.kindToType); the VM's two transfer functions between registers and reflect values
// (getIntoReflectValue, setFromReflectValue) must make the same decision for every kind, otherwise a value
// is read from the wrong file and reflect's Set panics with an unclassified (fatal) error. The three
// functions are found by role — functions of the two packages that take a reflect.Kind or switch on
// X.Kind() and return a registerType — and compared on all 26 kinds by evaluating their decision trees
// (if/switch over the kind, E2) from the syntax.

import (
	"go/ast"
	"go/token"
	"go/types"
	"strings"
)

func init() {
	for _, reg := range []struct{ id, rule string }{{"C01", "R-7"}, {"C05", "R-8"}} {
		p := registry[reg.id]
		if p == nil {
			continue
		}
		run, rule := p.run, reg.rule
		p.run = func(r *Run) { run(r); registerClassRule(r, rule) }
		p.explain += " " + reg.rule + ": the emitter's kind→register-class function and the VM's two register/reflect transfer functions return the same register class for every reflect.Kind."
	}
}

type kindDecider struct {
	r     *Run
	fi    *FuncInfo
	info  *types.Info
	kindT *types.Named
	// identifiers that denote the kind under decision
	isKind func(e ast.Expr) bool
}

// decide walks a statement list with the kind bound to k. It returns the name of the registerType
// constant returned, or "" when the walk falls off the list; ok=false when a shape is not understood.
func (d *kindDecider) decide(list []ast.Stmt, k int64) (res string, returned bool, ok bool) {
	for _, st := range list {
		switch s := st.(type) {
		case *ast.ReturnStmt:
			for _, e := range s.Results {
				if c := constOf(d.info, e); c != nil && strings.HasSuffix(typeStr(c.Type()), "registerType") {
					return c.Name(), true, true
				}
			}
			return "", true, false
		case *ast.IfStmt:
			if s.Init != nil {
				continue
			}
			v, okp := evalPred(d.info, s.Cond, d.isKind, k)
			if !okp {
				if !mentions(s.Cond, d.isKind) {
					// a condition on something else: both ways must agree
					r1, ret1, ok1 := d.decide(s.Body.List, k)
					if !ok1 {
						return "", false, false
					}
					if ret1 {
						// the else/continuation must return the same
						var r2 string
						var ret2, ok2 bool
						if s.Else != nil {
							r2, ret2, ok2 = d.decideStmt(s.Else, k)
						} else {
							r2, ret2, ok2 = "", false, true
						}
						if !ok2 {
							return "", false, false
						}
						if ret2 && r2 != r1 {
							return "", false, false
						}
						if ret2 {
							return r1, true, true
						}
						continue // body returns r1 on one side; go on to see the other side; conservative: require same
					}
					continue
				}
				return "", false, false
			}
			if v {
				if r, ret, ok := d.decide(s.Body.List, k); !ok || ret {
					return r, ret, ok
				}
			} else if s.Else != nil {
				if r, ret, ok := d.decideStmt(s.Else, k); !ok || ret {
					return r, ret, ok
				}
			}
		case *ast.SwitchStmt:
			if s.Tag == nil || !d.isKind(ast.Unparen(s.Tag)) {
				if s.Tag != nil && types.Identical(d.info.TypeOf(s.Tag), d.kindT) {
					return "", false, false
				}
				continue
			}
			cov := coverOfSwitch(d.info, s)
			cl := cov.Vals[k]
			if cl == nil {
				cl = cov.Default
			}
			if cl == nil {
				continue
			}
			// follow fallthrough
			for cl != nil {
				r, ret, ok := d.decide(cl.Body, k)
				if !ok || ret {
					return r, ret, ok
				}
				ft := false
				if n := len(cl.Body); n > 0 {
					if b, isB := cl.Body[n-1].(*ast.BranchStmt); isB && b.Tok == token.FALLTHROUGH {
						ft = true
					}
				}
				if !ft {
					break
				}
				var next *ast.CaseClause
				for i, c := range s.Body.List {
					if c == ast.Stmt(cl) && i+1 < len(s.Body.List) {
						next = s.Body.List[i+1].(*ast.CaseClause)
					}
				}
				cl = next
			}
		case *ast.BlockStmt:
			if r, ret, ok := d.decide(s.List, k); !ok || ret {
				return r, ret, ok
			}
		}
	}
	return "", false, true
}

func (d *kindDecider) decideStmt(s ast.Stmt, k int64) (string, bool, bool) {
	switch x := s.(type) {
	case *ast.BlockStmt:
		return d.decide(x.List, k)
	default:
		return d.decide([]ast.Stmt{s}, k)
	}
}

func registerClassRule(r *Run, R string) {
	kindT := r.P.ExtNamed("reflect", "Kind")
	if !r.Anchor(R, "reflect.Kind", kindT != nil) {
		return
	}
	kinds := EnumConsts(kindT)
	type sibling struct {
		fi *FuncInfo
		d  *kindDecider
	}
	var sibs []sibling
	for _, rel := range []string{"internal/compiler", "internal/runtime"} {
		for _, fi := range r.P.Funcs(rel) {
			if r.P.isTestFile(fi.File) {
				continue
			}
			sig := fi.Obj.Type().(*types.Signature)
			if sig.Results().Len() != 1 || !strings.HasSuffix(typeStr(sig.Results().At(0).Type()), "registerType") {
				continue
			}
			info := fi.Pkg.TypesInfo
			// the kind under decision: a parameter of type reflect.Kind, or X.Kind() of a reflect.Value/Type
			// parameter (possibly through a local `kind := X.Kind()`)
			var kindParam *types.Var
			var valParam *types.Var
			for i := 0; i < sig.Params().Len(); i++ {
				p := sig.Params().At(i)
				if types.Identical(p.Type(), kindT) {
					kindParam = p
				}
				if ts := typeStr(p.Type()); ts == "reflect.Value" || ts == "reflect.Type" {
					valParam = p
				}
			}
			if kindParam == nil && valParam == nil {
				continue
			}
			locals := map[types.Object]bool{}
			isKindCall := func(e ast.Expr) bool {
				c, ok := ast.Unparen(e).(*ast.CallExpr)
				if !ok || len(c.Args) != 0 {
					return false
				}
				sel, ok := c.Fun.(*ast.SelectorExpr)
				if !ok || sel.Sel.Name != "Kind" {
					return false
				}
				id, ok := ast.Unparen(sel.X).(*ast.Ident)
				return ok && valParam != nil && info.Uses[id] == valParam
			}
			ast.Inspect(fi.Decl.Body, func(n ast.Node) bool {
				if as, ok := n.(*ast.AssignStmt); ok && len(as.Lhs) == 1 && len(as.Rhs) == 1 && isKindCall(as.Rhs[0]) {
					if id, ok := as.Lhs[0].(*ast.Ident); ok && info.Defs[id] != nil {
						locals[info.Defs[id]] = true
					}
				}
				return true
			})
			d := &kindDecider{r: r, fi: fi, info: info, kindT: kindT}
			d.isKind = func(e ast.Expr) bool {
				e = ast.Unparen(e)
				if id, ok := e.(*ast.Ident); ok {
					o := info.Uses[id]
					return o != nil && (o == types.Object(kindParam) && kindParam != nil || locals[o])
				}
				return isKindCall(e)
			}
			sibs = append(sibs, sibling{fi, d})
		}
	}
	if !r.Anchor(R, "at least two functions mapping a reflect.Kind to a register class (kindToType, getIntoReflectValue, setFromReflectValue)", len(sibs) >= 2) {
		return
	}
	for _, kc := range kinds {
		k, _ := constantInt64(kc)
		if kc.Name() == "Invalid" || kc.Name() == "Ptr" {
			continue
		}
		o := r.Ob(R, "register-class:"+kc.Name(), sibs[0].fi.Decl.Pos())
		var got []string
		agree, decided := true, true
		first := ""
		for _, s := range sibs {
			res, ret, ok := s.d.decide(s.fi.Decl.Body.List, k)
			if !ok || !ret {
				decided = false
				got = append(got, s.fi.Decl.Name.Name+"=?")
				continue
			}
			got = append(got, s.fi.Decl.Name.Name+"="+res)
			if first == "" {
				first = res
			} else if res != first {
				agree = false
			}
		}
		switch {
		case !decided:
			o.Unknown("cannot evaluate the decision of every function for kind %s: %s", kc.Name(), strings.Join(got, ", "))
		case agree:
			o.OK("%s", strings.Join(got, ", "))
		default:
			o.Bad("the register class of kind %s differs: %s — a value of that kind is moved through the wrong register file and reflect panics (fatal error) or the value is lost", kc.Name(), strings.Join(got, ", "))
		}
	}
	r.Require(R, 25)
}
