package main

// C02 R-7 (added after seeded change C02-3): no constant is computed from a truncated view of another.
//
// The machine accessors of the constant interface (int64(), uint64(), float64(), complex128()) return
// the low bits / the rounded value when the constant does not fit the machine type ("the result is
// undefined" in the interface's documentation): an integer constant beyond 64 bits is an intConst, a
// 512-bit float a floatConst. Wherever the type checker computes a NEW constant from such a view — the
// value of the accessor reaches, through conversions, arithmetic, calls and local variables, a
// conversion to / a composite literal of / a constructor of a constant implementation — the accessor
// must be applied to a constant that is known to fit:
//   - the first result of the representability method (`n, _ := c.representedBy(T)`), with T a type
//     whose every value the accessor's result type holds, and every later machine conversion on the way
//     keeps the whole range of T (rune(n.int64()) after representedBy(runeType)); or
//   - a value whose static type is the machine implementation of the accessor's own type
//     (int64Const.int64(), float64Const.float64()) with no narrowing conversion on the way.
// Otherwise string(1<<32 + 'A') folds to "A" instead of "�": the validity test sees the truncated
// bits. Sites in a region of a binary method that no operator of the Go specification reaches (the
// `contains` extension on strings) are listed as exceptions.

import (
	"fmt"
	"go/ast"
	"go/types"
	"sort"
)

func init() {
	p := registry["C02"]
	if p == nil {
		return
	}
	run := p.run
	p.run = func(r *Run) {
		run(r)
		if r.P.Arch != "" {
			return
		}
		if x := c02Context(r); x != nil {
			c02NoTruncatedView(x)
		}
	}
	p.explain += " R-7: in package compiler, every call of a machine accessor of the constant interface (a parameterless method with a machine-number result) whose value reaches — through conversions, operators, calls and local variables — the construction of a constant (conversion to, composite literal of, or package function returning a constant implementation or the interface) is applied either to the first result of the representability method for a type T whose range the accessor's result type and every machine conversion on the way to the construction hold, or to a value of the machine implementation with that very underlying type and no narrowing on the way; sites reached by no operator of the Go specification (Scriggo's contains) are listed exceptions."
	p.notCov = append(p.notCov, "R-7: accessor values that reach a constant through a struct field, the result of another function or a closure; that the branch taken when the representability test fails yields the value Go prescribes")
}

type c02View struct {
	x       *c02
	l       *c02Lossy
	fi      *FuncInfo
	parents map[ast.Node]ast.Node
}

// c02Site is a constant construction reached by an accessor value, with the machine conversions on the way.
type c02Site struct {
	node  ast.Node
	convs []*types.Basic
}

func (v *c02View) isConstType(t types.Type) bool {
	if t == nil {
		return false
	}
	if tup, ok := t.(*types.Tuple); ok {
		for i := 0; i < tup.Len(); i++ {
			if v.isConstType(tup.At(i).Type()) {
				return true
			}
		}
		return false
	}
	return types.Identical(t, v.x.iface) || v.x.implOf(t) != nil
}

// climb follows the value of node upwards to a constant construction.
func (v *c02View) climb(node ast.Node, convs []*types.Basic, seen map[types.Object]bool) *c02Site {
	info := v.x.info
	for {
		p := v.parents[node]
		if p == nil {
			return nil
		}
		switch t := p.(type) {
		case *ast.ParenExpr, *ast.UnaryExpr, *ast.BinaryExpr, *ast.StarExpr:
			node = p
			continue
		case *ast.SelectorExpr:
			if t.X != node {
				return nil
			}
			node = p
			continue
		case *ast.CallExpr:
			if ft, ok := info.Types[t.Fun]; ok && ft.IsType() {
				if t.Fun == node {
					return nil
				}
				if v.x.implOf(ft.Type) != nil {
					return &c02Site{node: t, convs: convs}
				}
				b := c02Basic(ft.Type)
				if b == nil {
					return nil
				}
				convs = append(append([]*types.Basic{}, convs...), b)
				node = p
				continue
			}
			if t.Fun == node {
				// the value is the receiver of a method call: the result depends on it
				node = p
				continue
			}
			f := callee(info, t)
			if f != nil && v.l.byObj[f] != nil && v.isConstType(f.Type().(*types.Signature).Results()) {
				return &c02Site{node: t, convs: convs}
			}
			if tv, ok := info.Types[t]; !ok || tv.IsVoid() {
				return nil
			}
			node = p
			continue
		case *ast.KeyValueExpr:
			if t.Value != node {
				return nil
			}
			node = p
			continue
		case *ast.CompositeLit:
			if v.x.implOf(info.TypeOf(t)) != nil {
				return &c02Site{node: t, convs: convs}
			}
			return nil
		case *ast.AssignStmt:
			idx := -1
			for i, rh := range t.Rhs {
				if rh == node {
					idx = i
				}
			}
			if idx < 0 {
				return nil
			}
			var targets []ast.Expr
			if len(t.Lhs) == len(t.Rhs) {
				targets = []ast.Expr{t.Lhs[idx]}
			} else {
				targets = t.Lhs
			}
			for _, lh := range targets {
				id, ok := lh.(*ast.Ident)
				if !ok || id.Name == "_" {
					continue
				}
				o := info.Defs[id]
				if o == nil {
					o = info.Uses[id]
				}
				if s := v.followVar(o, convs, seen); s != nil {
					return s
				}
			}
			return nil
		case *ast.ValueSpec:
			for i, val := range t.Values {
				if val != node {
					continue
				}
				if len(t.Names) == len(t.Values) {
					return v.followVar(info.Defs[t.Names[i]], convs, seen)
				}
			}
			return nil
		}
		return nil
	}
}

func (v *c02View) followVar(o types.Object, convs []*types.Basic, seen map[types.Object]bool) *c02Site {
	vr, ok := o.(*types.Var)
	if !ok || vr.IsField() || vr.Pkg() == nil || vr.Parent() == vr.Pkg().Scope() || seen[o] {
		return nil
	}
	seen[o] = true
	info := v.x.info
	var site *c02Site
	ast.Inspect(v.fi.Decl.Body, func(m ast.Node) bool {
		if site != nil {
			return false
		}
		id, ok := m.(*ast.Ident)
		if !ok || info.Uses[id] != o {
			return true
		}
		// a plain assignment target is not a use of the value
		if as, ok := v.parents[id].(*ast.AssignStmt); ok {
			for _, lh := range as.Lhs {
				if lh == ast.Expr(id) {
					return true
				}
			}
		}
		site = v.climb(id, convs, seen)
		return true
	})
	return site
}

// kindOfTypeExpr resolves an expression of type reflect.Type to the Go type it denotes:
// reflect.TypeFor[T](), reflect.TypeOf(v), or a package-level variable initialised with one of them.
func (v *c02View) typeOfReflectExpr(e ast.Expr, depth int) types.Type {
	info := v.x.info
	e = ast.Unparen(e)
	switch t := e.(type) {
	case *ast.Ident:
		if vr, ok := info.Uses[t].(*types.Var); ok && vr.Pkg() != nil && vr.Parent() == vr.Pkg().Scope() && depth < 3 {
			for _, pk := range v.x.r.P.Pkgs {
				if pk.Types != vr.Pkg() {
					continue
				}
				for _, f := range pk.Syntax {
					for _, d := range f.Decls {
						gd, ok := d.(*ast.GenDecl)
						if !ok {
							continue
						}
						for _, sp := range gd.Specs {
							vs, ok := sp.(*ast.ValueSpec)
							if !ok || len(vs.Values) != len(vs.Names) {
								continue
							}
							for i, nm := range vs.Names {
								if pk.TypesInfo.Defs[nm] == types.Object(vr) {
									w := *v
									x2 := *v.x
									x2.info = pk.TypesInfo
									w.x = &x2
									return w.typeOfReflectExpr(vs.Values[i], depth+1)
								}
							}
						}
					}
				}
			}
		}
	case *ast.CallExpr:
		fun := ast.Unparen(t.Fun)
		var inst *ast.Ident
		switch ft := fun.(type) {
		case *ast.IndexExpr:
			fun = ast.Unparen(ft.X)
		case *ast.IndexListExpr:
			fun = ast.Unparen(ft.X)
		}
		switch ft := fun.(type) {
		case *ast.SelectorExpr:
			inst = ft.Sel
		case *ast.Ident:
			inst = ft
		}
		if inst == nil {
			return nil
		}
		f, _ := info.Uses[inst].(*types.Func)
		if f == nil || f.Pkg() == nil || f.Pkg().Path() != "reflect" {
			return nil
		}
		switch f.Name() {
		case "TypeFor":
			if in, ok := info.Instances[inst]; ok && in.TypeArgs.Len() == 1 {
				return in.TypeArgs.At(0)
			}
		case "TypeOf":
			if len(t.Args) == 1 {
				return info.TypeOf(t.Args[0])
			}
		}
	}
	return nil
}

func c02NoTruncatedView(x *c02) {
	const R = "R-7"
	l := c02NewLossy(x)
	errT := types.Universe.Lookup("error").Type()
	var fis []*FuncInfo
	for _, fi := range l.byObj {
		fis = append(fis, fi)
	}
	sort.Slice(fis, func(i, j int) bool { return fis[i].Decl.Pos() < fis[j].Decl.Pos() })
	// statements of the binary methods reached by at least one operator of the Go specification
	reached := map[*FuncInfo]map[ast.Node]bool{}
	reachedBy := func(im *c02Impl) map[ast.Node]bool {
		if m, ok := reached[im.binary]; ok {
			return m
		}
		m := map[ast.Node]bool{}
		for _, n := range c02SpecBinary[im.class] {
			val, ok := x.opVal[n]
			if !ok {
				continue
			}
			s := &c01Sel{info: x.info, selType: x.opT, val: val}
			s.leaf = func(nd ast.Node, sel, exp bool) { m[nd] = true }
			s.stmts(im.binary.Decl.Body.List, false, false)
		}
		reached[im.binary] = m
		return m
	}
	nsites := 0
	for _, fi := range fis {
		v := &c02View{x: x, l: l, fi: fi, parents: x.r.P.Parents(fi.File)}
		var callsHere []*ast.CallExpr
		ast.Inspect(fi.Decl.Body, func(m ast.Node) bool {
			if c, ok := m.(*ast.CallExpr); ok {
				callsHere = append(callsHere, c)
			}
			return true
		})
		for _, c := range callsHere {
			sel, ok := ast.Unparen(c.Fun).(*ast.SelectorExpr)
			if !ok || len(c.Args) != 0 || !l.acc[sel.Sel.Name] {
				continue
			}
			f := callee(x.info, c)
			if f == nil {
				if s := x.info.Selections[sel]; s != nil {
					f, _ = s.Obj().(*types.Func)
				}
			}
			if f == nil || !l.acc[f.Name()] {
				continue
			}
			sig := f.Type().(*types.Signature)
			if sig.Recv() == nil || sig.Params().Len() != 0 || sig.Results().Len() != 1 {
				continue
			}
			rt := sig.Recv().Type()
			recvImpl := x.implOf(rt)
			if !types.Identical(rt, x.iface) && recvImpl == nil {
				continue
			}
			resB := c02Basic(sig.Results().At(0).Type())
			if resB == nil {
				continue
			}
			site := v.climb(c, nil, map[types.Object]bool{})
			if site == nil {
				continue
			}
			nsites++
			o := x.r.Ob(R, fi.Name()+"#"+f.Name()+"-feeds-constant", c.Pos())
			what := fmt.Sprintf("%s: the value of %s reaches the construction of a constant %s", fi.Name(), exprStr(c), exprStr(site.node.(ast.Expr)))
			// exception: a region of a binary method no Go operator reaches
			if im := x.implOf(c02RecvType(fi)); im != nil && im.binary != nil && im.binary.Obj == fi.Obj {
				inReached := false
				for nd := range reachedBy(im) {
					if nd.Pos() <= c.Pos() && c.End() <= nd.End() {
						if _, isBlock := nd.(*ast.BlockStmt); !isBlock {
							inReached = true
						}
					}
				}
				if !inReached {
					o.Trivial("exception: %s, in statements selected by no operator the Go specification defines on %s constants (Scriggo's contains operators): outside the Go reference of this property", what, im.class)
					continue
				}
			}
			// (1) a receiver of statically known implementation: its accessor is read like a hand-over of R-6
			if afi := l.byObj[f]; recvImpl != nil && afi != nil {
				if losses := l.scanFunc(afi); len(losses) > 0 {
					o.Bad("%s; the receiver is a %s, and its %s() does not keep every value: %s", what, recvImpl.typ.Obj().Name(), f.Name(), losses[0].what)
					continue
				}
				narrowing := ""
				for _, cb := range site.convs {
					if why := l.convLoss(resB, cb); why != "" {
						narrowing = why
						break
					}
				}
				if narrowing == "" {
					o.OK("%s; the receiver is a %s, whose %s() contains no value-losing step, and no conversion on the way narrows %s", what, recvImpl.typ.Obj().Name(), f.Name(), resB.Name())
				} else {
					o.Unknown("%s; the receiver is a %s but a conversion on the way narrows the value (%s) and its range is not known", what, recvImpl.typ.Obj().Name(), narrowing)
				}
				continue
			}
			// (2) the first result of the representability method
			id, isId := ast.Unparen(sel.X).(*ast.Ident)
			var defs []ast.Expr
			var kobj *types.Var
			if isId {
				kobj, _ = x.info.Uses[id].(*types.Var)
				if kobj != nil && !kobj.IsField() && kobj.Pkg() != nil && kobj.Parent() != kobj.Pkg().Scope() {
					defs = l.defsOf(fi, kobj)
				}
			}
			var reprT types.Type
			evidence := len(defs) > 0
			undecided := ""
			for _, d := range defs {
				dc, ok := ast.Unparen(d).(*ast.CallExpr)
				if !ok {
					evidence = false
					break
				}
				df := callee(x.info, dc)
				if df == nil {
					if ds, ok := ast.Unparen(dc.Fun).(*ast.SelectorExpr); ok {
						if s := x.info.Selections[ds]; s != nil {
							df, _ = s.Obj().(*types.Func)
						}
					}
				}
				if df == nil || x.role(df.Type().(*types.Signature), x.iface, errT) != "repr" || len(dc.Args) != 1 {
					evidence = false
					break
				}
				// the variable must be the FIRST result
				first := false
				if as, ok := v.parents[d].(*ast.AssignStmt); ok && len(as.Lhs) == 2 {
					if lid, ok := as.Lhs[0].(*ast.Ident); ok && (x.info.Defs[lid] == types.Object(kobj) || x.info.Uses[lid] == types.Object(kobj)) {
						first = true
					}
				}
				if !first {
					evidence = false
					break
				}
				t := v.typeOfReflectExpr(dc.Args[0], 0)
				if t == nil {
					undecided = "the type handed to the representability method, " + exprStr(dc.Args[0]) + ", cannot be resolved from syntax"
					continue
				}
				if reprT != nil && !types.Identical(reprT, t) {
					undecided = "the receiver is the result of representability tests for different types"
				}
				reprT = t
			}
			how := "the result of the representability test"
			if !evidence && kobj != nil {
				// (3) an earlier statement leaves the function unless a guard function, which returns nil only
				// after the representability test of its argument succeeded, returns nil
				gt, found, why := v.guardEvidence(c, kobj, errT)
				switch {
				case found && gt != nil:
					evidence, reprT, undecided = true, gt, ""
					how = "accepted by an earlier guard whose nil result requires the representability test"
				case found:
					o.Unknown("%s; an earlier statement guards %s with a function of the package, but %s", what, exprStr(sel.X), why)
					continue
				}
			}
			if !evidence {
				o.Bad("%s, but %s is not the result of a representability test: for a constant that does not fit %s (an integer beyond 64 bits, a non-integer, a 512-bit float) the accessor returns truncated or rounded bits and the new constant is computed from them", what, exprStr(sel.X), resB.Name())
				continue
			}
			if undecided != "" || reprT == nil {
				o.Unknown("%s; %s", what, undecided)
				continue
			}
			tb := c02Basic(reprT)
			if tb == nil {
				o.Unknown("%s; the representability test is for the non-basic type %s", what, typeStr(reprT))
				continue
			}
			// the range to keep all the way is that of T
			narrowing := ""
			for _, cb := range append([]*types.Basic{resB}, site.convs...) {
				if why := l.convLoss(tb, cb); why != "" {
					narrowing = why
					break
				}
			}
			if narrowing != "" {
				o.Bad("%s; %s is representable by %s, but a step on the way does not keep every value of %s: %s", what, exprStr(sel.X), tb.Name(), tb.Name(), narrowing)
				continue
			}
			o.OK("%s; %s is %s for %s, and %s() and every conversion on the way hold every value of %s", what, exprStr(sel.X), how, tb.Name(), f.Name(), tb.Name())
		}
	}
	x.r.Anchor(R, "a constant computed from a machine accessor of another constant", nsites > 0)
	// confirmed by reading: the string(integer constant) conversion of checkExplicitConversion, the rune operand
	// of the contains operators in stringConst.binaryOp, the shift counts of int64Const.binaryOp and intConst.binaryOp
	x.r.Require(R, 4)
}

// guardEvidence looks, in the statement lists enclosing the accessor call, for an earlier statement
//
//	if err := G(..., K, ...); err != nil { ...; return ... }      (or err := G(...) followed by that if)
//
// where G is a function of the package with a single error result. found reports that such a guard
// exists; t is the type T when G returns nil only inside `if V != nil` with V the first result of
// P.representedBy(T), P the parameter K is bound to, and every other return of G yields a package-level
// error value or a freshly built error.
func (v *c02View) guardEvidence(call *ast.CallExpr, k *types.Var, errT types.Type) (t types.Type, found bool, why string) {
	info := v.x.info
	isNil := func(e ast.Expr) bool { return c02IsNil(info, e) }
	leaves := func(b *ast.BlockStmt) bool {
		if b == nil || len(b.List) == 0 {
			return false
		}
		switch s := b.List[len(b.List)-1].(type) {
		case *ast.ReturnStmt:
			return true
		case *ast.ExprStmt:
			if c, ok := s.X.(*ast.CallExpr); ok && isBuiltinCall(info, c, "panic") {
				return true
			}
		}
		return false
	}
	// guardCall: the call G(...K...) bound to the variable tested by `errVar != nil` in ifs
	try := func(as *ast.AssignStmt, ifs *ast.IfStmt) (types.Type, bool, string) {
		if as == nil || len(as.Lhs) != 1 || len(as.Rhs) != 1 || ifs.Else != nil || !leaves(ifs.Body) {
			return nil, false, ""
		}
		eid, ok := as.Lhs[0].(*ast.Ident)
		if !ok {
			return nil, false, ""
		}
		eo := info.Defs[eid]
		if eo == nil {
			eo = info.Uses[eid]
		}
		be, ok := ast.Unparen(ifs.Cond).(*ast.BinaryExpr)
		if !ok || be.Op.String() != "!=" {
			return nil, false, ""
		}
		cid, ok := ast.Unparen(be.X).(*ast.Ident)
		if !ok || info.Uses[cid] != eo || eo == nil || !isNil(be.Y) {
			return nil, false, ""
		}
		gc, ok := ast.Unparen(as.Rhs[0]).(*ast.CallExpr)
		if !ok {
			return nil, false, ""
		}
		g := callee(info, gc)
		gfi := v.l.byObj[g]
		if g == nil || gfi == nil {
			return nil, false, ""
		}
		gs := g.Type().(*types.Signature)
		if gs.Results().Len() != 1 || !types.Identical(gs.Results().At(0).Type(), errT) || gs.Variadic() {
			return nil, false, ""
		}
		for i, a := range gc.Args {
			if aid, ok := ast.Unparen(a).(*ast.Ident); ok && info.Uses[aid] == types.Object(k) && i < gs.Params().Len() {
				t, why := v.guardType(gfi, gs.Params().At(i), errT)
				return t, true, why
			}
		}
		return nil, false, ""
	}
	var child ast.Node = call
	for p := v.parents[call]; p != nil; child, p = p, v.parents[p] {
		var list []ast.Stmt
		switch b := p.(type) {
		case *ast.BlockStmt:
			list = b.List
		case *ast.CaseClause:
			list = b.Body
		case *ast.CommClause:
			list = b.Body
		default:
			continue
		}
		for i, st := range list {
			if ast.Node(st) == child {
				break
			}
			ifs, ok := st.(*ast.IfStmt)
			if !ok {
				continue
			}
			var as *ast.AssignStmt
			if ifs.Init != nil {
				as, _ = ifs.Init.(*ast.AssignStmt)
			} else if i > 0 {
				as, _ = list[i-1].(*ast.AssignStmt)
			}
			if t, found, why := try(as, ifs); found {
				return t, true, why
			}
		}
	}
	return nil, false, ""
}

// guardType analyses a guard function: see guardEvidence.
func (v *c02View) guardType(g *FuncInfo, p *types.Var, errT types.Type) (types.Type, string) {
	info := v.x.info
	parents := v.x.r.P.Parents(g.File)
	gv := &c02View{x: v.x, l: v.l, fi: g, parents: parents}
	var t types.Type
	why := ""
	nilReturns := 0
	ast.Inspect(g.Decl.Body, func(m ast.Node) bool {
		if _, ok := m.(*ast.FuncLit); ok {
			return false
		}
		rs, ok := m.(*ast.ReturnStmt)
		if !ok || why != "" {
			return true
		}
		if len(rs.Results) != 1 {
			why = g.Name() + " has a return without an explicit result"
			return true
		}
		r := ast.Unparen(rs.Results[0])
		if !c02IsNil(info, r) {
			switch e := r.(type) {
			case *ast.Ident:
				if vr, ok := info.Uses[e].(*types.Var); ok && vr.Pkg() != nil && vr.Parent() == vr.Pkg().Scope() {
					return true
				}
			case *ast.CallExpr:
				if f := callee(info, e); f != nil && f.Pkg() != nil && (f.Pkg().Path() == "errors" || f.Pkg().Path() == "fmt") {
					return true
				}
			}
			why = g.Name() + " returns " + exprStr(r) + ", which may be nil"
			return true
		}
		// return nil: inside `if V != nil` with V the first result of p.representedBy(T)
		nilReturns++
		var child ast.Node = rs
		okHere := false
		for q := parents[rs]; q != nil && !okHere; child, q = q, parents[q] {
			ifs, isIf := q.(*ast.IfStmt)
			if !isIf || child != ast.Node(ifs.Body) {
				continue
			}
			for _, c := range splitAnd(ifs.Cond) {
				be, ok := ast.Unparen(c).(*ast.BinaryExpr)
				if !ok || be.Op.String() != "!=" || !c02IsNil(info, be.Y) {
					continue
				}
				vid, ok := ast.Unparen(be.X).(*ast.Ident)
				if !ok {
					continue
				}
				vv, _ := info.Uses[vid].(*types.Var)
				if vv == nil {
					continue
				}
				defs := v.l.defsOf(g, vv)
				if len(defs) != 1 {
					continue
				}
				dc, ok := ast.Unparen(defs[0]).(*ast.CallExpr)
				if !ok || len(dc.Args) != 1 {
					continue
				}
				ds, ok := ast.Unparen(dc.Fun).(*ast.SelectorExpr)
				if !ok {
					continue
				}
				df := callee(info, dc)
				if df == nil {
					if s := info.Selections[ds]; s != nil {
						df, _ = s.Obj().(*types.Func)
					}
				}
				if df == nil || v.x.role(df.Type().(*types.Signature), v.x.iface, errT) != "repr" {
					continue
				}
				rid, ok := ast.Unparen(ds.X).(*ast.Ident)
				if !ok || info.Uses[rid] != types.Object(p) {
					continue
				}
				as, ok := parents[defs[0]].(*ast.AssignStmt)
				if !ok || len(as.Lhs) != 2 {
					continue
				}
				if lid, ok := as.Lhs[0].(*ast.Ident); !ok || (info.Defs[lid] != types.Object(vv) && info.Uses[lid] != types.Object(vv)) {
					continue
				}
				tt := gv.typeOfReflectExpr(dc.Args[0], 0)
				if tt == nil {
					why = "the type handed to the representability method in " + g.Name() + " cannot be resolved from syntax"
					return true
				}
				if t != nil && !types.Identical(t, tt) {
					why = g.Name() + " tests representability for different types"
					return true
				}
				t = tt
				okHere = true
			}
		}
		if !okHere && why == "" {
			why = g.Name() + " returns nil outside `if v != nil` with v the result of the representability test of the argument"
		}
		return true
	})
	if why == "" && nilReturns == 0 {
		why = g.Name() + " never returns nil"
	}
	if why != "" {
		return nil, why
	}
	return t, ""
}

func c02RecvType(fi *FuncInfo) types.Type {
	if fi.Obj == nil {
		return nil
	}
	sig := fi.Obj.Type().(*types.Signature)
	if sig.Recv() == nil {
		return nil
	}
	return sig.Recv().Type()
}
