package main

// Control-flow helpers on go/cfg (engine E4 of DESIGN.md §4): guard facts on edges,
// must-pass-through by deletion + reachability, dominators.
//
// go/cfg does not split && / || and records no edge conditions; this file reconstructs
// them: a block with two successors whose last node is the Cond of an if/for, or a case
// expression of a value switch, carries that condition; Succs[0] is the true edge.

import (
	"go/ast"
	"go/token"
	"go/types"

	"golang.org/x/tools/go/cfg"
)

type CFGInfo struct {
	P     *Prog
	Info  *types.Info
	File  *ast.File
	Body  *ast.BlockStmt
	G     *cfg.CFG
	Preds map[*cfg.Block][]*cfg.Block
}

// Cond is the condition attached to a conditional block.
type Cond struct {
	Expr ast.Expr // boolean condition, or the case value when Tag != nil
	Tag  ast.Expr // switch tag (nil for boolean conditions and tagless switches)
}

var cfgCache = map[*ast.BlockStmt]*CFGInfo{}

// CFG builds (and caches) the graph of a function body. Calls to the builtin panic and to
// os.Exit / log.Fatal* do not return.
func (p *Prog) CFG(info *types.Info, file *ast.File, body *ast.BlockStmt) *CFGInfo {
	if c, ok := cfgCache[body]; ok {
		return c
	}
	mayReturn := func(call *ast.CallExpr) bool {
		if isBuiltinCall(info, call, "panic") {
			return false
		}
		if fn := callee(info, call); fn != nil && fn.Pkg() != nil {
			switch fn.Pkg().Path() + "." + fn.Name() {
			case "os.Exit", "log.Fatal", "log.Fatalf", "log.Fatalln":
				return false
			}
		}
		return true
	}
	g := cfg.New(body, mayReturn)
	c := &CFGInfo{P: p, Info: info, File: file, Body: body, G: g, Preds: map[*cfg.Block][]*cfg.Block{}}
	for _, b := range g.Blocks {
		for _, s := range b.Succs {
			c.Preds[s] = append(c.Preds[s], b)
		}
	}
	cfgCache[body] = c
	return c
}

func (p *Prog) CFGOf(fi *FuncInfo) *CFGInfo {
	return p.CFG(fi.Pkg.TypesInfo, fi.File, fi.Decl.Body)
}

// CondOf returns the condition of a two-successor block, or nil when the branch has no
// expression (type switch, range, select).
func (c *CFGInfo) CondOf(b *cfg.Block) *Cond {
	if len(b.Succs) != 2 || len(b.Nodes) == 0 {
		return nil
	}
	e, ok := b.Nodes[len(b.Nodes)-1].(ast.Expr)
	if !ok {
		return nil
	}
	par := c.P.Parents(c.File)[e]
	switch s := par.(type) {
	case *ast.IfStmt:
		if s.Cond == e {
			return &Cond{Expr: e}
		}
	case *ast.ForStmt:
		if s.Cond == e {
			return &Cond{Expr: e}
		}
	case *ast.CaseClause:
		for _, x := range s.List {
			if x == e {
				if sw, ok := c.P.Parents(c.File)[c.P.Parents(c.File)[s]].(*ast.SwitchStmt); ok {
					return &Cond{Expr: e, Tag: sw.Tag}
				}
			}
		}
	}
	return nil
}

// Locate finds the block and node index of the CFG node that contains n (n may be a sub-node).
// Nodes inside function literals belong to the literal's own graph and are not found here
// unless the literal itself is part of a node (then the enclosing node is returned).
func (c *CFGInfo) Locate(n ast.Node) (*cfg.Block, int) {
	var best *cfg.Block
	bi := -1
	var bestLen token.Pos = 1 << 40
	for _, b := range c.G.Blocks {
		for i, m := range b.Nodes {
			if m.Pos() <= n.Pos() && n.End() <= m.End() {
				if l := m.End() - m.Pos(); l < bestLen {
					best, bi, bestLen = b, i, l
				}
			}
		}
	}
	return best, bi
}

// Lit is one conjunct known to hold on an edge.
type Lit struct {
	Expr  ast.Expr
	Tag   ast.Expr // non-nil: the literal is "Tag == Expr" (Truth) / "Tag != Expr"
	Truth bool
}

// litsOf decomposes "cond is truth" into conjuncts: && on true edges, || on false edges, and !.
func litsOf(e ast.Expr, tag ast.Expr, truth bool) []Lit {
	if tag != nil {
		return []Lit{{Expr: e, Tag: tag, Truth: truth}}
	}
	e = ast.Unparen(e)
	switch x := e.(type) {
	case *ast.UnaryExpr:
		if x.Op == token.NOT {
			return litsOf(x.X, nil, !truth)
		}
	case *ast.BinaryExpr:
		if (x.Op == token.LAND && truth) || (x.Op == token.LOR && !truth) {
			return append(litsOf(x.X, nil, truth), litsOf(x.Y, nil, truth)...)
		}
	}
	return []Lit{{Expr: e, Truth: truth}}
}

// edgeLits returns the conjuncts holding on edge b -> b.Succs[i].
func (c *CFGInfo) edgeLits(b *cfg.Block, i int) []Lit {
	cd := c.CondOf(b)
	if cd == nil {
		return nil
	}
	return litsOf(cd.Expr, cd.Tag, i == 0)
}

// GuardedBy reports whether every path from entry to the node `site` crosses an edge on which some
// conjunct satisfies pred. It is decided by deleting those edges and testing reachability.
// Short-circuit guards inside the site's own expression (a && site) are honoured through within().
func (c *CFGInfo) GuardedBy(site ast.Node, pred func(l Lit) bool) bool {
	for _, l := range c.within(site) {
		if pred(l) {
			return true
		}
	}
	blk, _ := c.Locate(site)
	if blk == nil {
		return false
	}
	return !c.reachable(c.G.Blocks[0], blk, func(b *cfg.Block, i int) bool {
		for _, l := range c.edgeLits(b, i) {
			if pred(l) {
				return true
			}
		}
		return false
	}, nil)
}

// within returns the literals that hold when `site` is evaluated because of short-circuit
// operators enclosing it inside its own statement: in `a && X`, a is true while X is evaluated.
func (c *CFGInfo) within(site ast.Node) []Lit {
	var out []Lit
	par := c.P.Parents(c.File)
	child := site
	for n := par[site]; n != nil; n = par[n] {
		if be, ok := n.(*ast.BinaryExpr); ok && containsNode(be.Y, child) {
			if be.Op == token.LAND {
				out = append(out, litsOf(be.X, nil, true)...)
			} else if be.Op == token.LOR {
				out = append(out, litsOf(be.X, nil, false)...)
			}
		}
		if _, ok := n.(ast.Stmt); ok {
			break
		}
		if _, ok := n.(*ast.FuncLit); ok {
			break
		}
		child = n
	}
	return out
}

func containsNode(outer, inner ast.Node) bool {
	return outer != nil && inner != nil && outer.Pos() <= inner.Pos() && inner.End() <= outer.End()
}

// reachable reports whether `to` is reachable from `from` without crossing an edge for which
// cutEdge is true and without passing through a block for which cutBlock is true (the check is
// applied to intermediate blocks and to `from`, never to `to`).
func (c *CFGInfo) reachable(from, to *cfg.Block, cutEdge func(b *cfg.Block, i int) bool, cutBlock func(b *cfg.Block) bool) bool {
	seen := map[*cfg.Block]bool{}
	var walk func(b *cfg.Block) bool
	walk = func(b *cfg.Block) bool {
		if b == to {
			return true
		}
		if seen[b] {
			return false
		}
		seen[b] = true
		if cutBlock != nil && cutBlock(b) {
			return false
		}
		for i, s := range b.Succs {
			if cutEdge != nil && cutEdge(b, i) {
				continue
			}
			if walk(s) {
				return true
			}
		}
		return false
	}
	return walk(from)
}

// MustPassNode reports whether every path from the entry to `site` executes, before site, a CFG node
// satisfying pred. Nodes of site's own block that precede it count; blocks are cut when they contain
// a matching node.
func (c *CFGInfo) MustPassNode(site ast.Node, pred func(n ast.Node) bool) bool {
	blk, idx := c.Locate(site)
	if blk == nil {
		return false
	}
	for i := 0; i < idx; i++ {
		if pred(blk.Nodes[i]) {
			return true
		}
	}
	// the site's own block may be re-entered through a loop: treat `to` specially by splitting:
	// reach any predecessor-entry of blk without passing a matching block.
	if blk == c.G.Blocks[0] {
		return false
	}
	has := func(b *cfg.Block) bool {
		for _, n := range b.Nodes {
			if pred(n) {
				return true
			}
		}
		return false
	}
	return !c.reachable(c.G.Blocks[0], blk, nil, has)
}

// ExitsWithout lists the return nodes (or panicking/terminal blocks when includeNoSucc) reachable from
// `from` (block, starting after node index idx) without executing a node satisfying pred.
func (c *CFGInfo) ExitsWithout(from *cfg.Block, idx int, pred func(n ast.Node) bool) []ast.Node {
	var out []ast.Node
	seen := map[*cfg.Block]bool{}
	var walk func(b *cfg.Block, start int)
	walk = func(b *cfg.Block, start int) {
		for i := start; i < len(b.Nodes); i++ {
			if pred(b.Nodes[i]) {
				return
			}
			if r, ok := b.Nodes[i].(*ast.ReturnStmt); ok {
				out = append(out, r)
				return
			}
		}
		for _, s := range b.Succs {
			if !seen[s] {
				seen[s] = true
				walk(s, 0)
			}
		}
	}
	walk(from, idx)
	return out
}

// Returns lists all live return statements of the graph (including the synthesized implicit return).
func (c *CFGInfo) Returns() []*ast.ReturnStmt {
	var out []*ast.ReturnStmt
	for _, b := range c.G.Blocks {
		if !b.Live {
			continue
		}
		for _, n := range b.Nodes {
			if r, ok := n.(*ast.ReturnStmt); ok {
				out = append(out, r)
			}
		}
	}
	return out
}

// Dominators (iterative; graphs are small).
func (c *CFGInfo) Dominates(a, b *cfg.Block) bool {
	// a dominates b iff b is unreachable from entry when a is cut.
	if a == b {
		return true
	}
	return !c.reachable(c.G.Blocks[0], b, nil, func(x *cfg.Block) bool { return x == a })
}
