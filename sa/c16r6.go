package main

// C16 R-6: the run-time format of a macro is the format of the node it is emitted for.
//
// The virtual machine decides how the output of a macro call enters its context (written through,
// converted from Markdown, captured and escaped) by comparing the context with Function.Format. The type
// checker and the show fast path decide with the format DECLARED by the macro (ast.Func.Format: the explicit
// result format `{% macro M markdown %}`, else the format of the file), and for the main macro of a file with
// ast.Tree.Format. So every runtime.Function that is given a Format takes it from the Format field of the
// same syntax node that supplies its name, type or position:
//
//	built for an *ast.Func F (some other field or argument of the construction reads F)  →  F.Format
//	built for an *ast.Tree T only                                                          →  T.Format
//	Format is a parameter of a constructor helper                                          →  decided at every
//	                                                                                          call of the helper
//
// A macro with an explicit result format that is emitted with the format of its file (seeded change C16-3)
// is written without conversion when imported or reached through extends, while the same macro declared
// in the importing file is converted: "an imported macro behaves as if declared in the importing file" fails.

import (
	"go/ast"
	"go/types"
)

func init() {
	p := registry["C16"]
	if p == nil {
		return
	}
	run := p.run
	p.run = func(r *Run) { run(r); c16MacroFormat(r, "R-6") }
	p.explain += " (R-6) every runtime.Function constructed with a Format takes it from the Format field of the syntax node it is emitted for: of the *ast.Func that supplies its name, type or position (the declared result format of the macro), or of the *ast.Tree for the main macro of a file; a Format passed as parameter of a constructor is decided at each of its calls."
}

type c16Fmt struct {
	r        *Run
	rule     string
	funcT    *types.Named // ast.Func
	treeT    *types.Named // ast.Tree
	funcFmt  *types.Var   // ast.Func.Format
	treeFmt  *types.Var   // ast.Tree.Format
	rtFmt    *types.Var   // runtime.Function.Format
	rtFunc   *types.Named
	n        int
	seenFunc map[*types.Func]bool
}

func c16FormatField(t *types.Named, fmtT types.Type) *types.Var {
	st, ok := t.Underlying().(*types.Struct)
	if !ok {
		return nil
	}
	var out *types.Var
	n := 0
	for i := 0; i < st.NumFields(); i++ {
		if types.Identical(st.Field(i).Type(), fmtT) {
			out = st.Field(i)
			n++
		}
	}
	if n != 1 {
		return nil
	}
	return out
}

// roots lists the variables of type *T read by the expressions.
func c16RootsOfType(info *types.Info, es []ast.Expr, t *types.Named) map[types.Object]string {
	out := map[types.Object]string{}
	for _, e := range es {
		ast.Inspect(e, func(n ast.Node) bool {
			if id, ok := n.(*ast.Ident); ok {
				if o, ok := info.Uses[id].(*types.Var); ok && !o.IsField() && c16IsPtrTo(o.Type(), t) {
					out[o] = id.Name
				}
			}
			return true
		})
	}
	return out
}

// decide one construction: format expression f, the other fields/arguments sib, read in function fi.
func (x *c16Fmt) decide(fi *FuncInfo, at ast.Node, f ast.Expr, sib []ast.Expr, depth int) {
	r, rule := x.r, x.rule
	info := fi.Pkg.TypesInfo
	ctx := c16Enclosing(r.P, fi, at)
	// read through local variables: every definition is a source of the format
	f = ast.Unparen(f)
	if id, ok := f.(*ast.Ident); ok && c16IsLocalVar(info.Uses[id]) && c16ParamIndex(info, fi.Decl.Type, info.Uses[id]) < 0 {
		var srcs []ast.Expr
		okAll := true
		var expand func(e ast.Expr, depth int)
		expand = func(e ast.Expr, depth int) {
			e = ast.Unparen(e)
			id, isID := e.(*ast.Ident)
			if !isID || !c16IsLocalVar(info.Uses[id]) || c16ParamIndex(info, fi.Decl.Type, info.Uses[id]) >= 0 || depth > 4 {
				srcs = append(srcs, e)
				return
			}
			n := 0
			for _, d := range c16DefsOf(info, fi.Decl.Body, info.Uses[id]) {
				if d.Zero {
					continue
				}
				if d.Rhs == nil {
					okAll = false
					continue
				}
				n++
				expand(d.Rhs, depth+1)
			}
			if n == 0 {
				okAll = false
			}
		}
		expand(f, 0)
		for _, s := range srcs {
			if sid, ok := s.(*ast.Ident); ok && c16IsLocalVar(info.Uses[sid]) && c16ParamIndex(info, fi.Decl.Type, info.Uses[sid]) < 0 {
				okAll = false // a chain of locals deeper than the rule follows
			}
		}
		switch {
		case !okAll:
			x.n++
			r.Ob(rule, fi.Name()+"#function-format", at.Pos()).Unknown("the format %s of this function is a local variable with a definition the rule cannot read", exprStr(f))
			return
		case len(srcs) == 1:
			f = srcs[0]
		default:
			// several definitions: each one is decided on its own
			for _, s := range srcs {
				x.decide(fi, at, s, sib, depth)
			}
			return
		}
	}
	funcs := c16RootsOfType(info, sib, x.funcT)
	trees := c16RootsOfType(info, sib, x.treeT)
	var selFld *types.Var
	var selRoot types.Object
	if s, ok := f.(*ast.SelectorExpr); ok {
		selFld, _ = info.Uses[s.Sel].(*types.Var)
		if id, ok := ast.Unparen(s.X).(*ast.Ident); ok {
			selRoot = info.Uses[id]
			// an alias of the node (`decl := fun`): follow single definitions
			for i := 0; i < 4 && c16IsLocalVar(selRoot); i++ {
				defs := c16DefsOf(info, fi.Decl.Body, selRoot)
				if len(defs) != 1 || defs[0].Rhs == nil {
					break
				}
				rid, ok := ast.Unparen(defs[0].Rhs).(*ast.Ident)
				if !ok || info.Uses[rid] == nil {
					break
				}
				selRoot = info.Uses[rid]
			}
		}
	}
	mentions := func(set map[types.Object]string) bool {
		found := false
		ast.Inspect(f, func(n ast.Node) bool {
			if id, ok := n.(*ast.Ident); ok && info.Uses[id] != nil {
				if _, ok := set[info.Uses[id]]; ok {
					found = true
				}
			}
			return true
		})
		return found
	}
	one := func(set map[types.Object]string) string {
		for _, n := range set {
			return n
		}
		return ""
	}
	ob := func() *Obl {
		x.n++
		return r.Ob(rule, fi.Name()+"#function-format", at.Pos())
	}
	switch {
	case len(funcs) > 0:
		switch {
		case selFld == x.funcFmt && selRoot != nil && funcs[selRoot] != "":
			ob().OK("the function emitted for the declaration %s gets its declared format %s", funcs[selRoot], exprStr(f))
		case selFld == x.funcFmt && selRoot != nil:
			ob().Bad("the function emitted for the declaration %s gets the format of another declaration (%s)", one(funcs), exprStr(f))
		case mentions(funcs):
			ob().Unknown("the format %s of the function emitted for the declaration %s is computed from it in a way the rule cannot read", exprStr(f), one(funcs))
		default:
			ob().Bad("the function emitted for the macro declaration %s gets the format %s, not %s.%s: the virtual machine chooses how the output of the macro enters the context of the call (written through, converted from Markdown, captured) from this value, so a macro whose declared result format differs from it is written without the conversion its declaration requires, while the same macro emitted through another path (declared in the importing file, or assigned to a variable first) is converted", one(funcs), exprStr(f), one(funcs), x.funcFmt.Name())
		}
	case selFld == x.treeFmt && x.treeFmt != nil:
		if selRoot == nil || len(trees) == 0 || trees[selRoot] != "" {
			ob().OK("the main macro of a file gets the format of its tree (%s)", exprStr(f))
		} else {
			ob().Bad("the function built for the tree %s gets the format of another tree (%s)", one(trees), exprStr(f))
		}
	case selFld == x.funcFmt && x.funcFmt != nil:
		ob().OK("the function gets the declared format of a macro declaration (%s)", exprStr(f))
	default:
		// a parameter of a constructor: decided at the calls
		if id, ok := f.(*ast.Ident); ok && ctx.lit == nil && fi.Obj != nil && depth < 4 {
			if i := c16ParamIndex(info, fi.Decl.Type, info.Uses[id]); i >= 0 {
				if x.seenFunc[fi.Obj] {
					return
				}
				x.seenFunc[fi.Obj] = true
				nc := 0
				for _, rel := range []string{"internal/compiler", "internal/runtime", ""} {
					for _, cs := range c16CallsOf(r.P, rel, fi.Obj) {
						nc++
						if i >= len(cs.call.Args) {
							x.n++
							r.Ob(rule, cs.fi.Name()+"#function-format", cs.call.Pos()).Unknown("call of %s with a multi-value argument list", fi.Name())
							continue
						}
						var others []ast.Expr
						for j, a := range cs.call.Args {
							if j != i {
								others = append(others, a)
							}
						}
						x.decide(cs.fi, cs.call, cs.call.Args[i], others, depth+1)
					}
				}
				if nc == 0 {
					ob().Trivial("%s takes the format as a parameter and is never called", fi.Name())
				}
				return
			}
		}
		ob().Unknown("the format %s of this function is neither the Format of the *ast.Func or *ast.Tree it is built for nor a parameter", exprStr(f))
	}
}

func c16MacroFormat(r *Run, rule string) {
	x := &c16Fmt{r: r, rule: rule, seenFunc: map[*types.Func]bool{}}
	x.funcT, x.treeT = r.P.Named("ast", "Func"), r.P.Named("ast", "Tree")
	x.rtFunc = r.P.Named("internal/runtime", "Function")
	fmtT := r.P.Named("ast", "Format")
	if !r.Anchor(rule, "ast.Func, ast.Tree, ast.Format, runtime.Function", x.funcT != nil && x.treeT != nil && x.rtFunc != nil && fmtT != nil) {
		return
	}
	x.funcFmt, x.treeFmt, x.rtFmt = c16FormatField(x.funcT, fmtT), c16FormatField(x.treeT, fmtT), c16FormatField(x.rtFunc, fmtT)
	if !r.Anchor(rule, "the single field of type ast.Format of ast.Func, ast.Tree and runtime.Function", x.funcFmt != nil && x.treeFmt != nil && x.rtFmt != nil) {
		return
	}
	for _, rel := range []string{"internal/compiler", "internal/runtime", ""} {
		for _, fi := range r.P.Funcs(rel) {
			if r.P.isTestFile(fi.File) {
				continue
			}
			fi := fi
			info := fi.Pkg.TypesInfo
			ast.Inspect(fi.Decl.Body, func(m ast.Node) bool {
				switch n := m.(type) {
				case *ast.CompositeLit:
					t := info.TypeOf(n)
					if t == nil || !types.Identical(t, x.rtFunc) {
						return true
					}
					var f ast.Expr
					var sib []ast.Expr
					for _, el := range n.Elts {
						kv, ok := el.(*ast.KeyValueExpr)
						if !ok {
							x.n++
							r.Ob(rule, fi.Name()+"#function-format", n.Pos()).Unknown("a runtime.Function literal without field names")
							return true
						}
						if id, ok := kv.Key.(*ast.Ident); ok && info.Uses[id] == x.rtFmt {
							f = kv.Value
						} else {
							sib = append(sib, kv.Value)
						}
					}
					if f != nil {
						x.decide(fi, n, f, sib, 0)
					}
				case *ast.AssignStmt:
					if len(n.Lhs) != len(n.Rhs) {
						return true
					}
					for j, l := range n.Lhs {
						sel, ok := ast.Unparen(l).(*ast.SelectorExpr)
						if !ok || info.Uses[sel.Sel] != x.rtFmt {
							continue
						}
						// the function value being completed: the other stores into the same value in this body
						var sib []ast.Expr
						ast.Inspect(fi.Decl.Body, func(k ast.Node) bool {
							if as, ok := k.(*ast.AssignStmt); ok && len(as.Lhs) == len(as.Rhs) {
								for q, ll := range as.Lhs {
									if s2, ok := ast.Unparen(ll).(*ast.SelectorExpr); ok && s2 != sel && c16SameExpr(info, s2.X, sel.X) {
										sib = append(sib, as.Rhs[q])
									}
								}
							}
							return true
						})
						x.decide(fi, n, n.Rhs[j], sib, 0)
					}
				}
				return true
			})
		}
	}
	r.Stats[rule+"_constructions"] = x.n
	r.Anchor(rule, "a construction of a runtime.Function with a Format", x.n > 0)
	r.Require(rule, 3)
}
