package main

// C27 — printing a parsed syntax tree gives source that parses back to the same tree.
// Exhaustiveness necessary conditions only (DESIGN.md §5 C27, engine E1).
//
// R-1  every switch over an enum of package ast that maps the enum to a constant (a spelling
//      written or returned, a precedence returned) and every string table indexed by such an enum
//      has an entry for every constant the parser can store in the field switched on. The set the
//      parser can store is computed from the construction sites reachable from the parsing entry
//      points (value sets of the argument: constants, token->enum mapping functions restricted by
//      the case clause enclosing the call and by literal bool arguments).
// R-3  the spelling is injective on that set: two values the parser can store in the same field are
//      never printed alike (otherwise the printed form parses back to the other one).
//
// Uses the constructor table and the parse-reachability of c28.go.

import (
	"fmt"
	"go/ast"
	"go/constant"
	"go/token"
	"go/types"
	"sort"
	"strings"

	"golang.org/x/tools/go/cfg"
	"golang.org/x/tools/go/packages"
)

func init() {
	register("C27", &ruleSet{
		explain: "R-1: each switch of package ast whose tag is an enum of the package (OperatorType, AssignmentType, ChanDirection, LiteralType, Format, Context) and whose clauses map it to a constant spelling or rank, and each string table indexed by such an enum, covers every constant that a construction site reachable from the parser can store in the field examined (all constants when the tag is the enum value itself); a missing constant prints nothing or panics. R-3: on that set the spelling is non-empty and injective, so that two different operators of the same syntactic class never print alike.",
		notCov: []string{
			"the round trip itself (parenthesisation, spacing, nested precedence)",
			"that the spelling is the one the lexer reads (only that it is total, non-empty and injective)",
			"if-chains over an enum (ChanType.String, Call.String) and nodes that print a description by design (Func, Block, non-empty CompositeLiteral)",
			"field coverage of String methods (DESIGN R-2): not implemented, many String methods print a description and deliberately skip fields, so no sound rule separates the two",
		},
		trusted: []string{"the constructors of package ast are plain field initialisers", "static call reachability from the exported parse functions of internal/compiler"},
		run:     runC27,
	})
}

type c27 struct {
	r     *Run
	x     *c28 // constructor table and parse reachability
	astPk *packages.Package
	enums map[*types.Named][]*types.Const
	reach map[*types.Func]bool
	decls map[*types.Func]*FuncInfo
	prod  map[string]*c27set // "T.F" -> producible values
	used  map[string]bool    // "T.F": a method of T prints recv.F through the enum's own String
	// filled by R-4 (c27r5.go): per node type, which fields each construction site sets to something non-zero
	sites    map[*types.Named][]map[string]bool
	assigned map[string]bool
}

type c27set struct {
	vals  map[int64]bool
	all   bool     // could not be bounded: every constant is assumed possible
	why   []string // where the values come from / why unbounded
	sites int
}

func (s *c27set) add(o *c27set) {
	if o.all {
		s.all = true
	}
	for v := range o.vals {
		s.vals[v] = true
	}
	for _, w := range o.why {
		if len(s.why) < 6 {
			s.why = append(s.why, w)
		}
	}
}

func c27new() *c27set { return &c27set{vals: map[int64]bool{}} }

func runC27(r *Run) {
	r.Exhaust = true
	c27state = nil
	c := &c27{r: r, enums: map[*types.Named][]*types.Const{}, decls: map[*types.Func]*FuncInfo{}, prod: map[string]*c27set{}, used: map[string]bool{}}
	c.astPk = r.P.Pkg("ast")
	if !r.Anchor("R-1", "package ast", c.astPk != nil) {
		return
	}
	// c28 state (constructors, reachability)
	c.x = &c28{r: r, isNode: map[*types.Named]bool{}, copyFns: map[*types.Func]*FuncInfo{}, decls: map[*types.Func]*FuncInfo{}, ctors: map[*types.Func]*c28ctor{}, nilable: map[string][]string{}, ptrArgs: map[string]*c28ptrArg{}}
	c.x.astPk, c.x.utilPk = c.astPk, r.P.Pkg("ast/astutil")
	for _, fi := range r.P.Funcs("ast") {
		if fi.Obj != nil && !r.P.isTestFile(fi.File) {
			c.x.decls[fi.Obj] = fi
		}
	}
	for _, pk := range r.P.Pkgs {
		rel := strings.TrimPrefix(strings.TrimPrefix(pk.PkgPath, modulePath), "/")
		if r.P.Pkg(rel) != pk {
			continue
		}
		for _, fi := range r.P.Funcs(rel) {
			if fi.Obj != nil && !r.P.isTestFile(fi.File) {
				c.decls[fi.Obj] = fi
			}
		}
	}
	c.reach = c.x.parseReach()
	// enums of package ast
	sc := c.astPk.Types.Scope()
	for _, n := range sc.Names() {
		tn, ok := sc.Lookup(n).(*types.TypeName)
		if !ok {
			continue
		}
		nt, ok := tn.Type().(*types.Named)
		if !ok {
			continue
		}
		if b, ok := nt.Underlying().(*types.Basic); !ok || b.Info()&types.IsInteger == 0 {
			continue
		}
		if cs := EnumConsts(nt); len(cs) >= 2 {
			c.enums[nt] = cs
		}
	}
	r.Stats["enums"] = len(c.enums)
	if !r.Anchor("R-1", "enum types of package ast", len(c.enums) >= 4) {
		return
	}
	c.gatherProducible()

	// every function of package ast
	fis := r.P.Funcs("ast")
	sort.Slice(fis, func(i, j int) bool { return fis[i].Name() < fis[j].Name() })
	spell := map[*types.Named]map[int64]string{} // enum -> its own spelling (method on the enum)
	fieldSpell := map[string]map[int64]string{}  // "T.F" -> spelling by a switch in a method of T
	for _, fi := range fis {
		if r.P.isTestFile(fi.File) || fi.Obj == nil {
			continue
		}
		c.checkFunc(fi, spell, fieldSpell)
	}
	// R-3 injectivity per node field
	for _, k := range sortedKeys(c.prod) {
		p := c.prod[k]
		parts := strings.SplitN(k, ".", 2)
		nt := r.P.Named("ast", parts[0])
		if nt == nil {
			continue
		}
		st := nt.Underlying().(*types.Struct)
		var et *types.Named
		for i := 0; i < st.NumFields(); i++ {
			if st.Field(i).Name() == parts[1] {
				et, _ = st.Field(i).Type().(*types.Named)
			}
		}
		if et == nil {
			continue
		}
		sp, where := fieldSpell[k], "the switch on "+k
		if sp == nil && c.used[k] {
			sp, where = spell[et], et.Obj().Name()+".String"
		}
		if sp == nil {
			continue
		}
		o := r.Ob("R-3", "ast."+k+"#injective", nt.Obj().Pos())
		byText := map[string][]string{}
		var empty []string
		n := 0
		for _, cst := range c.enums[et] {
			v, _ := constantInt64(cst)
			if !p.all && !p.vals[v] {
				continue
			}
			s, ok := sp[v]
			if !ok {
				continue // reported by R-1
			}
			n++
			if strings.TrimSpace(s) == "" {
				empty = append(empty, cst.Name())
			}
			byText[strings.TrimSpace(s)] = append(byText[strings.TrimSpace(s)], cst.Name())
		}
		var clash []string
		for _, t := range sortedKeys(byText) {
			if len(byText[t]) > 1 {
				clash = append(clash, fmt.Sprintf("%q for %s", t, strings.Join(byText[t], " and ")))
			}
		}
		switch {
		case len(empty) > 0:
			o.Bad("%s spells %s as the empty string although the parser stores it in %s", where, strings.Join(empty, ", "), k)
		case len(clash) > 0:
			o.Bad("%s spells two values the parser can store in %s alike: %s; the printed form parses back to one of them only", where, k, strings.Join(clash, "; "))
		default:
			o.OK("%s is non-empty and injective on the %d values the parser stores in %s", where, n, k)
		}
	}
	r.Require("R-1", 90)
	r.Require("R-3", 3)
	c27state = c // read by the printing rules R-4 … R-7 (c27r4.go …)
}

// ---------------------------------------------------------------------------
// Producible value sets.

func (c *c27) enumOf(t types.Type) *types.Named {
	nt, _ := t.(*types.Named)
	if nt == nil || c.enums[nt] == nil {
		return nil
	}
	return nt
}

func (c *c27) gatherProducible() {
	r := c.r
	for _, pk := range r.P.Pkgs {
		if pk.Types == nil || !strings.HasPrefix(pk.PkgPath, modulePath) || pk == c.x.utilPk {
			continue
		}
		info := pk.TypesInfo
		for _, f := range pk.Syntax {
			if r.P.isTestFile(f) {
				continue
			}
			file := f
			ast.Inspect(f, func(n ast.Node) bool {
				if fd, ok := n.(*ast.FuncDecl); ok {
					obj, _ := info.Defs[fd.Name].(*types.Func)
					return obj != nil && c.reach[obj]
				}
				record := func(nt *types.Named, field string, arg ast.Expr, site ast.Node) {
					st := nt.Underlying().(*types.Struct)
					for i := 0; i < st.NumFields(); i++ {
						if st.Field(i).Name() == field && c.enumOf(st.Field(i).Type()) != nil {
							k := nt.Obj().Name() + "." + field
							if c.prod[k] == nil {
								c.prod[k] = c27new()
							}
							var vs *c27set
							if arg == nil {
								vs = c27new()
								vs.vals[0] = true
								vs.why = []string{"left at zero at " + r.P.Pos(site.Pos())}
							} else {
								vs = c.valueSet(pk, file, arg, site, 0)
							}
							c.prod[k].add(vs)
							c.prod[k].sites++
						}
					}
				}
				switch n := n.(type) {
				case *ast.CallExpr:
					fn := callee(info, n)
					if fn == nil || fn.Pkg() != c.astPk.Types {
						return true
					}
					ct := c.x.ctorOf(fn)
					if !ct.ok {
						return true
					}
					for name, idx := range ct.fields {
						if idx >= 0 && idx < len(n.Args) {
							record(ct.typ, name, n.Args[idx], n)
						}
					}
				case *ast.CompositeLit:
					nt := c.x.inAst(info.TypeOf(n))
					if nt == nil {
						return true
					}
					st, ok := nt.Underlying().(*types.Struct)
					if !ok {
						return true
					}
					if fd := r.P.enclosingFunc(pk, n.Pos()); fd != nil && fd.Obj != nil && c.x.ctorOf(fd.Obj).ok {
						return true
					}
					set := map[string]bool{}
					for i, el := range n.Elts {
						name, val := "", el
						if kv, ok := el.(*ast.KeyValueExpr); ok {
							if id, ok := kv.Key.(*ast.Ident); ok {
								name = id.Name
							}
							val = kv.Value
						} else if i < st.NumFields() {
							name = st.Field(i).Name()
						}
						set[name] = true
						record(nt, name, val, n)
					}
					for i := 0; i < st.NumFields(); i++ {
						if !set[st.Field(i).Name()] {
							record(nt, st.Field(i).Name(), nil, n)
						}
					}
				case *ast.AssignStmt:
					// x.F = v on a node after construction
					for i, l := range n.Lhs {
						sel, ok := ast.Unparen(l).(*ast.SelectorExpr)
						if !ok || i >= len(n.Rhs) || len(n.Lhs) != len(n.Rhs) {
							continue
						}
						s := info.Selections[sel]
						if s == nil || s.Kind() != types.FieldVal {
							continue
						}
						if nt := c.x.inAst(s.Recv()); nt != nil {
							if _, isS := nt.Underlying().(*types.Struct); isS && len(s.Index()) == 1 {
								record(nt, sel.Sel.Name, n.Rhs[i], n)
							}
						}
					}
				}
				return true
			})
		}
	}
	c.r.Stats["enum_fields_with_sites"] = len(c.prod)
}

// valueSet bounds the enum values expression e can have at site.
func (c *c27) valueSet(pk *packages.Package, file *ast.File, e ast.Expr, site ast.Node, depth int) *c27set {
	info := pk.TypesInfo
	out := c27new()
	pos := c.r.P.Pos(e.Pos())
	unbounded := func(why string) *c27set {
		out.all = true
		out.why = append(out.why, why+" at "+pos)
		return out
	}
	if depth > 4 {
		return unbounded("nesting too deep")
	}
	e = ast.Unparen(e)
	if v, ok := intValue(info, e); ok {
		out.vals[v] = true
		return out
	}
	switch n := e.(type) {
	case *ast.Ident:
		v, ok := info.Uses[n].(*types.Var)
		if !ok || v.Parent() == nil || v.Pkg() == nil || v.Parent() == v.Pkg().Scope() {
			return unbounded("not a local variable: " + n.Name)
		}
		fd := c.r.P.enclosingFunc(pk, site.Pos())
		if fd == nil {
			return unbounded("no enclosing function")
		}
		// a parameter is unbounded
		sig := fd.Obj.Type().(*types.Signature)
		for i := 0; i < sig.Params().Len(); i++ {
			if sig.Params().At(i) == v {
				return unbounded("parameter " + n.Name)
			}
		}
		found := false
		ast.Inspect(fd.Decl.Body, func(m ast.Node) bool {
			switch m := m.(type) {
			case *ast.ValueSpec:
				for i, nm := range m.Names {
					if info.Defs[nm] != v {
						continue
					}
					found = true
					if len(m.Values) == 0 {
						out.vals[0] = true
					} else if i < len(m.Values) {
						out.add(c.valueSet(pk, file, m.Values[i], m, depth+1))
					}
				}
			case *ast.AssignStmt:
				for i, l := range m.Lhs {
					li, ok := ast.Unparen(l).(*ast.Ident)
					if !ok || (info.Defs[li] != v && info.Uses[li] != v) {
						continue
					}
					found = true
					switch {
					case len(m.Lhs) == len(m.Rhs):
						if m.Tok != token.ASSIGN && m.Tok != token.DEFINE {
							out.add(unbounded("compound assignment to " + n.Name))
						} else {
							out.add(c.valueSet(pk, file, m.Rhs[i], m, depth+1))
						}
					case len(m.Rhs) == 1:
						if call, ok := ast.Unparen(m.Rhs[0]).(*ast.CallExpr); ok {
							out.add(c.callSet(pk, file, call, i, m, depth+1))
						} else {
							out.add(unbounded("multi-value assignment to " + n.Name))
						}
					}
				}
			case *ast.RangeStmt:
				for _, kx := range []ast.Expr{m.Key, m.Value} {
					if li, ok := kx.(*ast.Ident); ok && (info.Defs[li] == v || info.Uses[li] == v) {
						found = true
						out.add(unbounded("range variable " + n.Name))
					}
				}
			}
			return true
		})
		if !found {
			return unbounded("no definition of " + n.Name)
		}
		return out
	case *ast.CallExpr:
		if tv, ok := info.Types[n.Fun]; ok && tv.IsType() {
			return unbounded("conversion " + exprStr(n))
		}
		return c.callSet(pk, file, n, 0, site, depth)
	}
	return unbounded("expression " + exprStr(e))
}

// callSet bounds result #res of the call, reading the callee's return statements under what the
// call site fixes: literal bool arguments and, when an argument is the tag of a switch clause
// enclosing the call, the constants of that clause.
func (c *c27) callSet(pk *packages.Package, file *ast.File, call *ast.CallExpr, res int, site ast.Node, depth int) *c27set {
	info := pk.TypesInfo
	out := c27new()
	fn := callee(info, call)
	gi := c.decls[fn]
	if gi == nil {
		out.all = true
		out.why = append(out.why, "call of "+exprStr(call.Fun)+" at "+c.r.P.Pos(call.Pos()))
		return out
	}
	sig := fn.Type().(*types.Signature)
	bools := map[*types.Var]bool{}
	restrict := map[*types.Var]map[int64]bool{} // parameter (or parameter.field, keyed by the parameter) -> allowed tag values
	restrictSel := map[*types.Var]string{}      // field selected on the parameter ("" = the parameter itself)
	parents := c.r.P.Parents(file)
	for i, a := range call.Args {
		if i >= sig.Params().Len() {
			break
		}
		p := sig.Params().At(i)
		if tv, ok := info.Types[a]; ok && tv.Value != nil && tv.Value.Kind() == constant.Bool {
			bools[p] = constant.BoolVal(tv.Value)
			continue
		}
		// enclosing case clauses of switches whose tag is `a` or `a.f`
		for n := parents[ast.Node(call)]; n != nil; n = parents[n] {
			cc, ok := n.(*ast.CaseClause)
			if !ok || cc.List == nil {
				continue
			}
			sw, ok := parents[parents[cc]].(*ast.SwitchStmt)
			if !ok || sw.Tag == nil {
				continue
			}
			tag := exprStr(sw.Tag)
			as := exprStr(a)
			sel := ""
			switch {
			case tag == as:
			case strings.HasPrefix(tag, as+".") && !strings.Contains(tag[len(as)+1:], "."):
				sel = tag[len(as)+1:]
			default:
				continue
			}
			vals := map[int64]bool{}
			okAll := true
			for _, ce := range cc.List {
				if v, ok := intValue(info, ce); ok {
					vals[v] = true
				} else {
					okAll = false
				}
			}
			if okAll && !c27assignedBetween(info, cc, call, a) {
				restrict[p], restrictSel[p] = vals, sel
			}
			break
		}
	}
	ginfo := gi.Pkg.TypesInfo
	paramOf := func(e ast.Expr) (*types.Var, string) {
		e = ast.Unparen(e)
		if id, ok := e.(*ast.Ident); ok {
			v, _ := ginfo.Uses[id].(*types.Var)
			return v, ""
		}
		if se, ok := e.(*ast.SelectorExpr); ok {
			if id, ok := ast.Unparen(se.X).(*ast.Ident); ok {
				v, _ := ginfo.Uses[id].(*types.Var)
				return v, se.Sel.Name
			}
		}
		return nil, ""
	}
	var walk func(list []ast.Stmt) bool // returns true when the list always returns
	walk = func(list []ast.Stmt) bool {
		for _, s := range list {
			switch s := s.(type) {
			case *ast.ReturnStmt:
				if res < len(s.Results) {
					out.add(c.valueSet(gi.Pkg, gi.File, s.Results[res], s, depth+1))
				} else {
					out.all = true
					out.why = append(out.why, "bare return in "+fn.Name())
				}
				return true
			case *ast.ExprStmt:
				if ce, ok := s.X.(*ast.CallExpr); ok && isBuiltinCall(ginfo, ce, "panic") {
					return true
				}
			case *ast.BlockStmt:
				if walk(s.List) {
					return true
				}
			case *ast.IfStmt:
				cond := ast.Unparen(s.Cond)
				neg := false
				if u, ok := cond.(*ast.UnaryExpr); ok && u.Op == token.NOT {
					cond, neg = ast.Unparen(u.X), true
				}
				known, val := false, false
				if v, sel := paramOf(cond); v != nil && sel == "" {
					if b, ok := bools[v]; ok {
						known, val = true, b != neg
					}
				}
				var els []ast.Stmt
				if s.Else != nil {
					els = []ast.Stmt{s.Else}
				}
				switch {
				case known && val:
					if walk(s.Body.List) {
						return true
					}
				case known:
					if els != nil && walk(els) {
						return true
					}
				default:
					a := walk(s.Body.List)
					b := els != nil && walk(els)
					if a && b {
						return true
					}
				}
			case *ast.SwitchStmt:
				var allowed map[int64]bool
				if s.Tag != nil {
					if v, sel := paramOf(s.Tag); v != nil && restrict[v] != nil && restrictSel[v] == sel {
						allowed = restrict[v]
					}
				}
				allRet, hasDef := true, false
				seen := map[int64]bool{}
				for _, st := range s.Body.List {
					cc := st.(*ast.CaseClause)
					if cc.List == nil {
						hasDef = true
						covered := allowed != nil
						for v := range allowed {
							if !seen[v] {
								covered = false
							}
						}
						if covered && len(allowed) > 0 {
							continue // every allowed tag value has its own clause
						}
						if !walk(cc.Body) {
							allRet = false
						}
						continue
					}
					take := allowed == nil
					for _, ce := range cc.List {
						if v, ok := intValue(ginfo, ce); ok {
							seen[v] = true
							if allowed[v] {
								take = true
							}
						} else {
							take = true
						}
					}
					if take && !walk(cc.Body) {
						allRet = false
					}
				}
				if allRet && hasDef {
					return true
				}
			default:
				// other statements neither return nor change what is returned here
			}
		}
		return false
	}
	if !walk(gi.Decl.Body.List) {
		// falling off the end is impossible for a function with results; nothing to add
	}
	if len(out.vals) == 0 && !out.all {
		out.all = true
		out.why = append(out.why, "no return value understood in "+fn.Name())
	}
	out.why = append(out.why, fmt.Sprintf("%s at %s", exprStr(call), c.r.P.Pos(call.Pos())))
	return out
}

// c27assignedBetween reports whether the root variable of expression a is assigned inside clause cc
// before the call (then the clause's constants no longer describe it).
func c27assignedBetween(info *types.Info, cc *ast.CaseClause, call *ast.CallExpr, a ast.Expr) bool {
	root := a
	for {
		if se, ok := ast.Unparen(root).(*ast.SelectorExpr); ok {
			root = se.X
			continue
		}
		break
	}
	id, ok := ast.Unparen(root).(*ast.Ident)
	if !ok {
		return true
	}
	obj := info.Uses[id]
	found := false
	for _, s := range cc.Body {
		ast.Inspect(s, func(n ast.Node) bool {
			if as, ok := n.(*ast.AssignStmt); ok && as.Pos() < call.Pos() && !containsNode(as, call) {
				for _, l := range as.Lhs {
					if li, ok := ast.Unparen(l).(*ast.Ident); ok && info.Uses[li] == obj {
						found = true
					}
				}
			}
			return true
		})
	}
	return found
}

// ---------------------------------------------------------------------------
// Switches and tables of package ast.

// c27clauseConst extracts the constant a clause maps its values to: the string written or returned,
// or the integer returned.
func c27clauseConst(info *types.Info, cc *ast.CaseClause, isStr *bool) (string, bool) {
	if len(cc.Body) != 1 {
		return "", false
	}
	str := func(e ast.Expr) (string, bool) {
		tv, ok := info.Types[e]
		if !ok || tv.Value == nil {
			return "", false
		}
		if tv.Value.Kind() == constant.String {
			return constant.StringVal(tv.Value), true
		}
		*isStr = false
		return tv.Value.ExactString(), true
	}
	switch s := cc.Body[0].(type) {
	case *ast.ReturnStmt:
		if len(s.Results) == 1 {
			return str(s.Results[0])
		}
	case *ast.ExprStmt:
		if c, ok := s.X.(*ast.CallExpr); ok && len(c.Args) == 1 && !isBuiltinCall(info, c, "panic") {
			return str(c.Args[0])
		}
	case *ast.AssignStmt:
		if len(s.Lhs) == 1 && len(s.Rhs) == 1 && (s.Tok == token.ASSIGN || s.Tok == token.ADD_ASSIGN) {
			return str(s.Rhs[0])
		}
	}
	return "", false
}

func (c *c27) checkFunc(fi *FuncInfo, spell map[*types.Named]map[int64]string, fieldSpell map[string]map[int64]string) {
	r := c.r
	info := fi.Pkg.TypesInfo
	var recv *types.Var
	if fi.Decl.Recv != nil && len(fi.Decl.Recv.List) == 1 && len(fi.Decl.Recv.List[0].Names) == 1 {
		recv, _ = info.Defs[fi.Decl.Recv.List[0].Names[0]].(*types.Var)
	}
	// required: which constants must the tag expression be handled for
	required := func(tag ast.Expr, et *types.Named) (*c27set, string, string) {
		tag = ast.Unparen(tag)
		if id, ok := tag.(*ast.Ident); ok && recv != nil && info.Uses[id] == recv {
			s := c27new()
			s.all = true
			return s, "", "the tag is the " + et.Obj().Name() + " value itself: every constant"
		}
		if se, ok := tag.(*ast.SelectorExpr); ok && recv != nil {
			if id, ok := ast.Unparen(se.X).(*ast.Ident); ok && info.Uses[id] == recv {
				if nt := c.x.inAst(recv.Type()); nt != nil {
					k := nt.Obj().Name() + "." + se.Sel.Name
					if p := c.prod[k]; p != nil {
						return p, k, fmt.Sprintf("values stored in %s by %d parser construction sites", k, p.sites)
					}
					s := c27new()
					s.all = true
					return s, k, "no parser construction site of " + k + " found: every constant"
				}
			}
		}
		s := c27new()
		s.all = true
		return s, "", "tag " + exprStr(tag) + " is not a field of the receiver: every constant"
	}
	// reaches: can the site be reached when the tag has the value v? Decided on the function's graph by
	// cutting every edge whose condition, a comparison of the tag with constants, is false for v (E2).
	// `if lo <= x && x <= hi { return table[x] }` followed by a switch for the other values is one mapping.
	g := r.P.CFGOf(fi)
	reaches := func(site ast.Node, tag ast.Expr, v int64) bool {
		tag = ast.Unparen(tag)
		tagStr := exprStr(tag)
		switch t := tag.(type) {
		case *ast.Ident:
			if o, ok := info.Uses[t].(*types.Var); !ok || len(cgxAssignsTo(info, fi.Decl.Body, o)) > 0 {
				return true
			}
		case *ast.SelectorExpr:
			if id, ok := ast.Unparen(t.X).(*ast.Ident); !ok || recv == nil || info.Uses[id] != recv {
				return true
			}
		default:
			return true
		}
		isVar := func(e ast.Expr) bool { return exprStr(ast.Unparen(e)) == tagStr }
		blk, _ := g.Locate(site)
		if blk == nil {
			return true
		}
		return g.reachable(g.G.Blocks[0], blk, func(b *cfg.Block, i int) bool {
			for _, l := range g.edgeLits(b, i) {
				if l.Tag != nil {
					if !isVar(l.Tag) {
						continue
					}
					if cv, ok := intValue(info, l.Expr); ok && (cv == v) != l.Truth {
						return true
					}
					continue
				}
				if res, ok := evalPred(info, l.Expr, isVar, v); ok && res != l.Truth {
					return true
				}
			}
			return false
		}, nil) || blk == g.G.Blocks[0]
	}
	mergeSpell := func(dst map[int64]string, src map[int64]string) map[int64]string {
		if dst == nil {
			return src
		}
		for k, v := range src {
			dst[k] = v
		}
		return dst
	}
	ast.Inspect(fi.Decl.Body, func(n ast.Node) bool {
		switch n := n.(type) {
		case *ast.SwitchStmt:
			if n.Tag == nil {
				return true
			}
			et := c.enumOf(info.TypeOf(n.Tag))
			if et == nil {
				return true
			}
			cov := coverOfSwitch(info, n)
			// is it a mapping switch?
			mapping := map[int64]string{}
			isMap := len(n.Body.List) > 0
			spelling := true
			for _, st := range n.Body.List {
				cc := st.(*ast.CaseClause)
				if cc.List == nil {
					continue
				}
				s, ok := c27clauseConst(info, cc, &spelling)
				if !ok {
					isMap = false
					break
				}
				for _, ce := range cc.List {
					if v, ok := intValue(info, ce); ok {
						mapping[v] = s
					}
				}
			}
			key := fi.Name() + "#switch:" + exprStr(n.Tag)
			if !isMap || len(cov.NonConst) > 0 {
				r.Ob("R-1", key, n.Pos()).Unknown("switch over %s in %s does not map each case to one constant: the rule cannot tell whether it must be exhaustive", et.Obj().Name(), fi.Name())
				return true
			}
			req, field, why := required(n.Tag, et)
			if req.all && len(req.why) > 0 && field != "" {
				why += " (unbounded: " + strings.Join(req.why, "; ") + ")"
			}
			if !spelling {
				// a ranking (precedence), not a spelling: totality only
			} else if field != "" {
				fieldSpell[field] = mergeSpell(fieldSpell[field], mapping)
			} else if recv != nil && types.Identical(recv.Type(), et) {
				spell[et] = mergeSpell(spell[et], mapping)
			}
			defaultOK := cov.Default != nil && !c28panics(info, cov.Default.Body)
			after := "the switch writes nothing for it"
			if c27panicsAfter(info, fi, n) {
				after = "the function panics for it"
			}
			for _, cst := range c.enums[et] {
				v, _ := constantInt64(cst)
				o := r.Ob("R-1", key+":"+cst.Name(), n.Pos())
				switch {
				case !req.all && !req.vals[v]:
					o.Trivial("%s is never stored there by the parser (%s)", cst.Name(), why)
				case !reaches(n.Tag, n.Tag, v):
					o.Trivial("%s does not reach this switch: the comparisons of %s on the way exclude it", cst.Name(), exprStr(n.Tag))
				case cov.Vals[v] != nil:
					o.OK("%s -> %q (%s)", cst.Name(), mapping[v], why)
				case defaultOK:
					o.OK("%s handled by the default clause (%s)", cst.Name(), why)
				default:
					// the method may handle the value on another path (a guarded table before the switch):
					// evaluate it for this value (c27r4.go)
					if s, ok := c.enumMethodValue(fi, recv, et, n.Tag, v); ok {
						o.OK("%s is not handled by this switch but on another path of %s, which returns %q for it (%s)", cst.Name(), fi.Name(), s, why)
						break
					}
					o.Bad("%s has no case in the switch over %s of %s: %s (%s)", cst.Name(), exprStr(n.Tag), fi.Name(), after, why)
				}
			}
		case *ast.CallExpr:
			// recv.F.String() with F an enum field: the node prints the field through the enum's spelling
			if se, ok := ast.Unparen(n.Fun).(*ast.SelectorExpr); ok && len(n.Args) == 0 {
				if fn := callee(info, n); fn != nil && fn.Name() == "String" && c.enumOf(info.TypeOf(se.X)) != nil {
					if fs, ok := ast.Unparen(se.X).(*ast.SelectorExpr); ok && recv != nil {
						if id, ok := ast.Unparen(fs.X).(*ast.Ident); ok && info.Uses[id] == recv {
							if nt := c.x.inAst(recv.Type()); nt != nil {
								c.used[nt.Obj().Name()+"."+fs.Sel.Name] = true
							}
						}
					}
				}
			}
		case *ast.IndexExpr:
			et := c.enumOf(info.TypeOf(n.Index))
			if et == nil {
				return true
			}
			var lit *ast.CompositeLit
			base := ast.Unparen(n.X)
			if l, ok := base.(*ast.CompositeLit); ok {
				lit = l
			} else if id, ok := base.(*ast.Ident); ok {
				if v, ok := info.Uses[id].(*types.Var); ok && v.Pkg() != nil && v.Parent() == v.Pkg().Scope() {
					if init, _, _ := r.P.pkgVarInit("ast", v.Name()); init != nil {
						lit, _ = ast.Unparen(init).(*ast.CompositeLit)
					}
				}
			}
			key := fi.Name() + "#table:" + exprStr(n.Index)
			if lit == nil {
				r.Ob("R-1", key, n.Pos()).Unknown("%s indexes %s with a %s but the table is not a literal", fi.Name(), exprStr(n.X), et.Obj().Name())
				return true
			}
			elems, ok := keyedElems(info, lit)
			if !ok {
				r.Ob("R-1", key, n.Pos()).Unknown("table with non-constant keys")
				return true
			}
			req, field, why := required(n.Index, et)
			mapping := map[int64]string{}
			for k, e := range elems {
				if s, ok := stringValue(info, e); ok {
					mapping[k] = s
				}
			}
			if field != "" {
				fieldSpell[field] = mergeSpell(fieldSpell[field], mapping)
			} else if recv != nil && types.Identical(recv.Type(), et) {
				spell[et] = mergeSpell(spell[et], mapping)
			}
			for _, cst := range c.enums[et] {
				v, _ := constantInt64(cst)
				o := r.Ob("R-1", key+":"+cst.Name(), n.Pos())
				_, has := elems[v]
				switch {
				case !req.all && !req.vals[v]:
					o.Trivial("%s is never stored there by the parser (%s)", cst.Name(), why)
				case !reaches(n, n.Index, v):
					o.Trivial("%s does not reach this table: the comparisons of %s on the way exclude it", cst.Name(), exprStr(n.Index))
				case has:
					o.OK("%s -> entry %d %q of the table (%s)", cst.Name(), v, mapping[v], why)
				default:
					// the index may be guarded by a range test and the value handled on another path
					if s, ok := c.enumMethodValue(fi, recv, et, n.Index, v); ok {
						o.OK("%s (= %d) does not reach the table indexed in %s: the method returns %q for it on another path (%s)", cst.Name(), v, fi.Name(), s, why)
						break
					}
					o.Bad("%s (= %d) has no entry in the table indexed in %s, which has %d entries: indexing panics (%s)", cst.Name(), v, fi.Name(), len(elems), why)
				}
			}
		}
		return true
	})
}

// enumMethodValue evaluates the method fi of the enum type et for the receiver value v, when tag is the
// receiver itself, and returns the constant non-empty string it yields on every path (c27r4.go).
func (c *c27) enumMethodValue(fi *FuncInfo, recv *types.Var, et *types.Named, tag ast.Expr, v int64) (string, bool) {
	if recv == nil || !types.Identical(recv.Type(), et) {
		return "", false
	}
	id, ok := ast.Unparen(tag).(*ast.Ident)
	if !ok || fi.Pkg.TypesInfo.Uses[id] != recv {
		return "", false
	}
	ev := c27newEv(c)
	runs, inc := ev.explore(16, func() (c27v, *c27node) { return ev.invoke(fi, c27int{v}, nil, "n"), nil })
	if inc != "" || len(runs) == 0 {
		return "", false
	}
	out := ""
	for i, rn := range runs {
		if rn.fail != "" || rn.halted {
			return "", false
		}
		st, ok := rn.out.(c27str)
		if !ok {
			return "", false
		}
		l, ok := c27allLit(st)
		if !ok || strings.TrimSpace(l) == "" || i > 0 && l != out {
			return "", false
		}
		out = l
	}
	return out, true
}

// c27panicsAfter reports whether the statement list containing the switch ends in a panic.
func c27panicsAfter(info *types.Info, fi *FuncInfo, sw *ast.SwitchStmt) bool {
	list := fi.Decl.Body.List
	for i, s := range list {
		if s == ast.Stmt(sw) && i+1 < len(list) {
			return c28panics(info, list[i+1:])
		}
	}
	return false
}
