package main

// C09 R-6 (added after seeded change C09-5): the shown value reaches the generic conversion only as
// "no clause matched".
//
// R-1 reads what a show function handles function by function. It does not see a generic conversion that
// sits in another function of the chain (the URL dispatcher, a helper), nor one placed beside the type
// switch on a path that does not go through it (a fast path). The condition: follow the shown value from
// renderer.Show — through the clause of the context switch, the URL path, and every function of package
// runtime it is handed to as an argument. Each call toString(…, value) met on the way is dominated by type
// switches over the value (in the same function or at the call sites above it) whose interface clauses
// cannot reach it (R-5's path test) and jointly cover every interface the static check accepts in that
// context. Otherwise a struct or pointer accepted because it implements, say, fmt.Stringer arrives at the
// kind switch of toString: 'cannot show value of type T'.

import (
	"go/ast"
	"go/types"
	"sort"
	"strings"
)

func init() {
	p := registry["C09"]
	if p == nil {
		return
	}
	run := p.run
	p.run = func(r *Run) { run(r); c09GenericOnlyAfterDispatch(r) }
	p.explain += " R-6: following the shown value from renderer.Show through every runtime function it is passed to, each generic conversion toString(value) is dominated by type switches over the value whose clauses cover every interface accepted statically in that context."
}

type c09chainState struct {
	f        *c09flow
	rule     string
	ctxName  string
	acc      []types.Type
	visiting map[string]bool
	nsites   int
	asserted []types.Type // interface types the chain tests with a plain type assertion (not read)
}

func c09GenericOnlyAfterDispatch(r *Run) {
	const R = "R-6"
	f := c09NewFlow(r, R)
	if f == nil {
		return
	}
	x := f.x
	show := r.NeedFunc(R, "internal/runtime", "(*renderer).Show")
	if show == nil {
		return
	}
	info := show.Pkg.TypesInfo
	// the shown value: the parameter of Show whose type is the empty interface
	var val *types.Var
	sig := show.Obj.Type().(*types.Signature)
	for i := 0; i < sig.Params().Len(); i++ {
		p := sig.Params().At(i)
		if it, ok := p.Type().Underlying().(*types.Interface); ok && it.NumMethods() == 0 {
			if val != nil {
				val = nil
				break
			}
			val = p
		}
	}
	if !r.Anchor(R, "renderer.Show: one parameter of type any (the shown value)", val != nil) {
		return
	}
	var dispatch *ast.SwitchStmt
	for _, s := range switchesOn(info, show.Decl.Body, x.ctxT) {
		dispatch = s
	}
	if !r.Anchor(R, "switch on ast.Context in renderer.Show", dispatch != nil) {
		return
	}
	ctxs := EnumConsts(x.ctxT)
	cover := coverOfSwitch(info, dispatch)
	total := 0
	passes := func(c *ast.CallExpr) (int, bool) {
		for i, a := range c.Args {
			if id, ok := ast.Unparen(a).(*ast.Ident); ok && info.Uses[id] == types.Object(val) {
				return i, true
			}
		}
		return 0, false
	}
	start := func(ctxName string, ctxVal int64, c *ast.CallExpr, argIdx int) {
		fn := callee(info, c)
		fi := f.funcs[fn]
		if fn == nil || fi == nil {
			return
		}
		if fn == f.ts.Obj {
			// the dispatcher converts the value generically itself, before any dispatch on its type
			total++
			for _, a := range f.accByCtx[ctxVal] {
				r.Ob(R, "ctx:"+ctxName+":Show#"+fn.Name()+":"+typeStr(a), c.Pos()).Bad("in %s renderer.Show hands the shown value to the generic conversion %s without any dispatch on its type: a struct or pointer accepted statically because it implements %s fails with 'cannot show value of type …'", ctxName, fn.Name(), typeStr(a))
			}
			return
		}
		st := &c09chainState{f: f, rule: R, ctxName: ctxName, acc: f.accByCtx[ctxVal], visiting: map[string]bool{}}
		st.visit(fi, argIdx, nil, fi.Decl.Name.Name)
		if st.nsites == 0 {
			r.Ob(R, "ctx:"+ctxName+":"+fi.Decl.Name.Name, c.Pos()).Trivial("no generic conversion of the shown value on the path of %s", ctxName)
		}
		total += st.nsites
	}
	for _, cc := range ctxs {
		v, _ := intValue64(cc)
		clause := cover.Vals[v]
		if clause == nil {
			continue // R-1 reports a context without clause
		}
		for _, c := range calls(clause, false) {
			if i, ok := passes(c); ok {
				start(cc.Name(), v, c, i)
			}
		}
	}
	// calls outside the context switch that receive the value: the URL path, taken for the attribute contexts
	for _, c := range calls(show.Decl.Body, false) {
		if containsNode(dispatch, c) {
			continue
		}
		i, ok := passes(c)
		if !ok || f.funcs[callee(info, c)] == nil {
			continue
		}
		if callee(info, c) == f.ts.Obj {
			for _, cc := range ctxs {
				v, _ := intValue64(cc)
				start(cc.Name(), v, c, i)
			}
			continue
		}
		found := 0
		for _, cc := range ctxs {
			if cc.Name() == "ContextQuotedAttr" || cc.Name() == "ContextUnquotedAttr" {
				v, _ := intValue64(cc)
				start(cc.Name()+"+URL", v, c, i)
				found++
			}
		}
		r.Anchor(R, "the attribute contexts of the URL path", found == 2)
	}
	r.Stats["generic_conversion_sites"] = total
	r.Require(R, 30)
}

// visit analyses function fi, whose parameter number argIdx holds the shown value; excluded lists the
// interface types the callers' type switches have already ruled out.
func (st *c09chainState) visit(fi *FuncInfo, argIdx int, excluded []types.Type, chain string) {
	f, r := st.f, st.f.r
	sig := fi.Obj.Type().(*types.Signature)
	if argIdx >= sig.Params().Len() {
		return // variadic tail: not followed
	}
	param := sig.Params().At(argIdx)
	if _, ok := param.Type().Underlying().(*types.Interface); !ok {
		return
	}
	key := fi.Name() + "#" + param.Name()
	if st.visiting[key] {
		return
	}
	st.visiting[key] = true
	defer delete(st.visiting, key)

	info := fi.Pkg.TypesInfo
	sws := c09TypeSwitches(info, fi.Decl.Body)
	vars := c09Aliases(param, sws)
	var own []*c09tsw
	for _, s := range sws {
		if s.subjObj != nil && vars[s.subjObj] {
			own = append(own, s)
		}
	}
	// plain assertions value.(I) to an interface type: a dispatch this rule does not read
	ast.Inspect(fi.Decl.Body, func(n ast.Node) bool {
		if ta, ok := n.(*ast.TypeAssertExpr); ok && ta.Type != nil {
			if id, ok := ast.Unparen(ta.X).(*ast.Ident); ok && vars[info.Uses[id]] {
				if t := info.TypeOf(ta.Type); t != nil {
					if _, isI := t.Underlying().(*types.Interface); isI {
						st.asserted = append(st.asserted, t)
					}
				}
			}
		}
		return true
	})
	var w *c09walk
	// excludedAt: the callers' exclusions plus the interface clauses of the dominating switches of this
	// function from which the site cannot be reached
	excludedAt := func(site ast.Node) []types.Type {
		out := append([]types.Type(nil), excluded...)
		if len(own) == 0 {
			return out
		}
		if w == nil {
			w = c09NewWalk(r.P, fi)
		}
		for _, s := range own {
			assign := ast.Node(s.stmt.Assign)
			// domination: the site is not reachable from the entry without executing the switch head
			if w.reaches(w.c.G.Blocks[0], 0, site, func(m ast.Node) bool { return m == assign }, nil, nil) {
				continue
			}
			stop := func(m ast.Node) bool { return m == assign || f.kills(info, m, s.subjObj) }
			for _, cst := range s.stmt.Body.List {
				cc := cst.(*ast.CaseClause)
				blk := w.clauseBlock(cc)
				for _, te := range cc.List {
					t := info.TypeOf(te)
					if t == nil {
						continue
					}
					if it, isI := t.Underlying().(*types.Interface); !isI || it.NumMethods() == 0 {
						continue
					}
					if blk != nil && !w.reaches(w.c.G.Blocks[0], 0, site, stop, nil, blk) {
						out = append(out, t)
					}
				}
			}
		}
		return out
	}
	for _, c := range calls(fi.Decl.Body, false) {
		fn := callee(info, c)
		if fn == nil {
			continue
		}
		if fn == f.ts.Obj {
			if len(c.Args) == 0 {
				continue
			}
			id, ok := ast.Unparen(c.Args[len(c.Args)-1]).(*ast.Ident)
			if !ok || !vars[info.Uses[id]] {
				continue
			}
			st.nsites++
			ex := excludedAt(c)
			for _, a := range st.acc {
				o := r.Ob(st.rule, "ctx:"+st.ctxName+":"+chain+"#"+f.ts.Decl.Name.Name+":"+typeStr(a), c.Pos())
				by := ""
				for _, e := range ex {
					if c09covers(a, e) {
						by = typeStr(e)
					}
				}
				if by != "" {
					o.OK("values implementing %s never arrive here: the dominating type switch has a clause for %s that converts them itself", typeStr(a), by)
					continue
				}
				unread := false
				for _, t := range st.asserted {
					if c09covers(a, t) {
						unread = true
					}
				}
				if unread {
					o.Unknown("the chain %s tests the value against %s with a plain type assertion, a dispatch shape this rule does not read", chain, typeStr(a))
					continue
				}
				o.Bad("in %s a value accepted statically because it implements %s reaches the generic conversion %s (chain %s) without a type-switch clause for it on every path (clauses ruled out here: %s): a struct or pointer implementing it fails with 'cannot show value of type …'", st.ctxName, typeStr(a), f.ts.Decl.Name.Name, chain, c09typeList(ex))
			}
			continue
		}
		callee := f.funcs[fn]
		if callee == nil {
			continue
		}
		for i, a := range c.Args {
			if id, ok := ast.Unparen(a).(*ast.Ident); ok && vars[info.Uses[id]] {
				st.visit(callee, i, excludedAt(c), chain+">"+callee.Decl.Name.Name)
			}
		}
	}
}

func c09typeList(ts []types.Type) string {
	var s []string
	seen := map[string]bool{}
	for _, t := range ts {
		if n := typeStr(t); !seen[n] {
			seen[n] = true
			s = append(s, n)
		}
	}
	sort.Strings(s)
	if len(s) == 0 {
		return "none"
	}
	return strings.Join(s, ", ")
}
