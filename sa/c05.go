package main

// C05 — running compiled code never panics into the host (DESIGN.md §5 C05).

import (
	"go/ast"
	"go/token"
	"go/types"
	"strings"
)

func init() {
	register("C05", &ruleSet{
		explain: "R-1: the interpreter loop is called only from itself and from the one function whose deferred closure recovers and hands the value to the panic classifier (containment). " +
			"R-2: the run entry points contain no explicit panic except the documented re-panic of a Fatal value. " +
			"R-3: no function that can execute while the VM's current-function pointer is nil (between a panicked frame being pushed and the next call being selected, including the recovery path itself) dereferences it unguarded. " +
			"R-4: every index and one-bound slice expression on strings/byte slices in the renderer and the escapers (which run inside OpShow/OpText; an index fault there becomes a fatal error, i.e. a host panic) is in range on every path. " +
			"R-5: the renderer's show dispatch covers every ast.Context.",
		notCov:  []string{"faults inside reflect operations for value combinations the type checker admits but a handler mishandles", "panics raised by native functions the embedder supplies (reported as documented)", "slices with two symbolic bounds (listed in notes)"},
		trusted: []string{"the reviewed exception table c05Exceptions"},
		run:     runC05,
	})
}

// Sites of the renderer/escapers in range by an argument the engine cannot express. One symbol, one reason.
var c05Exceptions = []boundsException{
	{"runtime.(*renderer).Text#$1[0]",
		"txt is never empty: the Text instruction is emitted only for non-empty text (obligation R-4 compiler.emitText#non-empty-argument of this same check: every call of functionBuilder.emitText is dominated by len(txt) != 0, and flushText concatenates those chunks)"},
	{"runtime.(*renderer).Text#$1[1:]",
		"same as txt[0]: under txt[0] == '?', so len(txt) ≥ 1"},
	{"runtime.jsStringEscape#$1[$2:$3]",
		"range over a string: the next key is i plus the UTF-8 width of c; last becomes i+1 only when the rune has an entry in jsStringEscapes (indexes below 0x80: one byte) and i+3 for U+2028/U+2029 (three bytes), so last never exceeds the next key and s[last:i] has last ≤ i"},
	{"runtime.jsStringEscape#$1[$2:]",
		"last is i+1, or i+3 when the rune decoded at i by `for i, c := range s` is U+2028/U+2029, which occupy exactly three bytes of s starting at i; hence last ≤ len(s)"},
}

func runC05(r *Run) {
	const rel = "internal/runtime"
	var fns []*FuncInfo
	for _, f := range r.P.Funcs(rel) {
		if !r.P.isTestFile(f.File) {
			fns = append(fns, f)
		}
	}
	byObj := map[*types.Func]*FuncInfo{}
	for _, f := range fns {
		byObj[f.Obj] = f
	}
	loop := c05InterpreterLoop(r, fns)
	if loop == nil {
		return
	}
	// ---- R-1 containment
	var recoverable *FuncInfo
	for _, fi := range fns {
		info := fi.Pkg.TypesInfo
		for _, c := range calls(fi.Decl.Body, true) {
			if callee(info, c) != loop.Obj {
				continue
			}
			o := r.Ob("R-1", fi.Name()+"#calls-interpreter-loop", c.Pos())
			switch {
			case fi.Obj == loop.Obj:
				o.OK("recursive call from the loop itself (range-over-func bodies): already under the recovering frame")
			case c05HasRecoveringDefer(r, fi) != nil:
				recoverable = fi
				o.OK("%s defers a closure that calls recover before running the loop", fi.Name())
			default:
				o.Bad("%s calls the interpreter loop without a deferred recover: a fault in interpreted code would unwind into the host", fi.Name())
			}
		}
	}
	// function values of the loop
	for _, fi := range fns {
		info := fi.Pkg.TypesInfo
		par := r.P.Parents(fi.File)
		ast.Inspect(fi.Decl.Body, func(n ast.Node) bool {
			if sel, ok := n.(*ast.SelectorExpr); ok && info.Uses[sel.Sel] == loop.Obj {
				if c, ok := par[sel].(*ast.CallExpr); !ok || c.Fun != ast.Expr(sel) {
					r.Ob("R-1", fi.Name()+"#loop-as-value", sel.Pos()).Bad("the interpreter loop escapes as a method value: its callers cannot be enumerated")
				}
			}
			return true
		})
	}
	if r.Anchor("R-1", "function with a deferred recover that runs the interpreter loop", recoverable != nil) {
		lit := c05HasRecoveringDefer(r, recoverable)
		info := recoverable.Pkg.TypesInfo
		// the deferred closure assigns the classifier's result to a named result
		o := r.Ob("R-1", recoverable.Name()+"#recovered-value-is-classified", lit.Pos())
		assigned := false
		var classifier *types.Func
		ast.Inspect(lit.Body, func(n ast.Node) bool {
			if as, ok := n.(*ast.AssignStmt); ok && len(as.Lhs) == 1 && len(as.Rhs) == 1 {
				if id, ok := as.Lhs[0].(*ast.Ident); ok {
					if v, ok := info.Uses[id].(*types.Var); ok && c05IsNamedResult(recoverable, v) {
						if c, ok := as.Rhs[0].(*ast.CallExpr); ok {
							if f := callee(info, c); f != nil && len(c.Args) == 1 {
								assigned = true
								classifier = f
							}
						}
					}
				}
			}
			return true
		})
		if assigned {
			o.OK("the recovered value is passed to %s and its result is the function's error result", funcKey(classifier))
		} else {
			o.Bad("the deferred closure does not assign a classified error to the named result: a recovered panic would be swallowed or lost")
		}
		c05R3v2(r, fns, byObj, recoverable, loop, classifier)
	}
	r.Require("R-1", 3)

	// ---- R-2 explicit panics at the entry points
	c05R2(r)

	// ---- R-4 renderer / escapers index safety
	var roots []*FuncInfo
	noLift := map[*types.Func]bool{}
	for _, name := range []string{"(*renderer).Show", "(*renderer).Text"} {
		if fi := r.NeedFunc("R-4", rel, name); fi != nil {
			roots = append(roots, fi)
			noLift[fi.Obj] = true
		}
	}
	var scope []*FuncInfo
	for _, fi := range funcsReachableInPkg(r.P, fns, roots...) {
		file := r.P.FileOf(fi.Decl.Pos())
		if file == "renderer.go" || file == "escapers.go" {
			scope = append(scope, fi)
		}
	}
	runBounds(r, boundsConfig{rule: "R-4", funcs: scope, allFuncs: fns, exceptions: c05Exceptions, noLift: noLift})
	c05EmitTextNonEmpty(r)
	r.Require("R-4", 40)

	// ---- R-5 context dispatch
	c05R5(r)
}

// c05InterpreterLoop resolves by role: the method of VM whose body has a `for` that reads
// vm.fn.Body[vm.pc] and switches on the opcode type.
func c05InterpreterLoop(r *Run, fns []*FuncInfo) *FuncInfo {
	opT := r.P.Named("internal/runtime", "Operation")
	var found []*FuncInfo
	for _, fi := range fns {
		if fi.Decl.Recv == nil || opT == nil {
			continue
		}
		info := fi.Pkg.TypesInfo
		ok := false
		ast.Inspect(fi.Decl.Body, func(n ast.Node) bool {
			if fs, isFor := n.(*ast.ForStmt); isFor && fs.Cond == nil {
				if len(switchesOn(info, fs.Body, opT)) > 0 {
					readsBody := false
					ast.Inspect(fs.Body, func(m ast.Node) bool {
						if ix, isIx := m.(*ast.IndexExpr); isIx && strings.HasSuffix(exprStr(ix.X), ".Body") {
							readsBody = true
						}
						return true
					})
					if readsBody {
						ok = true
					}
				}
			}
			return true
		})
		if ok {
			found = append(found, fi)
		}
	}
	if len(found) != 1 {
		r.Anchor("R-1", "interpreter loop (method with `for { in := vm.fn.Body[vm.pc]; switch op {…} }`)", false)
		return nil
	}
	return found[0]
}

// c05HasRecoveringDefer returns the deferred function literal of fi that calls recover(), or nil.
func c05HasRecoveringDefer(r *Run, fi *FuncInfo) *ast.FuncLit {
	info := fi.Pkg.TypesInfo
	var out *ast.FuncLit
	for _, st := range fi.Decl.Body.List {
		d, ok := st.(*ast.DeferStmt)
		if !ok {
			continue
		}
		lit, ok := ast.Unparen(d.Call.Fun).(*ast.FuncLit)
		if !ok {
			continue
		}
		for _, c := range calls(lit.Body, false) {
			if isBuiltinCall(info, c, "recover") {
				out = lit
			}
		}
	}
	return out
}

func c05IsNamedResult(fi *FuncInfo, v *types.Var) bool {
	res := fi.Obj.Type().(*types.Signature).Results()
	for i := 0; i < res.Len(); i++ {
		if res.At(i) == v {
			return true
		}
	}
	return false
}

// c05R2: explicit panics in the run entry points.
func c05R2(r *Run) {
	const R = "R-2"
	type ep struct{ rel, name string }
	for _, e := range []ep{{"internal/runtime", "(*VM).Run"}, {"", "(*Program).Run"}, {"", "(*Template).Run"}} {
		fi := r.NeedFunc(R, e.rel, e.name)
		if fi == nil {
			continue
		}
		info := fi.Pkg.TypesInfo
		par := r.P.Parents(fi.File)
		n := 0
		for _, c := range calls(fi.Decl.Body, true) {
			if !isBuiltinCall(info, c, "panic") {
				continue
			}
			n++
			o := r.Ob(R, fi.Name()+"#panic("+exprStr(c.Args[0])+")", c.Pos())
			// allowed: inside a type-switch clause for the runtime's fatal error type
			ok := false
			for p := par[c]; p != nil; p = par[p] {
				if cc, isCC := p.(*ast.CaseClause); isCC {
					for _, te := range cc.List {
						if t := info.TypeOf(te); t != nil && strings.HasSuffix(typeStr(t), "fatalError") {
							ok = true
						}
					}
				}
			}
			if ok {
				o.OK("re-panic of the value given to Fatal, inside the *fatalError clause (documented)")
			} else {
				o.Bad("explicit panic in a run entry point outside the Fatal clause: Run would panic into the host")
			}
		}
		if n == 0 {
			r.Ob(R, fi.Name()+"#no-explicit-panic", fi.Decl.Pos()).OK("no call to panic in %s", fi.Name())
		}
	}
	r.Require(R, 3)
}

// c05R3: the nil window of the VM's current-function field.
//
// The window opens where the run driver stores nil into the field (after pushing a panicked frame) and
// closes where the next-call selector assigns it again. The functions that may execute inside it are
// those statically reachable from the recoverable section other than through the interpreter loop
// (which is entered only when the field is non-nil or the selector returned true), plus the panic
// classifier and what it calls. In all of them a dereference of the field must be dominated by a
// non-nil test or by an assignment of a non-nil value.
func c05R3(r *Run, fns []*FuncInfo, byObj map[*types.Func]*FuncInfo, recoverable, loop *FuncInfo, classifier *types.Func) {
	const R = "R-3"
	// the field: the one of type *Function that some function of the package sets to nil
	var field *types.Var
	var opener *FuncInfo
	for _, fi := range fns {
		info := fi.Pkg.TypesInfo
		ast.Inspect(fi.Decl.Body, func(n ast.Node) bool {
			as, ok := n.(*ast.AssignStmt)
			if !ok || len(as.Lhs) != 1 || len(as.Rhs) != 1 {
				return true
			}
			sel, ok := as.Lhs[0].(*ast.SelectorExpr)
			if !ok {
				return true
			}
			v, ok := info.Uses[sel.Sel].(*types.Var)
			if !ok || !v.IsField() || typeStr(v.Type()) != "*runtime.Function" {
				return true
			}
			if tv := info.Types[as.Rhs[0]]; tv.IsNil() {
				if _, isVM := info.TypeOf(sel.X).Underlying().(*types.Pointer); isVM && strings.HasSuffix(typeStr(info.TypeOf(sel.X)), "VM") {
					field, opener = v, fi
				}
			}
			return true
		})
	}
	if field == nil {
		r.Ob(R, "vm.fn#nil-window", token.NoPos).Trivial("no function stores nil into the VM's current-function field: there is no nil window")
		return
	}
	r.Note("nil window opened by %s (stores nil into VM.%s)", opener.Name(), field.Name())
	// functions inside the window
	window := map[*types.Func]*FuncInfo{}
	var walk func(f *FuncInfo)
	walk = func(f *FuncInfo) {
		if f == nil || window[f.Obj] != nil || f.Obj == loop.Obj {
			return
		}
		window[f.Obj] = f
		info := f.Pkg.TypesInfo
		for _, c := range calls(f.Decl.Body, true) {
			if cf := callee(info, c); cf != nil {
				walk(byObj[cf])
			}
		}
	}
	walk(recoverable)
	if classifier != nil {
		walk(byObj[classifier])
	}
	n := 0
	for _, fi := range sortedFuncs(window) {
		info := fi.Pkg.TypesInfo
		g := r.P.CFGOf(fi)
		isField := func(e ast.Expr) bool {
			sel, ok := ast.Unparen(e).(*ast.SelectorExpr)
			return ok && info.Uses[sel.Sel] == field
		}
		seen := map[string]bool{}
		ast.Inspect(fi.Decl.Body, func(m ast.Node) bool {
			if _, isLit := m.(*ast.FuncLit); isLit {
				return false
			}
			sel, ok := m.(*ast.SelectorExpr)
			if !ok || !isField(sel.X) {
				return true
			}
			// vm.fn.X : a dereference
			key := fi.Name() + "#" + exprStr(sel)
			if seen[key] {
				return true
			}
			seen[key] = true
			n++
			o := r.Ob(R, key, sel.Pos())
			guarded := g.GuardedBy(sel, func(l Lit) bool {
				if l.Tag != nil {
					return false
				}
				be, ok := ast.Unparen(l.Expr).(*ast.BinaryExpr)
				if !ok {
					return false
				}
				tv := info.Types[be.Y]
				if !isField(be.X) || !tv.IsNil() {
					return false
				}
				return (be.Op == token.NEQ && l.Truth) || (be.Op == token.EQL && !l.Truth)
			})
			assigned := g.MustPassNode(sel, func(nd ast.Node) bool {
				as, ok := nd.(*ast.AssignStmt)
				if !ok {
					return false
				}
				for i, l := range as.Lhs {
					if isField(l) && i < len(as.Rhs) {
						if tv := info.Types[as.Rhs[i]]; !tv.IsNil() {
							return true
						}
					}
				}
				return false
			})
			switch {
			case guarded:
				o.OK("dominated by a test that the field is not nil")
			case assigned:
				o.OK("dominated by an assignment of the field in the same function")
			default:
				o.Bad("%s dereferences VM.%s, which %s leaves nil while a panicked frame is unwound: a deferred native call that panics, or a second panic, makes Run panic with a nil dereference", fi.Name(), field.Name(), opener.Name())
			}
			return true
		})
	}
	r.Stats["R-3_window_functions"] = len(window)
	r.Require(R, 3)
}

func sortedFuncs(m map[*types.Func]*FuncInfo) []*FuncInfo {
	var out []*FuncInfo
	for _, f := range m {
		out = append(out, f)
	}
	for i := 1; i < len(out); i++ {
		for j := i; j > 0 && out[j].Name() < out[j-1].Name(); j-- {
			out[j], out[j-1] = out[j-1], out[j]
		}
	}
	return out
}

// c05R5: renderer.Show dispatches every context.
func c05R5(r *Run) {
	const R = "R-5"
	ctxT := r.P.Named("ast", "Context")
	show := r.NeedFunc(R, "internal/runtime", "(*renderer).Show")
	if show == nil || !r.Anchor(R, "ast.Context", ctxT != nil) {
		return
	}
	sws := switchesOn(show.Pkg.TypesInfo, show.Decl.Body, ctxT)
	if !r.Anchor(R, "switch on ast.Context in renderer.Show", len(sws) == 1) {
		return
	}
	cov := coverOfSwitch(show.Pkg.TypesInfo, sws[0])
	for _, c := range EnumConsts(ctxT) {
		v, _ := constantInt64(c)
		o := r.Ob(R, "renderer.Show#"+c.Name(), sws[0].Pos())
		if cov.Vals[v] != nil {
			o.OK("has a clause")
		} else {
			o.Bad("no clause for %s: the default clause panics with 'unknown context' while running", c.Name())
		}
	}
	r.Require(R, 14)
}
