package main

// Selector walk shared by C01 and C02 (engine E2 applied to control flow).
//
// A function body (or one clause of a switch) is walked with ONE "selector" quantity fixed to a
// value: every non-constant expression whose type is selType denotes the selector (the opcode's
// kind operand, a runtime.Condition, an ast.OperatorType). Switches whose tag is the selector and
// ifs / tagless switches whose condition is a pure predicate over the selector are *decided* from
// the syntax with evalPred (pred.go); everything else is non-deterministic (all branches walked).
// Nothing of /repo is executed.
//
// Each statement on the path is reported to leaf with two flags:
//   sel — the statement lies in a region chosen by a decided selector branch (any branch);
//   exp — ... chosen because a case label or a true predicate named the value explicitly
//         (a default clause or an else branch keeps the flag it inherited).

import (
	"go/ast"
	"go/token"
	"go/types"
)

type c01Sel struct {
	info    *types.Info
	selType types.Type
	val     int64
	leaf    func(n ast.Node, sel, exp bool)
	unknown []string

	// boolDefs: boolean locals defined once as a pure predicate over the selector
	// (`signed := kind < reflect.Uint8`); a condition that is such a local is decided like the predicate.
	boolDefs map[types.Object]ast.Expr
	// helper resolves a call to a function of the module whose body is to be walked in place of the call
	// when the selector is passed to it (a kind switch extracted into a helper); nil: calls are leaves.
	helper func(c *ast.CallExpr) (*ast.FuncDecl, *types.Info)
	depth  int
}

// pred decides a condition over the selector, looking through boolean locals recorded in boolDefs.
func (s *c01Sel) pred(e ast.Expr) (res, ok bool) {
	e = ast.Unparen(e)
	switch x := e.(type) {
	case *ast.Ident:
		if d, has := s.boolDefs[s.info.Uses[x]]; has && s.info.Uses[x] != nil {
			return s.pred(d)
		}
	case *ast.UnaryExpr:
		if x.Op == token.NOT {
			r, ok := s.pred(x.X)
			return !r, ok
		}
	case *ast.BinaryExpr:
		if x.Op == token.LAND || x.Op == token.LOR {
			l, ok1 := s.pred(x.X)
			r, ok2 := s.pred(x.Y)
			if !ok1 || !ok2 {
				return false, false
			}
			if x.Op == token.LAND {
				return l && r, true
			}
			return l || r, true
		}
	}
	return evalPred(s.info, e, s.isVar, s.val)
}

// about reports whether e depends on the selector, directly or through a recorded boolean local.
func (s *c01Sel) about(e ast.Expr) bool {
	if mentions(e, s.isVar) {
		return true
	}
	found := false
	ast.Inspect(e, func(n ast.Node) bool {
		if id, ok := n.(*ast.Ident); ok {
			if o := s.info.Uses[id]; o != nil {
				if _, has := s.boolDefs[o]; has {
					found = true
				}
			}
		}
		return true
	})
	return found
}

// recordBool notes `v := <predicate over the selector>` (single boolean definition).
func (s *c01Sel) recordBool(st ast.Stmt) {
	as, ok := st.(*ast.AssignStmt)
	if !ok || as.Tok != token.DEFINE || len(as.Lhs) != 1 || len(as.Rhs) != 1 {
		return
	}
	id, ok := as.Lhs[0].(*ast.Ident)
	if !ok {
		return
	}
	o := s.info.Defs[id]
	if o == nil {
		return
	}
	if b, ok := o.Type().Underlying().(*types.Basic); !ok || b.Kind() != types.Bool {
		return
	}
	if !mentions(as.Rhs[0], s.isVar) {
		return
	}
	if _, ok := evalPred(s.info, as.Rhs[0], s.isVar, s.val); !ok {
		return
	}
	if s.boolDefs == nil {
		s.boolDefs = map[types.Object]ast.Expr{}
	}
	s.boolDefs[o] = as.Rhs[0]
}

// intoHelpers walks the bodies of the helpers called inside n with the selector as an argument.
func (s *c01Sel) intoHelpers(n ast.Node, sel, exp bool) {
	if s.helper == nil || s.depth >= 2 || n == nil {
		return
	}
	ast.Inspect(n, func(m ast.Node) bool {
		if _, ok := m.(*ast.FuncLit); ok {
			return false
		}
		c, ok := m.(*ast.CallExpr)
		if !ok {
			return true
		}
		passes := false
		for _, a := range c.Args {
			if s.isVar(a) {
				passes = true
			}
		}
		if !passes {
			return true
		}
		decl, info := s.helper(c)
		if decl == nil || decl.Body == nil {
			return true
		}
		sub := &c01Sel{info: info, selType: s.selType, val: s.val, leaf: s.leaf, helper: s.helper, depth: s.depth + 1}
		sub.stmts(decl.Body.List, sel, exp)
		s.unknown = append(s.unknown, sub.unknown...)
		return true
	})
}

const (
	c01Falls  = 0 // control continues with the next statement
	c01Breaks = 1 // break / continue / goto: leaves the innermost breakable statement
	c01Leaves = 2 // return / panic: leaves the function
)

func (s *c01Sel) isVar(e ast.Expr) bool {
	e = ast.Unparen(e)
	tv, ok := s.info.Types[e]
	return ok && tv.Value == nil && !tv.IsType() && types.Identical(tv.Type, s.selType)
}

func (s *c01Sel) stmts(list []ast.Stmt, sel, exp bool) int {
	for _, st := range list {
		if r := s.stmt(st, sel, exp); r != c01Falls {
			return r
		}
	}
	return c01Falls
}

func (s *c01Sel) emit(n ast.Node, sel, exp bool) {
	if n != nil && s.leaf != nil {
		s.leaf(n, sel, exp)
	}
	s.intoHelpers(n, sel, exp)
}

func (s *c01Sel) stmt(st ast.Stmt, sel, exp bool) int {
	switch x := st.(type) {
	case nil:
		return c01Falls
	case *ast.BlockStmt:
		return s.stmts(x.List, sel, exp)
	case *ast.LabeledStmt:
		return s.stmt(x.Stmt, sel, exp)
	case *ast.IfStmt:
		if x.Init != nil {
			s.recordBool(x.Init)
			s.stmt(x.Init, sel, exp)
		}
		if s.about(x.Cond) {
			if r, ok := s.pred(x.Cond); ok {
				if r {
					return s.stmts(x.Body.List, true, true)
				}
				if x.Else != nil {
					return s.stmt(x.Else, true, exp)
				}
				return c01Falls
			}
			s.unknown = append(s.unknown, "condition mixes the selector with other terms: "+exprStr(x.Cond))
		}
		s.emit(x.Cond, sel, exp)
		t1 := s.stmts(x.Body.List, sel, exp)
		t2 := c01Falls
		if x.Else != nil {
			t2 = s.stmt(x.Else, sel, exp)
		}
		if t1 == c01Leaves && t2 == c01Leaves {
			return c01Leaves
		}
		if t1 != c01Falls && t2 != c01Falls {
			return c01Breaks
		}
		return c01Falls
	case *ast.SwitchStmt:
		if x.Init != nil {
			s.stmt(x.Init, sel, exp)
		}
		return s.switchStmt(x, sel, exp)
	case *ast.TypeSwitchStmt:
		if x.Init != nil {
			s.stmt(x.Init, sel, exp)
		}
		s.emit(x.Assign, sel, exp)
		for _, c := range x.Body.List {
			s.stmts(c.(*ast.CaseClause).Body, sel, exp)
		}
		return c01Falls
	case *ast.SelectStmt:
		for _, c := range x.Body.List {
			cc := c.(*ast.CommClause)
			s.stmt(cc.Comm, sel, exp)
			s.stmts(cc.Body, sel, exp)
		}
		return c01Falls
	case *ast.ForStmt:
		s.stmt(x.Init, sel, exp)
		if x.Cond != nil {
			s.emit(x.Cond, sel, exp)
		}
		s.stmts(x.Body.List, sel, exp)
		s.stmt(x.Post, sel, exp)
		return c01Falls
	case *ast.RangeStmt:
		s.emit(x.X, sel, exp)
		s.stmts(x.Body.List, sel, exp)
		return c01Falls
	case *ast.ReturnStmt:
		s.emit(x, sel, exp)
		return c01Leaves
	case *ast.BranchStmt:
		return c01Breaks
	case *ast.ExprStmt:
		s.emit(x, sel, exp)
		if c, ok := x.X.(*ast.CallExpr); ok && isBuiltinCall(s.info, c, "panic") {
			return c01Leaves
		}
		return c01Falls
	default:
		s.recordBool(st)
		s.emit(st, sel, exp)
		return c01Falls
	}
}

func (s *c01Sel) switchStmt(x *ast.SwitchStmt, sel, exp bool) int {
	clauses := x.Body.List
	decided := false
	chosen := -1
	chosenExp := exp
	var dflt = -1
	switch {
	case x.Tag != nil && s.isVar(x.Tag):
		decided = true
		for i, c := range clauses {
			cc := c.(*ast.CaseClause)
			if cc.List == nil {
				dflt = i
				continue
			}
			for _, e := range cc.List {
				v, ok := intValue(s.info, e)
				if !ok {
					s.unknown = append(s.unknown, "non-constant case label "+exprStr(e))
					continue
				}
				if v == s.val && chosen < 0 {
					chosen, chosenExp = i, true
				}
			}
		}
	case x.Tag == nil && c01AnyCaseMentions(x, s.isVar):
		decided = true
		for i, c := range clauses {
			cc := c.(*ast.CaseClause)
			if cc.List == nil {
				dflt = i
				continue
			}
			if chosen >= 0 {
				continue
			}
			for _, e := range cc.List {
				r, ok := evalPred(s.info, e, s.isVar, s.val)
				if !ok {
					s.unknown = append(s.unknown, "case predicate mixes the selector with other terms: "+exprStr(e))
					continue
				}
				if r {
					chosen, chosenExp = i, true
					break
				}
			}
		}
	}
	if decided {
		if chosen < 0 {
			chosen, chosenExp = dflt, exp
		}
		for chosen >= 0 && chosen < len(clauses) {
			body := clauses[chosen].(*ast.CaseClause).Body
			ft := false
			if n := len(body); n > 0 {
				if b, ok := body[n-1].(*ast.BranchStmt); ok && b.Tok == token.FALLTHROUGH {
					ft = true
					body = body[:n-1]
				}
			}
			r := s.stmts(body, true, chosenExp)
			if r == c01Leaves {
				return c01Leaves
			}
			if r == c01Breaks || !ft {
				return c01Falls
			}
			chosen++
		}
		return c01Falls
	}
	// not about the selector: every clause may run
	if x.Tag != nil {
		s.emit(x.Tag, sel, exp)
	}
	all := len(clauses) > 0
	hasDefault := false
	for _, c := range clauses {
		cc := c.(*ast.CaseClause)
		if cc.List == nil {
			hasDefault = true
		}
		for _, e := range cc.List {
			s.emit(e, sel, exp)
		}
		if s.stmts(cc.Body, sel, exp) != c01Leaves {
			all = false
		}
	}
	if all && hasDefault {
		return c01Leaves
	}
	return c01Falls
}

func c01AnyCaseMentions(x *ast.SwitchStmt, isVar func(ast.Expr) bool) bool {
	for _, c := range x.Body.List {
		for _, e := range c.(*ast.CaseClause).List {
			if mentions(e, isVar) {
				return true
			}
		}
	}
	return false
}

// c01EvalFunc evaluates a one-parameter "table function" (a switch on its parameter whose clauses
// return constants or the parameter itself, possibly under build-time constant conditions) at val.
// It returns every value a return statement on the path can yield (both arms of a condition that
// does not depend on the parameter are taken, so the result is independent of the platform).
func c01EvalFunc(fi *FuncInfo, val int64) (map[int64]bool, []string) {
	info := fi.Pkg.TypesInfo
	sig := fi.Obj.Type().(*types.Signature)
	if sig.Params().Len() != 1 {
		return nil, []string{"not a one-parameter function"}
	}
	out := map[int64]bool{}
	var unk []string
	s := &c01Sel{info: info, selType: sig.Params().At(0).Type(), val: val}
	s.leaf = func(n ast.Node, sel, exp bool) {
		r, ok := n.(*ast.ReturnStmt)
		if !ok {
			return
		}
		if len(r.Results) != 1 {
			unk = append(unk, "return without a single result")
			return
		}
		if v, ok := intValue(info, r.Results[0]); ok {
			out[v] = true
		} else if s.isVar(r.Results[0]) {
			out[val] = true
		} else {
			unk = append(unk, "return of a computed value "+exprStr(r.Results[0]))
		}
	}
	s.stmts(fi.Decl.Body.List, false, false)
	return out, append(unk, s.unknown...)
}
