package main

// Engine E6, third part: postconditions of error-returning functions on their nil return
// ("returns nil ⇒ F"), computed from the callee's own return sites and used at the caller on the
// err == nil edge.

import (
	"fmt"
	"go/ast"
	"go/types"
	"sort"
	"strings"
)

var errorIface = types.Universe.Lookup("error").Type().Underlying().(*types.Interface)

// infeasible reports whether the facts contradict each other (some L + c ≤ 0 and -L + d ≤ 0 with c + d > 0).
func (s *bstate) infeasible() bool {
	for _, f := range s.le {
		neg := newLin().add(lin{t: f.t}, -1)
		if g, ok := s.le[neg.key()]; ok && f.c+g.c > 0 {
			return true
		}
	}
	return false
}

type nilSummary struct {
	facts []lin // over receiver-rooted terms of the callee
	sites int
}

// nilReturnFacts computes, for an in-package function whose last result is an error, the facts over
// receiver fields that hold at every feasible `return …, nil` site when the constant arguments are as
// given. A function with a return of a non-nil-constant error expression that cannot be classified
// (e.g. `return err` of a variable) contributes nothing to the nil case only if that variable is known
// non-nil on that path; otherwise the summary is empty (sound: nothing is assumed).
func (ba *boundsAnalysis) nilReturnFacts(fi *FuncInfo, constArgs map[int]int64) *nilSummary {
	var ks []string
	for i, v := range constArgs {
		ks = append(ks, fmt.Sprintf("%d=%d", i, v))
	}
	sort.Strings(ks)
	key := fi.Name() + "|" + strings.Join(ks, ",")
	if ba.nilCache == nil {
		ba.nilCache = map[string]*nilSummary{}
	}
	if s, ok := ba.nilCache[key]; ok {
		return s
	}
	ba.nilCache[key] = &nilSummary{} // recursion guard: assume nothing
	sig := fi.Obj.Type().(*types.Signature)
	var pre []lin
	for i, v := range constArgs {
		if i < sig.Params().Len() && isIntType(sig.Params().At(i).Type()) {
			l := newLin()
			l.t["v:"+objKey(sig.Params().At(i))] = 1
			l.c = -v
			pre = append(pre, l, newLin().add(l, -1))
		}
	}
	bf := &boundsFunc{ba: ba, fi: fi, info: fi.Pkg.TypesInfo, cfg: ba.p.CFGOf(fi), pre: pre}
	bf.run()
	recvKey := ""
	if r := sig.Recv(); r != nil {
		recvKey = objKey(r)
	}
	var acc *bstate
	n := 0
	unknown := false
	for _, ret := range bf.cfg.Returns() {
		if len(ret.Results) == 0 {
			unknown = true // named results: not analysed
			continue
		}
		last := ret.Results[len(ret.Results)-1]
		tv := bf.info.Types[last]
		st := bf.stateAt(ret)
		if st == nil || st.infeasible() {
			continue
		}
		if !tv.IsNil() {
			// a non-nil error value: constructor calls are non-nil; a variable is non-nil when the
			// return is guarded by `v != nil`
			if _, isCall := ast.Unparen(last).(*ast.CallExpr); isCall {
				continue
			}
			if id, ok := ast.Unparen(last).(*ast.Ident); ok {
				if bf.cfg.GuardedBy(ret, func(l Lit) bool {
					be, ok := ast.Unparen(l.Expr).(*ast.BinaryExpr)
					if !ok || l.Tag != nil {
						return false
					}
					x, isID := ast.Unparen(be.X).(*ast.Ident)
					ytv := bf.info.Types[be.Y]
					return isID && bf.info.Uses[x] == bf.info.Uses[id] && ytv.IsNil() &&
						((be.Op.String() == "!=" && l.Truth) || (be.Op.String() == "==" && !l.Truth))
				}) {
					continue
				}
			}
			unknown = true
			continue
		}
		n++
		// keep receiver-rooted facts only
		keep := newState()
		for _, f := range st.le {
			ok := recvKey != ""
			for t := range f.t {
				_, root, rest := termRoot(t)
				if root != recvKey || rest == "" {
					ok = false
				}
			}
			if ok {
				keep.le[f.key()] = f
			}
		}
		if acc == nil {
			acc = keep
		} else {
			acc = meet(acc, keep)
		}
	}
	sum := &nilSummary{sites: n}
	if acc != nil && !unknown {
		for _, f := range acc.le {
			sum.facts = append(sum.facts, f)
		}
		sort.Slice(sum.facts, func(i, j int) bool { return sum.facts[i].String() < sum.facts[j].String() })
	}
	ba.nilCache[key] = sum
	return sum
}

// errResultFacts: `err := recv.f(args)` for a summarised f records what err == nil implies.
func (bf *boundsFunc) errResultFacts(s *bstate, lhs ast.Expr, r ast.Expr) {
	c, ok := ast.Unparen(r).(*ast.CallExpr)
	if !ok {
		return
	}
	fn := callee(bf.info, c)
	if fn == nil {
		return
	}
	fi := bf.ba.funcs[fn]
	if fi == nil || fi.Obj == bf.fi.Obj {
		return
	}
	sig := fn.Type().(*types.Signature)
	if sig.Results().Len() == 0 || !types.Implements(sig.Results().At(sig.Results().Len()-1).Type(), errorIface) {
		return
	}
	if _, isIface := sig.Results().At(sig.Results().Len() - 1).Type().Underlying().(*types.Interface); !isIface {
		return
	}
	pk, ok := bf.pathKey(lhs)
	if !ok {
		return
	}
	constArgs := map[int]int64{}
	for i, a := range c.Args {
		if v, ok := intValue(bf.info, a); ok {
			constArgs[i] = v
		}
	}
	sum := bf.ba.nilReturnFacts(fi, constArgs)
	if len(sum.facts) == 0 {
		return
	}
	cf := &boundsFunc{ba: bf.ba, fi: fi, info: fi.Pkg.TypesInfo}
	b := &boolFacts{}
	for _, f := range sum.facts {
		if inst, ok := bf.instantiate(cf, f, c); ok {
			b.t = append(b.t, inst)
		}
	}
	if len(b.t) > 0 {
		s.bv["nil:"+pk] = b
	}
}

// isByteSeq reports whether t is a string or a slice of bytes: the buffers the engine's obligations are about.
func isByteSeq(t types.Type) bool {
	if t == nil {
		return false
	}
	switch u := t.Underlying().(type) {
	case *types.Basic:
		return u.Info()&types.IsString != 0
	case *types.Slice:
		b, ok := u.Elem().Underlying().(*types.Basic)
		return ok && (b.Kind() == types.Uint8)
	}
	return false
}

// nonNilSliceFacts: x != nil for a local slice variable whose every assignment in the function is
// make([]T, K) with one constant K (or nil), whose address is never taken and which is never re-sliced
// or appended to, implies len(x) == K.
func (bf *boundsFunc) nonNilSliceFacts(s *bstate, e ast.Expr) {
	id, ok := ast.Unparen(e).(*ast.Ident)
	if !ok {
		return
	}
	v, ok := bf.info.Uses[id].(*types.Var)
	if !ok || v.IsField() || v.Pkg() == nil || v.Parent() == v.Pkg().Scope() {
		return
	}
	if _, isSlice := v.Type().Underlying().(*types.Slice); !isSlice {
		return
	}
	var k int64 = -1
	bad := false
	ast.Inspect(bf.fi.Decl.Body, func(n ast.Node) bool {
		switch st := n.(type) {
		case *ast.AssignStmt:
			for i, l := range st.Lhs {
				lid, ok := ast.Unparen(l).(*ast.Ident)
				if !ok || (bf.info.Uses[lid] != v && bf.info.Defs[lid] != v) {
					continue
				}
				if len(st.Rhs) != len(st.Lhs) {
					bad = true
					continue
				}
				r := ast.Unparen(st.Rhs[i])
				if tv := bf.info.Types[r]; tv.IsNil() {
					continue
				}
				c, ok := r.(*ast.CallExpr)
				if !ok || !isBuiltinCall(bf.info, c, "make") || len(c.Args) < 2 {
					bad = true
					continue
				}
				n, ok := intValue(bf.info, c.Args[1])
				if !ok || (k >= 0 && k != n) {
					bad = true
					continue
				}
				k = n
			}
		case *ast.ValueSpec:
			for i, nm := range st.Names {
				if bf.info.Defs[nm] == v && i < len(st.Values) {
					if tv := bf.info.Types[st.Values[i]]; !tv.IsNil() {
						bad = true
					}
				}
			}
		case *ast.UnaryExpr:
			if uid, ok := ast.Unparen(st.X).(*ast.Ident); ok && st.Op.String() == "&" && bf.info.Uses[uid] == v {
				bad = true
			}
		case *ast.RangeStmt:
			for _, kv := range []ast.Expr{st.Key, st.Value} {
				if kid, ok := kv.(*ast.Ident); ok && (bf.info.Uses[kid] == v || bf.info.Defs[kid] == v) {
					bad = true
				}
			}
		}
		return true
	})
	if bad || k < 0 {
		return
	}
	if ln, ok := bf.lenOf(id); ok {
		l := ln.clone()
		l.c -= k
		s.addEQ(l)
	}
}

// trueReturnFacts computes, for an in-package function with a single boolean result and parameters that
// are never assigned, the facts over its parameters that hold at every feasible site returning true
// (a `return true`, or `return <expr>` together with <expr> being true).
func (ba *boundsAnalysis) trueReturnFacts(fi *FuncInfo) []lin {
	if ba.trueCache == nil {
		ba.trueCache = map[*types.Func][]lin{}
	}
	if f, ok := ba.trueCache[fi.Obj]; ok {
		return f
	}
	ba.trueCache[fi.Obj] = nil
	sig := fi.Obj.Type().(*types.Signature)
	if sig.Results().Len() != 1 {
		return nil
	}
	if b, ok := sig.Results().At(0).Type().Underlying().(*types.Basic); !ok || b.Info()&types.IsBoolean == 0 {
		return nil
	}
	info := fi.Pkg.TypesInfo
	params := map[types.Object]bool{}
	for i := 0; i < sig.Params().Len(); i++ {
		params[sig.Params().At(i)] = true
	}
	assigned := false
	ast.Inspect(fi.Decl.Body, func(n ast.Node) bool {
		switch st := n.(type) {
		case *ast.AssignStmt:
			for _, l := range st.Lhs {
				if id, ok := ast.Unparen(l).(*ast.Ident); ok && params[info.Uses[id]] {
					assigned = true
				}
			}
		case *ast.IncDecStmt:
			if id, ok := ast.Unparen(st.X).(*ast.Ident); ok && params[info.Uses[id]] {
				assigned = true
			}
		case *ast.UnaryExpr:
			if id, ok := ast.Unparen(st.X).(*ast.Ident); ok && st.Op.String() == "&" && params[info.Uses[id]] {
				assigned = true
			}
		}
		return true
	})
	if assigned {
		return nil
	}
	bf := &boundsFunc{ba: ba, fi: fi, info: info, cfg: ba.p.CFGOf(fi)}
	bf.run()
	var acc *bstate
	for _, ret := range bf.cfg.Returns() {
		if len(ret.Results) != 1 {
			return nil
		}
		st := bf.stateAt(ret)
		if st == nil || st.infeasible() {
			continue
		}
		if tv := info.Types[ret.Results[0]]; tv.Value != nil {
			if tv.Value.String() == "false" {
				continue
			}
		} else {
			for _, m := range litsOf(ret.Results[0], nil, true) {
				bf.factsOfLit(st, m)
			}
		}
		keep := newState()
		for _, f := range st.le {
			if bf.rootsUnmodified(f) {
				keep.le[f.key()] = f
			}
		}
		if acc == nil {
			acc = keep
		} else {
			acc = meet(acc, keep)
		}
	}
	var out []lin
	if acc != nil {
		for _, f := range acc.le {
			out = append(out, f)
		}
		sort.Slice(out, func(i, j int) bool { return out[i].String() < out[j].String() })
	}
	ba.trueCache[fi.Obj] = out
	return out
}
