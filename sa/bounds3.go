package main

// Engine E6, third part: postconditions of error-returning functions on their nil return
// ("returns nil ⇒ F"), computed from the callee's own return sites and used at the caller on the
// err == nil edge.

import (
	"fmt"
	"go/ast"
	"go/types"
	"sort"
	"strings"
)

var errorIface = types.Universe.Lookup("error").Type().Underlying().(*types.Interface)

// infeasible reports whether the facts contradict each other (some L + c ≤ 0 and -L + d ≤ 0 with c + d > 0).
func (s *bstate) infeasible() bool {
	for _, f := range s.le {
		neg := newLin().add(lin{t: f.t}, -1)
		if g, ok := s.le[neg.key()]; ok && f.c+g.c > 0 {
			return true
		}
	}
	return false
}

type nilSummary struct {
	facts []lin // over receiver-rooted terms of the callee
	sites int
}

// nilReturnFacts computes, for an in-package function whose last result is an error, the facts over
// receiver fields that hold at every feasible `return …, nil` site when the constant arguments are as
// given. A function with a return of a non-nil-constant error expression that cannot be classified
// (e.g. `return err` of a variable) contributes nothing to the nil case only if that variable is known
// non-nil on that path; otherwise the summary is empty (sound: nothing is assumed).
func (ba *boundsAnalysis) nilReturnFacts(fi *FuncInfo, constArgs map[int]int64) *nilSummary {
	var ks []string
	for i, v := range constArgs {
		ks = append(ks, fmt.Sprintf("%d=%d", i, v))
	}
	sort.Strings(ks)
	key := fi.Name() + "|" + strings.Join(ks, ",")
	if ba.nilCache == nil {
		ba.nilCache = map[string]*nilSummary{}
	}
	if s, ok := ba.nilCache[key]; ok {
		return s
	}
	ba.nilCache[key] = &nilSummary{} // recursion guard: assume nothing
	sig := fi.Obj.Type().(*types.Signature)
	var pre []lin
	for i, v := range constArgs {
		if i < sig.Params().Len() && isIntType(sig.Params().At(i).Type()) {
			l := newLin()
			l.t["v:"+objKey(sig.Params().At(i))] = 1
			l.c = -v
			pre = append(pre, l, newLin().add(l, -1))
		}
	}
	bf := &boundsFunc{ba: ba, fi: fi, info: fi.Pkg.TypesInfo, cfg: ba.p.CFGOf(fi), pre: pre}
	bf.run()
	recvKey := ""
	if r := sig.Recv(); r != nil {
		recvKey = objKey(r)
	}
	var acc *bstate
	n := 0
	unknown := false
	for _, ret := range bf.cfg.Returns() {
		if len(ret.Results) == 0 {
			unknown = true // named results: not analysed
			continue
		}
		last := ret.Results[len(ret.Results)-1]
		tv := bf.info.Types[last]
		st := bf.stateAt(ret)
		if st == nil || st.infeasible() {
			continue
		}
		if !tv.IsNil() {
			// a non-nil error value: constructor calls are non-nil; a variable is non-nil when the
			// return is guarded by `v != nil`
			if _, isCall := ast.Unparen(last).(*ast.CallExpr); isCall {
				continue
			}
			if id, ok := ast.Unparen(last).(*ast.Ident); ok {
				if bf.cfg.GuardedBy(ret, func(l Lit) bool {
					be, ok := ast.Unparen(l.Expr).(*ast.BinaryExpr)
					if !ok || l.Tag != nil {
						return false
					}
					x, isID := ast.Unparen(be.X).(*ast.Ident)
					ytv := bf.info.Types[be.Y]
					return isID && bf.info.Uses[x] == bf.info.Uses[id] && ytv.IsNil() &&
						((be.Op.String() == "!=" && l.Truth) || (be.Op.String() == "==" && !l.Truth))
				}) {
					continue
				}
			}
			unknown = true
			continue
		}
		n++
		// keep receiver-rooted facts only
		keep := newState()
		for _, f := range st.le {
			ok := recvKey != ""
			for t := range f.t {
				_, root, rest := termRoot(t)
				if root != recvKey || rest == "" {
					ok = false
				}
			}
			if ok {
				keep.le[f.key()] = f
			}
		}
		if acc == nil {
			acc = keep
		} else {
			acc = meet(acc, keep)
		}
	}
	sum := &nilSummary{sites: n}
	if acc != nil && !unknown {
		for _, f := range acc.le {
			sum.facts = append(sum.facts, f)
		}
		sort.Slice(sum.facts, func(i, j int) bool { return sum.facts[i].String() < sum.facts[j].String() })
	}
	ba.nilCache[key] = sum
	return sum
}

// errResultFacts: `err := recv.f(args)` for a summarised f records what err == nil implies.
func (bf *boundsFunc) errResultFacts(s *bstate, lhs ast.Expr, r ast.Expr) {
	c, ok := ast.Unparen(r).(*ast.CallExpr)
	if !ok {
		return
	}
	fn := callee(bf.info, c)
	if fn == nil {
		return
	}
	fi := bf.ba.funcs[fn]
	if fi == nil || fi.Obj == bf.fi.Obj {
		return
	}
	sig := fn.Type().(*types.Signature)
	if sig.Results().Len() == 0 || !types.Implements(sig.Results().At(sig.Results().Len()-1).Type(), errorIface) {
		return
	}
	if _, isIface := sig.Results().At(sig.Results().Len()-1).Type().Underlying().(*types.Interface); !isIface {
		return
	}
	pk, ok := bf.pathKey(lhs)
	if !ok {
		return
	}
	constArgs := map[int]int64{}
	for i, a := range c.Args {
		if v, ok := intValue(bf.info, a); ok {
			constArgs[i] = v
		}
	}
	sum := bf.ba.nilReturnFacts(fi, constArgs)
	if len(sum.facts) == 0 {
		return
	}
	cf := &boundsFunc{ba: bf.ba, fi: fi, info: fi.Pkg.TypesInfo}
	b := &boolFacts{}
	for _, f := range sum.facts {
		if inst, ok := bf.instantiate(cf, f, c); ok {
			b.t = append(b.t, inst)
		}
	}
	if len(b.t) > 0 {
		s.bv["nil:"+pk] = b
	}
}
