package main

// C06 R-5 (added after seeded change C06-3): context fidelity of the Show instruction.
//
// The escaper is selected at run time by the context stored in the Show instruction; the lexer decided
// that context and stored it in the show statement. At every call of the function that emits the Show
// instruction the context argument must BE the Context of the *ast.Show being emitted: a selector
// `<show>.Context`, or a local whose every definition is such a selector (no conditional replacement by
// a "cheaper" context for some types — a defined numeric type with a String method shown as Text in HTML
// is written raw).

import (
	"go/ast"
	"go/types"
	"strings"
)

func init() {
	p := registry["C06"]
	if p == nil {
		return
	}
	run := p.run
	p.run = func(r *Run) { run(r); c06ContextFidelity(r); c06EscaperClasses(r) }
	p.explain += " R-5: the context operand of every emitted Show instruction is the Context of the show statement itself (never replaced on some condition). R-6: the pass-through classes of the escapers (C07 R-3, computed over all 256 byte values) exclude the delimiters of their contexts — an escaper that copies a quote or an angle bracket lets a value leave its slot."
}

// c06EscaperClasses imports the class obligations of C07 R-3 (added after seeded change C06-2, which made
// pathEscape copy the single quote).
func c06EscaperClasses(r *Run) {
	c07 := registry["C07"]
	if !r.Anchor("R-6", "the C07 rule set (escaper pass-through classes)", c07 != nil) {
		return
	}
	sub := NewRun("C07", r.Tier, r.P)
	safeRun(sub, c07.run)
	n := 0
	for _, o := range sub.Obls {
		if o.Rule == "R-3" || (o.Rule != "R-1" && o.Rule != "R-2" && o.Verdict != Discharged) {
			o.Rule = "R-6"
			r.Obls = append(r.Obls, o)
			n++
		}
	}
	r.Require("R-6", 20)
}

func c06ContextFidelity(r *Run) {
	const R = "R-5"
	ctxT := r.P.Named("ast", "Context")
	if !r.Anchor(R, "ast.Context", ctxT != nil) {
		return
	}
	// emitters by role: functions of package compiler building an Instruction with Op: runtime.OpShow
	var emitters []*FuncInfo
	for _, fi := range r.P.Funcs("internal/compiler") {
		if r.P.isTestFile(fi.File) {
			continue
		}
		info := fi.Pkg.TypesInfo
		has := false
		ast.Inspect(fi.Decl.Body, func(n ast.Node) bool {
			if kv, ok := n.(*ast.KeyValueExpr); ok {
				if k, ok := kv.Key.(*ast.Ident); ok && k.Name == "Op" {
					if c := constOf(info, kv.Value); c != nil && c.Name() == "OpShow" {
						has = true
					}
				}
			}
			return true
		})
		if has {
			emitters = append(emitters, fi)
		}
	}
	if !r.Anchor(R, "the function emitting the Show instruction (functionBuilder.emitShow)", len(emitters) >= 1) {
		return
	}
	n := 0
	for _, em := range emitters {
		sig := em.Obj.Type().(*types.Signature)
		ctxIdx := -1
		for i := 0; i < sig.Params().Len(); i++ {
			if types.Identical(sig.Params().At(i).Type(), ctxT) {
				ctxIdx = i
			}
		}
		if ctxIdx < 0 {
			continue
		}
		for _, fi := range r.P.Funcs("internal/compiler") {
			if r.P.isTestFile(fi.File) {
				continue
			}
			info := fi.Pkg.TypesInfo
			isShowCtx := func(e ast.Expr) bool {
				sel, ok := ast.Unparen(e).(*ast.SelectorExpr)
				if !ok || sel.Sel.Name != "Context" {
					return false
				}
				t := info.TypeOf(sel.X)
				return t != nil && strings.HasSuffix(typeStr(t), "ast.Show")
			}
			for _, c := range calls(fi.Decl.Body, true) {
				if callee(info, c) != em.Obj || ctxIdx >= len(c.Args) {
					continue
				}
				n++
				o := r.Ob(R, fi.Name()+"#"+em.Decl.Name.Name+":context", c.Pos())
				arg := ast.Unparen(c.Args[ctxIdx])
				if isShowCtx(arg) {
					o.OK("the context argument is %s", exprStr(arg))
					continue
				}
				id, ok := arg.(*ast.Ident)
				if !ok {
					o.Bad("the context given to the Show instruction is the expression %s, not the Context of the show statement", exprStr(arg))
					continue
				}
				obj := info.Uses[id]
				var defs []ast.Expr
				clean := true
				ast.Inspect(fi.Decl.Body, func(m ast.Node) bool {
					switch s := m.(type) {
					case *ast.AssignStmt:
						for i, l := range s.Lhs {
							if objOfIdent(info, l) == obj {
								if len(s.Rhs) == len(s.Lhs) {
									defs = append(defs, s.Rhs[i])
								} else {
									clean = false
								}
							}
						}
					case *ast.ValueSpec:
						for i, nm := range s.Names {
							if info.Defs[nm] == obj {
								if i < len(s.Values) {
									defs = append(defs, s.Values[i])
								} else {
									clean = false
								}
							}
						}
					case *ast.UnaryExpr:
						if s.Op.String() == "&" && objOfIdent(info, s.X) == obj {
							clean = false
						}
					}
					return true
				})
				okAll := clean && len(defs) > 0
				for _, d := range defs {
					if !isShowCtx(d) {
						okAll = false
					}
				}
				if okAll {
					o.OK("%s is defined only as %s", id.Name, exprStr(defs[0]))
				} else {
					var ds []string
					for _, d := range defs {
						ds = append(ds, exprStr(d))
					}
					o.Bad("the context variable %s given to the Show instruction has definitions other than the Context of the show statement (%s): for some values the escaper of another context is selected", id.Name, strings.Join(ds, "; "))
				}
			}
		}
	}
	if n == 0 {
		r.Ob(R, "compiler#emitShow-call", 0).Unknown("no call of the Show emitter found")
	}
	r.Require(R, 1)
}
