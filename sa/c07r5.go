package main

// C07 R-5 (added after seeded change C07-4): an entity decoder is applied only to what the HTML show
// function produced.
//
// To show a value inside a URL the renderer first converts it with the show function of the HTML context
// (which renders any value and HTML-escapes untrusted text: "R&amp;D" becomes "R&amp;amp;D"), decodes the
// character references of that HTML with html.UnescapeString and percent-encodes the result. The decode
// step is the inverse of the escape step; applied to text that did NOT go through the HTML show function —
// a plain string taken from the value by a "fast path", the result of toString, a parameter — it replaces
// everything in the value that looks like a character reference (&amp; &lt; &#43; &copy …): the value
// "R&amp;D" is rendered as R%26D and decodes to "R&D".
//
// Rule: in package runtime every operand of html.UnescapeString is, for each of its definitions, the
// String() of a local buffer that is only handed to show functions dispatched for ast.ContextHTML (and
// read), possibly through a helper of the package whose results are such.

import (
	"go/ast"
	"go/token"
	"go/types"
	"strings"
)

func init() {
	p := registry["C07"]
	if p == nil {
		return
	}
	run := p.run
	p.run = func(r *Run) { run(r); c07DecodeOperands(r) }
	p.explain += " R-5: every operand of html.UnescapeString in package runtime is, on each of its definitions, the text of a local buffer filled only by the show function of the HTML context (decoding anything else alters values that contain character references)."
}

type c07Dec struct {
	r    *Run
	html map[*types.Func]bool
}

func c07IsBuffer(t types.Type) bool {
	if t == nil {
		return false
	}
	if p, ok := t.Underlying().(*types.Pointer); ok {
		t = p.Elem()
	}
	s := typeStr(t)
	return s == "strings.Builder" || s == "bytes.Buffer"
}

// bufferOK checks every use of the buffer variable in fi.
func (x *c07Dec) bufferOK(fi *FuncInfo, buf types.Object) string {
	info := fi.Pkg.TypesInfo
	par := x.r.P.Parents(fi.File)
	why := ""
	filled := false
	ast.Inspect(fi.Decl.Body, func(n ast.Node) bool {
		id, ok := n.(*ast.Ident)
		if !ok || info.Uses[id] != buf {
			return true
		}
		p := par[id]
		// &b or b as a call argument
		var argOf *ast.CallExpr
		var argExpr ast.Node = id
		if u, ok := p.(*ast.UnaryExpr); ok && u.Op == token.AND {
			argExpr = u
			p = par[u]
		}
		if c, ok := p.(*ast.CallExpr); ok {
			for _, a := range c.Args {
				if a == argExpr {
					argOf = c
				}
			}
		}
		if argOf != nil {
			if g := callee(info, argOf); g != nil && x.html[g] {
				filled = true
				return true
			}
			why = "the buffer is also passed to " + exprStr(argOf.Fun) + ", which is not the show function of the HTML context"
			return true
		}
		// method of the buffer
		if sel, ok := p.(*ast.SelectorExpr); ok && sel.X == ast.Expr(id) {
			switch sel.Sel.Name {
			case "String", "Len", "Reset", "Grow", "Cap":
				return true
			}
			why = "the buffer is also written with " + sel.Sel.Name
			return true
		}
		why = "the buffer is used in a way the rule does not follow (" + x.r.P.Pos(id.Pos()) + ")"
		return true
	})
	if why == "" && !filled {
		why = "the buffer is never handed to the show function of the HTML context"
	}
	return why
}

// derives reports "" when e is HTML produced by the HTML show function, or why not.
func (x *c07Dec) derives(fi *FuncInfo, e ast.Expr, self *ast.CallExpr, depth int, seen map[types.Object]bool) string {
	info := fi.Pkg.TypesInfo
	e = ast.Unparen(e)
	switch v := e.(type) {
	case *ast.CallExpr:
		if v == self {
			return ""
		}
		if sel, ok := ast.Unparen(v.Fun).(*ast.SelectorExpr); ok && sel.Sel.Name == "String" && len(v.Args) == 0 && c07IsBuffer(info.TypeOf(sel.X)) {
			id, ok := ast.Unparen(sel.X).(*ast.Ident)
			if !ok {
				return "the buffer " + exprStr(sel.X) + " is not a local variable"
			}
			obj := info.Uses[id]
			if vv, ok := obj.(*types.Var); !ok || vv.IsField() || vv.Parent() == nil || vv.Parent() == vv.Pkg().Scope() {
				return "the buffer " + id.Name + " is not a local variable"
			}
			return x.bufferOK(fi, obj)
		}
		// a helper of the package returning the text
		if g := callee(info, v); g != nil && g.Pkg() == fi.Pkg.Types && depth < 2 {
			gi := c06FuncInfoOf(x.r.P, g)
			if gi == nil {
				return "the result of " + g.Name() + " cannot be followed"
			}
			n := 0
			why := ""
			ast.Inspect(gi.Decl.Body, func(m ast.Node) bool {
				if _, ok := m.(*ast.FuncLit); ok {
					return false
				}
				if ret, ok := m.(*ast.ReturnStmt); ok && len(ret.Results) >= 1 {
					// error exits return the zero string
					if s, ok := stringValue(gi.Pkg.TypesInfo, ret.Results[0]); ok && s == "" {
						return true
					}
					n++
					if w := x.derives(gi, ret.Results[0], nil, depth+1, map[types.Object]bool{}); w != "" && why == "" {
						why = "through " + g.Name() + ": " + w
					}
				}
				return true
			})
			if n == 0 && why == "" {
				why = "the result of " + g.Name() + " cannot be followed"
			}
			return why
		}
		return "it is the result of " + exprStr(v.Fun) + ", not the text of a buffer filled by the show function of the HTML context"
	case *ast.Ident:
		obj := c06Obj(info, v)
		vv, ok := obj.(*types.Var)
		if !ok || vv.IsField() || vv.Parent() == nil || vv.Parent() == vv.Pkg().Scope() {
			return exprStr(v) + " is not a local variable"
		}
		if seen[obj] {
			return ""
		}
		seen[obj] = true
		sig := fi.Obj.Type().(*types.Signature)
		for i := 0; i < sig.Params().Len(); i++ {
			if sig.Params().At(i) == obj {
				return v.Name + " is a parameter"
			}
		}
		defs := c06Defs(info, fi.Decl.Body, obj)
		if len(defs) == 0 {
			return v.Name + " has no definition"
		}
		for _, d := range defs {
			if d.Rhs == nil {
				if d.Zero {
					continue
				}
				return "a definition of " + v.Name + " cannot be followed (" + x.r.P.Pos(d.Node.Pos()) + ")"
			}
			if w := x.derives(fi, d.Rhs, self, depth, seen); w != "" {
				return "one definition of " + v.Name + " is `" + exprStr(d.Rhs) + "`: " + w
			}
		}
		return ""
	case *ast.TypeAssertExpr:
		return "it is the shown value itself (a type assertion), which has not been HTML-escaped"
	}
	return "it is `" + exprStr(e) + "`, not the text of a buffer filled by the show function of the HTML context"
}

func c07DecodeOperands(r *Run) {
	const R = "R-5"
	const rt = "internal/runtime"
	tbl := c06ShowTable(r, R)
	if tbl == nil {
		return
	}
	x := &c07Dec{r: r, html: map[*types.Func]bool{}}
	for name, ctxs := range tbl.ctxFuncs {
		for _, c := range ctxs {
			if c == "ContextHTML" && tbl.funcs[name] != nil && tbl.funcs[name].Obj != nil {
				x.html[tbl.funcs[name].Obj] = true
			}
		}
	}
	if !r.Anchor(R, "the show function dispatched for ast.ContextHTML", len(x.html) > 0) {
		return
	}
	n := 0
	for _, fi := range r.P.Funcs(rt) {
		if r.P.isTestFile(fi.File) || fi.Obj == nil {
			continue
		}
		info := fi.Pkg.TypesInfo
		for _, c := range calls(fi.Decl.Body, true) {
			g := callee(info, c)
			if g == nil || g.Pkg() == nil || g.Pkg().Path() != "html" || !strings.HasPrefix(g.Name(), "Unescape") || len(c.Args) != 1 {
				continue
			}
			n++
			o := r.Ob(R, fi.Name()+"#"+g.Name()+":operand", c.Pos())
			if why := x.derives(fi, c.Args[0], c, 0, map[types.Object]bool{}); why == "" {
				o.OK("the operand %s is the text of a buffer filled only by the show function of the HTML context", exprStr(c.Args[0]))
			} else {
				o.Bad("html.%s decodes `%s`, but %s. Character references contained in the value itself are then decoded too: a string \"R&amp;D\" shown in a URL is rendered as R%%26D and decodes to \"R&D\"", g.Name(), exprStr(c.Args[0]), why)
			}
		}
	}
	if n == 0 {
		r.Note("R-5: package runtime no longer decodes character references (no call of html.UnescapeString)")
		r.Ob(R, "runtime#no-entity-decoding", token.NoPos).Trivial("no entity decoder is applied in package runtime")
	}
	r.Require(R, 1)
}
