package main

// C25 R-5 (added after seeded change C25-2): reflect on caller-supplied values.
//
// A builtin that receives a value of interface type and inspects it with reflect must test its kind
// before calling a reflect method that is defined only for some kinds (reflect panics otherwise, and the
// builtin is documented to return an error). For every local obtained from reflect.ValueOf(p) or
// reflect.TypeOf(p) with p an interface-typed parameter (and the .Type() of such a value), a call of a
// kind-restricted method must be dominated by a test `X.Kind() == K` (true edge) or `X.Kind() != K`
// (false edge) with K among the kinds the method is defined for, X any local of the same value.

import (
	"go/ast"
	"go/token"
	"go/types"
	"strings"
)

func init() {
	p := registry["C25"]
	if p == nil {
		return
	}
	run := p.run
	p.run = func(r *Run) { run(r); c25ReflectOnArgs(r) }
	p.explain += " R-5: in package builtin, a kind-restricted reflect method called on a value made with reflect.ValueOf/TypeOf from an interface-typed parameter is dominated by a test of its kind."
}

func c25ReflectOnArgs(r *Run) {
	const R = "R-5"
	n := 0
	for _, fi := range r.P.Funcs("builtin") {
		if r.P.isTestFile(fi.File) {
			continue
		}
		info := fi.Pkg.TypesInfo
		sig := fi.Obj.Type().(*types.Signature)
		ifaceParam := map[types.Object]bool{}
		for i := 0; i < sig.Params().Len(); i++ {
			p := sig.Params().At(i)
			if _, ok := p.Type().Underlying().(*types.Interface); ok {
				ifaceParam[p] = true
			}
		}
		if len(ifaceParam) == 0 {
			continue
		}
		// groups: local -> parameter whose dynamic value it reflects
		group := map[types.Object]types.Object{}
		for changed := true; changed; {
			changed = false
			ast.Inspect(fi.Decl.Body, func(m ast.Node) bool {
				as, ok := m.(*ast.AssignStmt)
				if !ok || len(as.Lhs) != 1 || len(as.Rhs) != 1 {
					return true
				}
				lid, ok := as.Lhs[0].(*ast.Ident)
				if !ok {
					return true
				}
				lobj := objOfIdent(info, lid)
				if lobj == nil || group[lobj] != nil {
					return true
				}
				c, ok := ast.Unparen(as.Rhs[0]).(*ast.CallExpr)
				if !ok {
					return true
				}
				if f := callee(info, c); f != nil && f.Pkg() != nil && f.Pkg().Path() == "reflect" {
					if (f.Name() == "ValueOf" || f.Name() == "TypeOf") && len(c.Args) == 1 {
						if id, ok := ast.Unparen(c.Args[0]).(*ast.Ident); ok && ifaceParam[info.Uses[id]] {
							group[lobj] = info.Uses[id]
							changed = true
						}
					}
					if f.Name() == "Type" && len(c.Args) == 0 {
						if sel, ok := c.Fun.(*ast.SelectorExpr); ok {
							if id, ok := ast.Unparen(sel.X).(*ast.Ident); ok && group[info.Uses[id]] != nil {
								group[lobj] = group[info.Uses[id]]
								changed = true
							}
						}
					}
				}
				return true
			})
		}
		if len(group) == 0 {
			continue
		}
		g := r.P.CFGOf(fi)
		for _, c := range calls(fi.Decl.Body, false) {
			sel, ok := c.Fun.(*ast.SelectorExpr)
			if !ok {
				continue
			}
			id, ok := ast.Unparen(sel.X).(*ast.Ident)
			if !ok || group[info.Uses[id]] == nil {
				continue
			}
			param := group[info.Uses[id]]
			f := callee(info, c)
			if f == nil || f.Pkg() == nil || f.Pkg().Path() != "reflect" {
				continue
			}
			recv := ""
			if s := f.Type().(*types.Signature); s.Recv() != nil {
				recv = typeStr(s.Recv().Type())
			}
			var valid []string
			switch recv {
			case "reflect.Type":
				valid = reflectTypeKinds[f.Name()]
			case "reflect.Value":
				valid = reflectValueKinds[f.Name()]
			}
			if valid == nil {
				continue
			}
			n++
			o := r.Ob(R, fi.Name()+"#"+exprStr(sel), c.Pos())
			inValid := func(e ast.Expr) bool {
				k := constOf(info, e)
				if k == nil {
					return false
				}
				for _, v := range valid {
					if v == k.Name() {
						return true
					}
				}
				return false
			}
			isKindOfGroup := func(e ast.Expr) bool {
				kc, ok := ast.Unparen(e).(*ast.CallExpr)
				if !ok || len(kc.Args) != 0 {
					return false
				}
				ks, ok := kc.Fun.(*ast.SelectorExpr)
				if !ok || ks.Sel.Name != "Kind" {
					return false
				}
				kid, ok := ast.Unparen(ks.X).(*ast.Ident)
				return ok && group[info.Uses[kid]] == param
			}
			guarded := g.GuardedBy(c, func(l Lit) bool {
				if l.Tag != nil {
					// switch X.Kind() { case K: }
					return isKindOfGroup(l.Tag) && l.Truth && inValid(l.Expr)
				}
				be, ok := ast.Unparen(l.Expr).(*ast.BinaryExpr)
				if !ok {
					return false
				}
				x, y := be.X, be.Y
				if !isKindOfGroup(x) {
					x, y = y, x
				}
				if !isKindOfGroup(x) || !inValid(y) {
					return false
				}
				return (be.Op == token.EQL && l.Truth) || (be.Op == token.NEQ && !l.Truth)
			})
			if guarded {
				o.OK("dominated by a test that the kind is one of %s", strings.Join(valid, ", "))
			} else {
				o.Bad("%s.%s is defined only for kinds %s, and nothing on every path tests the kind of the value the caller supplied: a value of another kind makes the builtin panic instead of returning its documented error", recv, f.Name(), strings.Join(valid, ", "))
			}
		}
	}
	r.Stats[R+"_sites"] = n
	r.Require(R, 2)
}
