package main

// C22 — native package and importer lookups follow their documented contracts.
//
// R-1 (E5, go/ssa)  the result of invoking the callback reaches the value LookupFunc returns
// R-2 (E4, go/cfg)  after the callback returned non-nil no path leads to another invocation
// R-3 (E4)          a returned error variable has passed the StopLookup filter
// R-4 (E4)          the callback is invoked once per distinct name
// R-5 (E4)          combining Lookup/Import: ascending range over the receiver, return on the first hit
//
// See /verif/DESIGN.md §5 C22.

import (
	"fmt"
	"go/ast"
	"go/types"
	"strings"

	"golang.org/x/tools/go/cfg"
	"golang.org/x/tools/go/packages"
	"golang.org/x/tools/go/ssa"
)

func init() {
	register("C22", &ruleSet{
		explain: "For every method of package native that takes the lookup callback type and returns error (today Package.LookupFunc and CombinedPackage.LookupFunc): (R-1) on go/ssa the value produced by invoking the callback parameter may flow - through phi nodes and through variables captured by a wrapper closure - to the method's returned value; a method that returns a constant whatever the callback returned is reported. (R-2) on go/cfg, once the callback (or a wrapper closure that invokes it) has returned, every path to a further invocation crosses an edge asserting that the variable holding its result is nil, and a wrapper closure returns the callback's result so that the visited package stops too. (R-3) every return of an error variable that may hold the callback's result is cut off from those assignments by the false edge of the comparison with StopLookup or by an assignment of nil. (R-4) the callback is invoked either in a non-nested range over a map with the range key as name, or behind the miss edge of a set lookup on that name whose insert follows on every path. (R-5) each method of a slice-of-interface type that delegates to the same method of its elements (CombinedPackage.Lookup, CombinedImporter.Import) ranges ascending over the receiver, continues only on the edge where every result of the element call is nil, and on the other edge returns exactly those results.",
		notCov: []string{
			"the order in which a map range visits names (documented as undefined)",
			"errors returned by an element's own LookupFunc other than the callback's (CombinedPackage discards them; outside the property's statement)",
			"Packages.Import and Package.Lookup: single map lookups, no rule",
			"that an embedder's own ImportablePackage implementation honours the contract",
		},
		trusted: []string{"Go semantics of range over a map (each key once) and over a slice (ascending)", "closures capture variables by reference (go/ssa models them as cells)"},
		run:     runC22,
	})
}

type c22 struct {
	r    *Run
	pk   *packages.Package
	info *types.Info
	cb   *types.Named // the callback type (native.LookupFunc)
	stop types.Object // native.StopLookup
}

func runC22(r *Run) {
	x := &c22{r: r, pk: r.P.Pkg("native")}
	if !r.Anchor("R-1", "package native", x.pk != nil) {
		return
	}
	x.info = x.pk.TypesInfo
	r.Require("R-1", 2)
	r.Require("R-2", 3)
	r.Require("R-3", 2)
	r.Require("R-4", 2)
	r.Require("R-5", 2)

	// callback type: the named func type of package native with an error result that an interface
	// method of the package takes as its only parameter.
	x.cb = x.findCallbackType()
	if !r.Anchor("R-1", "native: named func type taken by an interface method and returning error (LookupFunc)", x.cb != nil) {
		return
	}
	// stop sentinel: the package-level error variable of package native.
	var errVars []types.Object
	sc := x.pk.Types.Scope()
	for _, n := range sc.Names() {
		if v, ok := sc.Lookup(n).(*types.Var); ok && types.Identical(v.Type(), types.Universe.Lookup("error").Type()) {
			errVars = append(errVars, v)
		}
	}
	if len(errVars) == 1 {
		x.stop = errVars[0]
	} else {
		x.stop = sc.Lookup("StopLookup")
	}
	r.Anchor("R-3", "native: package-level error variable used as stop sentinel (StopLookup)", x.stop != nil)

	nLookupFunc := 0
	for _, fi := range r.P.Funcs("native") {
		if fi.Obj == nil || fi.Decl.Recv == nil || r.P.isTestFile(fi.File) {
			continue
		}
		sig := fi.Obj.Type().(*types.Signature)
		if cbObj := x.callbackParam(fi, sig); cbObj != nil {
			nLookupFunc++
			x.checkLookupFunc(fi, sig, cbObj)
			continue
		}
		if x.isCombinator(fi, sig) {
			x.checkFirstWins(fi, sig)
		}
	}
	r.Stats["lookupfunc_methods"] = nLookupFunc
}

func (x *c22) findCallbackType() *types.Named {
	sc := x.pk.Types.Scope()
	errT := types.Universe.Lookup("error").Type()
	for _, n := range sc.Names() {
		tn, ok := sc.Lookup(n).(*types.TypeName)
		if !ok {
			continue
		}
		it, ok := tn.Type().Underlying().(*types.Interface)
		if !ok {
			continue
		}
		for i := 0; i < it.NumMethods(); i++ {
			sig := it.Method(i).Type().(*types.Signature)
			if sig.Params().Len() != 1 {
				continue
			}
			nt, ok := sig.Params().At(0).Type().(*types.Named)
			if !ok || nt.Obj().Pkg() != x.pk.Types {
				continue
			}
			fs, ok := nt.Underlying().(*types.Signature)
			if ok && fs.Results().Len() == 1 && types.Identical(fs.Results().At(0).Type(), errT) {
				return nt
			}
		}
	}
	return nil
}

// callbackParam returns the parameter object of callback type when fi is a LookupFunc-like method.
func (x *c22) callbackParam(fi *FuncInfo, sig *types.Signature) types.Object {
	errT := types.Universe.Lookup("error").Type()
	if sig.Params().Len() != 1 || sig.Results().Len() != 1 || !types.Identical(sig.Results().At(0).Type(), errT) {
		return nil
	}
	if !types.Identical(sig.Params().At(0).Type(), x.cb) {
		return nil
	}
	return sig.Params().At(0)
}

// ---------------------------------------------------------------------------

type c22call struct {
	call   *ast.CallExpr
	lit    *ast.FuncLit // enclosing wrapper closure, nil when in the method body
	res    types.Object // variable receiving the callback's result (nil: see direct)
	direct bool         // the call is the operand of a return statement
	stmt   ast.Node     // the statement holding the call
}

func (x *c22) checkLookupFunc(fi *FuncInfo, sig *types.Signature, cbObj types.Object) {
	r := x.r
	key := funcKey(fi.Obj)
	par := r.P.Parents(fi.File)

	// the callback's invocations
	var sites []*c22call
	for _, c := range calls(fi.Decl.Body, true) {
		if cgxObj(x.info, c.Fun) != cbObj {
			continue
		}
		s := &c22call{call: c, lit: cgxEnclosingLit(r.P, fi, c)}
		switch p := par[c].(type) {
		case *ast.AssignStmt:
			s.stmt = p
			if len(p.Lhs) == 1 && len(p.Rhs) == 1 {
				s.res = cgxObj(x.info, p.Lhs[0])
			}
		case *ast.ReturnStmt:
			s.stmt, s.direct = p, true
		case *ast.ValueSpec:
			s.stmt = p
			if len(p.Names) == 1 {
				s.res = x.info.Defs[p.Names[0]]
			}
		}
		sites = append(sites, s)
	}
	// other uses of the callback parameter (passed on, stored) are not understood
	uses := 0
	ast.Inspect(fi.Decl.Body, func(n ast.Node) bool {
		if id, ok := n.(*ast.Ident); ok && x.info.Uses[id] == cbObj {
			uses++
		}
		return true
	})

	// ---- R-1
	o := r.Ob("R-1", key+"#callback-result->return", fi.Decl.Pos())
	ssaFn := r.P.SSAFunc(fi)
	var fns []*ssa.Function
	var taint map[ssa.Value]bool
	switch {
	case ssaFn == nil:
		o.Unknown("no SSA function for %s", key)
	case len(sites) == 0:
		o.Unknown("%s never invokes its callback parameter directly or in a closure (%d other uses): delegation is not understood by this rule", key, uses)
	default:
		fns = cgxFns(ssaFn)
		var param *ssa.Parameter
		for _, p := range ssaFn.Params {
			if p.Object() == cbObj {
				param = p
			}
		}
		var seeds []ssa.Value
		for _, fn := range fns {
			for _, b := range fn.Blocks {
				for _, in := range b.Instrs {
					if c, ok := in.(*ssa.Call); ok && !c.Call.IsInvoke() && param != nil && cgxIsParamValue(fns, c.Call.Value, param) {
						seeds = append(seeds, c)
					}
				}
			}
		}
		if len(seeds) != len(sites) {
			o.Unknown("%d callback invocations in the syntax but %d in SSA form", len(sites), len(seeds))
			break
		}
		taint = cgxForward(fns, seeds)
		nret, carried := 0, 0
		var desc []string
		for _, b := range ssaFn.Blocks {
			for _, in := range b.Instrs {
				if ret, ok := in.(*ssa.Return); ok && len(ret.Results) == 1 {
					nret++
					if taint[ret.Results[0]] {
						carried++
					}
					desc = append(desc, cgxDescribe(ret.Results[0]))
				}
			}
		}
		if carried > 0 {
			o.OK("the value of %d callback invocation(s) may reach the returned value (%d of %d return instructions carry it: %v)", len(seeds), carried, nret, desc)
		} else {
			o.Bad("no value produced by the callback reaches the result of %s: it returns %v whatever the callback returned, so a failing callback yields nil (the variable assigned from the callback is not the variable returned)", key, desc)
		}
	}

	c := r.P.CFGOf(fi)

	// ---- R-2
	for _, s := range sites {
		x.checkStop(fi, c, key, s, ssaFn, fns, taint)
	}

	// ---- R-3
	x.checkStopLookupFilter(fi, c, key, sites)

	// ---- R-4
	for _, s := range sites {
		x.checkOncePerName(fi, key, s)
	}
}

// nilCut cuts the edges asserting that obj is nil.
func (x *c22) nilCut(c *CFGInfo, obj types.Object) func(b *cfg.Block, i int) bool {
	return func(b *cfg.Block, i int) bool {
		return cgxEdgeHas(c, b, i, func(l Lit) bool {
			isNil, ok := cgxAssertsNil(x.info, l, obj)
			return ok && isNil
		})
	}
}

func (x *c22) checkStop(fi *FuncInfo, c *CFGInfo, key string, s *c22call, ssaFn *ssa.Function, fns []*ssa.Function, taint map[ssa.Value]bool) {
	r := x.r
	if s.lit == nil {
		// invoked in the method body
		o := r.Ob("R-2", key+"#after-callback", s.call.Pos())
		if s.direct {
			o.OK("the callback's result is returned immediately")
			return
		}
		if s.res == nil {
			o.Unknown("the callback's result is not assigned to a variable")
			return
		}
		blk, idx := c.Locate(s.call)
		if blk == nil {
			o.Unknown("callback invocation not found in the control-flow graph")
			return
		}
		x.loopRule(o, fi, c, blk, idx, s.res, nil, s)
		return
	}
	// invoked in a wrapper closure
	o1 := r.Ob("R-2", key+"#wrapper-returns-result", s.lit.Pos())
	var anon *ssa.Function
	for _, fn := range fns {
		if fn.Syntax() == ast.Node(s.lit) {
			anon = fn
		}
	}
	switch {
	case anon == nil || taint == nil:
		o1.Unknown("wrapper closure has no SSA function")
	default:
		carried, n := 0, 0
		for _, b := range anon.Blocks {
			for _, in := range b.Instrs {
				if ret, ok := in.(*ssa.Return); ok && len(ret.Results) == 1 {
					n++
					if taint[ret.Results[0]] {
						carried++
					}
				}
			}
		}
		if carried > 0 {
			o1.OK("the wrapper closure returns the callback's result (%d of %d returns), so the visited package stops", carried, n)
		} else {
			o1.Bad("the wrapper closure never returns the callback's result: the package being visited cannot stop at the first error")
		}
	}
	// where the wrapper is used in the method body
	var wObj types.Object
	switch p := r.P.Parents(fi.File)[s.lit].(type) {
	case *ast.AssignStmt:
		if len(p.Lhs) == 1 {
			wObj = cgxObj(x.info, p.Lhs[0])
		}
	case *ast.ValueSpec:
		if len(p.Names) == 1 {
			wObj = x.info.Defs[p.Names[0]]
		}
	}
	if wObj == nil {
		r.Ob("R-2", key+"#after-wrapper-use", s.lit.Pos()).Unknown("the wrapper closure is not bound to a local variable")
		return
	}
	if s.res == nil || (s.lit.Pos() <= s.res.Pos() && s.res.Pos() < s.lit.End()) {
		r.Ob("R-2", key+"#after-wrapper-use", s.lit.Pos()).Unknown("the callback's result is not stored in a variable of the method captured by the wrapper")
		return
	}
	nUse := 0
	for _, b := range c.G.Blocks {
		if !b.Live {
			continue
		}
		for i, n := range b.Nodes {
			if containsNode(n, s.lit) || !cgxMentions(x.info, n, wObj) {
				continue
			}
			nUse++
			o := r.Ob("R-2", key+"#after-wrapper-use", n.Pos())
			x.loopRule(o, fi, c, b, i, s.res, s.lit, s)
		}
	}
	if nUse == 0 {
		r.Ob("R-2", key+"#after-wrapper-use", s.lit.Pos()).Unknown("the wrapper closure is never used")
	}
}

// loopRule: from the node after (blk, idx) no path leads back to (blk, idx) without crossing an
// edge asserting res == nil. lit is the wrapper closure assigning res (nil for a direct call).
func (x *c22) loopRule(o *Obl, fi *FuncInfo, c *CFGInfo, blk *cfg.Block, idx int, res types.Object, lit *ast.FuncLit, s *c22call) {
	// other assignments to res that could hide the callback's result before it is tested
	for _, a := range cgxAssignsTo(x.info, fi.Decl.Body, res) {
		if a.Node == s.stmt {
			continue
		}
		if lit != nil && containsNode(lit, a.Node) {
			o.Unknown("the variable %s receiving the callback's result is assigned a second time inside the wrapper closure", res.Name())
			return
		}
		ab, ai := c.Locate(a.Node)
		if ab == nil {
			if _, isSpec := a.Node.(*ast.ValueSpec); isSpec {
				continue // declaration without a graph node
			}
			o.Unknown("assignment to %s not found in the control-flow graph", res.Name())
			return
		}
		// an assignment executed only where the variable is nil cannot hide a callback error
		if c.GuardedBy(a.Node, func(l Lit) bool {
			isNil, ok := cgxAssertsNil(x.info, l, res)
			return ok && isNil
		}) {
			continue
		}
		if cgxReaches(c, blk, idx+1, ab, ai, nil) && cgxReaches(c, ab, ai+1, blk, idx, nil) {
			o.Unknown("%s is assigned again inside the loop, between the callback and its next invocation", res.Name())
			return
		}
	}
	if !cgxReaches(c, blk, idx+1, blk, idx, nil) {
		o.Trivial("the invocation is not in a loop")
		return
	}
	if cgxReaches(c, blk, idx+1, blk, idx, x.nilCut(c, res)) {
		o.Bad("a path leads from the callback's return to its next invocation without crossing an edge on which %s == nil: the lookup does not stop at the first error", res.Name())
		return
	}
	o.OK("every path to the next invocation crosses an edge asserting %s == nil", res.Name())
}

// checkStopLookupFilter (R-3).
func (x *c22) checkStopLookupFilter(fi *FuncInfo, c *CFGInfo, key string, sites []*c22call) {
	r := x.r
	if x.stop == nil {
		return
	}
	o := r.Ob("R-3", key+"#returned-error", fi.Decl.Pos())
	// returned variables
	type retVar struct {
		obj types.Object
		ret *ast.ReturnStmt
	}
	filterEdge := func(c *CFGInfo, v types.Object) func(b *cfg.Block, i int) bool {
		return func(b *cfg.Block, i int) bool {
			return cgxEdgeHas(c, b, i, func(l Lit) bool {
				if other, eq, ok := cgxCmpObj(x.info, l, v); ok && cgxObj(x.info, other) == x.stop {
					return !eq // v != StopLookup on this edge
				}
				// !errors.Is(v, StopLookup)
				if call, ok := ast.Unparen(l.Expr).(*ast.CallExpr); ok && l.Tag == nil && !l.Truth && len(call.Args) == 2 {
					if isPkgFunc(callee(x.info, call), "errors", "", "Is") && cgxObj(x.info, call.Args[0]) == v && cgxObj(x.info, call.Args[1]) == x.stop {
						return true
					}
				}
				return false
			})
		}
	}
	isFilterEdge := func(v types.Object) func(b *cfg.Block, i int) bool { return filterEdge(c, v) }
	// filteringHelper: h(v) hands back its parameter only over an edge on which it differs from the
	// sentinel, and nil otherwise (`func stopToNil(err error) error`)
	filteringHelper := func(call *ast.CallExpr) bool {
		hf := callee(x.info, call)
		if hf == nil || len(call.Args) != 1 {
			return false
		}
		for _, h := range r.P.Funcs(strings.TrimPrefix(strings.TrimPrefix(fi.Pkg.PkgPath, modulePath), "/")) {
			if h.Obj != hf || r.P.isTestFile(h.File) || h.Decl.Body == nil || h.Decl.Type.Params.NumFields() != 1 || len(h.Decl.Type.Params.List[0].Names) != 1 {
				continue
			}
			hp := x.info.Defs[h.Decl.Type.Params.List[0].Names[0]]
			if len(cgxAssignsTo(x.info, h.Decl.Body, hp)) > 0 {
				return false
			}
			hc := r.P.CFGOf(h)
			for _, ret := range hc.Returns() {
				if len(ret.Results) != 1 {
					return false
				}
				if cgxIsNil(x.info, ret.Results[0]) {
					continue
				}
				if cgxObj(x.info, ret.Results[0]) != hp {
					return false
				}
				rb, _ := hc.Locate(ret)
				if rb == nil || hc.reachable(hc.G.Blocks[0], rb, filterEdge(hc, hp), nil) {
					return false
				}
			}
			return true
		}
		return false
	}
	var rets []retVar
	for _, ret := range c.Returns() {
		var e ast.Expr
		switch {
		case len(ret.Results) == 1:
			e = ret.Results[0]
		case len(ret.Results) == 0:
			// bare return or the synthesized one: named result
			if res := fi.Decl.Type.Results; res != nil && len(res.List) == 1 && len(res.List[0].Names) == 1 {
				rets = append(rets, retVar{x.info.Defs[res.List[0].Names[0]], ret})
				continue
			}
			o.Unknown("return without operand in a function without named result")
			return
		}
		if cgxIsNil(x.info, e) {
			continue
		}
		if cgxObj(x.info, e) == x.stop {
			o.Bad("%s returns the stop sentinel itself", key)
			return
		}
		v, _ := cgxObj(x.info, e).(*types.Var)
		if call, ok := ast.Unparen(e).(*ast.CallExpr); ok && v == nil && filteringHelper(call) {
			continue // the operand passed through a function that replaces the sentinel by nil
		}
		if v == nil {
			if call, ok := ast.Unparen(e).(*ast.CallExpr); ok && cgxObj(x.info, call.Fun) != nil && len(sites) > 0 && cgxObj(x.info, call.Fun) == cgxObj(x.info, sites[0].call.Fun) {
				o.Bad("the callback's result is returned without comparing it with %s", x.stop.Name())
				return
			}
			o.Unknown("a return operand is neither nil nor a variable: %s", exprStr(e))
			return
		}
		rets = append(rets, retVar{v, ret})
	}
	if len(rets) == 0 {
		o.Trivial("every return yields the constant nil")
		return
	}
	checked := 0
	for _, rv := range rets {
		v := rv.obj
		// sources: nodes of the method's graph after which v may hold a callback result
		type src struct {
			b *cfg.Block
			i int
		}
		var srcs []src
		unknown := ""
		seenLit := map[*ast.FuncLit]bool{}
		for _, a := range cgxAssignsTo(x.info, fi.Decl.Body, v) {
			if a.Rhs != nil && cgxIsNil(x.info, a.Rhs) {
				continue
			}
			if vs, ok := a.Node.(*ast.ValueSpec); ok && len(vs.Values) == 0 {
				continue
			}
			if lit := cgxEnclosingLit(r.P, fi, a.Node); lit != nil {
				if seenLit[lit] {
					continue
				}
				seenLit[lit] = true
				// every node of the method that mentions the closure (its definition included: it may be
				// an argument) may run it
				var wObj types.Object
				switch p := r.P.Parents(fi.File)[lit].(type) {
				case *ast.AssignStmt:
					if len(p.Lhs) == 1 {
						wObj = cgxObj(x.info, p.Lhs[0])
					}
				case *ast.ValueSpec:
					if len(p.Names) == 1 {
						wObj = x.info.Defs[p.Names[0]]
					}
				}
				n := 0
				for _, b := range c.G.Blocks {
					for i, nd := range b.Nodes {
						if (wObj != nil && !containsNode(nd, lit) && cgxMentions(x.info, nd, wObj)) || (wObj == nil && containsNode(nd, lit)) {
							srcs = append(srcs, src{b, i})
							n++
						}
					}
				}
				if n == 0 {
					unknown = "a closure assigning " + v.Name() + " is never used in the method body"
				}
				continue
			}
			b, i := c.Locate(a.Node)
			if b == nil {
				unknown = "assignment to " + v.Name() + " not found in the control-flow graph"
				continue
			}
			srcs = append(srcs, src{b, i})
		}
		if unknown != "" {
			o.Unknown("%s", unknown)
			return
		}
		if len(srcs) == 0 {
			continue // v is only ever nil
		}
		killsV := func(n ast.Node) bool {
			as, ok := n.(*ast.AssignStmt)
			if !ok || len(as.Lhs) != len(as.Rhs) {
				return false
			}
			for i, l := range as.Lhs {
				if cgxObj(x.info, l) == v && cgxIsNil(x.info, as.Rhs[i]) {
					return true
				}
			}
			return false
		}
		for _, s := range srcs {
			for _, ret := range cgxReturnsFrom(c, s.b, s.i+1, killsV, isFilterEdge(v)) {
				if ret == rv.ret {
					o.Bad("%s can be returned holding the callback's result on a path that neither crosses the edge %s != %s nor assigns nil: StopLookup would be returned to the caller", v.Name(), v.Name(), x.stop.Name())
					return
				}
			}
		}
		checked++
	}
	if checked == 0 {
		o.Trivial("no returned variable is ever assigned a non-nil value")
		return
	}
	o.OK("every path from an assignment of the callback's result to a return of that variable crosses the edge != %s or an assignment of nil (%d returned variable(s))", x.stop.Name(), checked)
}

// checkOncePerName (R-4).
func (x *c22) checkOncePerName(fi *FuncInfo, key string, s *c22call) {
	r := x.r
	o := r.Ob("R-4", key+"#once-per-name", s.call.Pos())
	if len(s.call.Args) < 1 {
		o.Unknown("callback invoked without arguments")
		return
	}
	nameObj := cgxObj(x.info, s.call.Args[0])
	if nameObj == nil {
		o.Unknown("the name passed to the callback is not a variable")
		return
	}
	par := r.P.Parents(fi.File)
	if s.lit == nil {
		// (i) a non-nested range over a map whose key is the name
		var rng *ast.RangeStmt
		for m := par[s.call]; m != nil && m != ast.Node(fi.Decl); m = par[m] {
			if rs, ok := m.(*ast.RangeStmt); ok {
				rng = rs
				break
			}
			if _, ok := m.(*ast.ForStmt); ok {
				break
			}
		}
		if rng == nil {
			o.Unknown("the callback is not invoked in a range statement")
			return
		}
		if _, isMap := x.info.TypeOf(rng.X).Underlying().(*types.Map); !isMap {
			o.Unknown("the callback is invoked in a range over %s, not over a map", typeStr(x.info.TypeOf(rng.X)))
			return
		}
		if cgxInLoop(r.P, fi.File, rng, fi.Decl) {
			o.Bad("the map range invoking the callback is nested in another loop: a name present in several maps is passed more than once")
			return
		}
		if rng.Key == nil || cgxObj(x.info, rng.Key) != nameObj {
			o.Bad("the name passed to the callback is not the key of the map range")
			return
		}
		o.OK("invoked in a single range over the map %s with the range key as name: each name once", exprStr(rng.X))
		return
	}
	// (ii) in a wrapper closure: behind the miss edge of a set lookup, insert on every path after
	lc := r.P.CFG(x.info, fi.File, s.lit.Body)
	var setObj types.Object
	boolSet := false
	guarded := lc.GuardedBy(s.call, func(l Lit) bool {
		if l.Tag != nil || l.Truth {
			return false
		}
		// `!seen[name]` on a map[string]bool used as a set: the miss edge of the lookup itself
		if ix, isIx := ast.Unparen(l.Expr).(*ast.IndexExpr); isIx && cgxObj(x.info, ix.Index) == nameObj {
			if mt, isMap := x.info.TypeOf(ix.X).Underlying().(*types.Map); isMap {
				if b, isB := mt.Elem().Underlying().(*types.Basic); isB && b.Kind() == types.Bool {
					setObj = cgxObj(x.info, ix.X)
					boolSet = true
					return setObj != nil
				}
			}
		}
		okObj := cgxObj(x.info, l.Expr)
		if okObj == nil {
			return false
		}
		as := cgxAssignsTo(x.info, s.lit.Body, okObj)
		if len(as) != 1 || as[0].Idx != 1 {
			return false
		}
		st, isAs := as[0].Node.(*ast.AssignStmt)
		if !isAs || len(st.Rhs) != 1 {
			return false
		}
		ix, isIx := ast.Unparen(st.Rhs[0]).(*ast.IndexExpr)
		if !isIx || cgxObj(x.info, ix.Index) != nameObj {
			return false
		}
		if _, isMap := x.info.TypeOf(ix.X).Underlying().(*types.Map); !isMap {
			return false
		}
		setObj = cgxObj(x.info, ix.X)
		return setObj != nil
	})
	if !guarded {
		o.Bad("the callback invocation in the wrapper closure is not dominated by the miss edge of a set lookup on the name %s: a name declared by several packages is passed more than once", nameObj.Name())
		return
	}
	// the set lives as long as the method activation: declared in the method body, outside the closure and outside loops
	if s.lit.Pos() <= setObj.Pos() && setObj.Pos() < s.lit.End() {
		o.Bad("the set %s of names already passed is local to the wrapper closure, so it is empty at every call", setObj.Name())
		return
	}
	for _, a := range cgxAssignsTo(x.info, fi.Decl.Body, setObj) {
		if cgxInLoop(r.P, fi.File, a.Node, fi.Decl) || cgxEnclosingLit(r.P, fi, a.Node) != nil {
			o.Bad("the set %s of names already passed is re-created during the lookup", setObj.Name())
			return
		}
	}
	blk, idx := lc.Locate(s.call)
	if blk == nil {
		o.Unknown("callback invocation not found in the closure's control-flow graph")
		return
	}
	isInsert := func(n ast.Node) bool {
		as, ok := n.(*ast.AssignStmt)
		if !ok {
			return false
		}
		for i, l := range as.Lhs {
			if ix, ok := ast.Unparen(l).(*ast.IndexExpr); ok && cgxObj(x.info, ix.X) == setObj && cgxObj(x.info, ix.Index) == nameObj {
				if boolSet {
					// the set is a map to bool read by value: only storing true records the name
					if len(as.Lhs) != len(as.Rhs) {
						return false
					}
					if tv, ok := x.info.Types[as.Rhs[i]]; !ok || tv.Value == nil || tv.Value.String() != "true" {
						return false
					}
				}
				return true
			}
		}
		return false
	}
	// the insert may precede the call inside the guarded region as well
	if lc.MustPassNode(s.call, isInsert) {
		o.OK("invoked only on the miss edge of %s[%s]; the insert precedes the invocation", setObj.Name(), nameObj.Name())
		return
	}
	if exits := lc.ExitsWithout(blk, idx+1, isInsert); len(exits) > 0 {
		o.Bad("the wrapper closure can return after invoking the callback without inserting the name into %s (%d exit(s)): the name would be passed again", setObj.Name(), len(exits))
		return
	}
	o.OK("invoked only on the miss edge of %s[%s]; the insert follows on every path to the closure's exit", setObj.Name(), nameObj.Name())
}

// ---------------------------------------------------------------------------
// R-5

// isCombinator: a method with parameters on a slice-of-interface type whose element interface has
// a method of the same name and signature.
func (x *c22) isCombinator(fi *FuncInfo, sig *types.Signature) bool {
	if sig.Recv() == nil || sig.Params().Len() == 0 {
		return false
	}
	sl, ok := sig.Recv().Type().Underlying().(*types.Slice)
	if !ok {
		return false
	}
	it, ok := sl.Elem().Underlying().(*types.Interface)
	if !ok {
		return false
	}
	for i := 0; i < it.NumMethods(); i++ {
		m := it.Method(i)
		if m.Name() == fi.Obj.Name() {
			ms := m.Type().(*types.Signature)
			return types.Identical(types.NewSignatureType(nil, nil, nil, ms.Params(), ms.Results(), ms.Variadic()),
				types.NewSignatureType(nil, nil, nil, sig.Params(), sig.Results(), sig.Variadic()))
		}
	}
	return false
}

func (x *c22) checkFirstWins(fi *FuncInfo, sig *types.Signature) {
	r := x.r
	key := funcKey(fi.Obj)
	o := r.Ob("R-5", key+"#first-wins", fi.Decl.Pos())
	if len(fi.Decl.Recv.List) != 1 || len(fi.Decl.Recv.List[0].Names) != 1 {
		o.Unknown("unnamed receiver")
		return
	}
	recv := x.info.Defs[fi.Decl.Recv.List[0].Names[0]]
	// the delegating call: same-named method invoked on an element of the receiver
	var site *ast.CallExpr
	var rng *ast.RangeStmt
	par := r.P.Parents(fi.File)
	for _, c := range calls(fi.Decl.Body, false) {
		f := callee(x.info, c)
		if f == nil || f.Name() != fi.Obj.Name() {
			continue
		}
		sel, ok := ast.Unparen(c.Fun).(*ast.SelectorExpr)
		if !ok {
			continue
		}
		// element: range value variable, or recv[key]
		var rs *ast.RangeStmt
		for m := par[c]; m != nil && m != ast.Node(fi.Decl); m = par[m] {
			if q, ok := m.(*ast.RangeStmt); ok {
				rs = q
				break
			}
		}
		if rs == nil || cgxObj(x.info, rs.X) != recv {
			continue
		}
		elemOK := false
		if rs.Value != nil && cgxObj(x.info, sel.X) != nil && cgxObj(x.info, sel.X) == cgxObj(x.info, rs.Value) {
			elemOK = true
		}
		if ix, ok := ast.Unparen(sel.X).(*ast.IndexExpr); ok && rs.Key != nil && cgxObj(x.info, ix.X) == recv && cgxObj(x.info, ix.Index) != nil && cgxObj(x.info, ix.Index) == cgxObj(x.info, rs.Key) {
			elemOK = true
		}
		if !elemOK {
			continue
		}
		if site != nil {
			o.Unknown("several delegating calls")
			return
		}
		site, rng = c, rs
	}
	if site == nil {
		o.Unknown("no call of %s on the element of an ascending range over the receiver (a range statement over the receiver is the only order this rule recognises)", fi.Obj.Name())
		return
	}
	if cgxInLoop(r.P, fi.File, rng, fi.Decl) {
		o.Unknown("the range over the receiver is nested in another loop")
		return
	}
	// the call's results
	var res []types.Object
	var stmt ast.Node
	switch p := par[site].(type) {
	case *ast.AssignStmt:
		stmt = p
		for _, l := range p.Lhs {
			res = append(res, cgxObj(x.info, l))
		}
	}
	if stmt == nil || len(res) != sig.Results().Len() {
		o.Unknown("the results of the element call are not assigned to %d variables", sig.Results().Len())
		return
	}
	for _, v := range res {
		if v == nil || v.Name() == "_" {
			o.Bad("a result of the element call is discarded")
			return
		}
		if n := len(cgxAssignsTo(x.info, fi.Decl.Body, v)); n != 1 {
			o.Unknown("%s is assigned %d times", v.Name(), n)
			return
		}
	}
	c := r.P.CFGOf(fi)
	blk, idx := c.Locate(site)
	if blk == nil {
		o.Unknown("element call not found in the control-flow graph")
		return
	}
	// (a) continuing implies every result is nil
	for _, v := range res {
		if cgxReaches(c, blk, idx+1, blk, idx, x.nilCut(c, v)) {
			o.Bad("the loop can continue with the next element without crossing an edge on which %s == nil: a later element can win over an earlier hit", v.Name())
			return
		}
	}
	// (b) on a hit the results are returned as they are
	hits := 0
	var bad string
	cgxWalk(c, blk, idx+1, func(b *cfg.Block, i int, n ast.Node) bool {
		if b == blk && i == idx {
			return true
		}
		if ret, ok := n.(*ast.ReturnStmt); ok {
			if !containsNode(rng.Body, ret) {
				return true
			}
			hits++
			if len(ret.Results) != len(res) {
				bad = "a return inside the loop does not return the element's results"
				return true
			}
			for i, e := range ret.Results {
				if cgxIsNil(x.info, e) {
					// `return p, nil` where the result is known to be nil on every path to the return
					vi := res[i]
					if c.GuardedBy(ret, func(l Lit) bool {
						isNil, ok := cgxAssertsNil(x.info, l, vi)
						return ok && isNil
					}) {
						continue
					}
				}
				if cgxObj(x.info, e) != res[i] {
					bad = fmt.Sprintf("result %d of the return inside the loop is %s, not the element's result %s", i+1, exprStr(e), res[i].Name())
				}
			}
			return true
		}
		return false
	}, func(b *cfg.Block, i int) bool {
		// follow only hit paths: do not cross edges asserting every result nil; an edge asserting
		// one of several results nil is still a possible hit
		all := true
		for _, v := range res {
			if !x.nilCut(c, v)(b, i) {
				all = false
			}
		}
		return all
	})
	if bad != "" {
		o.Bad("%s", bad)
		return
	}
	if hits == 0 {
		o.Bad("no return inside the loop on the hit edge: the first hit does not end the search")
		return
	}
	o.OK("ascending range over the receiver; the loop continues only when %s nil; on a hit the element's results are returned (%d return(s))", c22names(res), hits)
}

func c22names(vs []types.Object) string {
	s := ""
	for i, v := range vs {
		if i > 0 {
			s += " and "
		}
		s += v.Name()
	}
	if len(vs) > 1 {
		return s + " are all"
	}
	return s + " is"
}
