package main

// C27 R-4, R-5 — what a String method prints, read from the symbolic evaluation of c27r4.go.
//
// R-4  independence of optional parts. A part of a node (a field that may be nil, an empty list, an empty
//      string) that a String method prints at all is printed whenever it is present: whether it is printed
//      never depends on the presence of another optional part of the same node. Otherwise the source with
//      both parts prints without one of them and parses back to a smaller tree ("var a int = 5" -> "var a int").
//      Only shapes in which the method does not panic count, modes selected by a package flag
//      (expandedPrint) are compared with themselves, and a dependence is reported only when a construction
//      site reachable from the parser can store both parts.
// R-5  list separators. Two consecutive elements of a list field are never printed with only blanks (or
//      nothing) between them: no list of the grammar is separated by spaces, "a b" parses as one
//      declaration/element or not at all.

import (
	"fmt"
	"go/ast"
	"go/types"
	"os"
	"sort"
	"strconv"
	"strings"
)

func init() {
	p := registry["C27"]
	if p == nil {
		return
	}
	run := p.run
	p.run = func(r *Run) { run(r); c27Printing(r) }
	p.explain += " R-4: a String method that prints an optional part of its node (nilable field, list, string) prints it whenever it is present, independently of the presence of the node's other optional parts (shapes on which the method panics excluded; checked for pairs of parts that a parser construction site can store together). R-5: consecutive elements of a list field are never printed with only blanks between them."
	for i, s := range p.notCov {
		if strings.HasPrefix(s, "field coverage of String methods") {
			p.notCov[i] = "field coverage of String methods (DESIGN R-2) beyond R-4: that a part is printed at all (many String methods print a description and deliberately skip fields)"
		}
	}
}

func c27Printing(r *Run) {
	c := c27state
	if !r.Anchor("R-4", "package ast and its enums (state of R-1)", c != nil && c.r == r) {
		return
	}
	c27cache = nil
	ms := c.stringMethods()
	if !r.Anchor("R-4", "String methods of the node types of package ast", len(ms) >= 20) {
		return
	}
	if os.Getenv("C27_DEBUG") != "" {
		for _, fi := range ms {
			runs, inc := c.runsOf(fi)
			fmt.Fprintf(os.Stderr, "== %s: %d runs %s\n", fi.Name(), len(runs), inc)
			for _, rn := range runs {
				st := "ok"
				if rn.halted {
					st = "panics"
				}
				if rn.fail != "" {
					st = "UNREADABLE " + rn.fail
				}
				fmt.Fprintf(os.Stderr, "   [%s] %s  =>  %q\n", st, rn.shape(), c27render(rn.pieces()))
			}
		}
	}
	c27Independence(c, ms)
	c27Separators(c, ms)
	for _, h := range c27more {
		h(c, ms)
	}
	r.Require("R-4", 30)
	r.Require("R-5", 10)
}

var c27more []func(c *c27, ms []*FuncInfo)

// c27optional lists the fields of nt that may be absent: pointers and interfaces to nodes, lists, strings.
func (c *c27) optionalFields(nt *types.Named) []string {
	st := nt.Underlying().(*types.Struct)
	var out []string
	for i := 0; i < st.NumFields(); i++ {
		f := st.Field(i)
		if f.Embedded() {
			continue
		}
		switch u := f.Type().Underlying().(type) {
		case *types.Pointer, *types.Interface, *types.Slice:
			out = append(out, f.Name())
		case *types.Basic:
			if u.Info()&types.IsString != 0 {
				out = append(out, f.Name())
			}
		}
	}
	return out
}

func c27under(path, root string) bool {
	return path == root || strings.HasPrefix(path, root+".") || strings.HasPrefix(path, root+"[") || strings.HasPrefix(path, root+"#")
}

// c27presence reads the decision of a run about the presence of the part at path: +1 present, -1 absent, 0 not decided.
func c27presence(rn *c27run, path string) int {
	v, ok := rn.con(path)
	if !ok {
		return 0
	}
	switch {
	case v == "present", strings.HasPrefix(v, "len=") && v != "len=0":
		return 1
	case v == "nil", v == "empty", v == "len=0":
		return -1
	}
	return 0
}

func c27prints(rn *c27run, root string) bool {
	for _, p := range rn.pieces() {
		if p.ref != nil && c27under(p.ref.path, root) {
			return true
		}
	}
	return false
}

func c27Independence(c *c27, ms []*FuncInfo) {
	r := c.r
	const R = "R-4"
	for _, fi := range ms {
		nt := c.recvNamed(fi)
		opt := c.optionalFields(nt)
		if len(opt) < 2 {
			continue
		}
		runs, inc := c.runsOf(fi)
		if why := c27unreadable(runs, inc); why != "" {
			r.Ob(R, fi.Name()+"#parts", fi.Decl.Pos()).Unknown("%s could not be evaluated symbolically (%s): whether its optional parts are printed independently is not decided", fi.Name(), why)
			continue
		}
		var usable []*c27run
		for _, rn := range runs {
			if !rn.halted && rn.pieces() != nil || !rn.halted && rn.out != nil {
				usable = append(usable, rn)
			}
		}
		for _, F := range opt {
			fp := "n." + F
			var printing []*c27run
			for _, rn := range usable {
				if c27prints(rn, fp) {
					printing = append(printing, rn)
				}
			}
			if len(printing) == 0 {
				continue
			}
			o := r.Ob(R, fi.Name()+"#part:"+F, fi.Decl.Pos())
			bad, skipped := "", ""
			for _, G := range opt {
				if G == F || bad != "" {
					continue
				}
				gp := "n." + G
				for _, q := range usable {
					if bad != "" {
						break
					}
					if c27prints(q, fp) || c27presence(q, fp) < 0 || c27presence(q, gp) == 0 {
						continue
					}
					for _, p := range printing {
						if c27presence(p, gp) != -c27presence(q, gp) {
							continue
						}
						same := true
						for _, cq := range q.cons {
							if c27under(cq.key, gp) {
								continue
							}
							if v, ok := p.con(cq.key); ok && v != cq.val {
								same = false
								break
							}
						}
						if !same {
							continue
						}
						state := map[int]string{1: "present", -1: "absent"}[c27presence(q, gp)]
						if c27presence(q, gp) > 0 {
							if ok, why := c.coexist(nt, F, G); !ok {
								skipped = fmt.Sprintf("%s is not printed when %s is present, but %s", F, G, why)
								continue
							}
						}
						bad = fmt.Sprintf("%s prints %s only when %s is not %s: with %s it prints %q, with %s it prints %q and %s is lost, so the printed form parses back to a tree without it",
							fi.Name(), F, G, state, p.shape(), c27render(p.pieces()), q.shape(), c27render(q.pieces()), F)
						break
					}
				}
			}
			switch {
			case bad != "":
				o.Bad("%s", bad)
			case skipped != "":
				o.OK("%s", skipped)
			default:
				o.OK("%s is printed on each of the %d evaluated shapes of %s in which it is present, whatever the presence of %s", F, len(printing), nt.Obj().Name(), strings.Join(c27without(opt, F), ", "))
			}
		}
	}
}

func c27without(xs []string, x string) []string {
	var out []string
	for _, y := range xs {
		if y != x {
			out = append(out, y)
		}
	}
	return out
}

// coexist reports whether a construction site reachable from the parser can store both fields: each of
// them receives there something that is not the literal nil / "" (or is assigned after construction).
func (c *c27) coexist(nt *types.Named, F, G string) (bool, string) {
	r := c.r
	if c.sites == nil {
		c.sites = map[*types.Named][]map[string]bool{}
		c.assigned = map[string]bool{}
		for _, pk := range r.P.Pkgs {
			if pk.Types == nil || !strings.HasPrefix(pk.PkgPath, modulePath) || pk == c.x.utilPk {
				continue
			}
			info := pk.TypesInfo
			isZero := func(e ast.Expr) bool {
				tv, ok := info.Types[e]
				if !ok {
					return false
				}
				if tv.IsNil() {
					return true
				}
				if s, ok := stringValue(info, e); ok && s == "" {
					return true
				}
				return false
			}
			for _, f := range pk.Syntax {
				if r.P.isTestFile(f) {
					continue
				}
				ast.Inspect(f, func(n ast.Node) bool {
					if fd, ok := n.(*ast.FuncDecl); ok {
						obj, _ := info.Defs[fd.Name].(*types.Func)
						return obj != nil && (c.reach[obj] || pk == c.astPk)
					}
					switch n := n.(type) {
					case *ast.CallExpr:
						fn := callee(info, n)
						if fn == nil || fn.Pkg() != c.astPk.Types {
							return true
						}
						ct := c.x.ctorOf(fn)
						if !ct.ok {
							return true
						}
						set := map[string]bool{}
						for name, idx := range ct.fields {
							if idx >= 0 && idx < len(n.Args) {
								set[name] = !isZero(n.Args[idx])
							} else if !ct.nilset[name] {
								set[name] = true
							}
						}
						c.sites[ct.typ] = append(c.sites[ct.typ], set)
					case *ast.CompositeLit:
						t := c.x.inAst(info.TypeOf(n))
						if t == nil {
							return true
						}
						st, ok := t.Underlying().(*types.Struct)
						if !ok {
							return true
						}
						if fd := r.P.enclosingFunc(pk, n.Pos()); fd != nil && fd.Obj != nil && c.x.ctorOf(fd.Obj).ok {
							return true
						}
						set := map[string]bool{}
						for i, el := range n.Elts {
							name, val := "", el
							if kv, ok := el.(*ast.KeyValueExpr); ok {
								if id, ok := kv.Key.(*ast.Ident); ok {
									name = id.Name
								}
								val = kv.Value
							} else if i < st.NumFields() {
								name = st.Field(i).Name()
							}
							set[name] = !isZero(val)
						}
						c.sites[t] = append(c.sites[t], set)
					case *ast.AssignStmt:
						for i, l := range n.Lhs {
							sel, ok := ast.Unparen(l).(*ast.SelectorExpr)
							if !ok {
								continue
							}
							s := info.Selections[sel]
							if s == nil || s.Kind() != types.FieldVal {
								continue
							}
							if t := c.x.inAst(s.Recv()); t != nil {
								if len(n.Lhs) == len(n.Rhs) && isZero(n.Rhs[i]) {
									continue
								}
								c.assigned[t.Obj().Name()+"."+sel.Sel.Name] = true
							}
						}
					}
					return true
				})
			}
		}
	}
	k := nt.Obj().Name()
	if len(c.sites[nt]) == 0 {
		return true, "no construction site found"
	}
	for _, set := range c.sites[nt] {
		if (set[F] || c.assigned[k+"."+F]) && (set[G] || c.assigned[k+"."+G]) {
			return true, ""
		}
	}
	return false, fmt.Sprintf("none of the %d construction sites of %s reachable from the parser stores both %s and %s", len(c.sites[nt]), k, F, G)
}

// ---------------------------------------------------------------------------
// R-5

// c27listOf splits "n.Lhs[1].Name" into the list "n.Lhs" and the index 1.
func c27listOf(path string) (string, int, bool) {
	i := strings.IndexByte(path, '[')
	if i < 0 {
		return "", 0, false
	}
	j := strings.IndexByte(path[i:], ']')
	if j < 0 {
		return "", 0, false
	}
	n, err := strconv.Atoi(path[i+1 : i+j])
	if err != nil {
		return "", 0, false
	}
	return path[:i], n, true
}

func c27Separators(c *c27, ms []*FuncInfo) {
	r := c.r
	const R = "R-5"
	for _, fi := range ms {
		runs, inc := c.runsOf(fi)
		if c27unreadable(runs, inc) != "" {
			// reported by R-4 when the node has optional parts; a method that cannot be read has no list obligation decided
			if len(c.optionalFields(c.recvNamed(fi))) < 2 {
				r.Ob(R, fi.Name()+"#lists", fi.Decl.Pos()).Unknown("%s could not be evaluated symbolically (%s)", fi.Name(), c27unreadable(runs, inc))
			}
			continue
		}
		seps := map[string]map[string]bool{}
		example := map[string]string{}
		for _, rn := range runs {
			ps := rn.pieces()
			if rn.halted || ps == nil {
				continue
			}
			first := map[string]map[int]int{}
			last := map[string]map[int]int{}
			for i, p := range ps {
				if p.ref == nil {
					continue
				}
				l, k, ok := c27listOf(p.ref.path)
				if !ok {
					continue
				}
				if first[l] == nil {
					first[l], last[l] = map[int]int{}, map[int]int{}
				}
				if _, seen := first[l][k]; !seen {
					first[l][k] = i
				}
				last[l][k] = i
			}
			for l := range first {
				for k, a := range last[l] {
					b, ok := first[l][k+1]
					if !ok || b <= a {
						continue
					}
					sep, lit := "", true
					for _, p := range ps[a+1 : b] {
						if p.ref != nil {
							lit = false
							break
						}
						sep += p.lit
					}
					if !lit {
						continue
					}
					if seps[l] == nil {
						seps[l] = map[string]bool{}
					}
					seps[l][sep] = true
					if strings.TrimSpace(sep) == "" && example[l] == "" {
						example[l] = c27render(ps)
					}
				}
			}
		}
		for _, l := range sortedKeys(seps) {
			o := r.Ob(R, fi.Name()+"#sep:"+strings.TrimPrefix(l, "n."), fi.Decl.Pos())
			var all []string
			for s := range seps[l] {
				all = append(all, strconv.Quote(s))
			}
			sort.Strings(all)
			if example[l] != "" {
				o.Bad("%s prints consecutive elements of %s with only blanks between them (separators seen: %s), e.g. %q: a list written that way parses back as a single element followed by something else, or not at all", fi.Name(), l, strings.Join(all, " "), example[l])
			} else {
				o.OK("consecutive elements of %s are separated by %s", l, strings.Join(all, " "))
			}
		}
	}
}
