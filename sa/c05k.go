package main

// C05 R-6: reflect kind discipline in package runtime (the rule itself is in c04k.go).
// C05 R-7: the context watcher of the run driver (C11 R-3, re-used): its stop channel is closed on
// every return path and never twice — a second close is a host panic ("close of closed channel")
// instead of the documented return value (added after seeded change C05-2).

import (
	"strings"

	"golang.org/x/tools/go/cfg"
)

func init() {
	if p := registry["C05"]; p != nil {
		run := p.run
		p.run = func(r *Run) {
			run(r)
			reflectKindRule(r, "R-6", "internal/runtime")
			c05WatcherRule(r)
			c05FaultClassification(r)
		}
		p.explain += " R-9: fault classification (C01 R-5, re-used): every opcode whose handler contains a Go operation that can raise a run-time panic the language defines is listed in the panic classifier — otherwise the fault is a fatal error, i.e. a host panic."
		p.explain += " R-6: in every clause of a switch on X.Kind() in package runtime, the kind-restricted reflect methods called on X are defined for every kind the clause lists; an unclassified reflect panic there is a fatal error, i.e. a host panic. R-7: the run driver closes the watcher's stop channel on every return path and never twice."
	}
}

// c05FaultClassification imports the R-5 obligations of C01 (shift-count findings excluded: a wrong
// result, not a host panic).
func c05FaultClassification(r *Run) {
	c01 := registry["C01"]
	if !r.Anchor("R-9", "the C01 rule set (fault classification)", c01 != nil) {
		return
	}
	sub := NewRun("C01", r.Tier, r.P)
	safeRun(sub, c01.run)
	for _, o := range sub.Obls {
		if o.Rule == "R-5" && !strings.HasSuffix(o.Construct, ":shift-count-sign") {
			o.Rule = "R-9"
			r.Obls = append(r.Obls, o)
		}
	}
	r.Require("R-9", 30)
}

func c05WatcherRule(r *Run) {
	a := c11Resolve(r.P)
	if !c11Need(r, "R-7", a) {
		return
	}
	sub := NewRun("C11", r.Tier, r.P)
	x := &c11{r: sub, a: a, info: a.info, poll: map[*cfg.Block]bool{}}
	x.lc = r.P.CFGOf(a.loop)
	x.disp, _ = x.lc.Locate(a.dispatch.Tag)
	x.r3()
	n := 0
	for _, o := range sub.Obls {
		if o.Rule == "R-3" {
			o.Rule = "R-7"
			r.Obls = append(r.Obls, o)
			n++
		}
	}
	r.Require("R-7", 3)
}
