package main

// C05 R-6: reflect kind discipline in package runtime (the rule itself is in c04k.go).

func init() {
	if p := registry["C05"]; p != nil {
		run := p.run
		p.run = func(r *Run) { run(r); reflectKindRule(r, "R-6", "internal/runtime") }
		p.explain += " R-6: in every clause of a switch on X.Kind() in package runtime, the kind-restricted reflect methods called on X are defined for every kind the clause lists; an unclassified reflect panic there is a fatal error, i.e. a host panic."
	}
}
