package main

// C09 — a show accepted by the type checker never fails for its static type.
// R-1: A(ctx) ⊆ H(ctx), both tables read off the source (DESIGN.md §5 C09).

import (
	"fmt"
	"go/ast"
	"go/token"
	"go/types"
	"sort"
	"strings"
)

func init() {
	register("C09", &ruleSet{
		explain: "For each of the 14 show contexts (plus the two map-key pseudo-contexts of JS/JSON) the set of type classes the static check accepts (reflect kinds, exact types, implemented interfaces; read from checkShow/checkShowJS/checkShowJSON) is included in the set of classes for which the runtime show function of that context cannot reach the 'cannot show' error (read from renderer.Show's dispatch, the leading type switches and the kind switch of toString). Inclusion is decided for all 27 reflect kinds and all interfaces by enumeration; the set difference is reported.",
		notCov:  []string{"values of interface type whose dynamic type is unacceptable (allowed to fail by the property)", "errors other than 'cannot show' raised while showing"},
		trusted: []string{"reflect.Type.Kind/Implements semantics", "valueOf unwraps Scriggo types to a value of the underlying kind"},
		run:     runC09,
	})
}

type showClass struct {
	what    string     // "kind" | "impl" | "exact"
	kind    int64      // for kind
	typ     types.Type // for impl/exact
	subject string     // expression the predicate examines ("t", "t.Key()")
	ctxOnly string     // restricted to one context (ctx == ast.ContextX && ...)
	pos     token.Pos
}

func (c showClass) String() string {
	switch c.what {
	case "kind":
		return "kind:" + kindName(c.kind)
	case "impl":
		return "implements:" + typeStr(c.typ)
	}
	return "exact:" + typeStr(c.typ)
}

var kindNames = map[int64]string{}

func kindName(k int64) string {
	if n, ok := kindNames[k]; ok {
		return n
	}
	return fmt.Sprint(k)
}

type c09 struct {
	r       *Run
	kindT   *types.Named
	ctxT    *types.Named
	kinds   []*types.Const
	maxKind int64
}

func runC09(r *Run) {
	const R1 = "R-1"
	r.Exhaust = true
	x := &c09{r: r}
	x.kindT = r.P.ExtNamed("reflect", "Kind")
	x.ctxT = r.P.Named("ast", "Context")
	if !r.Anchor(R1, "reflect.Kind", x.kindT != nil) || !r.Anchor(R1, "ast.Context", x.ctxT != nil) {
		return
	}
	x.kinds = EnumConsts(x.kindT)
	for _, c := range x.kinds {
		v, _ := intValue64(c)
		if _, dup := kindNames[v]; !dup { // Ptr is an alias of Pointer
			kindNames[v] = c.Name()
		}
		if c.Name() == "Pointer" {
			kindNames[v] = "Pointer"
		}
		if v > x.maxKind {
			x.maxKind = v
		}
	}
	ctxs := EnumConsts(x.ctxT)
	r.Stats["reflect_kinds"] = int(x.maxKind) + 1
	r.Stats["contexts"] = len(ctxs)

	// ---- static side: accepted classes per context
	chk := x.findCheckShow()
	if !r.Anchor(R1, "compiler.checkShow (function with a reflect.Type parameter switching on ast.Context)", chk != nil) {
		return
	}
	accepted, keyAccepted := x.acceptTable(chk)

	// ---- runtime side: the function Show dispatches to for each context
	show := r.NeedFunc(R1, "internal/runtime", "(*renderer).Show")
	if show == nil {
		return
	}
	info := show.Pkg.TypesInfo
	var dispatch *ast.SwitchStmt
	for _, s := range switchesOn(info, show.Decl.Body, x.ctxT) {
		dispatch = s
	}
	if !r.Anchor(R1, "switch on ast.Context in renderer.Show", dispatch != nil) {
		return
	}
	// the URL path: Show calls showInURL before the switch for attribute contexts in a URL
	urlFn := r.P.Func("internal/runtime", "(*renderer).showInURL")
	cover := coverOfSwitch(info, dispatch)
	for _, cc := range ctxs {
		v, _ := intValue64(cc)
		name := cc.Name()
		acc, ok := accepted[v]
		if !ok {
			// checkShow panics "unexpected context" for it: nothing is accepted, nothing to show
			r.Ob(R1, "ctx:"+name, chk.Decl.Pos()).Trivial("checkShow accepts no type in %s (no clause)", name)
			continue
		}
		clause := cover.Vals[v]
		if clause == nil {
			r.Ob(R1, "ctx:"+name, dispatch.Pos()).Bad("renderer.Show has no clause for context %s although checkShow accepts types in it", name)
			continue
		}
		var fns []*FuncInfo
		for _, c := range calls(clause, false) {
			if f := callee(info, c); f != nil && f.Pkg() == show.Obj.Pkg() && strings.HasPrefix(f.Name(), "show") {
				if fi := r.P.Func("internal/runtime", f.Name()); fi != nil {
					fns = append(fns, fi)
				}
			}
		}
		if len(fns) != 1 {
			r.Ob(R1, "ctx:"+name, clause.Pos()).Unknown("expected exactly one show function called in the clause of %s, found %d", name, len(fns))
			continue
		}
		x.checkInclusion(R1, name, acc, fns[0], false)
		if (name == "ContextQuotedAttr" || name == "ContextUnquotedAttr") && urlFn != nil {
			// in a URL the value goes through showInURL, which calls showInHTML
			for _, c := range calls(urlFn.Decl.Body, false) {
				if f := callee(info, c); f != nil && f.Name() != "showInURL" && strings.HasPrefix(f.Name(), "showIn") {
					if fi := r.P.Func("internal/runtime", f.Name()); fi != nil {
						x.checkInclusion(R1, name+"+URL", acc, fi, false)
					}
				}
			}
		}
	}
	for _, lang := range []string{"JS", "JSON"} {
		fi := r.P.Func("internal/runtime", "showIn"+lang)
		if fi == nil {
			r.Anchor(R1, "runtime.showIn"+lang, false)
			continue
		}
		x.checkInclusion(R1, lang+"-map-key", keyAccepted[lang], fi, true)
	}
	r.Require(R1, 14*10)
}

func intValue64(c *types.Const) (int64, bool) {
	return constantInt64(c)
}

// findCheckShow resolves the static show table by role.
func (x *c09) findCheckShow() *FuncInfo {
	var found []*FuncInfo
	for _, fi := range x.r.P.Funcs("internal/compiler") {
		if fi.Decl.Recv != nil || x.r.P.isTestFile(fi.File) {
			continue
		}
		sig := fi.Obj.Type().(*types.Signature)
		if sig.Params().Len() != 2 || typeStr(sig.Params().At(0).Type()) != "reflect.Type" {
			continue
		}
		if len(switchesOn(fi.Pkg.TypesInfo, fi.Decl.Body, x.ctxT)) > 0 {
			found = append(found, fi)
		}
	}
	if len(found) == 1 {
		return found[0]
	}
	return nil
}

// acceptTable reads A(ctx) from checkShow and the key classes of checkShowJS/JSON.
func (x *c09) acceptTable(chk *FuncInfo) (map[int64][]showClass, map[string][]showClass) {
	r := x.r
	info := chk.Pkg.TypesInfo
	out := map[int64][]showClass{}
	keyOut := map[string][]showClass{}
	sw := switchesOn(info, chk.Decl.Body, x.ctxT)[0]
	// the early "t == emptyInterfaceType → nil" is the interface case the property excludes.
	for _, st := range sw.Body.List {
		cc := st.(*ast.CaseClause)
		if cc.List == nil {
			continue
		}
		var classes []showClass
		decided := false
		// form 1: tagless switch whose default returns the error
		for _, s := range cc.Body {
			if ts, ok := s.(*ast.SwitchStmt); ok && ts.Tag == nil {
				decided = true
				for _, c2 := range ts.Body.List {
					k := c2.(*ast.CaseClause)
					if k.List == nil {
						continue
					}
					if clauseRejects(info, k) {
						continue
					}
					for _, e := range k.List {
						cl, ok := x.classify(info, chk, e)
						if !ok {
							r.Ob("R-1", "accept:"+exprStr(e), e.Pos()).Unknown("unrecognised acceptance predicate %s in %s", exprStr(e), chk.Name())
							continue
						}
						classes = append(classes, cl...)
					}
				}
			}
		}
		// form 2: delegation to checkShowJS / checkShowJSON
		if !decided {
			for _, c := range calls(cc, false) {
				f := callee(info, c)
				if f == nil || f.Pkg() != chk.Obj.Pkg() {
					continue
				}
				sub := r.P.Func("internal/compiler", f.Name())
				if sub == nil {
					continue
				}
				decided = true
				cls, keys := x.acceptRecursive(sub)
				classes = append(classes, cls...)
				keyOut[strings.TrimPrefix(f.Name(), "checkShow")] = keys
			}
		}
		if !decided {
			r.Ob("R-1", "accept-clause:"+exprStr(cc.List[0]), cc.Pos()).Unknown("clause of checkShow has an unrecognised shape")
			continue
		}
		for _, e := range cc.List {
			if v, ok := intValue(info, e); ok {
				for _, c := range classes {
					if c.ctxOnly != "" {
						if k := constOf(info, e); k == nil || k.Name() != c.ctxOnly {
							continue
						}
					}
					out[v] = append(out[v], c)
				}
			}
		}
	}
	return out, keyOut
}

// clauseRejects reports whether a clause returns a non-nil error (a rejection clause).
func clauseRejects(info *types.Info, k *ast.CaseClause) bool {
	rej := false
	for _, s := range k.Body {
		ast.Inspect(s, func(n ast.Node) bool {
			if rs, ok := n.(*ast.ReturnStmt); ok && len(rs.Results) > 0 {
				last := rs.Results[len(rs.Results)-1]
				if tv, ok := info.Types[last]; !ok || !tv.IsNil() {
					if _, isCall := ast.Unparen(last).(*ast.CallExpr); isCall {
						rej = true
					}
				}
			}
			return true
		})
	}
	return rej
}

// classify turns one acceptance predicate into classes.
func (x *c09) classify(info *types.Info, fi *FuncInfo, e ast.Expr) ([]showClass, bool) {
	e = ast.Unparen(e)
	// ctx == ast.ContextX && P
	if b, ok := e.(*ast.BinaryExpr); ok && b.Op == token.LAND {
		for i, side := range []ast.Expr{b.X, b.Y} {
			if cmp, ok := ast.Unparen(side).(*ast.BinaryExpr); ok && cmp.Op == token.EQL {
				if t := info.TypeOf(cmp.X); t != nil && types.Identical(t, x.ctxT) {
					if k := constOf(info, cmp.Y); k != nil {
						other := b.Y
						if i == 1 {
							other = b.X
						}
						cl, ok := x.classify(info, fi, other)
						for j := range cl {
							cl[j].ctxOnly = k.Name()
						}
						return cl, ok
					}
				}
			}
		}
	}
	// pure predicate over a reflect.Kind variable
	var kindVar types.Object
	pure := true
	ast.Inspect(e, func(n ast.Node) bool {
		if id, ok := n.(*ast.Ident); ok {
			if v, ok := info.Uses[id].(*types.Var); ok {
				if types.Identical(v.Type(), x.kindT) {
					if kindVar != nil && kindVar != v {
						pure = false
					}
					kindVar = v
				} else {
					pure = false
				}
			}
		}
		return true
	})
	if kindVar != nil && pure {
		set, ok := predSet(info, e, isIdentOf(info, kindVar), 0, x.maxKind)
		if !ok {
			return nil, false
		}
		subj := x.subjectOfKindVar(info, fi, kindVar)
		var out []showClass
		for k := int64(0); k <= x.maxKind; k++ {
			if set[k] {
				out = append(out, showClass{what: "kind", kind: k, subject: subj, pos: e.Pos()})
			}
		}
		return out, true
	}
	// t == someType
	if b, ok := e.(*ast.BinaryExpr); ok && b.Op == token.EQL {
		if t := x.reflectTypeVar(info, b.Y); t != nil {
			return []showClass{{what: "exact", typ: t, subject: exprStr(b.X), pos: e.Pos()}}, true
		}
	}
	// t.Implements(someType)
	if c, ok := e.(*ast.CallExpr); ok && len(c.Args) == 1 {
		if sel, ok := c.Fun.(*ast.SelectorExpr); ok && sel.Sel.Name == "Implements" {
			if t := x.reflectTypeVar(info, c.Args[0]); t != nil {
				return []showClass{{what: "impl", typ: t, subject: exprStr(sel.X), pos: e.Pos()}}, true
			}
		}
	}
	return nil, false
}

// subjectOfKindVar finds what the kind variable is the kind of: "t" for kind := t.Kind().
func (x *c09) subjectOfKindVar(info *types.Info, fi *FuncInfo, v types.Object) string {
	subj := "?"
	ast.Inspect(fi.Decl.Body, func(n ast.Node) bool {
		if as, ok := n.(*ast.AssignStmt); ok && len(as.Lhs) == 1 && len(as.Rhs) == 1 {
			if id, ok := as.Lhs[0].(*ast.Ident); ok && (info.Defs[id] == v || info.Uses[id] == v) {
				if c, ok := as.Rhs[0].(*ast.CallExpr); ok {
					if sel, ok := c.Fun.(*ast.SelectorExpr); ok && sel.Sel.Name == "Kind" {
						subj = exprStr(sel.X)
					}
				}
			}
		}
		return true
	})
	return subj
}

// reflectTypeVar resolves a package-level variable initialised with reflect.TypeFor[T]() to T.
func (x *c09) reflectTypeVar(info *types.Info, e ast.Expr) types.Type {
	id, ok := ast.Unparen(e).(*ast.Ident)
	if !ok {
		return nil
	}
	v, ok := info.Uses[id].(*types.Var)
	if !ok || v.Pkg() == nil || v.Parent() != v.Pkg().Scope() {
		return nil
	}
	rel := strings.TrimPrefix(strings.TrimPrefix(v.Pkg().Path(), modulePath), "/")
	init, _, pk := x.r.P.pkgVarInit(rel, v.Name())
	if init == nil {
		return nil
	}
	c, ok := init.(*ast.CallExpr)
	if !ok {
		return nil
	}
	ix, ok := c.Fun.(*ast.IndexExpr)
	if !ok {
		return nil
	}
	if f, ok := pk.TypesInfo.Uses[selIdent(ix.X)].(*types.Func); !ok || f.Pkg().Path() != "reflect" || f.Name() != "TypeFor" {
		return nil
	}
	return pk.TypesInfo.TypeOf(ix.Index)
}

func selIdent(e ast.Expr) *ast.Ident {
	switch x := e.(type) {
	case *ast.Ident:
		return x
	case *ast.SelectorExpr:
		return x.Sel
	}
	return nil
}

// acceptRecursive reads checkShowJS/JSON: `if P1 || P2 ... { return nil }` then `switch kind {…}`.
// Returns the classes accepted for the value and those accepted for a map key.
func (x *c09) acceptRecursive(fi *FuncInfo) (classes, keys []showClass) {
	r := x.r
	info := fi.Pkg.TypesInfo
	for _, st := range fi.Decl.Body.List {
		switch s := st.(type) {
		case *ast.IfStmt:
			// accept-if: body is `return nil`
			if len(s.Body.List) == 1 {
				if rs, ok := s.Body.List[0].(*ast.ReturnStmt); ok && len(rs.Results) == 1 {
					if tv := info.Types[rs.Results[0]]; tv.IsNil() {
						if c, ok := ast.Unparen(s.Cond).(*ast.CallExpr); ok {
							if f := callee(info, c); f != nil && f.Name() == "Contains" {
								continue // recursion guard on the visited list
							}
						}
						for _, d := range splitOr(s.Cond) {
							cl, ok := x.classify(info, fi, d)
							if !ok {
								r.Ob("R-1", "accept:"+fi.Decl.Name.Name+":"+exprStr(d), d.Pos()).Unknown("unrecognised acceptance predicate")
								continue
							}
							classes = append(classes, cl...)
						}
					}
				}
			}
		case *ast.SwitchStmt:
			if s.Tag == nil || !types.Identical(info.TypeOf(s.Tag), x.kindT) {
				continue
			}
			subj := "?"
			if id, ok := s.Tag.(*ast.Ident); ok {
				subj = x.subjectOfKindVar(info, fi, info.Uses[id])
			}
			for _, c2 := range s.Body.List {
				k := c2.(*ast.CaseClause)
				if k.List == nil {
					continue
				}
				// composite kinds are accepted when their parts are (the same function recursively):
				// the class is accepted for the purpose of inclusion.
				for _, e := range k.List {
					if v, ok := intValue(info, e); ok {
						classes = append(classes, showClass{what: "kind", kind: v, subject: subj, pos: e.Pos()})
					}
				}
				// the map clause: key classes from the tagless switch inside
				for _, inner := range k.Body {
					if ts, ok := inner.(*ast.SwitchStmt); ok && ts.Tag == nil {
						for _, c3 := range ts.Body.List {
							kk := c3.(*ast.CaseClause)
							if kk.List == nil || clauseRejects(info, kk) {
								continue
							}
							for _, e := range kk.List {
								cl, ok := x.classify(info, fi, e)
								if !ok {
									r.Ob("R-1", "accept-key:"+fi.Decl.Name.Name+":"+exprStr(e), e.Pos()).Unknown("unrecognised key acceptance predicate")
									continue
								}
								keys = append(keys, cl...)
							}
						}
					}
				}
			}
		}
	}
	return
}

// handled describes what a show function handles without reaching the "cannot show" error.
type handled struct {
	ifaces    []types.Type // interface types with a clause in the leading type switch
	exacts    []types.Type // concrete types with a clause
	failKinds map[int64]bool
	note      string
}

// failing kinds of toString: kinds without a clause, or whose clause returns a non-nil error.
func (x *c09) toStringFail(fi *FuncInfo) (map[int64]bool, bool) {
	info := fi.Pkg.TypesInfo
	sws := switchesOn(info, fi.Decl.Body, x.kindT)
	if len(sws) != 1 {
		return nil, false
	}
	cov := coverOfSwitch(info, sws[0])
	fail := map[int64]bool{}
	for k := int64(0); k <= x.maxKind; k++ {
		cl := cov.Vals[k]
		if cl == nil {
			if cov.Default == nil || clauseRejects(info, cov.Default) {
				fail[k] = true
			}
		} else if clauseRejects(info, cl) {
			fail[k] = true
		}
	}
	return fail, true
}

// analyseShow computes the handled classes of a showIn* function. keyMode analyses the
// map-key conversion inside its reflect.Map clause instead of the function itself.
func (x *c09) analyseShow(fi *FuncInfo, keyMode bool) (*handled, string) {
	r := x.r
	info := fi.Pkg.TypesInfo
	ts := r.P.Func("internal/runtime", "toString")
	if ts == nil {
		return nil, "toString not found"
	}
	tsFail, ok := x.toStringFail(ts)
	if !ok {
		return nil, "toString has no single switch on reflect.Kind"
	}
	h := &handled{failKinds: map[int64]bool{}}
	var scope ast.Node = fi.Decl.Body
	if keyMode {
		// the clause `case reflect.Map:` of the kind switch
		scope = nil
		for _, s := range switchesOn(info, fi.Decl.Body, x.kindT) {
			for _, st := range s.Body.List {
				cc := st.(*ast.CaseClause)
				for _, e := range cc.List {
					if k := constOf(info, e); k != nil && k.Name() == "Map" {
						scope = cc
					}
				}
			}
		}
		if scope == nil {
			return nil, "no reflect.Map clause"
		}
	}
	// leading type switch(es) directly in scope (not nested in kind-switch clauses unless keyMode)
	var kindSwitch *ast.SwitchStmt
	callsToString := false
	var visit func(n ast.Node, depth int)
	visit = func(n ast.Node, depth int) {
		ast.Inspect(n, func(m ast.Node) bool {
			switch s := m.(type) {
			case *ast.FuncLit:
				return false
			case *ast.TypeSwitchStmt:
				for _, st := range s.Body.List {
					cc := st.(*ast.CaseClause)
					for _, te := range cc.List {
						t := info.TypeOf(te)
						if t == nil {
							continue
						}
						if _, isI := t.Underlying().(*types.Interface); isI {
							h.ifaces = append(h.ifaces, t)
						} else if _, isNil := t.(*types.Basic); !isNil || t != types.Typ[types.UntypedNil] {
							h.exacts = append(h.exacts, t)
						}
					}
				}
			case *ast.SwitchStmt:
				if !keyMode && s.Tag != nil && types.Identical(info.TypeOf(s.Tag), x.kindT) && kindSwitch == nil {
					kindSwitch = s
					return false // analysed below
				}
			case *ast.TypeAssertExpr:
				// v, ok := x.(T): the same as a type-switch clause for T
				if s.Type != nil {
					if t := info.TypeOf(s.Type); t != nil {
						if _, isI := t.Underlying().(*types.Interface); isI {
							h.ifaces = append(h.ifaces, t)
						} else {
							h.exacts = append(h.exacts, t)
						}
					}
				}
			case *ast.CallExpr:
				f := callee(info, s)
				if f != nil && f == ts.Obj && (keyMode || depth > 0 || x.argIsParam(info, fi, s)) {
					callsToString = true
				}
				// helper functions of the same package (e.g. a shared key-to-string conversion): what they
				// handle counts; the show dispatchers themselves are not followed (they recurse on elements)
				if f != nil && f != ts.Obj && f.Pkg() == fi.Obj.Pkg() && depth < 2 && keyMode && !strings.HasPrefix(f.Name(), "showIn") {
					if hf := r.P.Func("internal/runtime", f.Name()); hf != nil && hf.Obj == f {
						visit(hf.Decl.Body, depth+1)
					}
				}
			case *ast.BinaryExpr:
				// v.Type() == byteSliceType idiom
				if s.Op == token.EQL {
					if t := x.reflectTypeVar(info, s.Y); t != nil {
						h.exacts = append(h.exacts, t)
					}
				}
			}
			return true
		})
	}
	visit(scope, 0)
	if kindSwitch != nil {
		cov := coverOfSwitch(info, kindSwitch)
		defCalls := false
		if cov.Default != nil {
			for _, c := range calls(cov.Default, false) {
				if f := callee(info, c); f == ts.Obj && x.argIsParam(info, fi, c) {
					defCalls = true
				}
			}
		}
		for k := int64(0); k <= x.maxKind; k++ {
			cl := cov.Vals[k]
			viaToString := false
			if cl != nil {
				for _, c := range calls(cl, false) {
					if f := callee(info, c); f == ts.Obj && x.argIsParam(info, fi, c) {
						viaToString = true
					}
				}
			} else if defCalls || (cov.Default == nil && callsToString) {
				viaToString = true
			}
			if (viaToString || (callsToString && cl == nil && cov.Default == nil)) && tsFail[k] {
				h.failKinds[k] = true
			}
		}
		// a toString call outside the kind switch (before it) applies to every kind
		if callsToString {
			for k := range tsFail {
				h.failKinds[k] = true
			}
		}
		h.note = "own kind switch"
	} else if callsToString {
		for k := range tsFail {
			h.failKinds[k] = true
		}
		h.note = "kinds via toString"
	} else {
		h.note = "no path to toString"
	}
	return h, ""
}

func (x *c09) checkInclusion(rule, ctxName string, acc []showClass, fi *FuncInfo, keyMode bool) {
	r := x.r
	h, why := x.analyseShow(fi, keyMode)
	if h == nil {
		r.Ob(rule, "ctx:"+ctxName+":"+fi.Decl.Name.Name, fi.Decl.Pos()).Unknown("cannot analyse %s: %s", fi.Name(), why)
		return
	}
	// expected subject of the predicates
	seen := map[string]bool{}
	sort.SliceStable(acc, func(i, j int) bool { return acc[i].String() < acc[j].String() })
	for _, c := range acc {
		key := "ctx:" + ctxName + ":" + c.String()
		if seen[key] {
			continue
		}
		seen[key] = true
		o := r.Ob(rule, key, c.pos)
		if keyMode && c.subject != "t.Key()" {
			o.Bad("the key acceptance predicate examines %q, not the key type t.Key(): any key type is accepted when the map type itself satisfies it, and %s's key conversion then fails in toString", c.subject, fi.Name())
			continue
		}
		switch c.what {
		case "kind":
			if h.failKinds[c.kind] {
				o.Bad("kind %s is accepted statically in %s but %s reaches toString, which has no clause for it ('cannot show value of type …')", kindName(c.kind), ctxName, fi.Name())
			} else {
				o.OK("kind %s handled by %s (%s)", kindName(c.kind), fi.Name(), h.note)
			}
		case "impl":
			ok := false
			ci, _ := c.typ.Underlying().(*types.Interface)
			for _, t := range h.ifaces {
				hi := t.Underlying().(*types.Interface)
				// a value implementing c.typ matches clause t when c.typ's method set includes t's
				if ci != nil && types.Implements(c.typ, hi) {
					ok = true
				}
			}
			if ok {
				o.OK("interface %s matched by a type-switch clause of %s", typeStr(c.typ), fi.Name())
			} else if len(h.failKinds) == 0 {
				o.OK("%s cannot reach the 'cannot show' error for any kind (%s)", fi.Name(), h.note)
			} else {
				o.Bad("types implementing %s are accepted in %s but %s has no type-switch clause for it; a value whose kind is in %s fails", typeStr(c.typ), ctxName, fi.Name(), kindSetStr(h.failKinds))
			}
		case "exact":
			ok := false
			for _, t := range h.exacts {
				if types.Identical(t, c.typ) {
					ok = true
				}
			}
			for _, t := range h.ifaces {
				if types.Implements(c.typ, t.Underlying().(*types.Interface)) {
					ok = true
				}
			}
			if !ok {
				if k, known := kindOfType(c.typ); known && !h.failKinds[k] {
					ok = true
				}
			}
			if ok {
				o.OK("type %s handled by %s", typeStr(c.typ), fi.Name())
			} else {
				o.Bad("type %s accepted in %s but not handled by %s", typeStr(c.typ), ctxName, fi.Name())
			}
		}
	}
}

func kindSetStr(m map[int64]bool) string {
	var s []string
	for k := range m {
		s = append(s, kindName(k))
	}
	sort.Strings(s)
	return "{" + strings.Join(s, " ") + "}"
}

// kindOfType maps a go/types type to its reflect.Kind number (by name lookup in kindNames).
func kindOfType(t types.Type) (int64, bool) {
	name := ""
	switch u := t.Underlying().(type) {
	case *types.Slice:
		name = "Slice"
	case *types.Struct:
		name = "Struct"
	case *types.Map:
		name = "Map"
	case *types.Array:
		name = "Array"
	case *types.Pointer:
		name = "Pointer"
	case *types.Basic:
		name = strings.Title(u.Name())
	}
	for k, n := range kindNames {
		if n == name {
			return k, true
		}
	}
	return 0, false
}

// argIsParam reports whether the toString call converts the shown value itself (an argument that is
// one of fi's parameters, possibly re-assigned), as opposed to a map key or another derived value.
func (x *c09) argIsParam(info *types.Info, fi *FuncInfo, c *ast.CallExpr) bool {
	if len(c.Args) == 0 {
		return false
	}
	id, ok := ast.Unparen(c.Args[len(c.Args)-1]).(*ast.Ident)
	if !ok {
		return false
	}
	v, ok := info.Uses[id].(*types.Var)
	if !ok {
		return false
	}
	sig := fi.Obj.Type().(*types.Signature)
	for i := 0; i < sig.Params().Len(); i++ {
		if sig.Params().At(i) == v {
			return true
		}
	}
	return false
}
