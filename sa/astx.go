package main

// Typed-AST helpers shared by the rules (engines E1, E9, E10 of DESIGN.md §4).

import (
	"fmt"
	"go/ast"
	"go/constant"
	"go/token"
	"go/types"
	"sort"
	"strings"

	"golang.org/x/tools/go/packages"
	"golang.org/x/tools/go/types/typeutil"
)

// named looks up a named type in a module package.
func (p *Prog) Named(rel, name string) *types.Named {
	pk := p.Pkg(rel)
	if pk == nil {
		return nil
	}
	o := pk.Types.Scope().Lookup(name)
	if o == nil {
		return nil
	}
	n, _ := o.Type().(*types.Named)
	return n
}

// ExtNamed looks up a named type in any loaded package by import path (e.g. "reflect", "Kind").
func (p *Prog) ExtNamed(path, name string) *types.Named {
	for _, pk := range p.all {
		if pk.PkgPath == path && pk.Types != nil {
			if o := pk.Types.Scope().Lookup(name); o != nil {
				n, _ := o.Type().(*types.Named)
				return n
			}
		}
	}
	return nil
}

// EnumConsts returns the package-level constants whose type is exactly t, sorted by value then name.
func EnumConsts(t *types.Named) []*types.Const {
	var out []*types.Const
	sc := t.Obj().Pkg().Scope()
	for _, n := range sc.Names() {
		if c, ok := sc.Lookup(n).(*types.Const); ok && types.Identical(c.Type(), t) {
			out = append(out, c)
		}
	}
	sort.Slice(out, func(i, j int) bool {
		a, _ := constant.Int64Val(out[i].Val())
		b, _ := constant.Int64Val(out[j].Val())
		if a != b {
			return a < b
		}
		return out[i].Name() < out[j].Name()
	})
	return out
}

// constOf resolves e to the named constant it denotes (through parens), or nil.
func constOf(info *types.Info, e ast.Expr) *types.Const {
	e = ast.Unparen(e)
	switch x := e.(type) {
	case *ast.Ident:
		c, _ := info.Uses[x].(*types.Const)
		return c
	case *ast.SelectorExpr:
		c, _ := info.Uses[x.Sel].(*types.Const)
		return c
	}
	return nil
}

// intValue returns the exact integer value of a constant expression.
func intValue(info *types.Info, e ast.Expr) (int64, bool) {
	tv, ok := info.Types[e]
	if !ok || tv.Value == nil {
		return 0, false
	}
	v := constant.ToInt(tv.Value)
	if v.Kind() != constant.Int {
		return 0, false
	}
	return constant.Int64Val(v)
}

func stringValue(info *types.Info, e ast.Expr) (string, bool) {
	tv, ok := info.Types[e]
	if !ok || tv.Value == nil || tv.Value.Kind() != constant.String {
		return "", false
	}
	return constant.StringVal(tv.Value), true
}

// caseValues returns, for a value switch, the map clause -> integer values of its case list,
// plus whether the switch has a default clause.
type switchCover struct {
	Vals     map[int64]*ast.CaseClause // first clause listing the value
	Dups     []int64
	Default  *ast.CaseClause
	NonConst []ast.Expr
}

func coverOfSwitch(info *types.Info, s *ast.SwitchStmt) *switchCover {
	c := &switchCover{Vals: map[int64]*ast.CaseClause{}}
	for _, st := range s.Body.List {
		cc := st.(*ast.CaseClause)
		if cc.List == nil {
			c.Default = cc
			continue
		}
		for _, e := range cc.List {
			v, ok := intValue(info, e)
			if !ok {
				c.NonConst = append(c.NonConst, e)
				continue
			}
			if _, dup := c.Vals[v]; dup {
				c.Dups = append(c.Dups, v)
				continue
			}
			c.Vals[v] = cc
		}
	}
	return c
}

// switchesOn finds every value switch in body whose tag has type t (identical).
func switchesOn(info *types.Info, body ast.Node, t types.Type) []*ast.SwitchStmt {
	var out []*ast.SwitchStmt
	ast.Inspect(body, func(n ast.Node) bool {
		if s, ok := n.(*ast.SwitchStmt); ok && s.Tag != nil {
			if tt := info.TypeOf(s.Tag); tt != nil && types.Identical(tt, t) {
				out = append(out, s)
			}
		}
		return true
	})
	return out
}

// callee resolves the static callee of a call (function, method, or nil for dynamic calls / conversions).
func callee(info *types.Info, call *ast.CallExpr) *types.Func {
	f, _ := typeutil.Callee(info, call).(*types.Func)
	return f
}

// isBuiltinCall reports whether call invokes the named builtin.
func isBuiltinCall(info *types.Info, call *ast.CallExpr, name string) bool {
	id, ok := ast.Unparen(call.Fun).(*ast.Ident)
	if !ok || id.Name != name {
		return false
	}
	_, ok = info.Uses[id].(*types.Builtin)
	return ok
}

// isPkgFunc reports whether fn is function pkgPath.name (or method recv.name when recv != "").
func isPkgFunc(fn *types.Func, pkgPath, recv, name string) bool {
	if fn == nil || fn.Name() != name || fn.Pkg() == nil || fn.Pkg().Path() != pkgPath {
		return false
	}
	sig := fn.Type().(*types.Signature)
	if recv == "" {
		return sig.Recv() == nil
	}
	if sig.Recv() == nil {
		return false
	}
	t := sig.Recv().Type()
	if pt, ok := t.(*types.Pointer); ok {
		t = pt.Elem()
	}
	nt, ok := t.(*types.Named)
	return ok && nt.Obj().Name() == recv
}

// calls lists every call expression inside n (not descending into function literals unless lits is true).
func calls(n ast.Node, lits bool) []*ast.CallExpr {
	var out []*ast.CallExpr
	ast.Inspect(n, func(m ast.Node) bool {
		if _, ok := m.(*ast.FuncLit); ok && !lits && m != n {
			return false
		}
		if c, ok := m.(*ast.CallExpr); ok {
			out = append(out, c)
		}
		return true
	})
	return out
}

// exprStr renders an expression compactly (types.ExprString elides literals; good enough for keys).
func exprStr(e ast.Expr) string { return types.ExprString(e) }

// implementers returns the named types T of package pk such that T or *T implements iface,
// as the concrete type (T or *T) that does.
func implementers(pk *packages.Package, iface *types.Interface) []types.Type {
	var out []types.Type
	sc := pk.Types.Scope()
	for _, n := range sc.Names() {
		tn, ok := sc.Lookup(n).(*types.TypeName)
		if !ok || tn.IsAlias() {
			continue
		}
		t := tn.Type()
		if _, isIface := t.Underlying().(*types.Interface); isIface {
			continue
		}
		if types.Implements(t, iface) {
			out = append(out, t)
		} else if pt := types.NewPointer(t); types.Implements(pt, iface) {
			out = append(out, pt)
		}
	}
	return out
}

func typeStr(t types.Type) string {
	return types.TypeString(t, func(p *types.Package) string { return relOf(p) })
}

// enclosingFunc finds the FuncDecl of pk containing pos.
func (p *Prog) enclosingFunc(pk *packages.Package, pos token.Pos) *FuncInfo {
	for _, f := range pk.Syntax {
		if f.Pos() <= pos && pos < f.End() {
			for _, d := range f.Decls {
				if fd, ok := d.(*ast.FuncDecl); ok && fd.Pos() <= pos && pos < fd.End() {
					obj, _ := pk.TypesInfo.Defs[fd.Name].(*types.Func)
					return &FuncInfo{Pkg: pk, File: f, Decl: fd, Obj: obj}
				}
			}
		}
	}
	return nil
}

// pkgLevelVar finds a package-level variable's ValueSpec and value expression.
func (p *Prog) pkgVarInit(rel, name string) (ast.Expr, *types.Var, *packages.Package) {
	pk := p.Pkg(rel)
	if pk == nil {
		return nil, nil, nil
	}
	for _, f := range pk.Syntax {
		for _, d := range f.Decls {
			gd, ok := d.(*ast.GenDecl)
			if !ok || gd.Tok != token.VAR {
				continue
			}
			for _, sp := range gd.Specs {
				vs := sp.(*ast.ValueSpec)
				for i, id := range vs.Names {
					if id.Name == name {
						v, _ := pk.TypesInfo.Defs[id].(*types.Var)
						if i < len(vs.Values) {
							return vs.Values[i], v, pk
						}
						return nil, v, pk
					}
				}
			}
		}
	}
	return nil, nil, pk
}

// keyedElems returns key value -> element for a keyed array/slice/map composite literal with constant integer keys.
func keyedElems(info *types.Info, lit *ast.CompositeLit) (map[int64]ast.Expr, bool) {
	out := map[int64]ast.Expr{}
	next := int64(0)
	for _, el := range lit.Elts {
		if kv, ok := el.(*ast.KeyValueExpr); ok {
			k, ok := intValue(info, kv.Key)
			if !ok {
				return nil, false
			}
			out[k] = kv.Value
			next = k + 1
		} else {
			out[next] = el
			next++
		}
	}
	return out, true
}

func names(cs []*types.Const) string {
	var s []string
	for _, c := range cs {
		s = append(s, c.Name())
	}
	return strings.Join(s, ",")
}

func fmtSet[T any](xs []T) string {
	var s []string
	for _, x := range xs {
		s = append(s, fmt.Sprint(x))
	}
	sort.Strings(s)
	return "{" + strings.Join(s, " ") + "}"
}

func constantInt64(c *types.Const) (int64, bool) {
	v := constant.ToInt(c.Val())
	if v.Kind() != constant.Int {
		return 0, false
	}
	return constant.Int64Val(v)
}
