package main

// C02 R-8 (added after seeded change C02-6): the value of a typed constant operation is checked against its
// type for every arithmetic operator.
//
// "The values of typed constants must always be accurately representable by values of the constant type"
// (Go specification, Constant expressions). In the type checker, the result of a call of the constant
// interface's binary or unary operation that is held in a local is handed to the representability method of
// that local (`c, err = c.representedBy(T)`). The conditions under which that call is skipped may speak of the
// operand's typedness and of the operators whose result is a boolean, but not of an arithmetic operator
// (+ - * / % & | ^ &^ << >>, table of R-2): an arithmetic operator excluded by the guard leaves its typed
// result unchecked, and int32(-2147483648) / -1 folds to a value outside its type. A boolean local of the
// guard is followed to its definitions. The rule decides that no arithmetic operator is exempted, not that
// the check itself is right (R-1).

import (
	"go/ast"
	"go/types"
)

func init() {
	p := registry["C02"]
	if p == nil {
		return
	}
	run := p.run
	p.run = func(r *Run) {
		run(r)
		if r.P.Arch != "" {
			return
		}
		if x := c02Context(r); x != nil {
			c02NoOperatorExempt(x)
		}
	}
	p.explain += " R-8: in the type checker, the guards of the representability check applied to the result of a constant binary/unary operation mention no arithmetic operator (none is exempted from the check)."
	p.notCov = append(p.notCov, "R-8: results that reach the representability method through a field or another function; guards that exempt an operator through a table built elsewhere")
}

func c02NoOperatorExempt(x *c02) {
	const R = "R-8"
	r := x.r
	r.Require(R, 1)
	errT := types.Universe.Lookup("error").Type()
	arith := map[string]bool{}
	for _, n := range c02Cat(c02Arith, c02IntOps, c02Shifts) {
		arith[n] = true
	}
	roleOf := func(call *ast.CallExpr) (string, *ast.SelectorExpr) {
		sel, ok := ast.Unparen(call.Fun).(*ast.SelectorExpr)
		if !ok {
			return "", nil
		}
		f, ok := x.info.Uses[sel.Sel].(*types.Func)
		if !ok {
			return "", nil
		}
		sig := f.Type().(*types.Signature)
		if sig.Recv() == nil || !types.Identical(sig.Recv().Type(), x.iface) {
			return "", nil
		}
		return x.role(sig, x.iface, errT), sel
	}
	implMethod := map[*types.Func]bool{}
	for _, im := range x.impls {
		for _, fi := range []*FuncInfo{im.binary, im.unary, im.repr} {
			if fi != nil && fi.Obj != nil {
				implMethod[fi.Obj] = true
			}
		}
	}
	for _, f := range r.P.Funcs("internal/compiler") {
		if r.P.isTestFile(f.File) || f.Decl.Body == nil || implMethod[f.Obj] {
			continue
		}
		// locals holding the result of a constant operation
		opRes := map[types.Object]bool{}
		ast.Inspect(f.Decl.Body, func(n ast.Node) bool {
			as, ok := n.(*ast.AssignStmt)
			if !ok || len(as.Rhs) != 1 || len(as.Lhs) != 2 {
				return true
			}
			call, ok := ast.Unparen(as.Rhs[0]).(*ast.CallExpr)
			if !ok {
				return true
			}
			if role, _ := roleOf(call); role != "binary" && role != "unary" {
				return true
			}
			if id, ok := as.Lhs[0].(*ast.Ident); ok {
				if o := x.info.Defs[id]; o != nil {
					opRes[o] = true
				} else if o := x.info.Uses[id]; o != nil {
					opRes[o] = true
				}
			}
			return true
		})
		if len(opRes) == 0 {
			continue
		}
		par := r.P.Parents(f.File)
		// definitions of boolean locals
		boolDef := map[types.Object][]ast.Expr{}
		ast.Inspect(f.Decl.Body, func(n ast.Node) bool {
			as, ok := n.(*ast.AssignStmt)
			if !ok || len(as.Lhs) != len(as.Rhs) {
				return true
			}
			for i, l := range as.Lhs {
				id, ok := l.(*ast.Ident)
				if !ok {
					continue
				}
				o := x.info.Defs[id]
				if o == nil {
					o = x.info.Uses[id]
				}
				if o != nil {
					if b, ok := o.Type().Underlying().(*types.Basic); ok && b.Info()&types.IsBoolean != 0 {
						boolDef[o] = append(boolDef[o], as.Rhs[i])
					}
				}
			}
			return true
		})
		var mention func(e ast.Expr, depth int) string
		mention = func(e ast.Expr, depth int) string {
			found := ""
			ast.Inspect(e, func(n ast.Node) bool {
				if found != "" {
					return false
				}
				if ix, ok := n.(*ast.IndexExpr); ok {
					// a table indexed by the operator (the boolean-result operators): not an operator named by the guard
					if tv, ok := x.info.Types[ix.Index]; ok && types.Identical(tv.Type, x.opT) {
						return false
					}
				}
				id, ok := n.(*ast.Ident)
				if !ok {
					return true
				}
				switch o := x.info.Uses[id].(type) {
				case *types.Const:
					if types.Identical(o.Type(), x.opT) && arith[o.Name()] {
						found = o.Name()
					}
				case *types.Var:
					if depth < 3 {
						for _, d := range boolDef[o] {
							if m := mention(d, depth+1); m != "" {
								found = m
								break
							}
						}
					}
				}
				return true
			})
			return found
		}
		ast.Inspect(f.Decl.Body, func(n ast.Node) bool {
			call, ok := n.(*ast.CallExpr)
			if !ok {
				return true
			}
			role, sel := roleOf(call)
			if role != "repr" {
				return true
			}
			id, ok := ast.Unparen(sel.X).(*ast.Ident)
			if !ok || !opRes[x.info.Uses[id]] {
				return true
			}
			o := r.Ob(R, f.Name()+"#repr-of-operation:"+id.Name, call.Pos())
			bad := ""
			for p := par[ast.Node(call)]; p != nil && p != ast.Node(f.Decl.Body); p = par[p] {
				switch s := p.(type) {
				case *ast.IfStmt:
					if m := mention(s.Cond, 0); m != "" && bad == "" {
						bad = m
					}
				case *ast.CaseClause:
					for _, e := range s.List {
						if m := mention(e, 0); m != "" && bad == "" {
							bad = m
						}
					}
				}
			}
			if bad != "" {
				o.Bad("the representability check of the result of a constant operation is guarded by a condition that names the arithmetic operator %s: the typed result of that operator is (or only that of the others is) left unchecked against its type", bad)
			} else {
				o.OK("no guard of the representability check names an arithmetic operator: the typed result of every arithmetic operator is checked")
			}
			return true
		})
	}
}
