package main

// C24 — HTMLEscape escapes exactly the five HTML-significant characters.
//
// R-1 two-pass agreement (E9): in the exported HTML escaper of the root package, the counting switch
//     and the writing switch have the same case set, equal to {< > & " '}; for each character the
//     written literal decodes (html.UnescapeString, applied to the literal read from the source) to
//     the character; the output index advances by the literal's length; the counted increment is the
//     literal's length minus the one byte replaced; the default clause of the writing switch copies
//     the byte and advances by one; the buffer is make([]byte, len(s)+n).
// R-2 builtin.HtmlEscape passes its parameter unchanged to that function and returns its result.

import (
	"fmt"
	"go/ast"
	"go/token"
	"go/types"
	"html"
	"sort"
	"strings"
)

func init() {
	register("C24", &ruleSet{
		explain: "Necessary conditions of 'HTMLEscape(s) is s with each of < > & \" ' replaced by its entity and nothing else changed', read from the two switches of scriggo.HTMLEscape: (R-1) both switches are over a byte of s and list exactly the five characters; each written literal is a character reference of its case character (html.UnescapeString on the literal); the output index advances by exactly the literal's length and the first pass counts exactly length-1 extra bytes for it; the default clause of the writing pass stores the byte itself and advances by one; the buffer has len(s)+n bytes where n is the counted total. (R-2) builtin.HtmlEscape is a pure forwarder.",
		notCov:  []string{"the early-exit bookkeeping (j, n <= 4, the final copy of the tail): positional arithmetic", "that n is the only thing the first pass accumulates into the size"},
		trusted: []string{"html.UnescapeString of the Go standard library as the HTML entity decoder"},
		run:     runC24,
	})
}

var c24Five = map[int64]bool{'<': true, '>': true, '&': true, '"': true, '\'': true}

type c24Clause struct {
	cc        *ast.CaseClause
	vals      []int64
	incObj    types.Object // variable incremented
	inc       int64
	incByCopy bool // j += copy(dst, lit)
	lit       string
	hasLit    bool
	litPos    token.Pos
	dst       types.Object // buffer written
	dstIdx    types.Object // index variable in b[j:]
	byteCopy  bool         // b[j] = c
	other     []ast.Stmt   // statements not understood
}

type c24Switch struct {
	sw      *ast.SwitchStmt
	clauses []*c24Clause
	deflt   *c24Clause
}

func runC24(r *Run) {
	const R1, R2 = "R-1", "R-2"
	r.Exhaust = true
	// anchor by role: exported function of the root package, one string parameter, result native.HTML
	var cands []*FuncInfo
	for _, fi := range r.P.Funcs("") {
		if r.P.isTestFile(fi.File) || fi.Obj == nil || !fi.Obj.Exported() || fi.Decl.Recv != nil {
			continue
		}
		sig := fi.Obj.Type().(*types.Signature)
		if sig.Params().Len() != 1 || sig.Results().Len() != 1 || c07StrParam(fi) == nil {
			continue
		}
		if typeStr(sig.Results().At(0).Type()) == "native.HTML" {
			cands = append(cands, fi)
		}
	}
	if !r.Anchor(R1, "exported func(string) native.HTML of the root package (HTMLEscape)", len(cands) == 1) {
		return
	}
	fi := cands[0]
	if fi.Decl.Name.Name != "HTMLEscape" {
		r.Note("HTML escaper resolved by role to %s", fi.Name())
	}
	key := funcKey(fi.Obj)
	info := fi.Pkg.TypesInfo
	subj := c07StrParam(fi)

	// switches over a byte of s
	var sws []*c24Switch
	ast.Inspect(fi.Decl.Body, func(n ast.Node) bool {
		sw, ok := n.(*ast.SwitchStmt)
		if !ok || sw.Tag == nil {
			return true
		}
		if c24ByteOfSubj(info, sw, subj) {
			sws = append(sws, c24ReadSwitch(info, sw, subj))
		}
		return true
	})
	var count, write []*c24Switch
	for _, s := range sws {
		copies, incs := 0, 0
		for _, c := range s.clauses {
			if c.hasLit {
				copies++
			}
			if c.incObj != nil {
				incs++
			}
		}
		switch {
		case copies > 0:
			write = append(write, s)
		case incs > 0:
			count = append(count, s)
		}
	}
	if !(len(count) == 1 && len(write) == 1) && c24EntityForm(r, fi, subj, key) {
		// the escaper is written around one byte→entity function used by both passes
		c24Forwarders(r, fi)
		return
	}
	if !r.Anchor(R1, "one counting switch and one writing switch over a byte of the parameter in "+key+" (or one byte→entity function used by a counting and a writing loop)", len(count) == 1 && len(write) == 1) {
		return
	}
	cs, ws := count[0], write[0]

	// case sets
	for _, x := range []struct {
		name string
		s    *c24Switch
	}{{"count", cs}, {"write", ws}} {
		o := r.Ob(R1, key+"#caseset:"+x.name, x.s.sw.Pos())
		set := map[int64]bool{}
		nonconst := false
		for _, c := range x.s.clauses {
			for _, v := range c.vals {
				set[v] = true
			}
			if len(c.vals) != len(c.cc.List) {
				nonconst = true
			}
		}
		switch {
		case nonconst:
			o.Unknown("non-constant case value in the %s switch", x.name)
		case c07SetStr(set) != c07SetStr(c24Five):
			o.Bad("the %s switch handles %s; the five characters are %s (extra %s, missing %s)", x.name, c07SetStr(set), c07SetStr(c24Five), c07SetStr(c07Minus(set, c24Five)), c07SetStr(c07Minus(c24Five, set)))
		default:
			o.OK("the %s switch handles exactly %s", x.name, c07SetStr(set))
		}
	}

	// counter and index variables must be single
	var nObj, jObj, bObj types.Object
	consistent := true
	for _, c := range cs.clauses {
		if c.incObj == nil || len(c.other) > 0 || c.hasLit {
			r.Ob(R1, key+"#count-clause:"+c24Vals(c.vals), c.cc.Pos()).Unknown("clause of the counting switch is not a single constant increment")
			consistent = false
			continue
		}
		if nObj != nil && nObj != c.incObj {
			consistent = false
		}
		nObj = c.incObj
	}
	for _, c := range ws.clauses {
		if !c.hasLit || c.incObj == nil || len(c.other) > 0 {
			r.Ob(R1, key+"#write-clause:"+c24Vals(c.vals), c.cc.Pos()).Unknown("clause of the writing switch is not `copy(buf[j:], literal)` plus an advance of j")
			consistent = false
			continue
		}
		if (jObj != nil && jObj != c.incObj) || (bObj != nil && bObj != c.dst) || c.dstIdx != c.incObj {
			consistent = false
		}
		jObj, bObj = c.incObj, c.dst
	}
	if !consistent || nObj == nil || jObj == nil || bObj == nil {
		r.Ob(R1, key+"#variables", fi.Decl.Pos()).Unknown("the clauses do not use one counter, one buffer and one output index (the index advanced must be the one the literal is copied at)")
		return
	}

	// per character
	counted := map[int64]int64{}
	for _, c := range cs.clauses {
		for _, v := range c.vals {
			counted[v] = c.inc
		}
	}
	var chars []int64
	for v := range c24Five {
		chars = append(chars, v)
	}
	sort.Slice(chars, func(i, j int) bool { return chars[i] < chars[j] })
	for _, ch := range chars {
		var wc *c24Clause
		for _, c := range ws.clauses {
			for _, v := range c.vals {
				if v == ch {
					wc = c
				}
			}
		}
		name := fmt.Sprintf("0x%02x", ch)
		if wc == nil {
			continue // reported by caseset:write
		}
		o := r.Ob(R1, key+"#entity:"+name, wc.litPos)
		if got := html.UnescapeString(wc.lit); got == string(rune(ch)) && len(wc.vals) == 1 {
			o.OK("html.UnescapeString(%q) = %q", wc.lit, got)
		} else {
			o.Bad("for %s the writing pass copies %q, and html.UnescapeString gives %q (clause lists %d characters)", c07Ch(ch), wc.lit, got, len(wc.vals))
		}
		o = r.Ob(R1, key+"#advance:"+name, wc.cc.Pos())
		switch {
		case wc.incByCopy:
			o.OK("the index advances by the result of the copy of %q", wc.lit)
		case wc.inc == int64(len(wc.lit)):
			o.OK("len(%q) = %d = advance of %s", wc.lit, len(wc.lit), jObj.Name())
		default:
			o.Bad("for %s the literal %q has %d bytes but %s advances by %d: the output has a gap or an overwritten byte", c07Ch(ch), wc.lit, len(wc.lit), jObj.Name(), wc.inc)
		}
		o = r.Ob(R1, key+"#counted:"+name, cs.sw.Pos())
		cn, ok := counted[ch]
		switch {
		case !ok:
			o.Bad("%s is written as %q but not counted by the first pass", c07Ch(ch), wc.lit)
		case cn != int64(len(wc.lit))-1:
			o.Bad("for %s the first pass counts %d extra bytes but the literal %q replaces one byte by %d: the buffer of len(s)+n bytes is too %s", c07Ch(ch), cn, wc.lit, len(wc.lit), map[bool]string{true: "small", false: "large (trailing zero bytes)"}[cn < int64(len(wc.lit))-1])
		default:
			o.OK("counted %d = len(%q) - 1", cn, wc.lit)
		}
	}

	// default clause of the writing switch
	o := r.Ob(R1, key+"#default:write", ws.sw.Pos())
	switch d := ws.deflt; {
	case d == nil:
		o.Bad("the writing switch has no default clause: ordinary bytes are not copied")
	case !d.byteCopy || d.dst != bObj || d.dstIdx != jObj:
		o.pos(r, d.cc.Pos())
		o.Bad("the default clause does not store the current byte at %s[%s]", bObj.Name(), jObj.Name())
	case d.incObj != jObj || d.inc != 1 || d.hasLit:
		o.pos(r, d.cc.Pos())
		o.Bad("the default clause does not advance %s by exactly one after storing the byte", jObj.Name())
	case len(d.other) > 0:
		o.pos(r, d.cc.Pos())
		o.Unknown("the default clause has a statement the rule does not understand")
	default:
		o.pos(r, d.cc.Pos())
		o.OK("default: %s[%s] = the byte; %s advances by 1", bObj.Name(), jObj.Name(), jObj.Name())
	}
	// the default clause of the counting switch must not count
	o = r.Ob(R1, key+"#default:count", cs.sw.Pos())
	switch d := cs.deflt; {
	case d == nil:
		o.Trivial("no default clause in the counting switch")
	case d.incObj == nObj:
		o.pos(r, d.cc.Pos())
		o.Bad("the default clause of the counting switch adds %d to %s for an ordinary byte", d.inc, nObj.Name())
	default:
		o.pos(r, d.cc.Pos())
		o.OK("ordinary bytes add nothing to %s", nObj.Name())
	}

	want := map[int64]int64{}
	for _, c := range ws.clauses {
		for _, v := range c.vals {
			want[v] = int64(len(c.lit)) - 1
		}
	}
	c24BufferSize(r, key, fi, info, bObj, nObj, subj)
	c24CounterWrites(r, key, fi, nObj, subj, want, cs.sw)
	r.Require(R1, 5*3+5)

	c24Forwarders(r, fi)
}

// c24BufferSize: the output buffer is made once with len(s)+n bytes.
func c24BufferSize(r *Run, key string, fi *FuncInfo, info *types.Info, bObj, nObj types.Object, subj *types.Var) {
	const R1 = "R-1"
	o := r.Ob(R1, key+"#buffer-size", fi.Decl.Pos())
	var mk *ast.CallExpr
	nmk := 0
	ast.Inspect(fi.Decl.Body, func(n ast.Node) bool {
		switch x := n.(type) {
		case *ast.AssignStmt:
			for i, l := range x.Lhs {
				if id, ok := l.(*ast.Ident); ok && (info.Defs[id] == bObj || info.Uses[id] == bObj) && len(x.Lhs) == len(x.Rhs) {
					nmk++
					if c, ok := ast.Unparen(x.Rhs[i]).(*ast.CallExpr); ok && isBuiltinCall(info, c, "make") {
						mk = c
					}
				}
			}
		case *ast.ValueSpec:
			for i, id := range x.Names {
				if info.Defs[id] == bObj && i < len(x.Values) {
					nmk++
					if c, ok := ast.Unparen(x.Values[i]).(*ast.CallExpr); ok && isBuiltinCall(info, c, "make") {
						mk = c
					}
				}
			}
		}
		return true
	})
	switch {
	case mk == nil || nmk != 1 || len(mk.Args) != 2:
		o.Unknown("the buffer %s is not assigned exactly once from make([]byte, size)", bObj.Name())
	default:
		o.pos(r, mk.Pos())
		size := ast.Unparen(mk.Args[1])
		be, ok := size.(*ast.BinaryExpr)
		isLenS := func(e ast.Expr) bool {
			c, ok := ast.Unparen(e).(*ast.CallExpr)
			if !ok || !isBuiltinCall(info, c, "len") || len(c.Args) != 1 {
				return false
			}
			id, ok := ast.Unparen(c.Args[0]).(*ast.Ident)
			return ok && info.Uses[id] == subj
		}
		isN := func(e ast.Expr) bool {
			id, ok := ast.Unparen(e).(*ast.Ident)
			return ok && info.Uses[id] == nObj
		}
		switch {
		case ok && be.Op == token.ADD && ((isLenS(be.X) && isN(be.Y)) || (isN(be.X) && isLenS(be.Y))):
			o.OK("%s = make([]byte, %s): the length of the input plus the counted extra bytes", bObj.Name(), exprStr(size))
		case ok && (be.Op == token.ADD || be.Op == token.SUB || be.Op == token.MUL):
			o.Bad("the buffer has %s bytes, not len(%s)+%s", exprStr(size), subj.Name(), nObj.Name())
		default:
			o.Unknown("buffer size %s is not a sum the rule understands", exprStr(size))
		}
	}
}

// c24Forwarders is R-2: forwarders in package builtin
func c24Forwarders(r *Run, fi *FuncInfo) {
	const R2 = "R-2"
	nfw := 0
	for _, bf := range r.P.Funcs("builtin") {
		if r.P.isTestFile(bf.File) || bf.Obj == nil || !bf.Obj.Exported() || bf.Decl.Recv != nil {
			continue
		}
		binfo := bf.Pkg.TypesInfo
		var call *ast.CallExpr
		for _, c := range calls(bf.Decl.Body, true) {
			if callee(binfo, c) == fi.Obj {
				call = c
			}
		}
		if call == nil {
			continue
		}
		nfw++
		o := r.Ob(R2, funcKey(bf.Obj)+"#forwards", bf.Decl.Pos())
		bs := c07StrParam(bf)
		written := false
		ast.Inspect(bf.Decl.Body, func(n ast.Node) bool {
			switch x := n.(type) {
			case *ast.AssignStmt:
				for _, l := range x.Lhs {
					if id, ok := ast.Unparen(l).(*ast.Ident); ok && bs != nil && binfo.Uses[id] == bs {
						written = true
					}
				}
			case *ast.UnaryExpr:
				if id, ok := ast.Unparen(x.X).(*ast.Ident); ok && x.Op == token.AND && bs != nil && binfo.Uses[id] == bs {
					written = true
				}
			}
			return true
		})
		argOK := false
		if len(call.Args) == 1 && bs != nil {
			if id, ok := ast.Unparen(call.Args[0]).(*ast.Ident); ok && binfo.Uses[id] == bs {
				argOK = true
			}
		}
		retOK := false
		ast.Inspect(bf.Decl.Body, func(n ast.Node) bool {
			if rs, ok := n.(*ast.ReturnStmt); ok && len(rs.Results) == 1 {
				e := ast.Unparen(rs.Results[0])
				if c, ok := e.(*ast.CallExpr); ok && c != call && len(c.Args) == 1 {
					if tv, ok := binfo.Types[c.Fun]; ok && tv.IsType() {
						e = ast.Unparen(c.Args[0])
					}
				}
				if e == call {
					retOK = true
				}
			}
			return true
		})
		switch {
		case bs == nil:
			o.Unknown("%s has no single string parameter", bf.Name())
		case !argOK:
			o.Bad("%s calls %s with %s, not with its parameter %s unchanged", bf.Name(), fi.Name(), exprStr(call.Args[0]), bs.Name())
		case written:
			o.Bad("%s modifies its parameter %s before forwarding it", bf.Name(), bs.Name())
		case !retOK:
			o.Bad("%s does not return the result of %s directly", bf.Name(), fi.Name())
		default:
			o.OK("return %s(%s): parameter forwarded unchanged, result returned unchanged", fi.Name(), bs.Name())
		}
	}
	r.Anchor(R2, "a function of package builtin calling "+fi.Name(), nfw >= 1)
	r.Require(R2, 1)
}

func c24Vals(vs []int64) string {
	var s []string
	for _, v := range vs {
		s = append(s, fmt.Sprintf("0x%02x", v))
	}
	if len(s) == 0 {
		return "default"
	}
	return strings.Join(s, ",")
}

// c24ByteOfSubj: the switch tag is a byte of subj: `subj[i]`, or a variable defined from it in the
// switch's init statement or in the statement just before the switch.
func c24ByteOfSubj(info *types.Info, sw *ast.SwitchStmt, subj *types.Var) bool {
	isIdx := func(e ast.Expr) bool {
		ix, ok := ast.Unparen(e).(*ast.IndexExpr)
		if !ok {
			return false
		}
		id, ok := ast.Unparen(ix.X).(*ast.Ident)
		return ok && info.Uses[id] == subj
	}
	tag := ast.Unparen(sw.Tag)
	if isIdx(tag) {
		return true
	}
	id, ok := tag.(*ast.Ident)
	if !ok {
		return false
	}
	if as, ok := sw.Init.(*ast.AssignStmt); ok && len(as.Lhs) == 1 && len(as.Rhs) == 1 {
		if l, ok := as.Lhs[0].(*ast.Ident); ok && info.Defs[l] == info.Uses[id] && isIdx(as.Rhs[0]) {
			return true
		}
	}
	return false
}

// c24TagVar returns the variable holding the switched byte, if any.
func c24TagVar(info *types.Info, sw *ast.SwitchStmt) types.Object {
	if id, ok := ast.Unparen(sw.Tag).(*ast.Ident); ok {
		return info.Uses[id]
	}
	return nil
}

func c24ReadSwitch(info *types.Info, sw *ast.SwitchStmt, subj *types.Var) *c24Switch {
	out := &c24Switch{sw: sw}
	tagVar := c24TagVar(info, sw)
	isByte := func(e ast.Expr) bool {
		e = ast.Unparen(e)
		if id, ok := e.(*ast.Ident); ok {
			return tagVar != nil && info.Uses[id] == tagVar
		}
		return exprStr(e) == exprStr(ast.Unparen(sw.Tag)) && tagVar == nil
	}
	for _, st := range sw.Body.List {
		cc := st.(*ast.CaseClause)
		c := &c24Clause{cc: cc}
		for _, e := range cc.List {
			if v, ok := intValue(info, e); ok {
				c.vals = append(c.vals, v)
			}
		}
		readCopy := func(call *ast.CallExpr) bool {
			if !isBuiltinCall(info, call, "copy") || len(call.Args) != 2 {
				return false
			}
			lit, ok := stringValue(info, call.Args[1])
			if !ok {
				return false
			}
			se, ok := ast.Unparen(call.Args[0]).(*ast.SliceExpr)
			if !ok || se.High != nil || se.Low == nil {
				return false
			}
			b, ok1 := ast.Unparen(se.X).(*ast.Ident)
			j, ok2 := ast.Unparen(se.Low).(*ast.Ident)
			if !ok1 || !ok2 || c.hasLit {
				return false
			}
			c.lit, c.hasLit, c.litPos, c.dst, c.dstIdx = lit, true, call.Args[1].Pos(), info.Uses[b], info.Uses[j]
			return true
		}
		for _, s := range cc.Body {
			switch x := s.(type) {
			case *ast.BranchStmt:
				if x.Tok == token.CONTINUE && x.Label == nil {
					continue
				}
			case *ast.ExprStmt:
				if call, ok := x.X.(*ast.CallExpr); ok && readCopy(call) {
					continue
				}
			case *ast.IncDecStmt:
				if id, ok := ast.Unparen(x.X).(*ast.Ident); ok && x.Tok == token.INC && c.incObj == nil {
					c.incObj, c.inc = info.Uses[id], 1
					continue
				}
			case *ast.AssignStmt:
				if len(x.Lhs) == 1 && len(x.Rhs) == 1 {
					if id, ok := ast.Unparen(x.Lhs[0]).(*ast.Ident); ok && c.incObj == nil {
						obj := info.Uses[id]
						rhs := ast.Unparen(x.Rhs[0])
						if x.Tok == token.ADD_ASSIGN {
							if v, ok := intValue(info, rhs); ok {
								c.incObj, c.inc = obj, v
								continue
							}
							if call, ok := rhs.(*ast.CallExpr); ok && readCopy(call) {
								c.incObj, c.incByCopy = obj, true
								continue
							}
						}
						if x.Tok == token.ASSIGN {
							if be, ok := rhs.(*ast.BinaryExpr); ok && be.Op == token.ADD {
								l, lok := ast.Unparen(be.X).(*ast.Ident)
								if v, ok := intValue(info, be.Y); ok && lok && info.Uses[l] == obj {
									c.incObj, c.inc = obj, v
									continue
								}
								rr, rok := ast.Unparen(be.Y).(*ast.Ident)
								if v, ok := intValue(info, be.X); ok && rok && info.Uses[rr] == obj {
									c.incObj, c.inc = obj, v
									continue
								}
							}
						}
					}
					if ix, ok := ast.Unparen(x.Lhs[0]).(*ast.IndexExpr); ok && x.Tok == token.ASSIGN && isByte(x.Rhs[0]) && !c.byteCopy {
						b, ok1 := ast.Unparen(ix.X).(*ast.Ident)
						j, ok2 := ast.Unparen(ix.Index).(*ast.Ident)
						if ok1 && ok2 {
							c.byteCopy, c.dst, c.dstIdx = true, info.Uses[b], info.Uses[j]
							continue
						}
					}
				}
			}
			c.other = append(c.other, s)
		}
		if cc.List == nil {
			out.deflt = c
		} else {
			out.clauses = append(out.clauses, c)
		}
	}
	return out
}
