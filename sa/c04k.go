package main

// Reflect kind discipline (C04 R-5 for the compiler, C05 R-6 for the runtime).
//
// Many reflect methods are defined only for some kinds and panic for the others (reflect's documentation
// lists them). In a clause `case reflect.K1, reflect.K2:` of a switch on X.Kind(), a call of such a
// method on X must be valid for EVERY kind the clause lists. A panic here is a crash of Build (compiler)
// or a fatal error, i.e. a host panic (runtime, where unclassified panics are fatal).
//
// Found on the pinned tree: checkShowJS/checkShowJSON call t.Elem() under `case reflect.Pointer,
// reflect.UnsafePointer` — Type.Elem panics for UnsafePointer.

import (
	"go/ast"
	"go/types"
	"sort"
	"strings"
)

// kinds for which a method of reflect.Type is defined (frozen from the documentation of package reflect)
var reflectTypeKinds = map[string][]string{
	"Elem":       {"Array", "Chan", "Map", "Pointer", "Ptr", "Slice"},
	"Key":        {"Map"},
	"Len":        {"Array"},
	"NumField":   {"Struct"},
	"Field":      {"Struct"},
	"NumIn":      {"Func"},
	"NumOut":     {"Func"},
	"In":         {"Func"},
	"Out":        {"Func"},
	"IsVariadic": {"Func"},
	"ChanDir":    {"Chan"},
}

// kinds for which a method of reflect.Value is defined
var reflectValueKinds = map[string][]string{
	"Elem":     {"Interface", "Pointer", "Ptr"},
	"Len":      {"Array", "Chan", "Map", "Slice", "String", "Pointer", "Ptr"},
	"Cap":      {"Array", "Chan", "Slice", "Pointer", "Ptr"},
	"Index":    {"Array", "Slice", "String"},
	"Int":      {"Int", "Int8", "Int16", "Int32", "Int64"},
	"Uint":     {"Uint", "Uint8", "Uint16", "Uint32", "Uint64", "Uintptr"},
	"Float":    {"Float32", "Float64"},
	"Complex":  {"Complex64", "Complex128"},
	"Bool":     {"Bool"},
	"IsNil":    {"Chan", "Func", "Interface", "Map", "Pointer", "Ptr", "Slice", "UnsafePointer"},
	"MapRange": {"Map"},
	"MapKeys":  {"Map"},
	"MapIndex": {"Map"},
	"NumField": {"Struct"},
	"Field":    {"Struct"},
	"Slice":    {"Array", "Slice", "String"},
	"Slice3":   {"Array", "Slice"},
	"Bytes":    {"Slice", "Array"},
	"Recv":     {"Chan"},
	"Send":     {"Chan"},
	"Close":    {"Chan"},
}

func init() {
	if p := registry["C04"]; p != nil {
		run := p.run
		p.run = func(r *Run) { run(r); reflectKindRule(r, "R-5", "internal/compiler"); c20UnsignedIndex(r, "R-6") }
		p.explain += " R-5: in every clause of a switch on X.Kind() in package compiler, the kind-restricted reflect methods called on X are defined for every kind the clause lists (a panic there crashes Build). R-6: no table of runtime.Function is indexed with a signed 8/16-bit operand (Build and Disassemble panic for slots above 127)."
	}
}

func reflectKindRule(r *Run, R, rel string) {
	kindT := r.P.ExtNamed("reflect", "Kind")
	if !r.Anchor(R, "reflect.Kind", kindT != nil) {
		return
	}
	n := 0
	for _, fi := range r.P.Funcs(rel) {
		if r.P.isTestFile(fi.File) {
			continue
		}
		info := fi.Pkg.TypesInfo
		for _, sw := range switchesOn(info, fi.Decl.Body, kindT) {
			subj := kindSubject(info, fi, sw.Tag)
			if subj == "" {
				continue
			}
			for _, st := range sw.Body.List {
				cc := st.(*ast.CaseClause)
				if cc.List == nil {
					continue
				}
				var kinds []string
				for _, e := range cc.List {
					if c := constOf(info, e); c != nil {
						kinds = append(kinds, c.Name())
					}
				}
				if len(kinds) != len(cc.List) {
					continue
				}
				seen := map[string]bool{}
				for _, c := range calls(cc, false) {
					sel, ok := c.Fun.(*ast.SelectorExpr)
					if !ok || exprStr(sel.X) != subj {
						continue
					}
					f := callee(info, c)
					if f == nil || f.Pkg() == nil || f.Pkg().Path() != "reflect" {
						continue
					}
					recv := ""
					if sig := f.Type().(*types.Signature); sig.Recv() != nil {
						recv = typeStr(sig.Recv().Type())
					}
					var table map[string][]string
					switch recv {
					case "reflect.Type":
						table = reflectTypeKinds
					case "reflect.Value":
						table = reflectValueKinds
					default:
						continue
					}
					valid, restricted := table[f.Name()]
					if !restricted {
						continue
					}
					// a reassignment of the subject inside the clause before the call changes what is tested
					if reassignedBefore(info, cc, subj, c) {
						continue
					}
					key := fi.Name() + "#" + strings.Join(kinds, ",") + ":" + subj + "." + f.Name()
					if seen[key] {
						continue
					}
					seen[key] = true
					n++
					var bad []string
					for _, k := range kinds {
						ok := false
						for _, v := range valid {
							if v == k {
								ok = true
							}
						}
						if !ok {
							bad = append(bad, k)
						}
					}
					sort.Strings(bad)
					o := r.Ob(R, key, c.Pos())
					if len(bad) == 0 {
						o.OK("%s.%s is defined for %s", recv, f.Name(), strings.Join(kinds, ", "))
					} else {
						o.Bad("%s.%s panics for kind %s, which this clause lists: reflect defines it only for %s", recv, f.Name(), strings.Join(bad, ", "), strings.Join(valid, ", "))
					}
				}
			}
		}
	}
	r.Stats[R+"_kind_clause_calls"] = n
	r.Require(R, 10)
}

// kindSubject returns the expression whose kind the switch tag is: X for `switch X.Kind()`, or for a
// tag variable defined once as `k := X.Kind()`.
func kindSubject(info *types.Info, fi *FuncInfo, tag ast.Expr) string {
	tag = ast.Unparen(tag)
	if c, ok := tag.(*ast.CallExpr); ok {
		if sel, ok := c.Fun.(*ast.SelectorExpr); ok && sel.Sel.Name == "Kind" && len(c.Args) == 0 {
			return exprStr(sel.X)
		}
		return ""
	}
	// switch a := reflect.Kind(a); a  /  switch kind
	id, ok := tag.(*ast.Ident)
	if !ok {
		return ""
	}
	obj := info.Uses[id]
	subj, ndefs := "", 0
	ast.Inspect(fi.Decl.Body, func(n ast.Node) bool {
		as, ok := n.(*ast.AssignStmt)
		if !ok {
			return true
		}
		for i, l := range as.Lhs {
			lid, ok := l.(*ast.Ident)
			if !ok || (info.Defs[lid] != obj && info.Uses[lid] != obj) || i >= len(as.Rhs) {
				continue
			}
			ndefs++
			if c, ok := ast.Unparen(as.Rhs[i]).(*ast.CallExpr); ok {
				if sel, ok := c.Fun.(*ast.SelectorExpr); ok && sel.Sel.Name == "Kind" && len(c.Args) == 0 {
					subj = exprStr(sel.X)
				}
			}
		}
		return true
	})
	if ndefs != 1 {
		return ""
	}
	return subj
}

func reassignedBefore(info *types.Info, cc *ast.CaseClause, subj string, call *ast.CallExpr) bool {
	re := false
	ast.Inspect(cc, func(n ast.Node) bool {
		if as, ok := n.(*ast.AssignStmt); ok && as.Pos() < call.Pos() {
			for _, l := range as.Lhs {
				if exprStr(l) == subj {
					re = true
				}
			}
		}
		return true
	})
	return re
}
