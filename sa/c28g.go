package main

// C28 R-2g (added after seeded change C28-3): in the tree walker, the visit of a child may be
// conditional only on that child itself. A visit of n.Post nested under `if n.Condition != nil` skips
// Post for every node whose Condition is nil — the walk is then not exhaustive for trees the parser
// builds (`for i := 0; ; i++`). All 20 guards of today's walker test the field they guard.

import (
	"go/ast"
	"go/types"
	"sort"
)

func init() {
	prev := registry["C28"]
	if prev == nil {
		return
	}
	run := prev.run
	prev.run = func(r *Run) {
		run(r)
		c28GuardRule(r)
	}
	prev.explain += " R-2g: in the walker, every condition that encloses the visit of a child of the node mentions, among the node's fields, only that child."
}

func c28GuardRule(r *Run) {
	const R = "R-2g"
	walk := r.P.Func("ast/astutil", "Walk")
	if walk == nil {
		// by role: exported function of astutil with a type switch on a parameter of type ast.Node
		for _, fi := range r.P.Funcs("ast/astutil") {
			if fi.Decl.Recv == nil && fi.Decl.Name.IsExported() && fi.Obj.Type().(*types.Signature).Params().Len() == 2 {
				has := false
				ast.Inspect(fi.Decl.Body, func(n ast.Node) bool {
					if _, ok := n.(*ast.TypeSwitchStmt); ok {
						has = true
					}
					return true
				})
				if has && fi.Obj.Type().(*types.Signature).Results().Len() == 0 {
					walk = fi
				}
			}
		}
	}
	if !r.Anchor(R, "astutil.Walk (the tree walker)", walk != nil) {
		return
	}
	info := walk.Pkg.TypesInfo
	par := r.P.Parents(walk.File)
	// the type switch and its bound variable
	var ts *ast.TypeSwitchStmt
	ast.Inspect(walk.Decl.Body, func(n ast.Node) bool {
		if t, ok := n.(*ast.TypeSwitchStmt); ok && ts == nil {
			ts = t
		}
		return true
	})
	if !r.Anchor(R, "type switch of the walker", ts != nil) {
		return
	}
	n := 0
	for _, st := range ts.Body.List {
		cc := st.(*ast.CaseClause)
		if len(cc.List) != 1 {
			continue
		}
		bound := info.Implicits[cc] // the per-clause variable
		if bound == nil {
			continue
		}
		tname := typeStr(info.TypeOf(cc.List[0]))
		// field of `bound` an expression is rooted at: n.F, n.F[i], n.F.G, or a range variable over n.F
		var fieldOf func(e ast.Expr, depth int) string
		fieldOf = func(e ast.Expr, depth int) string {
			if depth > 4 {
				return ""
			}
			switch x := ast.Unparen(e).(type) {
			case *ast.SelectorExpr:
				if id, ok := ast.Unparen(x.X).(*ast.Ident); ok && info.Uses[id] == bound {
					return x.Sel.Name
				}
				return fieldOf(x.X, depth+1)
			case *ast.IndexExpr:
				return fieldOf(x.X, depth+1)
			case *ast.Ident:
				obj := info.Uses[x]
				if obj == nil {
					return ""
				}
				// defined by a range statement inside the clause
				f := ""
				ast.Inspect(cc, func(m ast.Node) bool {
					if rs, ok := m.(*ast.RangeStmt); ok {
						for _, kv := range []ast.Expr{rs.Key, rs.Value} {
							if id, ok := kv.(*ast.Ident); ok && info.Defs[id] == obj {
								f = fieldOf(rs.X, depth+1)
							}
						}
					}
					return true
				})
				return f
			}
			return ""
		}
		fieldsIn := func(e ast.Expr) []string {
			set := map[string]bool{}
			ast.Inspect(e, func(m ast.Node) bool {
				if sel, ok := m.(*ast.SelectorExpr); ok {
					if id, ok := ast.Unparen(sel.X).(*ast.Ident); ok && info.Uses[id] == bound {
						set[sel.Sel.Name] = true
					}
				}
				return true
			})
			var out []string
			for k := range set {
				out = append(out, k)
			}
			sort.Strings(out)
			return out
		}
		for _, c := range calls(cc, false) {
			if callee(info, c) != walk.Obj || len(c.Args) != 2 {
				continue
			}
			f := fieldOf(c.Args[1], 0)
			if f == "" {
				continue
			}
			n++
			o := r.Ob(R, "ast/astutil.Walk#"+tname+"."+f+":guard", c.Pos())
			bad := ""
			nguards := 0
			for p := par[ast.Node(c)]; p != nil && p != ast.Node(cc); p = par[p] {
				is, ok := p.(*ast.IfStmt)
				if !ok {
					continue
				}
				nguards++
				for _, g := range fieldsIn(is.Cond) {
					if g != f {
						bad = g
					}
				}
			}
			switch {
			case bad != "":
				o.Bad("the visit of %s.%s is nested under a condition on %s.%s: a node whose %s makes the condition false keeps an unvisited %s", tname, f, tname, bad, bad, f)
			case nguards == 0:
				o.Trivial("unconditional visit")
			default:
				o.OK("guarded only by conditions on %s itself", f)
			}
		}
	}
	r.Require(R, 60)
}
