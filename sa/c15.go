package main

// C15 — template text is emitted verbatim: provenance conditions only.
//
// R-1 text bytes are never rewritten; emitText receives (sub-slices of) an ast.Text.Text;
//     Text nodes are made from token text; Cut is written only by the line cutter
// R-2 the lexer's cursor (lexer.src) is advanced only by the token emitter and the code lexers
//
// Uses the origin tracer of c10.go with a field hook: the fields that carry template source bytes
// are origins of their own.

import (
	"go/token"
	"go/types"
	"sort"
	"strings"

	"golang.org/x/tools/go/ssa"
)

func init() {
	register("C15", &ruleSet{
		explain: "Provenance conditions for template text reaching the output unchanged. R-1: no function of the module writes a byte (element store, copy, append) into a buffer that derives from the fields carrying source text (lexer.text/src, token.txt, ast.Text.Text, runtime.Function.Text); every byte write lands in storage made by the writing code. The text emitter of the function builder is called only with sub-slices of an ast.Text.Text, the parser makes Text nodes only from a token's text, and the Cut of a Text node is written, outside construction, only by the line cutter. R-2: lexer.src is reassigned only by the token emitter (which emits exactly the bytes it skips), by the code lexers (inside {{ }}, {% %}: syntax, not text) and cleared at the end of the scan; the template text loop never moves it.",
		notCov: []string{
			"which bytes the cut, comment, raw and shebang rules remove: it depends on the neighbourhood of each token and no rule here decides it",
			"that the emitter visits every Text node, in order, exactly once",
			"writes through package reflect or unsafe",
		},
		trusted: []string{"copy/append write only into their first operand", "the class-hierarchy call graph gives every caller of a function"},
		run:     runC15,
	})
}

// c15Allowed: functions that may write the Cut of an existing Text node.
var c15CutWriters = map[string]string{
	"compiler.cutSpaces": "the line cutter: computes Cut.Left/Right of the first and last Text of a statement-only line (the documented removal)",
}

// c15ByteWriteOK: byte writes into storage that does not come from the module, reviewed one by one.
var c15ByteWriteOK = map[string]string{
	"scriggo.(*filesFile).Read#copy:[]byte[]":      "io.Reader contract: Read fills the buffer its caller supplies; the source is the file content, the destination never is",
	"fstest.(*filesFile).Read#copy:[]byte[]":       "io.Reader contract (test helper file system): fills the caller's buffer",
	"runtime.(*VM).Stack$Stack$1#copy:(*[]byte)[]": "exported (*VM).Stack writes the stack trace into the buffer its caller supplies",
}

type c15Roles struct {
	lexer, tok, text, function *types.Named
	src, ltext, tokens, txt    *types.Var
	textText, textCut, fnText  *types.Var
	scan, emitter, lexCode     *ssa.Function
}

func c15Resolve(r *Run, rule string) *c15Roles {
	ro := &c15Roles{}
	prog := r.P.SSA().prog
	ro.text = r.P.Named("ast", "Text")
	ro.function = r.P.Named("internal/runtime", "Function")
	ro.tok = r.P.Named("internal/compiler", "token")
	ok := r.Anchor(rule, "ast.Text", ro.text != nil) && r.Anchor(rule, "runtime.Function", ro.function != nil) && r.Anchor(rule, "compiler.token", ro.tok != nil)
	if !ok {
		return nil
	}
	ro.textText = c10FieldNamed(ro.text, "Text")
	ro.textCut = c10FieldNamed(ro.text, "Cut")
	ro.fnText = c10FieldNamed(ro.function, "Text")
	// token text: the []byte field of token
	if s := c10StructOf(ro.tok); s != nil {
		for i := 0; i < s.NumFields(); i++ {
			if types.TypeString(s.Field(i).Type(), nil) == "[]byte" {
				if ro.txt != nil {
					r.Anchor(rule, "single []byte field of token", false)
					return nil
				}
				ro.txt = s.Field(i)
			}
		}
	}
	// the lexer: receiver of the method started with go in package compiler
	cpk := r.P.Pkg("internal/compiler")
	for _, fi := range r.P.Funcs("internal/compiler") {
		if r.P.isTestFile(fi.File) {
			continue
		}
		f := r.P.SSAFunc(fi)
		if f == nil {
			continue
		}
		for _, b := range f.Blocks {
			for _, in := range b.Instrs {
				if g, ok := in.(*ssa.Go); ok {
					if sc := g.Common().StaticCallee(); sc != nil && sc.Signature.Recv() != nil {
						n := c10NamedOf(sc.Signature.Recv().Type())
						if n != nil && n.Obj().Pkg() == cpk.Types {
							if ro.scan != nil && ro.scan != sc {
								r.Anchor(rule, "single lexer goroutine entry", false)
								return nil
							}
							ro.scan, ro.lexer = sc, n
						}
					}
				}
			}
		}
	}
	if !r.Anchor(rule, "lexer goroutine entry (method started with go in package compiler)", ro.scan != nil) {
		return nil
	}
	ro.src = c10FieldNamed(ro.lexer, "src")
	ro.ltext = c10FieldNamed(ro.lexer, "text")
	if s := c10StructOf(ro.lexer); s != nil {
		for i := 0; i < s.NumFields(); i++ {
			if _, isChan := s.Field(i).Type().Underlying().(*types.Chan); isChan {
				ro.tokens = s.Field(i)
			}
		}
	}
	ok = r.Anchor(rule, "ast.Text.Text", ro.textText != nil) && ok
	ok = r.Anchor(rule, "ast.Text.Cut", ro.textCut != nil) && ok
	ok = r.Anchor(rule, "runtime.Function.Text", ro.fnText != nil) && ok
	ok = r.Anchor(rule, "lexer.src", ro.src != nil) && ok
	ok = r.Anchor(rule, "lexer.text", ro.ltext != nil) && ok
	ok = r.Anchor(rule, "lexer token channel", ro.tokens != nil) && ok
	ok = r.Anchor(rule, "token text field", ro.txt != nil) && ok
	if !ok {
		return nil
	}
	// token emitter: the only function sending on the token channel
	tokTyp := r.P.Named("internal/compiler", "tokenTyp")
	ms := prog.MethodSets.MethodSet(types.NewPointer(ro.lexer))
	for i := 0; i < ms.Len(); i++ {
		f := prog.MethodValue(ms.At(i))
		if f == nil || f.Blocks == nil || f.Synthetic != "" {
			continue
		}
		for _, b := range f.Blocks {
			for _, in := range b.Instrs {
				if sd, ok := in.(*ssa.Send); ok {
					if u, ok := sd.Chan.(*ssa.UnOp); ok {
						if fa, ok := u.X.(*ssa.FieldAddr); ok && c10FieldVar(fa) == ro.tokens {
							if ro.emitter != nil && ro.emitter != f {
								r.Anchor(rule, "single token emitter", false)
								return nil
							}
							ro.emitter = f
						}
					}
				}
			}
		}
		// code lexer entry: takes a tokenTyp and returns an error
		sig := f.Signature
		if tokTyp != nil && sig.Params().Len() == 1 && types.Identical(sig.Params().At(0).Type(), tokTyp) && sig.Results().Len() == 1 && types.TypeString(sig.Results().At(0).Type(), nil) == "error" {
			if ro.lexCode != nil {
				r.Anchor(rule, "single code lexer entry (lexer method taking a tokenTyp and returning error)", false)
				return nil
			}
			ro.lexCode = f
		}
	}
	ok = r.Anchor(rule, "token emitter (function sending on lexer.tokens)", ro.emitter != nil) && ok
	ok = r.Anchor(rule, "code lexer entry (lexer method taking a tokenTyp and returning error)", ro.lexCode != nil) && ok
	if !ok {
		return nil
	}
	return ro
}

func runC15(r *Run) {
	ro := c15Resolve(r, "R-1")
	if ro == nil {
		return
	}
	c15R1(r, ro)
	c15R2(r, ro)
}

func c15IsByte(t types.Type) bool {
	b, ok := t.Underlying().(*types.Basic)
	return ok && b.Kind() == types.Uint8
}

// c15ByteWrite reports whether the write puts bytes into a []byte / [N]byte.
func c15ByteWrite(wr *c10Write) bool {
	if wr.Addr != nil {
		if wr.How != "store" {
			return false
		}
		pt, ok := wr.Addr.Type().Underlying().(*types.Pointer)
		if !ok || !c15IsByte(pt.Elem()) {
			return false
		}
		_, isIdx := wr.Addr.(*ssa.IndexAddr)
		return isIdx
	}
	if wr.How == "copy" || wr.How == "append" || wr.How == "clear" {
		if sl, ok := wr.Ref.Type().Underlying().(*types.Slice); ok {
			return c15IsByte(sl.Elem())
		}
	}
	return false
}

func c15R1(r *Run, ro *c15Roles) {
	const R = "R-1"
	r.Require(R, 24)
	s := r.P.SSA()
	textFields := map[*types.Var]string{
		ro.src: "lexer.src", ro.ltext: "lexer.text", ro.txt: "token.txt",
		ro.textText: "ast.Text.Text", ro.fnText: "runtime.Function.Text",
	}
	class := &c10Class{perRun: map[*types.TypeName]bool{}, shared: map[*types.TypeName]bool{}}
	tr := c10NewTracer(s.prog, r.P.CHA(), class, inModule)
	tr.fieldOrigin = func(fv *types.Var) (c10Origin, bool) {
		if n, ok := textFields[fv]; ok {
			return c10Origin{c10Shared, n}, true
		}
		return c10Origin{}, false
	}
	all := c14ModuleFuncs(r)

	// (a) byte writes
	nbytes := 0
	for _, f := range all {
		ws, _ := c10WritesOf(f)
		type agg struct {
			pos      token.Pos
			n        int
			bad, unk map[string]bool
			kinds    map[string]bool
		}
		groups := map[string]*agg{}
		var order []string
		for _, wr := range ws {
			if !c15ByteWrite(wr) {
				continue
			}
			nbytes++
			key := ssaFuncName(f) + "#" + wr.How + ":" + wr.Path()
			gp := groups[key]
			if gp == nil {
				gp = &agg{pos: wr.Instr.Pos(), bad: map[string]bool{}, unk: map[string]bool{}, kinds: map[string]bool{}}
				groups[key] = gp
				order = append(order, key)
			}
			gp.n++
			os := tr.WriteOrigins(wr)
			for _, o := range os {
				gp.kinds[o.Kind.String()] = true
				switch o.Kind {
				case c10Shared:
					gp.bad[o.String()] = true
				case c10Fresh, c10Const:
				case c10Global:
					// a package-level byte table is not template text; writing it is still suspicious only if it carries text
					gp.unk[o.String()] = true
				default:
					gp.unk[o.String()] = true
				}
			}
			if len(os) == 0 {
				gp.unk["no origin found"] = true
			}
		}
		for _, key := range order {
			gp := groups[key]
			o := r.Ob(R, key, gp.pos)
			_, excepted := c15ByteWriteOK[key]
			switch {
			case len(gp.bad) > 0:
				o.Bad("%d byte write(s) into a buffer that carries template source text: %s", gp.n, strings.Join(sortedKeys(gp.bad), ", "))
			case len(gp.unk) > 0 && !excepted:
				o.Unknown("%d byte write(s) into storage the rule cannot attribute: %s", gp.n, strings.Join(sortedKeys(gp.unk), ", "))
			case excepted:
				o.OK("%d byte write(s), reviewed exception: %s", gp.n, c15ByteWriteOK[key])
			default:
				o.OK("%d byte write(s), all into storage made by the writing code (%s)", gp.n, strings.Join(sortedKeys(gp.kinds), "/"))
			}
		}
	}
	r.Stats["r1_byte_writes"] = nbytes

	// (b) the text emitter receives sub-slices of an ast.Text.Text
	opText := r.P.Pkg("internal/runtime").Types.Scope().Lookup("OpText")
	var emitText *ssa.Function
	for _, fi := range r.P.Funcs("internal/compiler") {
		if r.P.isTestFile(fi.File) || fi.Obj == nil {
			continue
		}
		sig := fi.Obj.Type().(*types.Signature)
		hasBytes := false
		for i := 0; i < sig.Params().Len(); i++ {
			if types.TypeString(sig.Params().At(i).Type(), nil) == "[]byte" {
				hasBytes = true
			}
		}
		if !hasBytes || opText == nil {
			continue
		}
		uses := false
		for id, obj := range fi.Pkg.TypesInfo.Uses {
			if obj == opText && fi.Decl.Body.Pos() <= id.Pos() && id.Pos() < fi.Decl.Body.End() {
				uses = true
			}
		}
		if uses {
			if emitText != nil {
				r.Anchor(R, "single text emitter (function with a []byte parameter emitting OpText)", false)
				return
			}
			emitText = r.P.SSAFunc(fi)
		}
	}
	if r.Anchor(R, "text emitter (function of compiler with a []byte parameter emitting OpText)", emitText != nil) {
		pidx := -1
		for i, p := range emitText.Params {
			if types.TypeString(p.Type(), nil) == "[]byte" {
				pidx = i
			}
		}
		n := 0
		for _, f := range all {
			for _, b := range f.Blocks {
				for _, in := range b.Instrs {
					ci, ok := in.(ssa.CallInstruction)
					if !ok || ci.Common().StaticCallee() != emitText || pidx >= len(ci.Common().Args) {
						continue
					}
					n++
					o := r.Ob(R, ssaFuncName(f)+"#call:"+emitText.Name(), in.Pos())
					os := tr.Origins(ci.Common().Args[pidx])
					want := c10Origin{c10Shared, "ast.Text.Text"}
					// a nil slice (a helper returning "nothing to emit") carries no text: only the
					// non-constant origins must be the Text field
					hasWant, onlyWant := false, true
					for _, og := range os {
						switch {
						case og == want:
							hasWant = true
						case og.Kind == c10Const:
						default:
							onlyWant = false
						}
					}
					if hasWant && onlyWant {
						o.OK("the text passed is a (sub-slice of a) Text node's Text field")
					} else {
						o.Bad("the text passed to the emitter is not just a sub-slice of an ast.Text.Text: %s", c10Join(os))
					}
				}
			}
		}
		if n == 0 {
			r.Ob(R, "compiler#call:"+emitText.Name(), emitText.Pos()).Unknown("no static call of the text emitter found")
		}
		// function values of the emitter would escape this check
		for _, f := range all {
			for _, b := range f.Blocks {
				for _, in := range b.Instrs {
					if _, isCall := in.(ssa.CallInstruction); isCall {
						continue
					}
					var ops [8]*ssa.Value
					for _, op := range in.Operands(ops[:0]) {
						if op != nil && *op == ssa.Value(emitText) {
							r.Ob(R, ssaFuncName(f)+"#value:"+emitText.Name(), in.Pos()).Unknown("the text emitter is used as a function value")
						}
					}
				}
			}
		}
	}

	// (c) Text nodes made in package compiler carry a token's text
	var newText *ssa.Function
	if fi := r.P.Func("ast", "NewText"); fi != nil {
		newText = r.P.SSAFunc(fi)
	}
	if r.Anchor(R, "ast.NewText", newText != nil) {
		n := 0
		for _, f := range all {
			if f.Pkg == nil || f.Pkg.Pkg != r.P.Pkg("internal/compiler").Types {
				if f.Parent() == nil || f.Parent().Pkg == nil || f.Parent().Pkg.Pkg != r.P.Pkg("internal/compiler").Types {
					continue
				}
			}
			for _, b := range f.Blocks {
				for _, in := range b.Instrs {
					ci, ok := in.(ssa.CallInstruction)
					if !ok || ci.Common().StaticCallee() != newText || len(ci.Common().Args) < 2 {
						continue
					}
					n++
					o := r.Ob(R, ssaFuncName(f)+"#NewText", in.Pos())
					os := tr.Origins(ci.Common().Args[1])
					want := c10Origin{c10Shared, "token.txt"}
					if len(os) == 1 && os[0] == want {
						o.OK("the Text node is made from the text of a token")
					} else {
						o.Bad("a Text node is made in the compiler from something other than a token's text: %s", c10Join(os))
					}
				}
			}
		}
		if n == 0 {
			r.Ob(R, "compiler#NewText", token.NoPos).Unknown("the parser no longer makes Text nodes with ast.NewText")
		}
		// direct stores to Text.Text of an existing node
		for _, f := range all {
			for _, b := range f.Blocks {
				for _, in := range b.Instrs {
					st, ok := in.(*ssa.Store)
					if !ok {
						continue
					}
					fa, ok := st.Addr.(*ssa.FieldAddr)
					if !ok || c10FieldVar(fa) != ro.textText {
						continue
					}
					if root, _ := c10Peel(st.Addr); root != nil {
						if _, isAlloc := root.(*ssa.Alloc); isAlloc {
							continue
						}
					}
					r.Ob(R, ssaFuncName(f)+"#store:Text.Text", st.Pos()).Bad("the text of an existing Text node is replaced")
				}
			}
		}
	}

	// (d) who may write Cut. The line cutter by role: the function of package compiler without receiver
	// and results whose parameters are all *ast.Text; by name (c15CutWriters) when the role is ambiguous.
	cutters := map[string]string{}
	for _, fi := range r.P.Funcs("internal/compiler") {
		if r.P.isTestFile(fi.File) || fi.Obj == nil {
			continue
		}
		sig := fi.Obj.Type().(*types.Signature)
		if sig.Recv() != nil || sig.Results().Len() != 0 || sig.Params().Len() == 0 {
			continue
		}
		allText := true
		for i := 0; i < sig.Params().Len(); i++ {
			if _, isPtr := sig.Params().At(i).Type().(*types.Pointer); !isPtr || c10NamedOf(sig.Params().At(i).Type()) != ro.text {
				allText = false
			}
		}
		if allText {
			cutters[fi.Name()] = "the line cutter (function of compiler taking only *ast.Text): computes Cut.Left/Right of the first and last Text of a statement-only line (the documented removal)"
		}
	}
	if len(cutters) != 1 {
		cutters = c15CutWriters
		for name := range c15CutWriters {
			parts := strings.SplitN(name, ".", 2)
			r.Anchor(R, "line cutter "+name, r.P.Func("internal/"+parts[0], parts[1]) != nil)
		}
	}
	ncut := 0
	for _, f := range all {
		type agg struct {
			pos        token.Pos
			n, private int
		}
		groups := map[string]*agg{}
		var order []string
		for _, b := range f.Blocks {
			for _, in := range b.Instrs {
				st, ok := in.(*ssa.Store)
				if !ok {
					continue
				}
				// the Cut field itself or a field below it
				hit := ""
				a := st.Addr
				var below []string
				for {
					fa, ok := a.(*ssa.FieldAddr)
					if !ok {
						break
					}
					fv := c10FieldVar(fa)
					if fv == ro.textCut {
						hit = "Cut" + strings.Join(below, "")
						break
					}
					if fv != nil {
						below = append([]string{"." + fv.Name()}, below...)
					}
					a = fa.X
				}
				if hit == "" {
					continue
				}
				gp := groups[hit]
				if gp == nil {
					gp = &agg{pos: st.Pos()}
					groups[hit] = gp
					order = append(order, hit)
				}
				gp.n++
				if root, _ := c10Peel(st.Addr); root != nil {
					if _, isAlloc := root.(*ssa.Alloc); isAlloc {
						gp.private++
					}
				}
			}
		}
		for _, key := range order {
			gp := groups[key]
			ncut++
			name := ssaFuncName(f)
			o := r.Ob(R, name+"#store:Text."+key, gp.pos)
			if gp.private == gp.n {
				o.Trivial("%d store(s) while constructing a new Text node", gp.n)
			} else if why, ok := cutters[name]; ok {
				o.OK("%d store(s) by an allowed writer: %s", gp.n, why)
			} else {
				o.Bad("the Cut of an existing Text node is written by %s, which is not the line cutter: text can be dropped from the output", name)
			}
		}
	}
	r.Stats["r1_cut_writer_groups"] = ncut
}

// ---------------------------------------------------------------------------
// R-2

func c15R2(r *Run, ro *c15Roles) {
	const R = "R-2"
	r.Require(R, 5)
	// code lexers: lexer methods reachable from the code lexer entry by static calls, except the emitter
	code := map[*ssa.Function]bool{}
	var work []*ssa.Function
	push := func(f *ssa.Function) {
		if f == nil || code[f] || f == ro.emitter || f.Blocks == nil {
			return
		}
		if f.Signature.Recv() == nil || c10NamedOf(f.Signature.Recv().Type()) != ro.lexer {
			return
		}
		code[f] = true
		work = append(work, f)
	}
	push(ro.lexCode)
	for len(work) > 0 {
		f := work[len(work)-1]
		work = work[:len(work)-1]
		for _, b := range f.Blocks {
			for _, in := range b.Instrs {
				if ci, ok := in.(ssa.CallInstruction); ok {
					push(ci.Common().StaticCallee())
				}
			}
		}
	}
	if code[ro.scan] {
		r.Ob(R, "compiler#code-lexers", ro.lexCode.Pos()).Unknown("the code lexer entry reaches the template scan loop: the two levels are no longer separate")
		return
	}
	var names []string
	for f := range code {
		names = append(names, f.Name())
	}
	sort.Strings(names)
	r.Note("code lexers (reachable from %s): %s", ro.lexCode.Name(), strings.Join(names, ", "))
	for _, f := range c14ModuleFuncs(r) {
		type agg struct {
			pos     token.Pos
			n       int
			nonNil  int
			private int
		}
		var gp *agg
		for _, b := range f.Blocks {
			for _, in := range b.Instrs {
				st, ok := in.(*ssa.Store)
				if !ok {
					continue
				}
				fa, ok := st.Addr.(*ssa.FieldAddr)
				if !ok || c10FieldVar(fa) != ro.src {
					continue
				}
				if gp == nil {
					gp = &agg{pos: st.Pos()}
				}
				gp.n++
				if root, _ := c10Peel(st.Addr); root != nil {
					if _, isAlloc := root.(*ssa.Alloc); isAlloc {
						gp.private++
						continue
					}
				}
				if c, ok := st.Val.(*ssa.Const); !ok || !c.IsNil() {
					gp.nonNil++
				}
			}
		}
		if gp == nil {
			continue
		}
		name := ssaFuncName(f)
		o := r.Ob(R, name+"#store:lexer.src", gp.pos)
		switch {
		case gp.private == gp.n:
			o.Trivial("%d store(s) while constructing a new lexer", gp.n)
		case f == ro.emitter:
			c15EmitterConserves(o, f, ro, gp.n)
		case code[f]:
			o.OK("%d store(s) in a code lexer (bytes inside {{ }} / {%% %%} are syntax, not text)", gp.n)
		case f == ro.scan:
			if gp.nonNil == 0 {
				o.OK("%d store(s) in the scan loop, all of nil (cleared when the scan ends)", gp.n)
			} else {
				o.Bad("the template scan loop moves lexer.src itself (%d store(s) of a non-nil value): bytes skipped there are emitted by nobody", gp.nonNil)
			}
		default:
			o.Bad("lexer.src is reassigned by %s, which is neither the token emitter nor a code lexer: template text can be skipped without being emitted", name)
		}
	}
}

// c15EmitterConserves checks that the emitter advances src by exactly the slice it puts in the token.
func c15EmitterConserves(o *Obl, f *ssa.Function, ro *c15Roles, n int) {
	isSrcLoad := func(v ssa.Value) bool {
		u, ok := v.(*ssa.UnOp)
		if !ok || u.Op != token.MUL {
			return false
		}
		fa, ok := u.X.(*ssa.FieldAddr)
		return ok && c10FieldVar(fa) == ro.src
	}
	isZero := func(v ssa.Value) bool {
		if v == nil {
			return true
		}
		c, ok := v.(*ssa.Const)
		return ok && c.Value != nil && c.Value.String() == "0"
	}
	// the token text: slices of src that reach the sent token
	var sent ssa.Value
	for _, b := range f.Blocks {
		for _, in := range b.Instrs {
			if sd, ok := in.(*ssa.Send); ok {
				sent = sd.X
			}
		}
	}
	if sent == nil {
		o.Unknown("token emitter without a send")
		return
	}
	var highs []ssa.Value
	for _, b := range f.Blocks {
		for _, in := range b.Instrs {
			sl, ok := in.(*ssa.Slice)
			if !ok || !isSrcLoad(sl.X) {
				continue
			}
			if sl.Low != nil && !isZero(sl.Low) && sl.High == nil {
				continue // the advance
			}
			if !isZero(sl.Low) || sl.High == nil {
				o.Unknown("token text is cut from lexer.src in a shape the rule does not know: %s", sl)
				return
			}
			highs = append(highs, sl.High)
		}
	}
	if len(highs) != 1 {
		o.Unknown("expected one src[0:length] slice for the token text, found %d", len(highs))
		return
	}
	for _, b := range f.Blocks {
		for _, in := range b.Instrs {
			st, ok := in.(*ssa.Store)
			if !ok {
				continue
			}
			fa, ok := st.Addr.(*ssa.FieldAddr)
			if !ok || c10FieldVar(fa) != ro.src {
				continue
			}
			sl, ok := st.Val.(*ssa.Slice)
			if !ok || !isSrcLoad(sl.X) || sl.High != nil || sl.Low != highs[0] {
				o.Bad("the token emitter advances lexer.src by something other than the length of the text it emitted: %s (emitted src[0:%s])", st.Val, highs[0].Name())
				return
			}
		}
	}
	o.OK("%d store(s) in the token emitter: src = src[n:] with the same n as the emitted text src[0:n]", n)
}
