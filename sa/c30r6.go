package main

// C30 R-6, R-7, R-8 (added after seeded changes C30-5 and C30-8): nothing a build leaves behind is seen by
// the next build of the same process.
//
// The property quantifies over histories: the same source built again in the same process gives the same
// artefact. The only way one build can influence another is state that outlives it, that is state reachable
// from a package-level variable. Three necessary conditions, over the packages that take part in a build
// (internal/compiler, internal/compiler/types, ast, ast/astutil, templates.go and programs.go):
//
//	R-6  no function (package initialisation, and what is run through sync.Once, excepted) writes a package-level variable of the module or
//	     anything reached through one: no store whose target is rooted at one (local aliases of reference
//	     type resolved), no call that hands one to a callee — of the module, through its summary; of the
//	     standard library, through the model of R-1 — that modifies what it is given, no pointer-receiver
//	     method of a type outside the module called on one unless it is known to be a pure reader.
//	R-7  a package-level variable never holds an accumulator that is put to work: when its type is a struct
//	     type of the module (or a pointer to one) with a method that appends to or inserts into a container
//	     of the receiver's own state (a registry, a deduplication store, a cache), the variable is only
//	     used to read fields and to call the methods that do not accumulate; copying it into a field, passing
//	     it on, returning it makes every build feed, and be answered from, the entries of the previous ones.
//	R-8  an object taken from a sync.Pool is completely reset: the concrete struct type the result of Get is
//	     asserted to has every one of its fields assigned (or cleared) in the function that takes it, or in
//	     every function that puts it back. What Get returns depends on the builds made before and on the
//	     garbage collector; a field that is not reset carries the state of an earlier build into this one.
//
// R-6 and R-8 say what the functions do, R-7 what the variables are; none looks at names or spelling.

import (
	"fmt"
	"go/ast"
	"go/token"
	"go/types"
	"sort"
	"strings"
)

func init() {
	p := registry["C30"]
	if p == nil {
		return
	}
	run := p.run
	p.run = func(r *Run) { run(r); c30SharedState(r) }
	p.explain += " R-6: no function of the build packages (initialisation excepted) writes a package-level variable of the module or state reached through one, directly, through a local alias or through a callee that modifies its argument or receiver. R-7: a package-level variable whose type is a module struct type with an accumulating method (append to / insert into a container of the receiver) is never copied, passed or returned, and its accumulating methods are never called on it. R-8: every field of a struct taken from a sync.Pool is reset by the function that takes it or by every function that puts it back."
	p.notCov = append(p.notCov, "state kept by packages outside the build packages (internal/runtime, native importers)", "package-level variables of interface type holding an accumulator (the dynamic type is not resolved)")
}

// exceptions of R-6: construct → reason
var c30R6Exceptions = map[string]string{}

var c30BuildPkgs = []string{"internal/compiler", "internal/compiler/types", "ast", "ast/astutil"}

func (x *c30) buildFuncs() []*FuncInfo {
	out := x.scoped()
	for _, rel := range []string{"ast", "ast/astutil"} {
		for _, fi := range x.r.P.Funcs(rel) {
			if !x.r.P.isTestFile(fi.File) {
				out = append(out, fi)
			}
		}
	}
	return out
}

func c30modVar(obj types.Object) *types.Var {
	v, ok := obj.(*types.Var)
	if !ok || v.Pkg() == nil || v.Parent() != v.Pkg().Scope() || !strings.HasPrefix(v.Pkg().Path(), modulePath) {
		return nil
	}
	return v
}

func c30SharedState(r *Run) {
	x := c30cur
	if !r.Anchor("R-6", "state of the C30 run", x != nil && x.r == r) {
		return
	}
	fns := x.buildFuncs()
	x.ruleR6(fns)
	x.ruleR7(fns)
	x.ruleR8(fns)
}

// ---------------------------------------------------------------------------
// R-6

func (x *c30) ruleR6(fns []*FuncInfo) {
	const R = "R-6"
	r := x.r
	nf, nw := 0, 0
	// one-time initialisation: what is handed to (*sync.Once).Do runs once per process, takes no argument
	// and so cannot depend on a build; it is package initialisation, done late
	onceFns := map[*types.Func]bool{}
	onceLits := map[*ast.FuncLit]bool{}
	for _, fi := range fns {
		for _, c := range calls(fi.Decl.Body, true) {
			if isPkgFunc(callee(fi.Pkg.TypesInfo, c), "sync", "Once", "Do") && len(c.Args) == 1 {
				switch a := ast.Unparen(c.Args[0]).(type) {
				case *ast.FuncLit:
					onceLits[a] = true
				case *ast.Ident:
					if f, ok := fi.Pkg.TypesInfo.Uses[a].(*types.Func); ok {
						onceFns[f] = true
					}
				}
			}
		}
	}
	for _, fi := range fns {
		if fi.Obj == nil || (fi.Decl.Recv == nil && fi.Decl.Name.Name == "init") || onceFns[fi.Obj] {
			continue
		}
		nf++
		info := fi.Pkg.TypesInfo
		type wr struct {
			v    *types.Var
			pos  token.Pos
			what string
		}
		var ws []wr
		rooted := func(e ast.Expr) *types.Var {
			if e == nil {
				return nil
			}
			p := x.pathOf(info, e, 0)
			if p.viaCall {
				return nil
			}
			return c30modVar(p.root)
		}
		bodies := []ast.Node{fi.Decl.Body}
		ast.Inspect(fi.Decl.Body, func(n ast.Node) bool {
			if fl, ok := n.(*ast.FuncLit); ok {
				if onceLits[fl] {
					return false
				}
				bodies = append(bodies, fl.Body)
			}
			return true
		})
		for _, body := range bodies {
			for _, e := range x.effects(info, body, map[types.Object]bool{}) {
				switch e.kind {
				case "store":
					if id, plain := ast.Unparen(e.lhs).(*ast.Ident); plain {
						// the variable itself (a local that merely aliases a package-level value is not a write)
						if v := c30modVar(info.ObjectOf(id)); v != nil {
							ws = append(ws, wr{v, e.pos, "assigns " + id.Name})
						}
					} else if v := rooted(e.lhs); v != nil {
						ws = append(ws, wr{v, e.pos, "stores into " + exprStr(e.lhs)})
					}
				case "call":
					call := e.call
					for _, b := range []string{"delete", "clear", "copy"} {
						if isBuiltinCall(info, call, b) && len(call.Args) > 0 {
							if v := rooted(call.Args[0]); v != nil {
								ws = append(ws, wr{v, e.pos, b + " on " + exprStr(call.Args[0])})
							}
						}
					}
					fn := callee(info, call)
					if fn == nil {
						continue
					}
					var recv ast.Expr
					if sel, ok := ast.Unparen(call.Fun).(*ast.SelectorExpr); ok && info.Selections[sel] != nil {
						recv = sel.X
					}
					argOf := func(i int) ast.Expr {
						if i == -1 {
							return recv
						}
						if i >= 0 && i < len(call.Args) {
							return call.Args[i]
						}
						return nil
					}
					if fn.Pkg() == nil || !strings.HasPrefix(fn.Pkg().Path(), modulePath) {
						if c30isPoolMethod(fn) != "" {
							continue // R-8
						}
						if p := fn.Pkg(); p != nil && (p.Path() == "regexp" || p.Path() == "sync" && c30recvName(fn) != "Map" && c30recvName(fn) != "Pool" && c30recvName(fn) != "WaitGroup") {
							continue // a compiled regular expression is only read; a mutex or a Once holds no data (what they guard is looked at where it is written)
						}
						mut, kind, desc := c30External(fn)
						sig := fn.Type().(*types.Signature)
						switch {
						case kind == "":
						case kind == "unknown":
							// effects not modelled: a pointer-receiver method of a concrete type can write its receiver
							if sig.Recv() != nil {
								if _, ptr := sig.Recv().Type().(*types.Pointer); ptr {
									if v := rooted(recv); v != nil {
										ws = append(ws, wr{v, e.pos, fmt.Sprintf("calls %s on %s (a pointer-receiver method outside the module, not known to be a pure reader)", fn.Name(), exprStr(recv))})
									}
								}
							}
						default:
							if sig.Recv() == nil && mut == -1 {
								mut = 0
							}
							if v := rooted(argOf(mut)); v != nil {
								ws = append(ws, wr{v, e.pos, fmt.Sprintf("%s.%s %s: %s", fn.Pkg().Name(), fn.Name(), desc, exprStr(argOf(mut)))})
							}
						}
						continue
					}
					for _, se := range x.summary(fn, 1).effs {
						if se.kind == "unknown" || se.root < -1 {
							continue
						}
						if v := rooted(argOf(se.root)); v != nil {
							ws = append(ws, wr{v, e.pos, fmt.Sprintf("%s %s, called on %s", funcKey(fn), se.desc, exprStr(argOf(se.root)))})
						}
					}
				}
			}
		}
		seen := map[*types.Var]bool{}
		for _, w := range ws {
			if seen[w.v] {
				continue
			}
			seen[w.v] = true
			nw++
			var all []string
			for _, w2 := range ws {
				if w2.v == w.v {
					all = append(all, w2.what)
				}
			}
			o := r.Ob(R, fi.Name()+"#writes:"+relOf(w.v.Pkg())+"."+w.v.Name(), w.pos)
			if why, ok := c30R6Exceptions[o.Construct]; ok {
				o.OK("listed exception: %s [%s]", why, strings.Join(c30dedup(all), "; "))
				continue
			}
			o.Bad("%s %s: the package-level variable %s outlives the build, so what one build writes there is what the next build of the process starts from, and the same source can give another artefact", fi.Name(), strings.Join(c30dedup(all), "; "), w.v.Name())
		}
	}
	r.Ob(R, "build-packages#functions-scanned", 0).OK("%d functions of the build packages scanned (function literals included, package initialisation excepted): %d write state rooted at a package-level variable of the module", nf, nw)
	r.Require(R, 1)
}

func c30recvName(fn *types.Func) string {
	sig := fn.Type().(*types.Signature)
	if sig.Recv() == nil {
		return ""
	}
	t := sig.Recv().Type()
	if p, ok := t.(*types.Pointer); ok {
		t = p.Elem()
	}
	if n, ok := t.(*types.Named); ok {
		return n.Obj().Name()
	}
	return ""
}

// c30isPoolMethod: "Get" / "Put" when fn is that method of sync.Pool.
func c30isPoolMethod(fn *types.Func) string {
	if fn == nil {
		return ""
	}
	for _, n := range []string{"Get", "Put"} {
		if isPkgFunc(fn, "sync", "Pool", n) {
			return n
		}
	}
	return ""
}

// ---------------------------------------------------------------------------
// R-7

// accumulating lists the methods of the struct type nt (pointer and value receivers) that append to or insert
// into a container of their receiver's state (plain field setters and flag updates are not accumulation).
func (x *c30) accumulating(nt *types.Named) map[*types.Func]string {
	out := map[*types.Func]string{}
	if nt.Obj().Pkg() == nil {
		return out
	}
	if !strings.HasPrefix(nt.Obj().Pkg().Path(), modulePath) {
		if nt.Obj().Pkg().Path() == "sync" && nt.Obj().Name() == "Map" {
			ms := types.NewMethodSet(types.NewPointer(nt))
			for i := 0; i < ms.Len(); i++ {
				if f, ok := ms.At(i).Obj().(*types.Func); ok {
					switch f.Name() {
					case "Store", "LoadOrStore", "Swap", "CompareAndSwap", "Delete", "LoadAndDelete", "CompareAndDelete", "Clear":
						out[f] = "writes the sync.Map"
					}
				}
			}
		}
		return out
	}
	ms := types.NewMethodSet(types.NewPointer(nt))
	for i := 0; i < ms.Len(); i++ {
		f, ok := ms.At(i).Obj().(*types.Func)
		if !ok || x.funcOf[f] == nil {
			continue
		}
		for _, se := range x.summary(f, 1).effs {
			if se.root != -1 {
				continue
			}
			switch se.kind {
			case "append", "mapset", "cellset", "mapset-by-value":
				out[f] = se.desc
			}
		}
	}
	return out
}

func (x *c30) ruleR7(fns []*FuncInfo) {
	const R = "R-7"
	r := x.r
	rels := append([]string{}, c30BuildPkgs...)
	rels = append(rels, "")
	nvars := 0
	for _, rel := range rels {
		pk := r.P.Pkg(rel)
		if pk == nil {
			continue
		}
		sc := pk.Types.Scope()
		for _, name := range sc.Names() {
			v, ok := sc.Lookup(name).(*types.Var)
			if !ok || r.P.isTestFile(c30fileOf(pk.Syntax, v.Pos())) {
				continue
			}
			nvars++
			t := v.Type()
			if p, ok := t.(*types.Pointer); ok {
				t = p.Elem()
			}
			nt, ok := t.(*types.Named)
			if !ok {
				continue
			}
			if _, isStruct := nt.Underlying().(*types.Struct); !isStruct {
				continue
			}
			if nt.Obj().Pkg() == nil || (!strings.HasPrefix(nt.Obj().Pkg().Path(), modulePath) && nt.Obj().Pkg().Path() != "sync") {
				continue
			}
			if nt.Obj().Pkg().Path() == "sync" && nt.Obj().Name() != "Map" {
				continue // Pool: R-8; Mutex, Once: hold no entries
			}
			o := r.Ob(R, relOf(v.Pkg())+"."+v.Name(), v.Pos())
			acc := x.accumulating(nt)
			if len(acc) == 0 {
				o.OK("%s has no method that appends to or inserts into a container of its receiver: a shared %s holds nothing a build could add to", typeStr(nt), typeStr(nt))
				continue
			}
			var accNames []string
			for f, d := range acc {
				accNames = append(accNames, f.Name()+" ("+d+")")
			}
			sort.Strings(accNames)
			// uses of the variable in the build packages (functions and package-level initialisers)
			var bad []string
			for _, rel2 := range rels {
				pk2 := r.P.Pkg(rel2)
				if pk2 == nil {
					continue
				}
				for _, f := range pk2.Syntax {
					if r.P.isTestFile(f) {
						continue
					}
					par := r.P.Parents(f)
					ast.Inspect(f, func(n ast.Node) bool {
						id, ok := n.(*ast.Ident)
						if !ok || pk2.TypesInfo.Uses[id] != types.Object(v) {
							return true
						}
						var e ast.Node = id
						up := par[e]
						if sel, ok := up.(*ast.SelectorExpr); ok && sel.Sel == id { // pkg.V
							e, up = sel, par[sel]
						}
						for {
							switch u := up.(type) {
							case *ast.ParenExpr:
								e, up = u, par[u]
								continue
							case *ast.UnaryExpr:
								if u.Op == token.AND {
									e, up = u, par[u]
									continue
								}
							}
							break
						}
						at := r.P.Pos(id.Pos())
						switch u := up.(type) {
						case *ast.SelectorExpr:
							if u.X != e {
								return true
							}
							if call, ok := par[u].(*ast.CallExpr); ok && call.Fun == ast.Expr(u) {
								if d, isAcc := acc[callee(pk2.TypesInfo, call)]; isAcc {
									bad = append(bad, fmt.Sprintf("%s is called on it at %s (%s)", u.Sel.Name, at, d))
								}
								return true
							}
							if s := pk2.TypesInfo.Selections[u]; s != nil && s.Kind() == types.FieldVal {
								if c30isRef(s.Type()) || par[u] != nil && c30isAddrOf(par[u], u) {
									bad = append(bad, fmt.Sprintf("its field %s (a reference to its state) is taken at %s", u.Sel.Name, at))
								}
								return true
							}
							bad = append(bad, fmt.Sprintf("the method value %s is taken at %s", u.Sel.Name, at))
						case *ast.BinaryExpr:
							if u.Op != token.EQL && u.Op != token.NEQ {
								bad = append(bad, fmt.Sprintf("it is used at %s", at))
							}
						default:
							bad = append(bad, fmt.Sprintf("it is copied out at %s (%s)", at, c30useKind(up)))
						}
						return true
					})
				}
			}
			if len(bad) == 0 {
				o.OK("%s accumulates through %s, but the variable is never copied, passed, returned, nor are those methods called on it", typeStr(nt), strings.Join(accNames, ", "))
			} else {
				o.Bad("%s is an accumulator (%s) and the package-level variable %s puts one instance to work for the whole process: %s. The entries added by one build are still there, and answer the lookups, when the same source is built again, so the second build is not the first one", typeStr(nt), strings.Join(accNames, ", "), v.Name(), strings.Join(c30dedup(bad), "; "))
			}
		}
	}
	r.Ob(R, "build-packages#variables-scanned", 0).OK("%d package-level variables of the build packages scanned", nvars)
	r.Require(R, 2)
}

func c30isAddrOf(parent ast.Node, e ast.Expr) bool {
	u, ok := parent.(*ast.UnaryExpr)
	return ok && u.Op == token.AND && u.X == e
}

func c30useKind(n ast.Node) string {
	switch n.(type) {
	case *ast.KeyValueExpr, *ast.CompositeLit:
		return "stored in a composite literal"
	case *ast.AssignStmt, *ast.ValueSpec:
		return "assigned"
	case *ast.CallExpr:
		return "passed to a call"
	case *ast.ReturnStmt:
		return "returned"
	}
	return fmt.Sprintf("%T", n)
}

func c30fileOf(files []*ast.File, pos token.Pos) *ast.File {
	for _, f := range files {
		if f.FileStart <= pos && pos <= f.FileEnd {
			return f
		}
	}
	if len(files) > 0 {
		return files[0]
	}
	return nil
}

// ---------------------------------------------------------------------------
// R-8

type c30poolSite struct {
	fi   *FuncInfo
	call *ast.CallExpr
	obj  types.Object // the local the pooled object is held in (Get) or that is put back (Put)
	typ  *types.Named
}

func (x *c30) ruleR8(fns []*FuncInfo) {
	const R = "R-8"
	r := x.r
	gets := map[types.Object][]c30poolSite{} // by pool (variable or field)
	puts := map[types.Object][]c30poolSite{}
	var pools []types.Object
	poolOf := func(info *types.Info, call *ast.CallExpr) types.Object {
		sel, ok := ast.Unparen(call.Fun).(*ast.SelectorExpr)
		if !ok {
			return nil
		}
		switch v := ast.Unparen(sel.X).(type) {
		case *ast.Ident:
			return info.ObjectOf(v)
		case *ast.SelectorExpr:
			return info.ObjectOf(v.Sel)
		case *ast.UnaryExpr:
			if id, ok := ast.Unparen(v.X).(*ast.Ident); ok {
				return info.ObjectOf(id)
			}
		}
		return nil
	}
	structPtr := func(t types.Type) *types.Named {
		p, ok := t.(*types.Pointer)
		if !ok {
			return nil
		}
		nt, ok := p.Elem().(*types.Named)
		if !ok {
			return nil
		}
		if _, ok := nt.Underlying().(*types.Struct); !ok {
			return nil
		}
		return nt
	}
	for _, fi := range fns {
		info := fi.Pkg.TypesInfo
		par := r.P.Parents(fi.File)
		for _, call := range calls(fi.Decl.Body, true) {
			m := c30isPoolMethod(callee(info, call))
			if m == "" {
				continue
			}
			pool := poolOf(info, call)
			key := fi.Name() + "#pool." + m
			if pool == nil {
				r.Ob(R, key, call.Pos()).Unknown("the pool %s is called on is not a variable or a field", m)
				continue
			}
			if len(gets[pool])+len(puts[pool]) == 0 {
				pools = append(pools, pool)
			}
			site := c30poolSite{fi: fi, call: call}
			if m == "Put" {
				if len(call.Args) == 1 {
					site.obj = objOfIdent(info, call.Args[0])
					if site.obj != nil {
						site.typ = structPtr(site.obj.Type())
					}
				}
				puts[pool] = append(puts[pool], site)
				continue
			}
			// Get: pool.Get().(*T) stored in a local
			var e ast.Node = call
			up := par[e]
			if pe, ok := up.(*ast.ParenExpr); ok {
				e, up = pe, par[pe]
			}
			if ta, ok := up.(*ast.TypeAssertExpr); ok && ta.Type != nil {
				site.typ = structPtr(info.TypeOf(ta.Type))
				e, up = ta, par[ta]
				switch s := up.(type) {
				case *ast.AssignStmt:
					for i, rh := range s.Rhs {
						if rh == e && i < len(s.Lhs) {
							site.obj = objOfIdent(info, s.Lhs[i])
						}
					}
				case *ast.ValueSpec:
					for i, v := range s.Values {
						if v == e && i < len(s.Names) {
							site.obj = info.Defs[s.Names[i]]
						}
					}
				}
			}
			gets[pool] = append(gets[pool], site)
		}
	}
	for _, pool := range pools {
		// what every function that puts an object back resets
		var putReset map[string]bool
		putUnknown := false
		for _, s := range puts[pool] {
			if s.obj == nil || s.typ == nil {
				putUnknown = true
				continue
			}
			rs := x.resetFields(s.fi, s.obj, s.typ, 0)
			if putReset == nil {
				putReset = rs
			} else {
				for f := range putReset {
					if !rs[f] {
						delete(putReset, f)
					}
				}
			}
		}
		if putUnknown {
			putReset = nil
		}
		for _, s := range gets[pool] {
			o := r.Ob(R, s.fi.Name()+"#takes-from:"+pool.Name(), s.call.Pos())
			if s.typ == nil || s.obj == nil {
				o.Unknown("the result of %s.Get is not asserted to a pointer to a struct type and stored in a local: what is reset of a recycled object cannot be decided", pool.Name())
				continue
			}
			reset := x.resetFields(s.fi, s.obj, s.typ, 0)
			var missing []string
			for _, f := range c30leafFields(s.typ.Underlying().(*types.Struct), "") {
				if !c30covered(reset, f) && !c30covered(putReset, f) {
					missing = append(missing, f)
				}
			}
			if len(missing) == 0 {
				o.OK("every field of %s is assigned or cleared by %s (or by every function that puts the object back into %s): a recycled object starts like a new one", typeStr(s.typ), s.fi.Name(), pool.Name())
			} else {
				o.Bad("%s takes a %s from the pool %s and resets it, but not its field(s) %s: which object Get returns depends on the builds made before in the process and on the garbage collector, so these fields carry the state of an earlier build into this one and the same source can be built differently", s.fi.Name(), typeStr(s.typ), pool.Name(), strings.Join(missing, ", "))
			}
		}
	}
	r.Ob(R, "build-packages#pools-scanned", 0).OK("%d sync.Pool used by the functions of the build packages", len(pools))
	r.Require(R, 1)
}

// c30leafFields lists the fields of a struct, those of embedded/nested unnamed struct fields by dotted path.
func c30leafFields(st *types.Struct, prefix string) []string {
	var out []string
	for i := 0; i < st.NumFields(); i++ {
		f := st.Field(i)
		if sub, ok := f.Type().(*types.Struct); ok { // an anonymous struct type: reset field by field or as a whole
			out = append(out, c30leafFields(sub, prefix+f.Name()+".")...)
			continue
		}
		out = append(out, prefix+f.Name())
	}
	return out
}

// c30covered: the dotted field path f, or a prefix of it, is in the set.
func c30covered(set map[string]bool, f string) bool {
	for f != "" {
		if set[f] {
			return true
		}
		i := strings.LastIndexByte(f, '.')
		if i < 0 {
			break
		}
		f = f[:i]
	}
	return false
}

// resetFields: the dotted field paths of *obj that fi assigns (x.f = …, x.f.g = …, *x = T{…} → every field),
// clears (clear(x.f)) or resets through a method of the module called on obj (one level).
func (x *c30) resetFields(fi *FuncInfo, obj types.Object, nt *types.Named, depth int) map[string]bool {
	info := fi.Pkg.TypesInfo
	out := map[string]bool{}
	st := nt.Underlying().(*types.Struct)
	fieldPath := func(e ast.Expr) (string, bool) { // e = obj.f.g → "f.g"; obj itself / *obj → ""
		var names []string
		for cur := ast.Unparen(e); ; {
			switch v := cur.(type) {
			case *ast.SelectorExpr:
				if info.Selections[v] == nil {
					return "", false
				}
				names = append([]string{v.Sel.Name}, names...)
				cur = ast.Unparen(v.X)
			case *ast.StarExpr:
				cur = ast.Unparen(v.X)
			case *ast.Ident:
				if info.ObjectOf(v) != obj {
					return "", false
				}
				return strings.Join(names, "."), true
			default:
				return "", false
			}
		}
	}
	ast.Inspect(fi.Decl.Body, func(n ast.Node) bool {
		switch s := n.(type) {
		case *ast.AssignStmt:
			if s.Tok != token.ASSIGN && s.Tok != token.DEFINE {
				return true
			}
			for _, lh := range s.Lhs {
				if _, isID := ast.Unparen(lh).(*ast.Ident); isID {
					continue // the variable itself, not what it points to
				}
				if p, ok := fieldPath(lh); ok {
					if p == "" {
						for _, f := range c30leafFields(st, "") {
							out[f] = true
						}
					} else {
						out[p] = true
					}
				}
			}
		case *ast.CallExpr:
			if isBuiltinCall(info, s, "clear") && len(s.Args) == 1 {
				if p, ok := fieldPath(s.Args[0]); ok && p != "" {
					out[p] = true
				}
				return true
			}
			if depth > 0 {
				return true
			}
			sel, ok := ast.Unparen(s.Fun).(*ast.SelectorExpr)
			if !ok {
				return true
			}
			if p, ok := fieldPath(sel.X); !ok || p != "" {
				return true
			}
			if m := x.funcOf[callee(info, s)]; m != nil && m.Decl.Recv != nil && len(m.Decl.Recv.List) == 1 && len(m.Decl.Recv.List[0].Names) == 1 {
				if ro := m.Pkg.TypesInfo.Defs[m.Decl.Recv.List[0].Names[0]]; ro != nil {
					for f := range x.resetFields(m, ro, nt, depth+1) {
						out[f] = true
					}
				}
			}
		}
		return true
	})
	return out
}
