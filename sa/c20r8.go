package main

// C20 R-8: raising the limit error cannot itself fail.
//
// Every limit check reports through the constructor of *LimitExceededError, which receives the position of the
// function being built and dereferences it. If that position can be nil where a limit can be exceeded, the
// emitter panics with a nil pointer dereference instead of the limit error; the functions that create an emitter
// recover only *LimitExceededError and re-panic anything else, so Build / BuildTemplate panic in the host
// instead of returning a limit-exceeded *BuildError.
//
// The rule follows the position backwards:
//
//	constructor  the pointer parameters that the constructor dereferences without a nil test;
//	call sites   each argument passed for such a parameter is non-nil: &T{…}, the result of a function whose
//	             every return is non-nil when its argument is (convertPosition), a single-definition local, a
//	             parameter whose callers all pass non-nil — or a field of the function being built;
//	the field    every value of that field: each composite literal of the owning struct (runtime.Function) in
//	             the module sets it to a non-nil value, or its enclosing constructor sets it when a parameter is
//	             non-nil and every caller passes a non-nil argument; a literal that never sets it (a synthetic
//	             function) is acceptable only if the builder created for it is used, until the builder variable
//	             is assigned again, exclusively for operations that cannot reach a limit check.

import (
	"fmt"
	"go/ast"
	"go/token"
	"go/types"
	"sort"
	"strings"

	"golang.org/x/tools/go/cfg"
)

func init() {
	p := registry["C20"]
	if p == nil {
		return
	}
	run := p.run
	p.run = func(r *Run) { run(r); c20LimitErrorCannotFail(r, "R-8") }
	p.explain += " R-8: the constructor of *LimitExceededError dereferences the position it receives; every argument passed to it is non-nil, and when it is the position field of the function being built (runtime.Function.Pos) every composite literal of that struct in the module gives the field a non-nil value (directly, or through a constructor that sets it when its position parameter is non-nil, all of whose callers pass a non-nil position), except for synthetic functions whose builder is only used for operations that cannot reach a limit check."
	p.trusted = append(p.trusted, "R-8: the Pos method of a node of package ast returns a non-nil position (every node built by the parser has one)")
}

const (
	c20NonNil = iota
	c20Nil
	c20NilUnknown
)

type c20nn struct {
	v   int
	why string
}

type c20r8 struct {
	x         *c20
	r         *Run
	R         string
	fieldRead map[*types.Var][]string // position fields read by limit-error calls -> callers
	reachLP   map[*types.Func]bool
	visiting  map[string]bool
}

func c20LimitErrorCannotFail(r *Run, R string) {
	x := c20cur
	if !r.Anchor(R, "the C20 analysis state", x != nil && x.r == r) {
		return
	}
	q := &c20r8{x: x, r: r, R: R, fieldRead: map[*types.Var][]string{}, visiting: map[string]bool{}}
	defer c20dump(r, R)
	r.Require(R, 8)

	// 1. the constructor: pointer parameters dereferenced without a nil test
	type unsafeParam struct {
		fi  *FuncInfo
		idx int
		v   *types.Var
	}
	var unsafe []unsafeParam
	ctors := 0
	for fn := range x.limitCtors {
		fi := x.funcOf[fn]
		if fi == nil {
			continue
		}
		ctors++
		info := fi.Pkg.TypesInfo
		sig := fn.Type().(*types.Signature)
		c := r.P.CFGOf(fi)
		for i := 0; i < sig.Params().Len(); i++ {
			pv := sig.Params().At(i)
			if _, isPtr := pv.Type().Underlying().(*types.Pointer); !isPtr {
				continue
			}
			var derefs []ast.Node
			ast.Inspect(fi.Decl.Body, func(m ast.Node) bool {
				switch e := m.(type) {
				case *ast.SelectorExpr:
					if id, ok := ast.Unparen(e.X).(*ast.Ident); ok && info.Uses[id] == types.Object(pv) {
						derefs = append(derefs, e)
					}
				case *ast.StarExpr:
					if id, ok := ast.Unparen(e.X).(*ast.Ident); ok && info.Uses[id] == types.Object(pv) {
						derefs = append(derefs, e)
					}
				}
				return true
			})
			bad := 0
			for _, d := range derefs {
				if !c.GuardedBy(d, func(l Lit) bool { return q.nilTest(info, l, pv) == 1 }) {
					bad++
				}
			}
			o := r.Ob(R, fi.Name()+"#"+pv.Name(), fi.Decl.Pos())
			switch {
			case len(derefs) == 0:
				o.Trivial("the constructor of the limit error does not dereference %s", pv.Name())
			case bad == 0:
				o.OK("the constructor of the limit error tests %s for nil before each of its %d dereferences", pv.Name(), len(derefs))
			default:
				o.OK("the constructor of the limit error dereferences %s in %d places without a nil test: every argument is audited", pv.Name(), bad)
				unsafe = append(unsafe, unsafeParam{fi, i, pv})
			}
		}
	}
	if !r.Anchor(R, "a constructor of *LimitExceededError with a body", ctors > 0) {
		return
	}
	if len(unsafe) == 0 {
		return
	}

	// 2. call sites
	for _, up := range unsafe {
		sites := x.callSites[up.fi.Obj]
		if x.escapes[up.fi.Obj] {
			r.Ob(R, up.fi.Name()+"#callers", up.fi.Decl.Pos()).Unknown("the constructor of the limit error is used as a value: its callers cannot be enumerated")
		}
		for _, s := range sites {
			if up.idx >= len(s.call.Args) || s.call.Ellipsis.IsValid() && up.idx >= len(s.call.Args)-1 {
				continue
			}
			arg := s.call.Args[up.idx]
			if f := q.fieldOf(s.fi, arg); f != nil {
				q.fieldRead[f] = append(q.fieldRead[f], s.fi.Name())
				continue
			}
			res := q.nn(s.fi, arg, 0)
			o := r.Ob(R, s.fi.Name()+"#"+up.fi.Obj.Name()+"("+up.v.Name()+")", s.call.Pos())
			q.decide(o, res, fmt.Sprintf("the position %s passed to the constructor of the limit error", exprStr(arg)))
		}
	}

	// 3. the position fields
	q.computeReach()
	var fields []*types.Var
	for f := range q.fieldRead {
		fields = append(fields, f)
	}
	sort.Slice(fields, func(i, j int) bool { return fields[i].Name() < fields[j].Name() })
	for _, f := range fields {
		q.auditField(f)
	}
}

func (q *c20r8) decide(o *Obl, res c20nn, what string) {
	switch res.v {
	case c20NonNil:
		o.OK("%s is never nil: %s", what, res.why)
	case c20Nil:
		o.Bad("%s can be nil (%s): the constructor dereferences it, so exceeding a limit there panics with a nil pointer dereference, which the emitter's recover does not convert: Build panics instead of returning a limit-exceeded *BuildError", what, res.why)
	default:
		o.Unknown("%s cannot be shown to be non-nil: %s", what, res.why)
	}
}

// nilTest: 1 when the literal implies v != nil, -1 when it implies v == nil, 0 otherwise.
func (q *c20r8) nilTest(info *types.Info, l Lit, v *types.Var) int {
	if l.Tag != nil {
		return 0
	}
	be, ok := ast.Unparen(l.Expr).(*ast.BinaryExpr)
	if !ok || (be.Op != token.EQL && be.Op != token.NEQ) {
		return 0
	}
	X, Y := ast.Unparen(be.X), ast.Unparen(be.Y)
	if info.Types[X].IsNil() {
		X, Y = Y, X
	}
	id, ok := X.(*ast.Ident)
	if !ok || info.Uses[id] != types.Object(v) || !info.Types[Y].IsNil() {
		return 0
	}
	if (be.Op == token.NEQ) == l.Truth {
		return 1
	}
	return -1
}

// fieldOf: e reads a pointer-typed struct field (through single-definition aliases: fn := fb.fn; fn.Pos).
func (q *c20r8) fieldOf(fi *FuncInfo, e ast.Expr) *types.Var {
	se, ok := ast.Unparen(e).(*ast.SelectorExpr)
	if !ok {
		return nil
	}
	sel := fi.Pkg.TypesInfo.Selections[se]
	if sel == nil || sel.Kind() != types.FieldVal {
		return nil
	}
	f, _ := sel.Obj().(*types.Var)
	return f
}

// nn decides whether pointer expression e, evaluated in fi, can be nil.
func (q *c20r8) nn(fi *FuncInfo, e ast.Expr, depth int) c20nn {
	x := q.x
	info := fi.Pkg.TypesInfo
	e = ast.Unparen(e)
	if depth > 5 {
		return c20nn{c20NilUnknown, "analysis depth exhausted at " + exprStr(e)}
	}
	if tv, ok := info.Types[e]; ok && tv.IsNil() {
		return c20nn{c20Nil, "the nil literal in " + fi.Name()}
	}
	switch v := e.(type) {
	case *ast.UnaryExpr:
		if v.Op == token.AND {
			return c20nn{c20NonNil, "&" + exprStr(v.X) + " is an address"}
		}
	case *ast.SelectorExpr:
		if f := q.fieldOf(fi, v); f != nil {
			q.fieldRead[f] = append(q.fieldRead[f], fi.Name())
			return c20nn{c20NonNil, "field " + f.Name() + " (audited at its sources)"}
		}
	case *ast.CallExpr:
		if tv, ok := info.Types[v.Fun]; ok && tv.IsType() && len(v.Args) == 1 {
			return q.nn(fi, v.Args[0], depth+1)
		}
		if isBuiltinCall(info, v, "new") {
			return c20nn{c20NonNil, "new(…)"}
		}
		fn := callee(info, v)
		if fn == nil {
			return c20nn{c20NilUnknown, "dynamic call " + exprStr(v.Fun)}
		}
		cfi := x.funcOf[fn]
		if cfi == nil {
			if q.trustedPos(fn) {
				return c20nn{c20NonNil, "position of a parsed node (" + exprStr(v.Fun) + ")"}
			}
			return c20nn{c20NilUnknown, "result of " + fn.FullName() + ", whose body is not analysed"}
		}
		key := fmt.Sprintf("res %p", fn)
		if q.visiting[key] {
			return c20nn{c20NilUnknown, "recursive " + fn.Name()}
		}
		q.visiting[key] = true
		defer delete(q.visiting, key)
		deps, res := q.resultDeps(cfi)
		if res.v != c20NonNil {
			return res
		}
		why := []string{fn.Name() + " returns nil only when its argument is nil"}
		if len(deps) == 0 {
			why = []string{"every return of " + fn.Name() + " is non-nil"}
		}
		for _, pi := range deps {
			if pi >= len(v.Args) || v.Ellipsis.IsValid() {
				return c20nn{c20NilUnknown, "argument of " + fn.Name() + " not found"}
			}
			ar := q.nn(fi, v.Args[pi], depth+1)
			if ar.v != c20NonNil {
				return ar
			}
			why = append(why, ar.why)
		}
		return c20nn{c20NonNil, strings.Join(why, "; ")}
	case *ast.Ident:
		obj, _ := info.Uses[v].(*types.Var)
		if obj == nil {
			return c20nn{c20NilUnknown, exprStr(e) + " is not a variable"}
		}
		if pi := x.paramIndex(fi, obj); pi >= 0 {
			if len(x.defsOf(fi, obj)) > 0 {
				return c20nn{c20NilUnknown, "parameter " + obj.Name() + " of " + fi.Name() + " is reassigned"}
			}
			return q.paramNN(fi, obj, pi, depth)
		}
		ds := x.defsOf(fi, obj)
		if len(ds) == 0 {
			return c20nn{c20NilUnknown, obj.Name() + " has no definition in " + fi.Name()}
		}
		var whys []string
		for _, d := range ds {
			if d.kind == "zero" {
				return c20nn{c20Nil, obj.Name() + " is declared without a value in " + fi.Name()}
			}
			if d.kind != "expr" {
				return c20nn{c20NilUnknown, obj.Name() + " is defined by something other than a plain assignment in " + fi.Name()}
			}
			dr := q.nn(fi, d.expr, depth+1)
			if dr.v != c20NonNil {
				return dr
			}
			whys = append(whys, dr.why)
		}
		return c20nn{c20NonNil, strings.Join(c20uniq(whys), "; ")}
	}
	return c20nn{c20NilUnknown, "expression " + exprStr(e) + " in " + fi.Name()}
}

// trustedPos: a method of a type of the module's package ast returning a pointer (the position of a node).
func (q *c20r8) trustedPos(fn *types.Func) bool {
	sig, _ := fn.Type().(*types.Signature)
	if sig == nil || sig.Recv() == nil || fn.Pkg() == nil || sig.Results().Len() != 1 || sig.Params().Len() != 0 {
		return false
	}
	if !strings.HasSuffix(fn.Pkg().Path(), "/ast") || relOf(fn.Pkg()) != "ast" {
		return false
	}
	pt, ok := sig.Results().At(0).Type().(*types.Pointer)
	if !ok {
		return false
	}
	nt, _ := types.Unalias(pt.Elem()).(*types.Named)
	return nt != nil && nt.Obj().Pkg() == fn.Pkg()
}

// resultDeps reads the return statements of cfi: the (first) result is non-nil provided the parameters listed are.
func (q *c20r8) resultDeps(cfi *FuncInfo) (deps []int, res c20nn) {
	x := q.x
	info := cfi.Pkg.TypesInfo
	c := q.r.P.CFGOf(cfi)
	sig := cfi.Obj.Type().(*types.Signature)
	if sig.Results().Len() < 1 {
		return nil, c20nn{c20NilUnknown, cfi.Name() + " has no result"}
	}
	depSet := map[int]bool{}
	res = c20nn{v: c20NonNil}
	n := 0
	ast.Inspect(cfi.Decl.Body, func(m ast.Node) bool {
		if _, ok := m.(*ast.FuncLit); ok {
			return false
		}
		ret, ok := m.(*ast.ReturnStmt)
		if !ok || res.v != c20NonNil {
			return true
		}
		n++
		if len(ret.Results) < 1 {
			res = c20nn{c20NilUnknown, cfi.Name() + " returns through named results"}
			return true
		}
		e := ast.Unparen(ret.Results[0])
		if tv, ok := info.Types[e]; ok && tv.IsNil() {
			// acceptable only where some parameter is known to be nil
			guard := -1
			for i := 0; i < sig.Params().Len(); i++ {
				pv := sig.Params().At(i)
				if c.GuardedBy(ret, func(l Lit) bool { return q.nilTest(info, l, pv) == -1 }) && len(x.defsOf(cfi, pv)) == 0 {
					guard = i
				}
			}
			if guard < 0 {
				res = c20nn{c20Nil, cfi.Name() + " may return nil"}
				return true
			}
			depSet[guard] = true
			return true
		}
		if id, ok := e.(*ast.Ident); ok {
			if pv, ok := info.Uses[id].(*types.Var); ok {
				if pi := x.paramIndex(cfi, pv); pi >= 0 && len(x.defsOf(cfi, pv)) == 0 {
					depSet[pi] = true
					return true
				}
			}
		}
		rr := q.nn(cfi, e, 1)
		if rr.v != c20NonNil {
			res = rr
		}
		return true
	})
	if n == 0 {
		return nil, c20nn{c20NilUnknown, cfi.Name() + " has no return statement"}
	}
	for i := range depSet {
		deps = append(deps, i)
	}
	sort.Ints(deps)
	return deps, res
}

// paramNN: every caller passes a non-nil argument.
func (q *c20r8) paramNN(fi *FuncInfo, obj *types.Var, pi, depth int) c20nn {
	x := q.x
	sites := x.callSites[fi.Obj]
	if fi.Obj == nil || x.escapes[fi.Obj] || len(sites) == 0 || !c20unexportedOrInternal(fi.Obj) {
		return c20nn{c20NilUnknown, "the callers of " + fi.Name() + " cannot be enumerated"}
	}
	key := fmt.Sprintf("par %p %d", fi.Obj, pi)
	if q.visiting[key] {
		return c20nn{c20NonNil, "recursive call"}
	}
	q.visiting[key] = true
	defer delete(q.visiting, key)
	var whys []string
	for _, s := range sites {
		if pi >= len(s.call.Args) || s.call.Ellipsis.IsValid() {
			return c20nn{c20NilUnknown, "argument " + obj.Name() + " of " + fi.Name() + " not found in " + s.fi.Name()}
		}
		ar := q.nn(s.fi, s.call.Args[pi], depth+1)
		if ar.v != c20NonNil {
			ar.why = fmt.Sprintf("%s passes %s for %s of %s: %s", s.fi.Name(), exprStr(s.call.Args[pi]), obj.Name(), fi.Obj.Name(), ar.why)
			return ar
		}
		whys = append(whys, ar.why)
	}
	return c20nn{c20NonNil, fmt.Sprintf("all %d callers of %s pass a non-nil %s (%s)", len(sites), fi.Obj.Name(), obj.Name(), strings.Join(c20uniq(whys), "; "))}
}

// computeReach: the functions from which a limit panic can be reached through static calls.
func (q *c20r8) computeReach() {
	x := q.x
	q.reachLP = map[*types.Func]bool{}
	var work []*types.Func
	for _, fi := range x.allFuncs {
		if fi.Obj == nil {
			continue
		}
		info := fi.Pkg.TypesInfo
		has := false
		ast.Inspect(fi.Decl.Body, func(m ast.Node) bool {
			if es, ok := m.(*ast.ExprStmt); ok && x.isLimitPanic(info, es) {
				has = true
			}
			return !has
		})
		if has {
			q.reachLP[fi.Obj] = true
			work = append(work, fi.Obj)
		}
	}
	for len(work) > 0 {
		fn := work[len(work)-1]
		work = work[:len(work)-1]
		for _, s := range x.callSites[fn] {
			if s.fi.Obj != nil && !q.reachLP[s.fi.Obj] {
				q.reachLP[s.fi.Obj] = true
				work = append(work, s.fi.Obj)
			}
		}
	}
}

// auditField audits every source of the position field f (a field of the struct describing the function being built).
func (q *c20r8) auditField(f *types.Var) {
	x, r, R := q.x, q.r, q.R
	// the owning struct
	var owner *types.Named
	for _, pk := range x.pkgs {
		sc := pk.Types.Scope()
		for _, name := range sc.Names() {
			tn, ok := sc.Lookup(name).(*types.TypeName)
			if !ok {
				continue
			}
			nt, _ := tn.Type().(*types.Named)
			if nt == nil {
				continue
			}
			if st, ok := nt.Underlying().(*types.Struct); ok {
				for i := 0; i < st.NumFields(); i++ {
					if st.Field(i) == f {
						owner = nt
					}
				}
			}
		}
	}
	readers := c20uniq(sortStrings(q.fieldRead[f]))
	if !r.Anchor(R, "the struct owning position field "+f.Name(), owner != nil) {
		return
	}
	r.Ob(R, "field:"+owner.Obj().Name()+"."+f.Name(), f.Pos()).OK("the limit error is raised with the position %s.%s of the function being built in %d functions (%s …): its sources are audited", owner.Obj().Name(), f.Name(), len(readers), readers[0])

	handledAssign := map[*ast.AssignStmt]bool{}
	for _, fi := range x.allFuncs {
		info := fi.Pkg.TypesInfo
		par := r.P.Parents(fi.File)
		ast.Inspect(fi.Decl.Body, func(m ast.Node) bool {
			cl, ok := m.(*ast.CompositeLit)
			if !ok || !types.Identical(types.Unalias(info.TypeOf(cl)), owner) {
				return true
			}
			key := fi.Name() + "#literal:" + owner.Obj().Name()
			// explicit value
			positional := false
			for i, el := range cl.Elts {
				kv, ok := el.(*ast.KeyValueExpr)
				if !ok {
					positional = true
					_ = i
					continue
				}
				if id, ok := kv.Key.(*ast.Ident); ok && info.Uses[id] == types.Object(f) {
					o := r.Ob(R, key, cl.Pos())
					q.decide(o, q.nn(fi, kv.Value, 0), fmt.Sprintf("the position %s given to the %s created in %s", exprStr(kv.Value), owner.Obj().Name(), fi.Name()))
					return true
				}
			}
			if positional {
				r.Ob(R, key, cl.Pos()).Unknown("positional composite literal of %s: the value of %s is not read", owner.Obj().Name(), f.Name())
				return true
			}
			// the variable holding the literal
			var holder types.Object
			var p ast.Node = cl
			if u, ok := par[cl].(*ast.UnaryExpr); ok && u.Op == token.AND {
				p = u
			}
			switch st := par[p].(type) {
			case *ast.AssignStmt:
				for i, rhs := range st.Rhs {
					if rhs == p && i < len(st.Lhs) {
						if id, ok := st.Lhs[i].(*ast.Ident); ok {
							if holder = info.Defs[id]; holder == nil {
								holder = info.Uses[id]
							}
						}
					}
				}
			case *ast.ValueSpec:
				for i, v := range st.Values {
					if v == p && i < len(st.Names) {
						holder = info.Defs[st.Names[i]]
					}
				}
			}
			if holder == nil {
				r.Ob(R, key, cl.Pos()).Unknown("a %s is created without %s and not stored in a local variable: its later use is not followed", owner.Obj().Name(), f.Name())
				return true
			}
			// assignments holder.f = v in the same function
			var sets []*ast.AssignStmt
			var vals []ast.Expr
			ast.Inspect(fi.Decl.Body, func(k ast.Node) bool {
				as, ok := k.(*ast.AssignStmt)
				if !ok || len(as.Lhs) != len(as.Rhs) {
					return true
				}
				for i, l := range as.Lhs {
					se, ok := ast.Unparen(l).(*ast.SelectorExpr)
					if !ok {
						continue
					}
					sel := info.Selections[se]
					id, isId := ast.Unparen(se.X).(*ast.Ident)
					if sel != nil && sel.Obj() == types.Object(f) && isId && info.Uses[id] == holder {
						sets = append(sets, as)
						vals = append(vals, as.Rhs[i])
						handledAssign[as] = true
					}
				}
				return true
			})
			if len(sets) == 0 {
				q.auditPositionless(fi, cl, holder, owner, f, key)
				return true
			}
			c := r.P.CFGOf(fi)
			for i, as := range sets {
				vr := q.nn(fi, vals[i], 0)
				if vr.v != c20NonNil {
					q.decide(r.Ob(R, key, as.Pos()), vr, fmt.Sprintf("the position %s assigned to %s.%s in %s", exprStr(vals[i]), holder.Name(), f.Name(), fi.Name()))
					continue
				}
				// under which parameter test?
				guard := -1
				if fi.Obj != nil {
					sig := fi.Obj.Type().(*types.Signature)
					for pi := 0; pi < sig.Params().Len(); pi++ {
						pv := sig.Params().At(pi)
						if c.GuardedBy(as, func(l Lit) bool { return q.nilTest(info, l, pv) == 1 }) && len(x.defsOf(fi, pv)) == 0 {
							guard = pi
						}
					}
				}
				blk, _ := c.Locate(as)
				switch {
				case guard >= 0:
					// a constructor forwarding a position: every caller
					pv := fi.Obj.Type().(*types.Signature).Params().At(guard)
					sites := x.callSites[fi.Obj]
					if x.escapes[fi.Obj] || len(sites) == 0 || !c20unexportedOrInternal(fi.Obj) {
						r.Ob(R, key, as.Pos()).Unknown("%s sets %s only when its parameter %s is non-nil and its callers cannot be enumerated", fi.Name(), f.Name(), pv.Name())
						continue
					}
					for _, s := range sites {
						o := r.Ob(R, s.fi.Name()+"#"+fi.Obj.Name()+"("+pv.Name()+")", s.call.Pos())
						if guard >= len(s.call.Args) || s.call.Ellipsis.IsValid() {
							o.Unknown("argument %s of %s not found", pv.Name(), fi.Name())
							continue
						}
						q.decide(o, q.nn(s.fi, s.call.Args[guard], 0), fmt.Sprintf("the position %s passed to %s, which gives the new function a position only when it is non-nil,", exprStr(s.call.Args[guard]), fi.Obj.Name()))
					}
				case blk != nil && q.unconditional(c, fi, as):
					r.Ob(R, key, as.Pos()).OK("%s.%s is set to %s on every path of %s: %s", holder.Name(), f.Name(), exprStr(vals[i]), fi.Name(), vr.why)
				default:
					r.Ob(R, key, as.Pos()).Unknown("%s.%s is set under a condition that is not a nil test of a parameter in %s", holder.Name(), f.Name(), fi.Name())
				}
			}
			return true
		})
	}
	// assignments to the field elsewhere
	for _, fi := range x.allFuncs {
		info := fi.Pkg.TypesInfo
		ast.Inspect(fi.Decl.Body, func(m ast.Node) bool {
			as, ok := m.(*ast.AssignStmt)
			if !ok || handledAssign[as] || len(as.Lhs) != len(as.Rhs) {
				return true
			}
			for i, l := range as.Lhs {
				se, ok := ast.Unparen(l).(*ast.SelectorExpr)
				if !ok {
					continue
				}
				if sel := info.Selections[se]; sel != nil && sel.Obj() == types.Object(f) {
					o := r.Ob(R, fi.Name()+"#assign:"+f.Name(), as.Pos())
					q.decide(o, q.nn(fi, as.Rhs[i], 0), fmt.Sprintf("the position %s assigned to %s in %s", exprStr(as.Rhs[i]), exprStr(l), fi.Name()))
				}
			}
			return true
		})
	}
}

// unconditional: the statement is executed on every path from the entry of fi to a return.
func (q *c20r8) unconditional(c *CFGInfo, fi *FuncInfo, st ast.Stmt) bool {
	blk, _ := c.Locate(st)
	if blk == nil {
		return false
	}
	for _, ret := range c.Returns() {
		rb, _ := c.Locate(ret)
		if rb == nil {
			continue
		}
		if rb != blk && c.reachable(c.G.Blocks[0], rb, nil, func(b *cfg.Block) bool { return b == blk }) {
			return false
		}
	}
	return true
}

// auditPositionless: a function value created without a position. The builder made for it must only be used for
// operations that cannot reach a limit check, until the variable holding the builder is assigned again.
func (q *c20r8) auditPositionless(fi *FuncInfo, cl *ast.CompositeLit, holder types.Object, owner *types.Named, f *types.Var, key string) {
	x, r, R := q.x, q.r, q.R
	info := fi.Pkg.TypesInfo
	par := r.P.Parents(fi.File)
	o := r.Ob(R, key, cl.Pos())
	// calls receiving the holder and returning a pointer to a type some method of which can reach a limit panic
	type made struct {
		as   *ast.AssignStmt
		lv   string
		call *ast.CallExpr
	}
	var builds []made
	otherUse := ""
	ast.Inspect(fi.Decl.Body, func(m ast.Node) bool {
		call, ok := m.(*ast.CallExpr)
		if !ok {
			return true
		}
		passes := false
		for _, a := range call.Args {
			if id, ok := ast.Unparen(a).(*ast.Ident); ok && info.Uses[id] == holder {
				passes = true
			}
		}
		if !passes {
			return true
		}
		if !q.returnsLimitRaiser(info, call) {
			return true
		}
		as, ok := par[call].(*ast.AssignStmt)
		if !ok || len(as.Lhs) != 1 || len(as.Rhs) != 1 {
			otherUse = "the builder returned by " + exprStr(call.Fun) + " is not assigned to a variable"
			return true
		}
		builds = append(builds, made{as, x.norm(fi, as.Lhs[0]), call})
		return true
	})
	if otherUse != "" {
		o.Unknown("a %s is created without %s in %s and %s", owner.Obj().Name(), f.Name(), fi.Name(), otherUse)
		return
	}
	if len(builds) == 0 {
		o.Unknown("a %s is created without %s in %s and the place where it is built was not found: if a limit is exceeded while building it, the limit error dereferences a nil position", owner.Obj().Name(), f.Name(), fi.Name())
		return
	}
	var okOps []string
	for _, b := range builds {
		list, idx := q.stmtList(par, b.as)
		if list == nil {
			o.Unknown("the statement list holding %s was not found", exprStr(b.as.Lhs[0]))
			return
		}
		closed := false
		for _, st := range list[idx+1:] {
			// the builder variable is assigned again: the synthetic function is finished
			if as, ok := st.(*ast.AssignStmt); ok {
				re := false
				for _, l := range as.Lhs {
					if x.norm(fi, l) == b.lv {
						re = true
					}
				}
				if re {
					closed = true
					break
				}
			}
			bad := ""
			ast.Inspect(st, func(k ast.Node) bool {
				call, ok := k.(*ast.CallExpr)
				if !ok || bad != "" {
					return true
				}
				if tv, ok := info.Types[call.Fun]; ok && tv.IsType() {
					return true
				}
				fn := callee(info, call)
				if fn == nil {
					if !isBuiltin(info, call) {
						bad = "the dynamic call " + exprStr(call.Fun)
					}
					return true
				}
				if fn.Pkg() == nil || x.funcOf[fn] == nil {
					return true // a function outside the compiler cannot reach its limit checks
				}
				if q.reachLP[fn] {
					bad = fn.Name() + " can reach a limit check"
				} else {
					okOps = append(okOps, fn.Name())
				}
				return true
			})
			if bad != "" {
				o.Bad("a %s is created without %s in %s and, while %s holds its builder, %s: exceeding the limit there dereferences the nil position in the constructor of the limit error, and Build panics instead of returning a limit-exceeded *BuildError", owner.Obj().Name(), f.Name(), fi.Name(), b.lv, bad)
				return
			}
		}
		if !closed {
			o.Unknown("a %s is created without %s in %s and %s still holds its builder at the end of the statement list: what is emitted next is not followed", owner.Obj().Name(), f.Name(), fi.Name(), b.lv)
			return
		}
	}
	o.OK("a %s is created without %s in %s (a synthetic function); while its builder is current only operations that cannot reach a limit check are performed (%s)", owner.Obj().Name(), f.Name(), fi.Name(), strings.Join(c20uniq(sortStrings(okOps)), ", "))
}

func isBuiltin(info *types.Info, call *ast.CallExpr) bool {
	id, ok := ast.Unparen(call.Fun).(*ast.Ident)
	if !ok {
		return false
	}
	_, isB := info.Uses[id].(*types.Builtin)
	return isB
}

// returnsLimitRaiser: the call returns a pointer to a named type one of whose methods can reach a limit panic.
func (q *c20r8) returnsLimitRaiser(info *types.Info, call *ast.CallExpr) bool {
	t := info.TypeOf(call)
	pt, ok := t.(*types.Pointer)
	if !ok {
		return false
	}
	nt, _ := types.Unalias(pt.Elem()).(*types.Named)
	if nt == nil {
		return false
	}
	for fn := range q.reachLP {
		sig := fn.Type().(*types.Signature)
		if sig.Recv() == nil {
			continue
		}
		rt := sig.Recv().Type()
		if p, ok := rt.(*types.Pointer); ok {
			rt = p.Elem()
		}
		if types.Identical(types.Unalias(rt), nt) {
			return true
		}
	}
	return false
}

// stmtList returns the statement list that directly contains st and its index.
func (q *c20r8) stmtList(par map[ast.Node]ast.Node, st ast.Stmt) ([]ast.Stmt, int) {
	var list []ast.Stmt
	switch p := par[st].(type) {
	case *ast.BlockStmt:
		list = p.List
	case *ast.CaseClause:
		list = p.Body
	case *ast.CommClause:
		list = p.Body
	}
	for i, s := range list {
		if s == st {
			return list, i
		}
	}
	return nil, -1
}
