package main

// c06x — finite-domain evaluator of byte-level scanner code, used by C06 R-8 and R-10.
//
// Nothing of /repo is compiled or run: the evaluator walks the type-checked syntax of a function of
// /repo on a CONCRETE, tiny input chosen by the rule (a byte slice of a few bytes, the fields of the
// receiver) and computes the value the Go specification gives to each expression. It supports the
// sequential subset the lexer's scanners are written in: integers, booleans, strings, byte slices,
// structs reached through a pointer, if / for / range / switch / labelled break and continue,
// assignments, calls of functions of the module with a body, function literals, and a closed list of
// pure standard library functions (bytes, strings, unicode/utf8, unicode). Anything else (channels,
// goroutines, interfaces, maps, reflection, type switches) aborts the evaluation: the rule then reports
// Unknown, it never guesses. Evaluations are bounded by a step budget.

import (
	"bytes"
	"fmt"
	"go/ast"
	"go/constant"
	"go/token"
	"go/types"
	"strings"
	"unicode"
	"unicode/utf8"
)

type c06xAbort struct{ msg string }

type c06xStop struct{} // raised by a hook to end the evaluation normally

type c06xCell struct{ v any }

type c06xStruct struct {
	t types.Type // the struct type (named or not)
	f map[string]*c06xCell
}

type c06xPtr struct{ c *c06xCell }

type c06xClosure struct {
	lit  *ast.FuncLit
	env  *c06xEnv
	info *types.Info
}

type c06xBound struct {
	fn   *types.Func
	recv any
}

type c06xTuple []any

type c06xEnv struct {
	vars   map[types.Object]*c06xCell
	parent *c06xEnv
}

func (e *c06xEnv) lookup(o types.Object) *c06xCell {
	for x := e; x != nil; x = x.parent {
		if c, ok := x.vars[o]; ok {
			return c
		}
	}
	return nil
}

type c06xFrame struct {
	info *types.Info
	env  *c06xEnv
	sig  *types.Signature
	res  []*c06xCell // named results
}

const (
	c06xNone = iota
	c06xBreak
	c06xContinue
	c06xReturn
	c06xFallthrough
)

type c06xCtl struct {
	kind  int
	label string
	vals  []any
}

type c06xInterp struct {
	p       *Prog
	fuel    int
	globals map[types.Object]*c06xCell
	decls   map[*types.Func]*FuncInfo
	// after is called when a statement completed; returning true stops the evaluation (c06xStop)
	after func(s ast.Stmt, fr *c06xFrame) bool
	depth int
}

func c06xNew(p *Prog) *c06xInterp {
	return &c06xInterp{p: p, globals: map[types.Object]*c06xCell{}, decls: map[*types.Func]*FuncInfo{}}
}

func (it *c06xInterp) abort(format string, a ...any) {
	panic(c06xAbort{fmt.Sprintf(format, a...)})
}

func (it *c06xInterp) step() {
	it.fuel--
	if it.fuel < 0 {
		it.abort("step budget exhausted (the scanner does not terminate on the probe)")
	}
}

// Run evaluates f; it returns ("" , true) when f completed or a hook stopped it, or the reason of the abort.
func (it *c06xInterp) Run(fuel int, f func()) (reason string, ok bool) {
	it.fuel = fuel
	it.depth = 0
	defer func() {
		if e := recover(); e != nil {
			switch x := e.(type) {
			case c06xAbort:
				reason, ok = x.msg, false
			case c06xStop:
				reason, ok = "", true
			default:
				reason, ok = fmt.Sprintf("evaluator fault: %v", e), false
			}
		}
	}()
	f()
	return "", true
}

// ---------------------------------------------------------------------------
// values

func (it *c06xInterp) zero(t types.Type) any {
	switch u := t.Underlying().(type) {
	case *types.Basic:
		switch {
		case u.Info()&types.IsBoolean != 0:
			return false
		case u.Info()&types.IsInteger != 0:
			return int64(0)
		case u.Info()&types.IsString != 0:
			return ""
		}
		it.abort("unsupported basic type %s", t)
	case *types.Struct:
		return &c06xStruct{t: t, f: map[string]*c06xCell{}}
	case *types.Slice:
		if b, ok := u.Elem().Underlying().(*types.Basic); ok && b.Kind() == types.Uint8 {
			return []byte(nil)
		}
		return nil
	case *types.Pointer, *types.Interface, *types.Map, *types.Chan, *types.Signature:
		return nil
	}
	it.abort("unsupported type %s", t)
	return nil
}

func c06xWrap(t types.Type, v int64) int64 {
	if t == nil {
		return v
	}
	b, ok := t.Underlying().(*types.Basic)
	if !ok {
		return v
	}
	switch b.Kind() {
	case types.Uint8:
		return int64(uint8(v))
	case types.Int8:
		return int64(int8(v))
	case types.Uint16:
		return int64(uint16(v))
	case types.Int16:
		return int64(int16(v))
	case types.Uint32:
		return int64(uint32(v))
	case types.Int32:
		return int64(int32(v))
	}
	return v
}

func (it *c06xInterp) fromConst(cv constant.Value, t types.Type) any {
	switch cv.Kind() {
	case constant.Bool:
		return constant.BoolVal(cv)
	case constant.String:
		return constant.StringVal(cv)
	case constant.Int:
		if i, ok := constant.Int64Val(cv); ok {
			return i
		}
		if u, ok := constant.Uint64Val(cv); ok {
			return int64(u)
		}
	case constant.Float:
		if iv := constant.ToInt(cv); iv.Kind() == constant.Int {
			if i, ok := constant.Int64Val(iv); ok {
				return i
			}
		}
	}
	it.abort("unsupported constant %s", cv)
	return nil
}

// copyVal implements value semantics for structs.
func (it *c06xInterp) copyVal(v any, t types.Type) any {
	if s, ok := v.(*c06xStruct); ok && t != nil {
		if _, isStruct := t.Underlying().(*types.Struct); isStruct {
			n := &c06xStruct{t: s.t, f: map[string]*c06xCell{}}
			st := s.t.Underlying().(*types.Struct)
			for i := 0; i < st.NumFields(); i++ {
				fld := st.Field(i)
				if c, ok := s.f[fld.Name()]; ok {
					n.f[fld.Name()] = &c06xCell{it.copyVal(c.v, fld.Type())}
				}
			}
			return n
		}
	}
	return v
}

func (it *c06xInterp) field(s *c06xStruct, name string) *c06xCell {
	if c, ok := s.f[name]; ok {
		return c
	}
	st, ok := s.t.Underlying().(*types.Struct)
	if !ok {
		it.abort("field %s of a non-struct", name)
	}
	for i := 0; i < st.NumFields(); i++ {
		if st.Field(i).Name() == name {
			c := &c06xCell{it.zero(st.Field(i).Type())}
			s.f[name] = c
			return c
		}
	}
	it.abort("no field %s in %s", name, s.t)
	return nil
}

func (it *c06xInterp) asStruct(v any) *c06xStruct {
	switch x := v.(type) {
	case *c06xStruct:
		return x
	case *c06xPtr:
		if s, ok := x.c.v.(*c06xStruct); ok {
			return s
		}
	case nil:
		it.abort("nil pointer dereference in the evaluated code")
	}
	it.abort("selector on an unsupported value %T", v)
	return nil
}

func (it *c06xInterp) toInt(v any) int64 {
	if i, ok := v.(int64); ok {
		return i
	}
	it.abort("integer expected, got %T", v)
	return 0
}

func (it *c06xInterp) toBool(v any) bool {
	if b, ok := v.(bool); ok {
		return b
	}
	it.abort("boolean expected, got %T", v)
	return false
}

// ---------------------------------------------------------------------------
// declarations

func (it *c06xInterp) declOf(fn *types.Func) *FuncInfo {
	if fi, ok := it.decls[fn]; ok {
		return fi
	}
	fi := c06FuncInfoOf(it.p, fn.Origin())
	it.decls[fn] = fi
	return fi
}

func (it *c06xInterp) global(v *types.Var) *c06xCell {
	if c, ok := it.globals[v]; ok {
		return c
	}
	if v.Pkg() == nil || !strings.HasPrefix(v.Pkg().Path(), modulePath) {
		it.abort("package variable %s.%s of another module", v.Pkg().Name(), v.Name())
	}
	rel := strings.TrimPrefix(strings.TrimPrefix(v.Pkg().Path(), modulePath), "/")
	pk := it.p.Pkg(rel)
	if pk == nil {
		it.abort("package of variable %s not loaded", v.Name())
	}
	for _, f := range pk.Syntax {
		for _, d := range f.Decls {
			gd, ok := d.(*ast.GenDecl)
			if !ok || gd.Tok != token.VAR {
				continue
			}
			for _, sp := range gd.Specs {
				vs := sp.(*ast.ValueSpec)
				for i, id := range vs.Names {
					if pk.TypesInfo.Defs[id] != v {
						continue
					}
					c := &c06xCell{}
					it.globals[v] = c
					if len(vs.Values) == len(vs.Names) {
						fr := &c06xFrame{info: pk.TypesInfo, env: &c06xEnv{vars: map[types.Object]*c06xCell{}}}
						c.v = it.copyVal(it.eval(vs.Values[i], fr), v.Type())
					} else if len(vs.Values) == 0 {
						c.v = it.zero(v.Type())
					} else {
						it.abort("package variable %s initialised from a multi-valued call", v.Name())
					}
					return c
				}
			}
		}
	}
	it.abort("declaration of package variable %s not found", v.Name())
	return nil
}

// ---------------------------------------------------------------------------
// expressions

func (it *c06xInterp) eval(e ast.Expr, fr *c06xFrame) any {
	it.step()
	if tv, ok := fr.info.Types[e]; ok && tv.Value != nil {
		return it.fromConst(tv.Value, tv.Type)
	}
	switch x := e.(type) {
	case *ast.ParenExpr:
		return it.eval(x.X, fr)
	case *ast.Ident:
		switch o := fr.info.Uses[x].(type) {
		case *types.Nil:
			return nil
		case *types.Var:
			if c := fr.env.lookup(o); c != nil {
				return c.v
			}
			if o.Parent() != nil && o.Pkg() != nil && o.Parent() == o.Pkg().Scope() {
				return it.global(o).v
			}
			it.abort("variable %s has no value", x.Name)
		case *types.Func:
			return &c06xBound{fn: o}
		}
		if o := fr.info.Defs[x]; o != nil {
			if c := fr.env.lookup(o); c != nil {
				return c.v
			}
		}
		it.abort("unsupported identifier %s", x.Name)
	case *ast.BasicLit:
		it.abort("literal %s without a constant value", x.Value)
	case *ast.FuncLit:
		return &c06xClosure{lit: x, env: fr.env, info: fr.info}
	case *ast.UnaryExpr:
		switch x.Op {
		case token.NOT:
			return !it.toBool(it.eval(x.X, fr))
		case token.SUB:
			return c06xWrap(fr.info.TypeOf(e), -it.toInt(it.eval(x.X, fr)))
		case token.ADD:
			return it.eval(x.X, fr)
		case token.XOR:
			return c06xWrap(fr.info.TypeOf(e), ^it.toInt(it.eval(x.X, fr)))
		case token.AND:
			if cl, ok := ast.Unparen(x.X).(*ast.CompositeLit); ok {
				return it.eval(cl, fr)
			}
			c := it.lvalue(x.X, fr, false)
			if s, ok := c.v.(*c06xStruct); ok {
				return s // pointers to structs share the struct
			}
			return &c06xPtr{c}
		}
		it.abort("unsupported unary operator %s", x.Op)
	case *ast.StarExpr:
		switch p := it.eval(x.X, fr).(type) {
		case *c06xPtr:
			return p.c.v
		case *c06xStruct:
			return p
		case nil:
			it.abort("nil pointer dereference in the evaluated code")
		}
		it.abort("unsupported dereference")
	case *ast.BinaryExpr:
		return it.binary(x, fr)
	case *ast.SelectorExpr:
		if sel, ok := fr.info.Selections[x]; ok {
			switch sel.Kind() {
			case types.FieldVal:
				v := it.eval(x.X, fr)
				s := it.asStruct(v)
				path := sel.Index()
				for i, idx := range path {
					st, ok := derefType(s.t).Underlying().(*types.Struct)
					if !ok {
						it.abort("field path through a non-struct")
					}
					c := it.field(s, st.Field(idx).Name())
					if i == len(path)-1 {
						return c.v
					}
					s = it.asStruct(c.v)
				}
			case types.MethodVal:
				fn, _ := sel.Obj().(*types.Func)
				return &c06xBound{fn: fn, recv: it.eval(x.X, fr)}
			}
			it.abort("unsupported selection %s", exprStr(x))
		}
		// qualified identifier
		switch o := fr.info.Uses[x.Sel].(type) {
		case *types.Var:
			return it.global(o).v
		case *types.Func:
			return &c06xBound{fn: o}
		}
		it.abort("unsupported qualified identifier %s", exprStr(x))
	case *ast.IndexExpr:
		base := it.eval(x.X, fr)
		i := it.toInt(it.eval(x.Index, fr))
		switch b := base.(type) {
		case []byte:
			if i < 0 || i >= int64(len(b)) {
				it.abort("index out of range [%d] with length %d at %s", i, len(b), it.p.Pos(x.Pos()))
			}
			return int64(b[i])
		case string:
			if i < 0 || i >= int64(len(b)) {
				it.abort("index out of range [%d] with length %d at %s", i, len(b), it.p.Pos(x.Pos()))
			}
			return int64(b[i])
		}
		it.abort("index of an unsupported value %T", base)
	case *ast.SliceExpr:
		if x.Slice3 {
			it.abort("full slice expression")
		}
		base := it.eval(x.X, fr)
		var n int64
		switch b := base.(type) {
		case []byte:
			n = int64(len(b))
		case string:
			n = int64(len(b))
		default:
			it.abort("slice of an unsupported value %T", base)
		}
		lo, hi := int64(0), n
		if x.Low != nil {
			lo = it.toInt(it.eval(x.Low, fr))
		}
		if x.High != nil {
			hi = it.toInt(it.eval(x.High, fr))
		}
		if lo < 0 || hi < lo || hi > n {
			it.abort("slice bounds out of range [%d:%d] with length %d at %s", lo, hi, n, it.p.Pos(x.Pos()))
		}
		switch b := base.(type) {
		case []byte:
			return b[lo:hi]
		case string:
			return b[lo:hi]
		}
	case *ast.CallExpr:
		v := it.call(x, fr)
		if t, ok := v.(c06xTuple); ok {
			if len(t) == 1 {
				return t[0]
			}
			return t
		}
		return v
	case *ast.CompositeLit:
		t := fr.info.TypeOf(x)
		switch u := t.Underlying().(type) {
		case *types.Struct:
			s := &c06xStruct{t: t, f: map[string]*c06xCell{}}
			for i, el := range x.Elts {
				if kv, ok := el.(*ast.KeyValueExpr); ok {
					k, ok := kv.Key.(*ast.Ident)
					if !ok {
						it.abort("unsupported struct literal")
					}
					ft := it.field(s, k.Name)
					ft.v = it.copyVal(it.eval(kv.Value, fr), fr.info.TypeOf(kv.Value))
				} else {
					s.f[u.Field(i).Name()] = &c06xCell{it.copyVal(it.eval(el, fr), u.Field(i).Type())}
				}
			}
			return s
		case *types.Slice:
			if b, ok := u.Elem().Underlying().(*types.Basic); ok && b.Kind() == types.Uint8 {
				var out []byte
				for _, el := range x.Elts {
					if _, ok := el.(*ast.KeyValueExpr); ok {
						it.abort("keyed byte slice literal")
					}
					out = append(out, byte(it.toInt(it.eval(el, fr))))
				}
				return out
			}
		}
		it.abort("unsupported composite literal of type %s", t)
	case *ast.TypeAssertExpr:
		it.abort("type assertion")
	}
	it.abort("unsupported expression %T", e)
	return nil
}

func derefType(t types.Type) types.Type {
	if p, ok := t.Underlying().(*types.Pointer); ok {
		return p.Elem()
	}
	return t
}

func (it *c06xInterp) binary(x *ast.BinaryExpr, fr *c06xFrame) any {
	switch x.Op {
	case token.LAND:
		return it.toBool(it.eval(x.X, fr)) && it.toBool(it.eval(x.Y, fr))
	case token.LOR:
		return it.toBool(it.eval(x.X, fr)) || it.toBool(it.eval(x.Y, fr))
	}
	l, r := it.eval(x.X, fr), it.eval(x.Y, fr)
	return it.binop(x.Op, l, r, fr.info.TypeOf(x), x.Pos())
}

func (it *c06xInterp) binop(op token.Token, l, r any, t types.Type, pos token.Pos) any {
	switch a := l.(type) {
	case int64:
		b, ok := r.(int64)
		if !ok {
			it.abort("mixed operands")
		}
		switch op {
		case token.ADD:
			return c06xWrap(t, a+b)
		case token.SUB:
			return c06xWrap(t, a-b)
		case token.MUL:
			return c06xWrap(t, a*b)
		case token.QUO:
			if b == 0 {
				it.abort("division by zero at %s", it.p.Pos(pos))
			}
			return c06xWrap(t, a/b)
		case token.REM:
			if b == 0 {
				it.abort("division by zero at %s", it.p.Pos(pos))
			}
			return c06xWrap(t, a%b)
		case token.AND:
			return a & b
		case token.OR:
			return a | b
		case token.XOR:
			return c06xWrap(t, a^b)
		case token.AND_NOT:
			return a &^ b
		case token.SHL:
			if b < 0 || b > 62 {
				it.abort("shift count %d", b)
			}
			return c06xWrap(t, a<<uint(b))
		case token.SHR:
			if b < 0 {
				it.abort("shift count %d", b)
			}
			if b > 62 {
				b = 62
			}
			return a >> uint(b)
		case token.EQL:
			return a == b
		case token.NEQ:
			return a != b
		case token.LSS:
			return a < b
		case token.LEQ:
			return a <= b
		case token.GTR:
			return a > b
		case token.GEQ:
			return a >= b
		}
	case bool:
		b, ok := r.(bool)
		if !ok {
			it.abort("mixed operands")
		}
		switch op {
		case token.EQL:
			return a == b
		case token.NEQ:
			return a != b
		}
	case string:
		b, ok := r.(string)
		if !ok {
			it.abort("mixed operands")
		}
		switch op {
		case token.ADD:
			return a + b
		case token.EQL:
			return a == b
		case token.NEQ:
			return a != b
		case token.LSS:
			return a < b
		case token.LEQ:
			return a <= b
		case token.GTR:
			return a > b
		case token.GEQ:
			return a >= b
		}
	case []byte:
		if r == nil || isNilBytes(r) {
			switch op {
			case token.EQL:
				return a == nil
			case token.NEQ:
				return a != nil
			}
		}
	case nil:
		switch op {
		case token.EQL:
			return r == nil || isNilBytes(r)
		case token.NEQ:
			return !(r == nil || isNilBytes(r))
		}
	case *c06xStruct, *c06xPtr, *c06xClosure, *c06xBound:
		switch op {
		case token.EQL:
			return l == r
		case token.NEQ:
			return l != r
		}
	}
	it.abort("unsupported operation %s on %T", op, l)
	return nil
}

func isNilBytes(v any) bool {
	b, ok := v.([]byte)
	return ok && b == nil
}

// lvalue resolves an assignable expression to its cell. define creates identifiers.
func (it *c06xInterp) lvalue(e ast.Expr, fr *c06xFrame, define bool) *c06xCell {
	e = ast.Unparen(e)
	switch x := e.(type) {
	case *ast.Ident:
		if x.Name == "_" {
			return &c06xCell{}
		}
		if o := fr.info.Defs[x]; o != nil {
			c := &c06xCell{}
			fr.env.vars[o] = c
			return c
		}
		if o, ok := fr.info.Uses[x].(*types.Var); ok {
			if c := fr.env.lookup(o); c != nil {
				return c
			}
			if o.Parent() != nil && o.Pkg() != nil && o.Parent() == o.Pkg().Scope() {
				return it.global(o)
			}
		}
		it.abort("assignment to unknown variable %s", x.Name)
	case *ast.SelectorExpr:
		sel, ok := fr.info.Selections[x]
		if !ok || sel.Kind() != types.FieldVal {
			if o, ok := fr.info.Uses[x.Sel].(*types.Var); ok {
				return it.global(o)
			}
			it.abort("unsupported assignment target %s", exprStr(x))
		}
		s := it.asStruct(it.eval(x.X, fr))
		path := sel.Index()
		for i, idx := range path {
			st, ok := derefType(s.t).Underlying().(*types.Struct)
			if !ok {
				it.abort("field path through a non-struct")
			}
			c := it.field(s, st.Field(idx).Name())
			if i == len(path)-1 {
				return c
			}
			s = it.asStruct(c.v)
		}
	case *ast.StarExpr:
		switch p := it.eval(x.X, fr).(type) {
		case *c06xPtr:
			return p.c
		case *c06xStruct:
			return &c06xCell{p}
		}
		it.abort("unsupported dereference target")
	}
	it.abort("unsupported assignment target %T", e)
	return nil
}

// ---------------------------------------------------------------------------
// calls

func (it *c06xInterp) call(x *ast.CallExpr, fr *c06xFrame) any {
	info := fr.info
	// conversion
	if tv, ok := info.Types[x.Fun]; ok && tv.IsType() {
		if len(x.Args) != 1 {
			it.abort("conversion with %d arguments", len(x.Args))
		}
		return it.convert(it.eval(x.Args[0], fr), info.TypeOf(x.Args[0]), tv.Type)
	}
	// builtins
	if id, ok := ast.Unparen(x.Fun).(*ast.Ident); ok {
		if _, isB := info.Uses[id].(*types.Builtin); isB {
			return it.builtin(id.Name, x, fr)
		}
	}
	if x.Ellipsis.IsValid() {
		it.abort("variadic call with ...")
	}
	fv := it.eval(x.Fun, fr)
	var args []any
	if len(x.Args) == 1 {
		v := it.eval(x.Args[0], fr)
		if t, ok := v.(c06xTuple); ok {
			args = t
		} else {
			args = []any{it.copyVal(v, info.TypeOf(x.Args[0]))}
		}
	} else {
		for _, a := range x.Args {
			args = append(args, it.copyVal(it.eval(a, fr), info.TypeOf(a)))
		}
	}
	switch f := fv.(type) {
	case *c06xClosure:
		return it.invoke(f.lit.Type, f.lit.Body, info.TypeOf(f.lit).(*types.Signature), f.info, f.env, nil, nil, args)
	case *c06xBound:
		return it.callFunc(f.fn, f.recv, args)
	}
	it.abort("call of an unsupported value %T (%s)", fv, exprStr(x.Fun))
	return nil
}

func (it *c06xInterp) callFunc(fn *types.Func, recv any, args []any) any {
	if fn == nil {
		it.abort("dynamic call")
	}
	if fn.Pkg() == nil || !strings.HasPrefix(fn.Pkg().Path(), modulePath) {
		return it.intrinsic(fn, recv, args)
	}
	fi := it.declOf(fn)
	if fi == nil || fi.Decl.Body == nil {
		it.abort("function %s has no body (interface method or external)", fn.Name())
	}
	sig := fn.Type().(*types.Signature)
	var recvObj types.Object
	if fi.Decl.Recv != nil && len(fi.Decl.Recv.List) > 0 && len(fi.Decl.Recv.List[0].Names) > 0 {
		recvObj = fi.Pkg.TypesInfo.Defs[fi.Decl.Recv.List[0].Names[0]]
	}
	if sig.Recv() != nil {
		recv = it.copyVal(recv, sig.Recv().Type())
	}
	return it.invoke(fi.Decl.Type, fi.Decl.Body, sig, fi.Pkg.TypesInfo, nil, recvObj, recv, args)
}

func (it *c06xInterp) invoke(ft *ast.FuncType, body *ast.BlockStmt, sig *types.Signature, info *types.Info, parent *c06xEnv, recvObj types.Object, recv any, args []any) any {
	it.depth++
	if it.depth > 40 {
		it.abort("call depth exceeded")
	}
	defer func() { it.depth-- }()
	if sig.Variadic() {
		it.abort("variadic function")
	}
	env := &c06xEnv{vars: map[types.Object]*c06xCell{}, parent: parent}
	if recvObj != nil {
		env.vars[recvObj] = &c06xCell{recv}
	}
	i := 0
	if ft.Params != nil {
		for _, f := range ft.Params.List {
			if len(f.Names) == 0 {
				i++
				continue
			}
			for _, nm := range f.Names {
				if i >= len(args) {
					it.abort("missing argument")
				}
				if o := info.Defs[nm]; o != nil {
					env.vars[o] = &c06xCell{args[i]}
				}
				i++
			}
		}
	}
	if i != len(args) {
		it.abort("argument count mismatch")
	}
	fr := &c06xFrame{info: info, env: env, sig: sig}
	if ft.Results != nil {
		for _, f := range ft.Results.List {
			for _, nm := range f.Names {
				c := &c06xCell{it.zero(info.TypeOf(f.Type))}
				if o := info.Defs[nm]; o != nil {
					env.vars[o] = c
				}
				fr.res = append(fr.res, c)
			}
		}
	}
	ctl := it.block(body.List, fr)
	var out []any
	if ctl.kind == c06xReturn && ctl.vals != nil {
		out = ctl.vals
	} else {
		for _, c := range fr.res {
			out = append(out, c.v)
		}
	}
	if sig.Results().Len() != len(out) {
		if sig.Results().Len() == 0 {
			return c06xTuple{}
		}
		it.abort("function ended without returning its results")
	}
	return c06xTuple(out)
}

func (it *c06xInterp) convert(v any, from, to types.Type) any {
	switch u := to.Underlying().(type) {
	case *types.Basic:
		switch {
		case u.Info()&types.IsInteger != 0:
			if i, ok := v.(int64); ok {
				return c06xWrap(to, i)
			}
		case u.Info()&types.IsString != 0:
			switch s := v.(type) {
			case string:
				return s
			case []byte:
				return string(s)
			case int64:
				return string(rune(s))
			}
		case u.Info()&types.IsBoolean != 0:
			if b, ok := v.(bool); ok {
				return b
			}
		}
	case *types.Slice:
		if b, ok := u.Elem().Underlying().(*types.Basic); ok && b.Kind() == types.Uint8 {
			switch s := v.(type) {
			case string:
				return []byte(s)
			case []byte:
				return s
			case nil:
				return []byte(nil)
			}
		}
	case *types.Struct:
		if s, ok := v.(*c06xStruct); ok {
			return s
		}
	case *types.Pointer:
		return v
	}
	it.abort("unsupported conversion to %s", to)
	return nil
}

func (it *c06xInterp) builtin(name string, x *ast.CallExpr, fr *c06xFrame) any {
	switch name {
	case "len", "cap":
		switch v := it.eval(x.Args[0], fr).(type) {
		case []byte:
			if name == "cap" {
				return int64(cap(v))
			}
			return int64(len(v))
		case string:
			return int64(len(v))
		case nil:
			return int64(0)
		}
		it.abort("len of an unsupported value")
	case "min", "max":
		var best int64
		for i, a := range x.Args {
			v := it.toInt(it.eval(a, fr))
			if i == 0 || (name == "min" && v < best) || (name == "max" && v > best) {
				best = v
			}
		}
		return best
	case "append":
		base, _ := it.eval(x.Args[0], fr).([]byte)
		out := append([]byte(nil), base...)
		if x.Ellipsis.IsValid() {
			switch s := it.eval(x.Args[1], fr).(type) {
			case []byte:
				return append(out, s...)
			case string:
				return append(out, s...)
			}
			it.abort("append of an unsupported value")
		}
		if t, ok := fr.info.TypeOf(x.Args[0]).Underlying().(*types.Slice); !ok || !isIntType(t.Elem()) {
			it.abort("append to an unsupported slice")
		}
		for _, a := range x.Args[1:] {
			out = append(out, byte(it.toInt(it.eval(a, fr))))
		}
		return out
	case "panic":
		it.abort("the evaluated code panics at %s", it.p.Pos(x.Pos()))
	}
	it.abort("unsupported builtin %s", name)
	return nil
}

func (it *c06xInterp) intrinsic(fn *types.Func, recv any, args []any) any {
	pkg := ""
	if fn.Pkg() != nil {
		pkg = fn.Pkg().Path()
	}
	if recv != nil || fn.Type().(*types.Signature).Recv() != nil {
		it.abort("method %s of package %s", fn.Name(), pkg)
	}
	bs := func(i int) []byte {
		switch v := args[i].(type) {
		case []byte:
			return v
		case string:
			return []byte(v)
		case nil:
			return nil
		}
		it.abort("%s.%s: unsupported argument", pkg, fn.Name())
		return nil
	}
	in := func(i int) int64 { return it.toInt(args[i]) }
	isBytes := pkg == "bytes"
	wrap := func(b []byte) any {
		if isBytes {
			return b
		}
		return string(b)
	}
	switch pkg {
	case "bytes", "strings":
		switch fn.Name() {
		case "HasPrefix":
			return bytes.HasPrefix(bs(0), bs(1))
		case "HasSuffix":
			return bytes.HasSuffix(bs(0), bs(1))
		case "Equal":
			return bytes.Equal(bs(0), bs(1))
		case "EqualFold":
			return bytes.EqualFold(bs(0), bs(1))
		case "Contains":
			return bytes.Contains(bs(0), bs(1))
		case "Index":
			return int64(bytes.Index(bs(0), bs(1)))
		case "LastIndex":
			return int64(bytes.LastIndex(bs(0), bs(1)))
		case "IndexByte":
			return int64(bytes.IndexByte(bs(0), byte(in(1))))
		case "LastIndexByte":
			return int64(bytes.LastIndexByte(bs(0), byte(in(1))))
		case "IndexRune":
			return int64(bytes.IndexRune(bs(0), rune(in(1))))
		case "ContainsRune":
			return bytes.ContainsRune(bs(0), rune(in(1)))
		case "ContainsAny":
			return bytes.ContainsAny(bs(0), string(bs(1)))
		case "IndexAny":
			return int64(bytes.IndexAny(bs(0), string(bs(1))))
		case "TrimSpace":
			return wrap(bytes.TrimSpace(bs(0)))
		case "ToLower":
			return wrap(bytes.ToLower(bs(0)))
		case "ToUpper":
			return wrap(bytes.ToUpper(bs(0)))
		case "TrimPrefix":
			return wrap(bytes.TrimPrefix(bs(0), bs(1)))
		case "TrimSuffix":
			return wrap(bytes.TrimSuffix(bs(0), bs(1)))
		case "Count":
			return int64(bytes.Count(bs(0), bs(1)))
		}
	case "unicode/utf8":
		switch fn.Name() {
		case "DecodeRune", "DecodeRuneInString":
			r, s := utf8.DecodeRune(bs(0))
			return c06xTuple{int64(r), int64(s)}
		case "DecodeLastRune", "DecodeLastRuneInString":
			r, s := utf8.DecodeLastRune(bs(0))
			return c06xTuple{int64(r), int64(s)}
		case "RuneLen":
			return int64(utf8.RuneLen(rune(in(0))))
		case "RuneCount", "RuneCountInString":
			return int64(utf8.RuneCount(bs(0)))
		case "ValidRune":
			return utf8.ValidRune(rune(in(0)))
		case "RuneStart":
			return utf8.RuneStart(byte(in(0)))
		case "FullRune":
			return utf8.FullRune(bs(0))
		case "Valid", "ValidString":
			return utf8.Valid(bs(0))
		}
	case "unicode":
		switch fn.Name() {
		case "IsLetter":
			return unicode.IsLetter(rune(in(0)))
		case "IsDigit":
			return unicode.IsDigit(rune(in(0)))
		case "IsSpace":
			return unicode.IsSpace(rune(in(0)))
		case "IsUpper":
			return unicode.IsUpper(rune(in(0)))
		case "IsLower":
			return unicode.IsLower(rune(in(0)))
		case "IsGraphic":
			return unicode.IsGraphic(rune(in(0)))
		case "IsControl":
			return unicode.IsControl(rune(in(0)))
		case "IsPrint":
			return unicode.IsPrint(rune(in(0)))
		case "ToLower":
			return int64(unicode.ToLower(rune(in(0))))
		case "ToUpper":
			return int64(unicode.ToUpper(rune(in(0))))
		}
	}
	it.abort("function %s.%s is outside the evaluated subset", pkg, fn.Name())
	return nil
}

// ---------------------------------------------------------------------------
// statements

func (it *c06xInterp) block(list []ast.Stmt, fr *c06xFrame) c06xCtl {
	for _, s := range list {
		if c := it.stmt(s, fr); c.kind != c06xNone {
			return c
		}
	}
	return c06xCtl{}
}

func (it *c06xInterp) stmt(s ast.Stmt, fr *c06xFrame) c06xCtl {
	c := it.stmt1(s, fr, "")
	if it.after != nil && it.after(s, fr) {
		panic(c06xStop{})
	}
	return c
}

func (it *c06xInterp) assignTo(lhs []ast.Expr, vals []any, fr *c06xFrame, define bool) {
	if len(lhs) != len(vals) {
		it.abort("assignment count mismatch")
	}
	cells := make([]*c06xCell, len(lhs))
	for i, l := range lhs {
		cells[i] = it.lvalue(l, fr, define)
	}
	for i, c := range cells {
		c.v = it.copyVal(vals[i], fr.info.TypeOf(lhs[i]))
	}
}

func (it *c06xInterp) stmt1(s ast.Stmt, fr *c06xFrame, label string) c06xCtl {
	it.step()
	switch x := s.(type) {
	case *ast.EmptyStmt:
	case *ast.BlockStmt:
		return it.block(x.List, fr)
	case *ast.LabeledStmt:
		return it.stmt1(x.Stmt, fr, x.Label.Name)
	case *ast.ExprStmt:
		it.eval(x.X, fr)
	case *ast.IncDecStmt:
		c := it.lvalue(x.X, fr, false)
		d := int64(1)
		if x.Tok == token.DEC {
			d = -1
		}
		c.v = c06xWrap(fr.info.TypeOf(x.X), it.toInt(c.v)+d)
	case *ast.AssignStmt:
		switch x.Tok {
		case token.ASSIGN, token.DEFINE:
			var vals []any
			if len(x.Rhs) == 1 && len(x.Lhs) > 1 {
				t, ok := it.eval(x.Rhs[0], fr).(c06xTuple)
				if !ok {
					it.abort("multi-valued assignment from an unsupported expression")
				}
				vals = t
			} else {
				for _, r := range x.Rhs {
					vals = append(vals, it.eval(r, fr))
				}
			}
			it.assignTo(x.Lhs, vals, fr, x.Tok == token.DEFINE)
		default:
			ops := map[token.Token]token.Token{token.ADD_ASSIGN: token.ADD, token.SUB_ASSIGN: token.SUB, token.MUL_ASSIGN: token.MUL,
				token.QUO_ASSIGN: token.QUO, token.REM_ASSIGN: token.REM, token.AND_ASSIGN: token.AND, token.OR_ASSIGN: token.OR,
				token.XOR_ASSIGN: token.XOR, token.SHL_ASSIGN: token.SHL, token.SHR_ASSIGN: token.SHR, token.AND_NOT_ASSIGN: token.AND_NOT}
			op, ok := ops[x.Tok]
			if !ok || len(x.Lhs) != 1 {
				it.abort("unsupported assignment %s", x.Tok)
			}
			c := it.lvalue(x.Lhs[0], fr, false)
			c.v = it.binop(op, c.v, it.eval(x.Rhs[0], fr), fr.info.TypeOf(x.Lhs[0]), x.Pos())
		}
	case *ast.DeclStmt:
		gd, ok := x.Decl.(*ast.GenDecl)
		if !ok {
			it.abort("unsupported declaration")
		}
		if gd.Tok != token.VAR {
			return c06xCtl{} // constants and types are resolved by the type checker
		}
		for _, sp := range gd.Specs {
			vs := sp.(*ast.ValueSpec)
			var vals []any
			switch {
			case len(vs.Values) == 0:
				for _, nm := range vs.Names {
					vals = append(vals, it.zero(fr.info.TypeOf(nm)))
				}
			case len(vs.Values) == 1 && len(vs.Names) > 1:
				t, ok := it.eval(vs.Values[0], fr).(c06xTuple)
				if !ok {
					it.abort("multi-valued declaration from an unsupported expression")
				}
				vals = t
			default:
				for _, v := range vs.Values {
					vals = append(vals, it.eval(v, fr))
				}
			}
			var lhs []ast.Expr
			for _, nm := range vs.Names {
				lhs = append(lhs, nm)
			}
			it.assignTo(lhs, vals, fr, true)
		}
	case *ast.IfStmt:
		if x.Init != nil {
			if c := it.stmt(x.Init, fr); c.kind != c06xNone {
				return c
			}
		}
		if it.toBool(it.eval(x.Cond, fr)) {
			return it.block(x.Body.List, fr)
		} else if x.Else != nil {
			return it.stmt1(x.Else, fr, "")
		}
	case *ast.ForStmt:
		if x.Init != nil {
			it.stmt(x.Init, fr)
		}
		for {
			it.step()
			if x.Cond != nil && !it.toBool(it.eval(x.Cond, fr)) {
				break
			}
			c := it.block(x.Body.List, fr)
			if c.kind == c06xBreak && (c.label == "" || c.label == label) {
				break
			}
			if c.kind == c06xContinue && (c.label == "" || c.label == label) {
				c = c06xCtl{}
			}
			if c.kind != c06xNone {
				return c
			}
			if x.Post != nil {
				it.stmt(x.Post, fr)
			}
		}
	case *ast.RangeStmt:
		return it.rangeStmt(x, fr, label)
	case *ast.SwitchStmt:
		return it.switchStmt(x, fr, label)
	case *ast.BranchStmt:
		lb := ""
		if x.Label != nil {
			lb = x.Label.Name
		}
		switch x.Tok {
		case token.BREAK:
			return c06xCtl{kind: c06xBreak, label: lb}
		case token.CONTINUE:
			return c06xCtl{kind: c06xContinue, label: lb}
		case token.FALLTHROUGH:
			return c06xCtl{kind: c06xFallthrough}
		}
		it.abort("goto")
	case *ast.ReturnStmt:
		if len(x.Results) == 0 {
			return c06xCtl{kind: c06xReturn}
		}
		var vals []any
		if len(x.Results) == 1 {
			v := it.eval(x.Results[0], fr)
			if t, ok := v.(c06xTuple); ok {
				vals = t
			} else {
				vals = []any{v}
			}
		} else {
			for _, r := range x.Results {
				vals = append(vals, it.eval(r, fr))
			}
		}
		if fr.sig != nil {
			for i := range vals {
				if i < fr.sig.Results().Len() {
					vals[i] = it.copyVal(vals[i], fr.sig.Results().At(i).Type())
				}
			}
		}
		if vals == nil {
			vals = []any{}
		}
		return c06xCtl{kind: c06xReturn, vals: vals}
	default:
		it.abort("statement %T is outside the evaluated subset (%s)", s, it.p.Pos(s.Pos()))
	}
	return c06xCtl{}
}

func (it *c06xInterp) rangeStmt(x *ast.RangeStmt, fr *c06xFrame, label string) c06xCtl {
	type kv struct{ k, v any }
	var items []kv
	switch b := it.eval(x.X, fr).(type) {
	case []byte:
		for i, c := range b {
			items = append(items, kv{int64(i), int64(c)})
		}
	case string:
		for i, c := range b {
			items = append(items, kv{int64(i), int64(c)})
		}
	case int64:
		for i := int64(0); i < b; i++ {
			items = append(items, kv{i, nil})
		}
	case nil:
	default:
		it.abort("range over an unsupported value %T", b)
	}
	for _, item := range items {
		it.step()
		if x.Key != nil {
			it.lvalue(x.Key, fr, x.Tok == token.DEFINE).v = item.k
		}
		if x.Value != nil {
			it.lvalue(x.Value, fr, x.Tok == token.DEFINE).v = item.v
		}
		c := it.block(x.Body.List, fr)
		if c.kind == c06xBreak && (c.label == "" || c.label == label) {
			break
		}
		if c.kind == c06xContinue && (c.label == "" || c.label == label) {
			continue
		}
		if c.kind != c06xNone {
			return c
		}
	}
	return c06xCtl{}
}

func (it *c06xInterp) switchStmt(x *ast.SwitchStmt, fr *c06xFrame, label string) c06xCtl {
	if x.Init != nil {
		it.stmt(x.Init, fr)
	}
	var tag any
	if x.Tag != nil {
		tag = it.eval(x.Tag, fr)
	}
	start := -1
	def := -1
	for i, st := range x.Body.List {
		cc := st.(*ast.CaseClause)
		if cc.List == nil {
			def = i
			continue
		}
		for _, e := range cc.List {
			v := it.eval(e, fr)
			var hit bool
			if x.Tag != nil {
				hit = it.toBool(it.binop(token.EQL, tag, v, nil, e.Pos()))
			} else {
				hit = it.toBool(v)
			}
			if hit {
				start = i
				break
			}
		}
		if start >= 0 {
			break
		}
	}
	if start < 0 {
		start = def
	}
	if start < 0 {
		return c06xCtl{}
	}
	for i := start; i < len(x.Body.List); i++ {
		c := it.block(x.Body.List[i].(*ast.CaseClause).Body, fr)
		switch {
		case c.kind == c06xFallthrough:
			continue
		case c.kind == c06xBreak && (c.label == "" || c.label == label):
			return c06xCtl{}
		}
		return c
	}
	return c06xCtl{}
}
