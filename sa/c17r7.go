package main

// C17 R-7 (added after seeded change C17-7): the running function and its non-local variables switch together.
//
// The operands of GetVar / SetVar / GetVarAddr index VM.vars. For the body of a template and for its
// file-level macros that slice is env.globals (the values given to Run); for a function literal it is
// the literal's own slice of captured variables. VM.fn and VM.vars therefore form a pair:
//
//	(1) wherever the virtual machine assigns a non-nil function to VM.fn, every path through the enclosing
//	    handler (the case clause of the instruction, or the function) also assigns VM.vars, and from the
//	    matching source: the vars of the same callable the function was taken from, env.globals for a
//	    function taken from Function.Functions (not a closure), a parameter for a parameter;
//	(2) the same holds for the two arguments of a call of the function that starts running a function on a
//	    virtual machine (its parameters are stored in VM.fn and VM.vars);
//	(3) a call frame that records where to resume (it has a pc) and is built from the running function
//	    records the running variables too.
//
// If one of these is broken, after some call, return, deferred call or recovered panic the caller goes on
// with the variables of another function: its references to the template's globals read and write the
// captured variable with the same index, or Run panics in the host with index out of range.

import (
	"go/ast"
	"go/token"
	"go/types"
	"sort"
	"strings"

	"golang.org/x/tools/go/cfg"
)

func init() {
	p := registry["C17"]
	if p == nil {
		return
	}
	run := p.run
	p.run = func(r *Run) { run(r); c17FnVarsPair(r) }
	p.explain += " R-7: in internal/runtime every assignment of a non-nil function to VM.fn is accompanied, on every path through the enclosing instruction handler (or function), by an assignment to VM.vars from the matching source (the vars of the same callable, env.globals for an element of Function.Functions, a parameter for a parameter); the arguments of every call of the function that stores its parameters into VM.fn and VM.vars are paired in the same way; every callFrame literal with a pc whose callable is built from VM.fn also records VM.vars."
}

type c17pair struct {
	r                               *Run
	vmFn, vmVars, clFn, clVars      *types.Var
	envGlobals, fnFunctions         *types.Var
	callableT, callFrameT, vmT, fnT *types.Named
}

func c17FnVarsPair(r *Run) {
	const R = "R-7"
	r.Require(R, 10)
	x := &c17pair{r: r}
	x.vmT = r.P.Named("internal/runtime", "VM")
	x.callableT = r.P.Named("internal/runtime", "callable")
	x.callFrameT = r.P.Named("internal/runtime", "callFrame")
	x.fnT = r.P.Named("internal/runtime", "Function")
	envT := r.P.Named("internal/runtime", "env")
	x.vmFn, x.vmVars = c17structField(x.vmT, "fn"), c17structField(x.vmT, "vars")
	x.clFn, x.clVars = c17structField(x.callableT, "fn"), c17structField(x.callableT, "vars")
	x.envGlobals = c17structField(envT, "globals")
	x.fnFunctions = c17structField(x.fnT, "Functions")
	if !r.Anchor(R, "runtime.VM.fn/.vars, callable.fn/.vars, env.globals, Function.Functions, callFrame", x.vmFn != nil && x.vmVars != nil && x.clFn != nil && x.clVars != nil && x.envGlobals != nil && x.fnFunctions != nil && x.callFrameT != nil) {
		return
	}
	var fns []*FuncInfo
	for _, fi := range r.P.Funcs("internal/runtime") {
		if fi.Obj != nil && !r.P.isTestFile(fi.File) {
			fns = append(fns, fi)
		}
	}
	sort.Slice(fns, func(i, j int) bool { return fns[i].Decl.Pos() < fns[j].Decl.Pos() })

	// starters: functions whose parameters are stored into VM.fn and VM.vars
	type starter struct{ pf, pv int }
	starters := map[*types.Func]starter{}
	for _, fi := range fns {
		info := fi.Pkg.TypesInfo
		sig := fi.Obj.Type().(*types.Signature)
		pf, pv := -1, -1
		ast.Inspect(fi.Decl.Body, func(n ast.Node) bool {
			as, ok := n.(*ast.AssignStmt)
			if !ok || len(as.Lhs) != len(as.Rhs) {
				return true
			}
			for i, l := range as.Lhs {
				f := c17fieldOf(info, l)
				if f != x.vmFn && f != x.vmVars {
					continue
				}
				o := cgxObj(info, as.Rhs[i])
				for k := 0; k < sig.Params().Len(); k++ {
					if o != nil && o == types.Object(sig.Params().At(k)) {
						if f == x.vmFn {
							pf = k
						} else {
							pv = k
						}
					}
				}
			}
			return true
		})
		if pf >= 0 && pv >= 0 {
			starters[fi.Obj] = starter{pf, pv}
		}
	}

	nassign := 0
	for _, fi := range fns {
		info := fi.Pkg.TypesInfo
		par := r.P.Parents(fi.File)
		key := funcKey(fi.Obj)
		var c *CFGInfo
		// (1) assignments to VM.fn
		ast.Inspect(fi.Decl.Body, func(n ast.Node) bool {
			if _, ok := n.(*ast.FuncLit); ok {
				return false
			}
			as, ok := n.(*ast.AssignStmt)
			if !ok {
				return true
			}
			for i, l := range as.Lhs {
				if c17fieldOf(info, l) != x.vmFn {
					continue
				}
				what := c17handlerName(info, par, as)
				if len(as.Lhs) != len(as.Rhs) {
					r.Ob(R, key+"#"+what+":fn-and-vars", as.Pos()).Unknown("VM.fn is assigned from a multi-value expression")
					continue
				}
				rhs := as.Rhs[i]
				if cgxIsNil(info, rhs) {
					continue
				}
				nassign++
				o := r.Ob(R, key+"#"+what+":fn-and-vars", as.Pos())
				if c == nil {
					c = r.P.CFGOf(fi)
				}
				lo, hi := c17region(par, fi, as)
				inRegion := func(n ast.Node) bool { return lo <= n.Pos() && n.End() <= hi }
				varsValue := func(n ast.Node) ast.Expr {
					a, ok := n.(*ast.AssignStmt)
					if !ok || len(a.Lhs) != len(a.Rhs) {
						return nil
					}
					for j, ll := range a.Lhs {
						if c17fieldOf(info, ll) == x.vmVars {
							return a.Rhs[j]
						}
					}
					return nil
				}
				var found []ast.Node
				if varsValue(as) != nil {
					found = []ast.Node{as}
				} else {
					blk, idx := c.Locate(as)
					if blk == nil {
						o.Unknown("the assignment is not in the control-flow graph")
						continue
					}
					fw, okF := c17fwdAll(c, blk, idx+1, func(n ast.Node) bool { return varsValue(n) != nil }, inRegion)
					if okF {
						found = fw
					} else {
						bw, okB := c17backAll(c, blk, idx, func(n ast.Node) bool { return varsValue(n) != nil }, inRegion)
						if okB {
							found = bw
						}
					}
				}
				if len(found) == 0 {
					o.Bad("VM.fn is set to %s but a path through %s leaves VM.vars unchanged: the function goes on with the variables of the function that ran before it, so its references to the template's globals read and write whatever that function had at the same index (or Run panics with index out of range)", exprStr(rhs), what)
					continue
				}
				fk := x.kinds(fi, rhs, true, map[types.Object]bool{})
				vk := map[string]bool{}
				for _, n := range found {
					for k := range x.kinds(fi, varsValue(n), false, map[types.Object]bool{}) {
						vk[k] = true
					}
				}
				if fk["?"] || vk["?"] {
					o.Unknown("cannot classify the sources: VM.fn from {%s}, VM.vars from {%s}", c17keys(fk), c17keys(vk))
					continue
				}
				if c17keys(fk) != c17keys(vk) {
					o.Bad("VM.fn is taken from {%s} but VM.vars from {%s}: the function runs with the variables of another callable, so GetVar/SetVar on a template global reach a different variable", c17keys(fk), c17keys(vk))
					continue
				}
				// same-block pairing: an assignment to the local the function is taken from, in the block of a vars assignment
				if msg := x.blockPairing(fi, c, rhs, found, varsValue); msg != "" {
					o.Bad("%s", msg)
					continue
				}
				o.OK("VM.fn <- {%s}; on every path through %s VM.vars <- {%s}", c17keys(fk), what, c17keys(vk))
			}
			return true
		})
		// (2) calls of a starter
		for _, call := range calls(fi.Decl.Body, true) {
			st, ok := starters[callee(info, call)]
			if !ok || st.pf >= len(call.Args) || st.pv >= len(call.Args) {
				continue
			}
			o := r.Ob(R, key+"#start:"+callee(info, call).Name()+":fn-and-vars", call.Pos())
			fk := x.kinds(fi, call.Args[st.pf], true, map[types.Object]bool{})
			vk := x.kinds(fi, call.Args[st.pv], false, map[types.Object]bool{})
			switch {
			case fk["?"] || vk["?"]:
				o.Unknown("cannot classify the sources: function from {%s}, variables from {%s}", c17keys(fk), c17keys(vk))
			case c17keys(fk) != c17keys(vk):
				o.Bad("%s is started with a function taken from {%s} and variables taken from {%s}", exprStr(call.Fun), c17keys(fk), c17keys(vk))
			default:
				if c == nil {
					c = r.P.CFGOf(fi)
				}
				if msg := x.localPairing(fi, c, call.Args[st.pf], call.Args[st.pv]); msg != "" {
					o.Bad("%s", msg)
				} else {
					o.OK("function and variables both from {%s}", c17keys(fk))
				}
			}
		}
		// (3) frames
		ast.Inspect(fi.Decl.Body, func(n ast.Node) bool {
			lit, ok := n.(*ast.CompositeLit)
			if !ok || info.TypeOf(lit) == nil || !types.Identical(info.TypeOf(lit), x.callFrameT) {
				return true
			}
			var cl *ast.CompositeLit
			hasPC := false
			for _, el := range lit.Elts {
				kv, ok := el.(*ast.KeyValueExpr)
				if !ok {
					return true
				}
				id, _ := kv.Key.(*ast.Ident)
				if id == nil {
					continue
				}
				f, _ := info.Uses[id].(*types.Var)
				if f == nil {
					continue
				}
				if inner, ok := ast.Unparen(kv.Value).(*ast.CompositeLit); ok && types.Identical(info.TypeOf(inner), x.callableT) {
					cl = inner
				}
				if b, ok := f.Type().Underlying().(*types.Basic); ok && b.Info()&types.IsInteger != 0 && f.Name() == "pc" {
					hasPC = true
				}
			}
			if cl == nil || !hasPC {
				return true
			}
			var fnV, varsV ast.Expr
			for _, el := range cl.Elts {
				if kv, ok := el.(*ast.KeyValueExpr); ok {
					if id, ok := kv.Key.(*ast.Ident); ok {
						switch info.Uses[id] {
						case types.Object(x.clFn):
							fnV = kv.Value
						case types.Object(x.clVars):
							varsV = kv.Value
						}
					}
				}
			}
			if fnV == nil || c17fieldOf(info, fnV) != x.vmFn {
				return true
			}
			o := r.Ob(R, key+"#"+c17handlerName(info, par, lit)+":frame-saves-vars", lit.Pos())
			if varsV != nil && c17fieldOf(info, varsV) == x.vmVars {
				o.OK("the frame to resume records VM.fn together with VM.vars")
			} else {
				o.Bad("a call frame with a resume address records the running function but not its variables (vars: %s): when the frame is resumed the caller runs with no (or other) variables and its references to the template's globals fail", c17str(varsV))
			}
			return true
		})
	}
	if nassign == 0 {
		r.Ob(R, "anchor:assignment-to-VM.fn", token.NoPos).Unknown("no assignment of a function to VM.fn found in internal/runtime")
	}
}

// c17handlerName names the instruction handler (the first constant of the innermost case clause) or "body".
func c17handlerName(info *types.Info, par map[ast.Node]ast.Node, n ast.Node) string {
	for m := par[n]; m != nil; m = par[m] {
		switch cc := m.(type) {
		case *ast.CaseClause:
			for _, e := range cc.List {
				if k := constOf(info, e); k != nil {
					return k.Name()
				}
			}
		case *ast.FuncDecl:
			return "body"
		}
	}
	return "body"
}

// c17region returns the source range of the handler enclosing n: the body of the innermost case clause whose
// list holds a named constant (an instruction handler), else the function body.
func c17region(par map[ast.Node]ast.Node, fi *FuncInfo, n ast.Node) (token.Pos, token.Pos) {
	for m := par[n]; m != nil; m = par[m] {
		switch cc := m.(type) {
		case *ast.CaseClause:
			if len(cc.List) > 0 {
				if _, isSwitch := par[par[m]].(*ast.SwitchStmt); isSwitch {
					named := false
					for _, e := range cc.List {
						if k := constOf(fi.Pkg.TypesInfo, e); k != nil {
							if _, isNamed := k.Type().(*types.Named); isNamed {
								named = true
							}
						}
					}
					if named {
						return cc.Colon, cc.End()
					}
				}
			}
		case *ast.FuncLit:
			return cc.Body.Pos(), cc.Body.End()
		case *ast.FuncDecl:
			return fi.Decl.Body.Pos(), fi.Decl.Body.End()
		}
	}
	return fi.Decl.Body.Pos(), fi.Decl.Body.End()
}

// c17fwdAll: does every path starting at (blk, idx) execute a matching node before leaving the region or returning?
func c17fwdAll(c *CFGInfo, blk *cfg.Block, idx int, match func(ast.Node) bool, inRegion func(ast.Node) bool) ([]ast.Node, bool) {
	return c17fwdAllCut(c, blk, idx, match, inRegion, nil)
}

// c17fwdAllCut is c17fwdAll on the graph without the edges for which cutEdge holds.
func c17fwdAllCut(c *CFGInfo, blk *cfg.Block, idx int, match func(ast.Node) bool, inRegion func(ast.Node) bool, cutEdge func(b *cfg.Block, i int) bool) ([]ast.Node, bool) {
	ok := true
	var found []ast.Node
	cgxWalk(c, blk, idx, func(b *cfg.Block, i int, n ast.Node) bool {
		if match(n) {
			found = append(found, n)
			return true
		}
		if _, isRet := n.(*ast.ReturnStmt); isRet || !inRegion(n) {
			ok = false
			return true
		}
		return false
	}, cutEdge)
	return found, ok && len(found) > 0
}

// c17backAll: is the node (blk, idx) preceded on every path, inside the region, by a matching node?
func c17backAll(c *CFGInfo, blk *cfg.Block, idx int, match func(ast.Node) bool, inRegion func(ast.Node) bool) ([]ast.Node, bool) {
	var found []ast.Node
	seen := map[*cfg.Block]bool{}
	var walk func(b *cfg.Block, from int) bool
	walk = func(b *cfg.Block, from int) bool {
		for i := from - 1; i >= 0; i-- {
			n := b.Nodes[i]
			if match(n) {
				found = append(found, n)
				return true
			}
			if !inRegion(n) {
				return false
			}
		}
		live := 0
		for _, p := range c.Preds[b] {
			if !p.Live {
				continue
			}
			live++
			if seen[p] {
				continue
			}
			seen[p] = true
			if !walk(p, len(p.Nodes)) {
				return false
			}
		}
		return live > 0
	}
	ok := walk(blk, idx)
	return found, ok && len(found) > 0
}

// kinds classifies where a function (isFn) or a slice of variables comes from.
func (x *c17pair) kinds(fi *FuncInfo, e ast.Expr, isFn bool, busy map[types.Object]bool) map[string]bool {
	info := fi.Pkg.TypesInfo
	out := map[string]bool{}
	if e == nil {
		out["?"] = true
		return out
	}
	e = ast.Unparen(e)
	if cgxIsNil(info, e) {
		out["nil"] = true
		return out
	}
	if f := c17fieldOf(info, e); f != nil {
		bx := ast.Unparen(ast.Unparen(e).(*ast.SelectorExpr).X)
		// a local assigned once from a field path (`cl := call.cl`) denotes the holder it was read from
		for d := 0; d < 2; d++ {
			id, ok := bx.(*ast.Ident)
			if !ok {
				break
			}
			lo, ok := info.Uses[id].(*types.Var)
			if !ok || lo.IsField() {
				break
			}
			as := cgxAssignsTo(info, fi.Decl.Body, lo)
			if len(as) != 1 || as[0].Rhs == nil {
				break
			}
			if _, isSel := ast.Unparen(as[0].Rhs).(*ast.SelectorExpr); !isSel {
				break
			}
			bx = ast.Unparen(as[0].Rhs)
		}
		base := exprStr(bx)
		switch {
		case isFn && f == x.clFn, !isFn && f == x.clVars:
			out["callable "+base] = true
		case !isFn && f == x.envGlobals:
			out["static"] = true
		case isFn && f == x.vmFn, !isFn && f == x.vmVars:
			out["running"] = true
		default:
			out["?"] = true
		}
		return out
	}
	if ix, ok := e.(*ast.IndexExpr); ok && isFn {
		if x.isFunctionsTable(fi, ix.X, map[types.Object]bool{}) {
			out["static"] = true
			return out
		}
	}
	if o := cgxObj(info, e); o != nil {
		if _, isVar := o.(*types.Var); isVar {
			sig := fi.Obj.Type().(*types.Signature)
			for i := 0; i < sig.Params().Len(); i++ {
				if types.Object(sig.Params().At(i)) == o {
					out["parameter"] = true
					return out
				}
			}
			if busy[o] {
				return out
			}
			busy[o] = true
			n := 0
			for _, a := range cgxAssignsTo(info, fi.Decl.Body, o) {
				if vs, ok := a.Node.(*ast.ValueSpec); ok && len(vs.Values) == 0 {
					continue
				}
				n++
				if a.Rhs == nil {
					out["?"] = true
					continue
				}
				for k := range x.kinds(fi, a.Rhs, isFn, busy) {
					out[k] = true
				}
			}
			if n == 0 {
				out["?"] = true
			}
			return out
		}
	}
	out["?"] = true
	return out
}

// isFunctionsTable: e is the field Function.Functions, or a local assigned only from it.
func (x *c17pair) isFunctionsTable(fi *FuncInfo, e ast.Expr, busy map[types.Object]bool) bool {
	info := fi.Pkg.TypesInfo
	if c17fieldOf(info, e) == x.fnFunctions {
		return true
	}
	o := cgxObj(info, e)
	if o == nil || busy[o] {
		return false
	}
	busy[o] = true
	as := cgxAssignsTo(info, fi.Decl.Body, o)
	if len(as) == 0 {
		return false
	}
	for _, a := range as {
		if a.Rhs == nil || !x.isFunctionsTable(fi, a.Rhs, busy) {
			return false
		}
	}
	return true
}

func c17keys(m map[string]bool) string {
	var ks []string
	for k := range m {
		ks = append(ks, k)
	}
	sort.Strings(ks)
	return strings.Join(ks, ", ")
}

// blockPairing: when the function assigned to VM.fn is a local and a basic block that assigns VM.vars also
// assigns that local, the two sources in that block must agree.
func (x *c17pair) blockPairing(fi *FuncInfo, c *CFGInfo, fnExpr ast.Expr, found []ast.Node, varsValue func(ast.Node) ast.Expr) string {
	info := fi.Pkg.TypesInfo
	local := cgxObj(info, fnExpr)
	if local == nil {
		return ""
	}
	for _, vn := range found {
		blk, _ := c.Locate(vn)
		if blk == nil {
			continue
		}
		vk := c17keys(x.kinds(fi, varsValue(vn), false, map[types.Object]bool{}))
		for _, n := range blk.Nodes {
			for _, a := range cgxAssignsTo(info, n, local) {
				if a.Rhs == nil {
					continue
				}
				if fk := c17keys(x.kinds(fi, a.Rhs, true, map[types.Object]bool{})); fk != vk {
					return "where " + local.Name() + " is taken from {" + fk + "}, VM.vars is taken from {" + vk + "}: the function runs with the variables of another callable"
				}
			}
		}
	}
	return ""
}

// localPairing: fnExpr and varsExpr are locals; in every basic block that assigns both, the sources agree.
func (x *c17pair) localPairing(fi *FuncInfo, c *CFGInfo, fnExpr, varsExpr ast.Expr) string {
	info := fi.Pkg.TypesInfo
	lf, lv := cgxObj(info, fnExpr), cgxObj(info, varsExpr)
	if lf == nil || lv == nil {
		return ""
	}
	for _, b := range c.G.Blocks {
		var fk, vk string
		for _, n := range b.Nodes {
			for _, a := range cgxAssignsTo(info, n, lf) {
				if a.Rhs != nil {
					fk = c17keys(x.kinds(fi, a.Rhs, true, map[types.Object]bool{}))
				}
			}
			for _, a := range cgxAssignsTo(info, n, lv) {
				if a.Rhs != nil {
					vk = c17keys(x.kinds(fi, a.Rhs, false, map[types.Object]bool{}))
				}
			}
		}
		if fk != "" && vk != "" && fk != vk {
			return "where " + lf.Name() + " is taken from {" + fk + "}, " + lv.Name() + " is taken from {" + vk + "}"
		}
	}
	return ""
}
