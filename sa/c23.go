package main

// C23 — the in-memory Files type is a well-behaved io/fs file system (structural necessary conditions only).
//
// R-1 (the two views of a node agree, E10): Open(name).Stat() and the DirEntry listed for the same name must
//      describe the same node. Both are values of one record type (the type of the root package whose own
//      methods implement fs.FileInfo; today filesFileInfo, sharing its struct with filesFile). Therefore
//      (a) every method of the package returning fs.FileInfo returns a pointer to that record type and every
//          fs.DirEntry implementer takes Name/IsDir from it and derives Type() from its Mode();
//      (b) every construction (composite literal) of the record — or of a type converted to it — populates the
//          fields its accessors read: the field read by Name(), and either the field read by Size() (a file) or
//          the field read by IsDir()/Mode() with a constant carrying fs.ModeDir (a directory).
// R-3 (the read offset advances, E4b): ReadDir keeps its position in a field of the receiver (the integer field
//      used as the low bound of a slice expression). Every return of a slice variable (the entries) is preceded
//      on every path by the cut at that offset and by an update of the field; otherwise a second call returns
//      the same entries again (fs.ReadDirFile: successive calls continue, ReadDir(-1) at the end returns none).
// R-2 (listing is sorted before it is cut, E4b): in every ReadDir method of the package that collects names by
//      ranging over a map, each order-sensitive use of the collected slice (slicing for pagination, indexing,
//      ranging to build the entries) is preceded on every path by a sort of that slice, and nothing is appended
//      after the sort.

import (
	"go/ast"
	"go/constant"
	"go/token"
	"go/types"
	"sort"
	"strings"

	"golang.org/x/tools/go/cfg"
)

func init() {
	register("C23", &ruleSet{
		explain: "Necessary conditions of 'Files satisfies the io/fs contract' that are visible in the shape of files.go. R-1: the file information returned by Stat() of an opened node and by Info()/Type()/IsDir() of its directory entry are the accessors of one record type; every construction of that record (or of the struct-identical type converted to it) sets the field read by Name() and either the field read by Size() or the mode field with a constant containing fs.ModeDir, so a listed sub-directory is a directory and a listed file has its size. R-2: ReadDir ranges over a map; the collected names pass through a sort before they are sliced for pagination or turned into entries, and no name is appended after the sort. R-3: every path of ReadDir that returns a slice of entries cuts the listing at the offset field of the receiver and updates that field.",
		notCov: []string{
			"the rest of the io/fs contract (what testing/fstest.TestFS checks by running): error values, ReadDir(n) paging arithmetic and io.EOF, Read on directories, path validation, ModTime",
			"that the sort order is the one fs.ReadDir requires (by base name)",
			"records populated field by field after construction (reported as undecided)",
		},
		trusted: []string{"io/fs.FileMode bit layout (fs.ModeDir)", "sort.Strings / sort.Slice / slices.Sort sort their argument in place"},
		run:     runC23,
	})
}

func c23Iface(r *Run, path, name string) *types.Interface {
	n := r.P.ExtNamed(path, name)
	if n == nil {
		return nil
	}
	it, _ := n.Underlying().(*types.Interface)
	return it
}

func runC23(r *Run) {
	const R1, R2 = "R-1", "R-2"
	root := r.P.Pkg("")
	if !r.Anchor(R1, "root package", root != nil) {
		return
	}
	info := root.TypesInfo
	fileInfoI := c23Iface(r, "io/fs", "FileInfo")
	dirEntryI := c23Iface(r, "io/fs", "DirEntry")
	fsI := c23Iface(r, "io/fs", "FS")
	if !r.Anchor(R1, "io/fs.FileInfo", fileInfoI != nil) || !r.Anchor(R1, "io/fs.DirEntry", dirEntryI != nil) || !r.Anchor(R1, "io/fs.FS", fsI != nil) {
		return
	}
	modeDir := int64(-1)
	if fsPk := r.P.ExtNamed("io/fs", "FileMode"); fsPk != nil {
		if c, ok := fsPk.Obj().Pkg().Scope().Lookup("ModeDir").(*types.Const); ok {
			if v, ok := constant.Uint64Val(constant.ToInt(c.Val())); ok {
				modeDir = int64(v)
			}
		}
	}
	if !r.Anchor(R1, "io/fs.ModeDir", modeDir > 0) {
		return
	}

	// the file system type by role: a named type of the root package implementing fs.FS
	var fsTypes []*types.Named
	sc := root.Types.Scope()
	for _, n := range sc.Names() {
		tn, ok := sc.Lookup(n).(*types.TypeName)
		if !ok || tn.IsAlias() {
			continue
		}
		nt, ok := tn.Type().(*types.Named)
		if !ok {
			continue
		}
		if _, isI := nt.Underlying().(*types.Interface); isI {
			continue
		}
		if types.Implements(nt, fsI) || types.Implements(types.NewPointer(nt), fsI) {
			// only the map-based in-memory file system: declared in the file that declares the record
			fsTypes = append(fsTypes, nt)
		}
	}

	// the record type by role: named struct type whose *own* (not promoted) methods implement fs.FileInfo
	var recs []*types.Named
	for _, n := range sc.Names() {
		tn, ok := sc.Lookup(n).(*types.TypeName)
		if !ok || tn.IsAlias() {
			continue
		}
		nt, ok := tn.Type().(*types.Named)
		if !ok {
			continue
		}
		if _, isS := nt.Underlying().(*types.Struct); !isS {
			continue
		}
		pt := types.NewPointer(nt)
		if !types.Implements(pt, fileInfoI) {
			continue
		}
		own := true
		ms := types.NewMethodSet(pt)
		for i := 0; i < fileInfoI.NumMethods(); i++ {
			sel := ms.Lookup(root.Types, fileInfoI.Method(i).Name())
			if sel == nil {
				sel = ms.Lookup(nil, fileInfoI.Method(i).Name())
			}
			if sel == nil || len(sel.Index()) != 1 {
				own = false
			}
		}
		if own {
			recs = append(recs, nt)
		}
	}
	if !r.Anchor(R1, "exactly one struct type of the root package whose own methods implement fs.FileInfo", len(recs) == 1) {
		return
	}
	rec := recs[0]
	recSt := rec.Underlying().(*types.Struct)
	recName := rec.Obj().Name()

	// fields read by each accessor
	reads := map[string]map[*types.Var]bool{}
	for _, fi := range r.P.Funcs("") {
		if fi.Decl.Recv == nil || fi.Obj == nil || r.P.isTestFile(fi.File) {
			continue
		}
		sig := fi.Obj.Type().(*types.Signature)
		rt := sig.Recv().Type()
		if p, ok := rt.(*types.Pointer); ok {
			rt = p.Elem()
		}
		if !types.Identical(rt, rec) {
			continue
		}
		set := map[*types.Var]bool{}
		ast.Inspect(fi.Decl.Body, func(n ast.Node) bool {
			if sel, ok := n.(*ast.SelectorExpr); ok {
				if v, ok := info.Uses[sel.Sel].(*types.Var); ok && v.IsField() {
					for i := 0; i < recSt.NumFields(); i++ {
						if recSt.Field(i) == v {
							set[v] = true
						}
					}
				}
			}
			return true
		})
		reads[fi.Obj.Name()] = set
	}
	one := func(m string) *types.Var {
		if len(reads[m]) != 1 {
			return nil
		}
		for v := range reads[m] {
			return v
		}
		return nil
	}
	nameF, sizeF, modeF, isDirF := one("Name"), one("Size"), one("Mode"), one("IsDir")
	if !r.Anchor(R1, recName+".Name/Size/Mode/IsDir each read exactly one field of the record", nameF != nil && sizeF != nil && modeF != nil && isDirF != nil) {
		return
	}
	r.Ob(R1, "scriggo."+recName+"#IsDir-reads-mode", rec.Obj().Pos()).Set(isDirF == modeF,
		"IsDir() and Mode() read the same field ("+modeF.Name()+"): the directory bit has one source",
		"IsDir() reads "+isDirF.Name()+" while Mode() reads "+modeF.Name()+": Mode().IsDir() and IsDir() can disagree")

	// ---- (a) every FileInfo-returning method returns *rec; DirEntry implementers take Name/IsDir from rec
	nViews := 0
	for _, fi := range r.P.Funcs("") {
		if fi.Decl.Recv == nil || fi.Obj == nil || r.P.isTestFile(fi.File) {
			continue
		}
		sig := fi.Obj.Type().(*types.Signature)
		if sig.Results().Len() < 1 {
			continue
		}
		rt0 := sig.Results().At(0).Type()
		if !c03IsIface(rt0) || !types.Identical(rt0.Underlying(), fileInfoI) {
			continue
		}
		// only methods of types belonging to the file system: receiver declared in the same file as the record
		if r.P.FileOf(fi.Decl.Pos()) != r.P.FileOf(rec.Obj().Pos()) {
			continue
		}
		for _, ret := range c03OwnReturns(fi.Decl.Body) {
			if len(ret.Results) == 0 {
				continue
			}
			// an error return (nil, err) gives no view of the node: nothing to compare
			if tv, ok := info.Types[ast.Unparen(ret.Results[0])]; ok && tv.IsNil() && len(ret.Results) == 2 {
				if tv2, ok := info.Types[ret.Results[1]]; ok && !tv2.IsNil() {
					continue
				}
			}
			nViews++
			o := r.Ob(R1, fi.Name()+"#returns-record", ret.Pos())
			e := ast.Unparen(ret.Results[0])
			t := info.TypeOf(e)
			// a conversion (*rec)(x) has type *rec
			if p, ok := t.(*types.Pointer); ok && types.Identical(p.Elem(), rec) {
				o.OK("returns a *%s: the view is computed by the accessors of the single record type", recName)
			} else {
				o.Bad("%s returns a %s as fs.FileInfo, not a *%s: Stat() and the directory entry of the same node are computed by different code", fi.Name(), typeStr(t), recName)
			}
		}
	}
	// DirEntry implementers
	for _, n := range sc.Names() {
		tn, ok := sc.Lookup(n).(*types.TypeName)
		if !ok || tn.IsAlias() {
			continue
		}
		nt, ok := tn.Type().(*types.Named)
		if !ok || r.P.FileOf(tn.Pos()) != r.P.FileOf(rec.Obj().Pos()) {
			continue
		}
		pt := types.NewPointer(nt)
		if _, isI := nt.Underlying().(*types.Interface); isI || !types.Implements(pt, dirEntryI) {
			continue
		}
		ms := types.NewMethodSet(pt)
		for _, m := range []string{"Name", "IsDir"} {
			nViews++
			sel := ms.Lookup(root.Types, m)
			if sel == nil {
				sel = ms.Lookup(nil, m)
			}
			o := r.Ob(R1, "scriggo."+nt.Obj().Name()+"#"+m, tn.Pos())
			if sel == nil {
				o.Unknown("method not found")
				continue
			}
			fn := sel.Obj().(*types.Func)
			rt := fn.Type().(*types.Signature).Recv().Type()
			if p, ok := rt.(*types.Pointer); ok {
				rt = p.Elem()
			}
			if types.Identical(rt, rec) {
				o.OK("%s.%s is the accessor of %s (promoted through embedding)", nt.Obj().Name(), m, recName)
			} else {
				o.Bad("%s.%s is not the accessor of %s: the entry and Stat() of the same node can disagree", nt.Obj().Name(), m, recName)
			}
		}
		// Type() derives from Mode()
		for _, fi := range r.P.Funcs("") {
			if fi.Decl.Recv == nil || fi.Obj == nil || fi.Obj.Name() != "Type" {
				continue
			}
			rt := fi.Obj.Type().(*types.Signature).Recv().Type()
			if p, ok := rt.(*types.Pointer); ok {
				rt = p.Elem()
			}
			if !types.Identical(rt, nt) {
				continue
			}
			nViews++
			o := r.Ob(R1, fi.Name()+"#from-Mode", fi.Decl.Pos())
			okAll := true
			rets := c03OwnReturns(fi.Decl.Body)
			for _, ret := range rets {
				found := false
				for _, c := range calls(ret, false) {
					if f := callee(info, c); f != nil && f.Name() == "Mode" {
						frt := f.Type().(*types.Signature).Recv().Type()
						if p, ok := frt.(*types.Pointer); ok {
							frt = p.Elem()
						}
						if types.Identical(frt, rec) {
							found = true
						}
					}
				}
				if !found {
					okAll = false
				}
			}
			if okAll && len(rets) > 0 {
				o.OK("Type() is computed from %s.Mode()", recName)
			} else {
				o.Bad("Type() of the directory entry is not computed from %s.Mode(): entry type and Info().Mode() can disagree", recName)
			}
		}
	}
	r.Stats["view_obligations"] = nViews

	// ---- (b) constructions
	// types converted to the record: (*rec)(x) / rec(x) with x of another named type of identical struct
	shared := map[*types.Named]bool{rec: true}
	for _, fi := range r.P.Funcs("") {
		if r.P.isTestFile(fi.File) {
			continue
		}
		ast.Inspect(fi.Decl.Body, func(n ast.Node) bool {
			c, ok := n.(*ast.CallExpr)
			if !ok || len(c.Args) != 1 {
				return true
			}
			tv, ok := info.Types[c.Fun]
			if !ok || !tv.IsType() {
				return true
			}
			to := c21Named(tv.Type)
			from := c21Named(info.TypeOf(c.Args[0]))
			if to != nil && from != nil && shared[to] != shared[from] && (to == rec || from == rec) {
				if to == rec {
					shared[from] = true
				}
			}
			return true
		})
	}
	var sharedNames []string
	for t := range shared {
		sharedNames = append(sharedNames, t.Obj().Name())
	}
	sort.Strings(sharedNames)
	fieldIdx := func(st *types.Struct, name string) int {
		for i := 0; i < st.NumFields(); i++ {
			if st.Field(i).Name() == name {
				return i
			}
		}
		return -1
	}
	nCons := 0
	for _, fi := range r.P.Funcs("") {
		if r.P.isTestFile(fi.File) {
			continue
		}
		par := r.P.Parents(fi.File)
		ast.Inspect(fi.Decl.Body, func(n ast.Node) bool {
			cl, ok := n.(*ast.CompositeLit)
			if !ok {
				return true
			}
			lt, _ := info.TypeOf(cl).(*types.Named)
			if lt == nil || !shared[lt] {
				return true
			}
			st := lt.Underlying().(*types.Struct)
			nCons++
			o := r.Ob(R1, fi.Name()+"#construct:"+lt.Obj().Name(), cl.Pos())
			given := map[string]ast.Expr{}
			for i, el := range cl.Elts {
				if kv, ok := el.(*ast.KeyValueExpr); ok {
					if id, ok := kv.Key.(*ast.Ident); ok {
						given[id.Name] = kv.Value
					}
				} else if i < st.NumFields() {
					given[st.Field(i).Name()] = el
				}
			}
			if fieldIdx(st, nameF.Name()) < 0 || fieldIdx(st, sizeF.Name()) < 0 || fieldIdx(st, modeF.Name()) < 0 {
				o.Unknown("type %s converted to %s does not have the fields %s, %s, %s by name", lt.Obj().Name(), recName, nameF.Name(), sizeF.Name(), modeF.Name())
				return true
			}
			_, hasName := given[nameF.Name()]
			_, hasData := given[sizeF.Name()]
			isDir := false
			modeConst := false
			if mv, ok := given[modeF.Name()]; ok {
				if tv, ok := info.Types[mv]; ok && tv.Value != nil {
					modeConst = true
					if v, ok := constant.Uint64Val(constant.ToInt(tv.Value)); ok && int64(v)&modeDir != 0 {
						isDir = true
					}
				}
			}
			// fields assigned after construction through a variable
			later := c23LaterFields(info, par, fi, cl)
			switch {
			case !hasName && !later[nameF.Name()]:
				o.Bad("the record is built without %s: Name() of the node is empty", nameF.Name())
			case isDir:
				o.OK("directory record: %s and %s (constant with fs.ModeDir) are set", nameF.Name(), modeF.Name())
			case hasData:
				o.OK("file record: %s and %s are set", nameF.Name(), sizeF.Name())
			case later[sizeF.Name()] || later[modeF.Name()] || later[nameF.Name()]:
				// populated field by field: every use of the variable other than those assignments must
				// be reached only through an assignment of the size field or of the mode field with a
				// constant carrying fs.ModeDir
				if ok, why := c23PopulatedOnEveryPath(r, info, par, fi, cl, sizeF.Name(), modeF.Name(), modeDir); ok {
					o.OK("record populated field by field: %s", why)
				} else {
					o.Unknown("the record is populated field by field after construction: %s", why)
				}
			case given[modeF.Name()] != nil && !modeConst:
				o.Unknown("the mode is not a constant and %s is not set: cannot tell whether the record describes a directory", sizeF.Name())
			default:
				o.Bad("the record is built with %s only: neither %s (read by Size()) nor %s with fs.ModeDir (read by IsDir()/Mode()) is set, so a node described by this record is an empty regular file whatever it is — a listed sub-directory is not a directory and a listed file has size 0, while Open(name).Stat() reports the real mode and size", nameF.Name(), sizeF.Name(), modeF.Name())
			}
			return true
		})
	}
	r.Stats["record_constructions"] = nCons
	r.Note("record type %s; struct shared with %s; accessors read: Name→%s Size→%s Mode→%s IsDir→%s", recName, strings.Join(sharedNames, ","), nameF.Name(), sizeF.Name(), modeF.Name(), isDirF.Name())
	r.Require(R1, 4+4)

	// ---- R-2 sort before cut
	nRD := 0
	for _, fi := range r.P.Funcs("") {
		if fi.Decl.Recv == nil || fi.Obj == nil || r.P.isTestFile(fi.File) || fi.Obj.Name() != "ReadDir" {
			continue
		}
		sig := fi.Obj.Type().(*types.Signature)
		if sig.Results().Len() != 2 {
			continue
		}
		sl, ok := sig.Results().At(0).Type().(*types.Slice)
		if !ok || !types.Identical(sl.Elem().Underlying(), dirEntryI) {
			continue
		}
		if !c23SortRule(r, R2, fi, info) {
			// the listing may be collected by a helper of the package that ReadDir calls
			found := false
			ast.Inspect(fi.Decl.Body, func(n ast.Node) bool {
				call, ok := n.(*ast.CallExpr)
				if !ok || found {
					return true
				}
				if hf := callee(info, call); hf != nil && hf.Pkg() == fi.Obj.Pkg() {
					for _, h := range r.P.Funcs("") {
						if h.Obj == hf && !r.P.isTestFile(h.File) && c23SortRule(r, R2, h, info) {
							found = true
						}
					}
				}
				return true
			})
			if !found {
				r.Ob(R2, fi.Name()+"#collect", fi.Decl.Pos()).Unknown("neither ReadDir nor a function of the package it calls collects the names by appending inside a range over a map: the rule does not understand how the listing is ordered")
			}
		}
		c23OffsetRule(r, "R-3", fi, info)
		nRD++
	}
	r.Anchor(R2, "a ReadDir method returning []fs.DirEntry in the root package", nRD >= 1)
	r.Require(R2, 3)
	r.Require("R-3", 2)
	_ = fsTypes
}

// c23LaterFields: when the literal (or its address) is bound to a variable, the fields of that variable assigned
// anywhere in the function.
func c23LaterFields(info *types.Info, par map[ast.Node]ast.Node, fi *FuncInfo, cl *ast.CompositeLit) map[string]bool {
	out := map[string]bool{}
	var n ast.Node = cl
	if u, ok := par[n].(*ast.UnaryExpr); ok {
		n = u
	}
	var v types.Object
	switch p := par[n].(type) {
	case *ast.AssignStmt:
		if len(p.Lhs) == len(p.Rhs) {
			for i, rh := range p.Rhs {
				if ast.Node(rh) == n {
					v = c03ObjOf(info, p.Lhs[i])
				}
			}
		}
	case *ast.ValueSpec:
		for i, rh := range p.Values {
			if ast.Node(rh) == n && i < len(p.Names) {
				v = info.Defs[p.Names[i]]
			}
		}
	}
	if v == nil {
		return out
	}
	ast.Inspect(fi.Decl.Body, func(m ast.Node) bool {
		a, ok := m.(*ast.AssignStmt)
		if !ok {
			return true
		}
		for _, l := range a.Lhs {
			if sel, ok := ast.Unparen(l).(*ast.SelectorExpr); ok && c03ObjOf(info, sel.X) == v {
				out[sel.Sel.Name] = true
			}
		}
		return true
	})
	return out
}

// c23SortRule: the names collected by ranging over a map are sorted before any order-sensitive use.
func c23SortRule(r *Run, R string, fi *FuncInfo, info *types.Info) bool {
	c := r.P.CFGOf(fi)
	// map ranges and the slices appended inside them
	type coll struct {
		rng     *ast.RangeStmt
		slice   types.Object
		appends []*ast.AssignStmt
	}
	var colls []*coll
	ast.Inspect(fi.Decl.Body, func(n ast.Node) bool {
		rs, ok := n.(*ast.RangeStmt)
		if !ok {
			return true
		}
		if _, isMap := info.TypeOf(rs.X).Underlying().(*types.Map); !isMap {
			return true
		}
		bySlice := map[types.Object]*coll{}
		ast.Inspect(rs.Body, func(m ast.Node) bool {
			as, ok := m.(*ast.AssignStmt)
			if !ok || len(as.Lhs) != 1 || len(as.Rhs) != 1 {
				return true
			}
			call, ok := ast.Unparen(as.Rhs[0]).(*ast.CallExpr)
			if !ok || !isBuiltinCall(info, call, "append") || len(call.Args) < 1 {
				return true
			}
			lo := c03ObjOf(info, as.Lhs[0])
			if lo == nil || c03ObjOf(info, call.Args[0]) != lo {
				return true
			}
			if _, isSlice := lo.Type().Underlying().(*types.Slice); !isSlice {
				return true
			}
			cc := bySlice[lo]
			if cc == nil {
				cc = &coll{rng: rs, slice: lo}
				bySlice[lo] = cc
				colls = append(colls, cc)
			}
			cc.appends = append(cc.appends, as)
			return true
		})
		return true
	})
	if len(colls) == 0 {
		return false
	}
	// two-phase collection: a range over a still unsorted collected slice whose body only filters, records
	// set membership and appends to another slice derives a new collection (which must be sorted in turn);
	// such a range is not an order-sensitive use of the first slice
	derived := map[*ast.RangeStmt]bool{}
	for k := 0; k < len(colls); k++ {
		cc := colls[k]
		ast.Inspect(fi.Decl.Body, func(n ast.Node) bool {
			rs, ok := n.(*ast.RangeStmt)
			if !ok || rs == cc.rng || c03ObjOf(info, rs.X) != cc.slice || derived[rs] {
				return true
			}
			locals := map[types.Object]bool{}
			for _, e := range []ast.Expr{rs.Key, rs.Value} {
				if e != nil {
					if o := c03ObjOf(info, e); o != nil {
						locals[o] = true
					}
				}
			}
			benign := true
			dests := map[types.Object][]*ast.AssignStmt{}
			ast.Inspect(rs.Body, func(m ast.Node) bool {
				switch x := m.(type) {
				case *ast.ReturnStmt, *ast.GoStmt, *ast.DeferStmt, *ast.SendStmt, *ast.FuncLit, *ast.IncDecStmt:
					benign = false
				case *ast.CallExpr:
					if isBuiltinCall(info, x, "append") || isBuiltinCall(info, x, "len") || isBuiltinCall(info, x, "cap") {
						return true
					}
					if f := callee(info, x); f != nil && f.Pkg() != nil && (f.Pkg().Path() == "strings" || f.Pkg().Path() == "bytes" || f.Pkg().Path() == "path") {
						return true
					}
					benign = false
				case *ast.AssignStmt:
					for i, l := range x.Lhs {
						if ix, ok := ast.Unparen(l).(*ast.IndexExpr); ok {
							if _, isMap := info.TypeOf(ix.X).Underlying().(*types.Map); isMap {
								continue
							}
							benign = false
							continue
						}
						lo := c03ObjOf(info, l)
						if lo == nil {
							benign = false
							continue
						}
						if x.Tok == token.DEFINE || locals[lo] {
							locals[lo] = true
							continue
						}
						if len(x.Lhs) == len(x.Rhs) {
							if call, ok := ast.Unparen(x.Rhs[i]).(*ast.CallExpr); ok && isBuiltinCall(info, call, "append") && len(call.Args) >= 1 && c03ObjOf(info, call.Args[0]) == lo {
								dests[lo] = append(dests[lo], x)
								continue
							}
						}
						benign = false
					}
				}
				return true
			})
			if benign && len(dests) > 0 {
				derived[rs] = true
				for o, aps := range dests {
					colls = append(colls, &coll{rng: rs, slice: o, appends: aps})
				}
			}
			return true
		})
	}
	for _, cc := range colls {
		s := cc.slice
		isSort := func(n ast.Node) bool {
			found := false
			ast.Inspect(n, func(m ast.Node) bool {
				if _, ok := m.(*ast.FuncLit); ok {
					return false
				}
				call, ok := m.(*ast.CallExpr)
				if !ok || len(call.Args) < 1 {
					return true
				}
				fn := callee(info, call)
				if fn == nil || fn.Pkg() == nil {
					return true
				}
				p := fn.Pkg().Path()
				isSorter := (p == "sort" && (fn.Name() == "Strings" || fn.Name() == "Slice" || fn.Name() == "SliceStable" || fn.Name() == "Sort" || fn.Name() == "Stable")) ||
					(p == "slices" && strings.HasPrefix(fn.Name(), "Sort"))
				if !isSorter {
					return true
				}
				// the sorted operand is s (possibly wrapped in a conversion such as sort.StringSlice(s))
				arg := ast.Unparen(call.Args[0])
				if conv, ok := arg.(*ast.CallExpr); ok && len(conv.Args) == 1 {
					if tv, ok := info.Types[conv.Fun]; ok && tv.IsType() {
						arg = ast.Unparen(conv.Args[0])
					}
				}
				if c03ObjOf(info, arg) == s {
					found = true
				}
				return true
			})
			return found
		}
		// the sort statements
		var sortBlocks []*cfg.Block
		for _, b := range c.G.Blocks {
			for _, n := range b.Nodes {
				if isSort(n) {
					sortBlocks = append(sortBlocks, b)
				}
			}
		}
		// order-sensitive uses outside the collecting loop
		type use struct {
			n    ast.Node
			what string
		}
		var uses []use
		ast.Inspect(fi.Decl.Body, func(n ast.Node) bool {
			if n == ast.Node(cc.rng) {
				return false
			}
			switch x := n.(type) {
			case *ast.SliceExpr:
				if c03ObjOf(info, x.X) == s {
					uses = append(uses, use{x, "slice"})
				}
			case *ast.IndexExpr:
				if c03ObjOf(info, x.X) == s {
					uses = append(uses, use{x, "index"})
				}
			case *ast.RangeStmt:
				if c03ObjOf(info, x.X) == s && !derived[x] {
					uses = append(uses, use{x.X, "range"})
				}
			case *ast.ReturnStmt:
				for _, e := range x.Results {
					if c03ObjOf(info, e) == s {
						uses = append(uses, use{x, "return"})
					}
				}
			case *ast.CallExpr:
				if isBuiltinCall(info, x, "len") || isBuiltinCall(info, x, "cap") || isSort(x) {
					return true
				}
				for _, a := range x.Args {
					if c03ObjOf(info, a) == s && !isBuiltinCall(info, x, "append") {
						uses = append(uses, use{x, "argument"})
					}
				}
			}
			return true
		})
		hasDerived := false
		for rs := range derived {
			if c03ObjOf(info, rs.X) == s {
				hasDerived = true
			}
		}
		if len(uses) == 0 && hasDerived {
			r.Ob(R, fi.Name()+"#derived:"+s.Name(), cc.rng.Pos()).OK("the collected slice %s is only filtered into another collection, which is checked in its place", s.Name())
			continue
		}
		if len(uses) == 0 {
			r.Ob(R, fi.Name()+"#uses", cc.rng.Pos()).Unknown("no order-sensitive use of the collected slice found: shape not understood")
			continue
		}
		for _, u := range uses {
			o := r.Ob(R, fi.Name()+"#sorted-before:"+u.what, u.n.Pos())
			if len(sortBlocks) == 0 {
				o.Bad("the names are collected by ranging over a map (random order) and %s without being sorted: the listing order changes from call to call and pages overlap or skip entries", c23UseText(u.what))
				continue
			}
			if c.MustPassNode(u.n, isSort) {
				o.OK("every path to this %s of the collected names passes the sort of the slice", u.what)
			} else {
				o.Bad("a path reaches this %s of the names collected from a map range without passing the sort: the order of the listing (and the content of a page) depends on map iteration order", u.what)
			}
		}
		// nothing appended after the sort
		o := r.Ob(R, fi.Name()+"#no-append-after-sort", cc.rng.Pos())
		bad := false
		for _, sb := range sortBlocks {
			for _, ap := range cc.appends {
				ab, _ := c.Locate(ap)
				if ab != nil && ab != sb && c.reachable(sb, ab, nil, nil) {
					bad = true
				}
			}
		}
		switch {
		case len(sortBlocks) == 0:
			o.Bad("no sort of the collected names in %s", fi.Name())
		case bad:
			o.Bad("names are appended on a path after the sort: the result is not sorted")
		default:
			o.OK("the collecting loop is not reachable from the sort (%d sort sites)", len(sortBlocks))
		}
	}
	return true
}

func c23UseText(w string) string {
	switch w {
	case "slice":
		return "cut into pages"
	case "range":
		return "turned into entries"
	}
	return "used (" + w + ")"
}

var _ = token.NoPos

// c23OffsetRule: every return of an entries variable passes the cut at the offset field and its update.
func c23OffsetRule(r *Run, R string, fi *FuncInfo, info *types.Info) {
	c := r.P.CFGOf(fi)
	if fi.Decl.Recv == nil || len(fi.Decl.Recv.List) == 0 || len(fi.Decl.Recv.List[0].Names) == 0 {
		r.Ob(R, fi.Name()+"#offset", fi.Decl.Pos()).Unknown("receiver without a name")
		return
	}
	recv := info.Defs[fi.Decl.Recv.List[0].Names[0]]
	// offset field by role: integer field of the receiver used as the low bound of a slice expression
	fieldOf := func(e ast.Expr) *types.Var {
		sel, ok := ast.Unparen(e).(*ast.SelectorExpr)
		if !ok || c03ObjOf(info, sel.X) != recv {
			return nil
		}
		v, _ := info.Uses[sel.Sel].(*types.Var)
		if v == nil || !v.IsField() {
			return nil
		}
		if b, ok := v.Type().Underlying().(*types.Basic); !ok || b.Info()&types.IsInteger == 0 {
			return nil
		}
		return v
	}
	var off *types.Var
	ast.Inspect(fi.Decl.Body, func(n ast.Node) bool {
		if se, ok := n.(*ast.SliceExpr); ok && se.Low != nil {
			if v := fieldOf(se.Low); v != nil {
				off = v
			}
		}
		return true
	})
	if off == nil {
		r.Ob(R, fi.Name()+"#offset", fi.Decl.Pos()).Unknown("no integer field of the receiver is used as the low bound of a slice expression: the rule does not see where ReadDir keeps its position")
		return
	}
	isCut := func(n ast.Node) bool {
		found := false
		ast.Inspect(n, func(m ast.Node) bool {
			if _, ok := m.(*ast.FuncLit); ok {
				return false
			}
			if se, ok := m.(*ast.SliceExpr); ok && se.Low != nil && fieldOf(se.Low) == off {
				found = true
			}
			return true
		})
		return found
	}
	isUpdate := func(n ast.Node) bool {
		switch x := n.(type) {
		case *ast.AssignStmt:
			for _, l := range x.Lhs {
				if fieldOf(l) == off {
					return true
				}
			}
		case *ast.IncDecStmt:
			return fieldOf(x.X) == off
		}
		return false
	}
	n := 0
	for _, ret := range c03OwnReturns(fi.Decl.Body) {
		if len(ret.Results) < 1 {
			continue
		}
		v, ok := c03ObjOf(info, ret.Results[0]).(*types.Var)
		if !ok {
			continue // nil or an empty literal: no entry is returned
		}
		if _, isSlice := v.Type().Underlying().(*types.Slice); !isSlice {
			continue
		}
		n++
		for _, chk := range []struct {
			what string
			pred func(ast.Node) bool
			why  string
		}{
			{"cut-at-offset", isCut, "does not cut the listing at " + off.Name() + ": entries already returned by an earlier call are returned again"},
			{"offset-updated", isUpdate, "does not update " + off.Name() + ": the next call returns the same entries again instead of continuing (ReadDir(-1) at the end must return no entry)"},
		} {
			o := r.Ob(R, fi.Name()+"#"+chk.what, ret.Pos())
			if c.MustPassNode(ret, chk.pred) {
				o.OK("every path to the return of %s passes the %s (%s.%s)", v.Name(), chk.what, recv.Name(), off.Name())
			} else {
				o.Bad("a path to the return of %s %s", v.Name(), chk.why)
			}
		}
	}
	if n == 0 {
		r.Ob(R, fi.Name()+"#offset", fi.Decl.Pos()).Unknown("no return of a slice variable found: shape not understood")
	}
}

// c23PopulatedOnEveryPath: the record literal cl is bound to a local v; every statement that uses v other
// than `v.f = …` is reached only through `v.<size> = …` or `v.<mode> = <constant with fs.ModeDir>`.
func c23PopulatedOnEveryPath(r *Run, info *types.Info, par map[ast.Node]ast.Node, fi *FuncInfo, cl *ast.CompositeLit, sizeName, modeName string, modeDir int64) (bool, string) {
	var n ast.Node = cl
	if u, ok := par[n].(*ast.UnaryExpr); ok {
		n = u
	}
	var v types.Object
	if p, ok := par[n].(*ast.AssignStmt); ok && len(p.Lhs) == len(p.Rhs) {
		for i, rh := range p.Rhs {
			if ast.Node(rh) == n {
				v = c03ObjOf(info, p.Lhs[i])
			}
		}
	}
	if v == nil {
		return false, "the literal is not bound to a local variable"
	}
	fills := map[ast.Node]bool{}
	fieldAssign := map[*ast.Ident]bool{} // identifiers of v used as the base of an assigned field
	ast.Inspect(fi.Decl.Body, func(m ast.Node) bool {
		a, ok := m.(*ast.AssignStmt)
		if !ok || len(a.Lhs) != len(a.Rhs) {
			return true
		}
		for i, l := range a.Lhs {
			sel, ok := ast.Unparen(l).(*ast.SelectorExpr)
			if !ok || c03ObjOf(info, sel.X) != v {
				continue
			}
			if id, ok := ast.Unparen(sel.X).(*ast.Ident); ok {
				fieldAssign[id] = true
			}
			switch sel.Sel.Name {
			case sizeName:
				fills[a] = true
			case modeName:
				if tv, ok := info.Types[a.Rhs[i]]; ok && tv.Value != nil {
					if k, ok := constant.Uint64Val(constant.ToInt(tv.Value)); ok && int64(k)&modeDir != 0 {
						fills[a] = true
					}
				}
			}
		}
		return true
	})
	if len(fills) == 0 {
		return false, "neither the size field nor the mode field (with fs.ModeDir) is ever assigned"
	}
	g := r.P.CFGOf(fi)
	uses := 0
	bad := ""
	ast.Inspect(fi.Decl.Body, func(m ast.Node) bool {
		id, ok := m.(*ast.Ident)
		if !ok || info.Uses[id] != v || fieldAssign[id] {
			return true
		}
		uses++
		if !g.MustPassNode(id, func(nd ast.Node) bool { return fills[nd] }) {
			bad = "a use of " + v.Name() + " at " + r.P.Pos(id.Pos()) + " is reachable without the size or the directory mode having been set"
		}
		return true
	})
	if bad != "" {
		return false, bad
	}
	if uses == 0 {
		return false, "the variable is never used"
	}
	return true, "every use of " + v.Name() + " is reached through an assignment of " + sizeName + " or of " + modeName + " with fs.ModeDir"
}
