package main

// C09 R-7 (added after seeded change C09-9): a kind-based decision that can answer "cannot show" is
// taken on the unwrapped value.
//
// A value of a type declared in the template ({% type ID int %}) that was boxed in an interface before
// being shown reaches the renderer as a proxy (a struct that carries the declared type); only
// ScriggoType.Unwrap gives back the value of the underlying kind. R-1 trusts "valueOf unwraps Scriggo
// types"; this rule checks that the trust is used: in package runtime, every switch on the reflect.Kind of
// a reflect.Value obtained from an interface-typed parameter, and that rejects some kinds with an error,
// obtains that reflect.Value through a function that unwraps (one that calls ScriggoType.Unwrap: valueOf),
// or unwraps it itself — never through a bare reflect.ValueOf. Otherwise ID(7) boxed in `any` has kind
// Struct for the switch and fails with 'cannot show value of type ID', although ID is accepted statically
// everywhere an int is.
//
// c09KindReads is shared with C08 R-9 (c08r9.go), which applies the same condition to the serialisers.

import (
	"go/ast"
	"go/types"
	"sort"
)

func init() {
	p := registry["C09"]
	if p == nil {
		return
	}
	run := p.run
	p.run = func(r *Run) { run(r); c09KindOnUnwrapped(r) }
	p.explain += " R-7: every kind switch of package runtime that rejects kinds with an error and reads the kind of a value received as an interface obtains the reflect.Value through the unwrapping helper (ScriggoType.Unwrap), never through a bare reflect.ValueOf."
}

// c09KindRead is one `switch X.Kind()` of a function where X is a reflect.Value obtained from an
// interface-typed parameter of the function.
type c09KindRead struct {
	fi      *FuncInfo
	sw      *ast.SwitchStmt
	rejects bool   // some clause of the switch returns an error
	origin  string // "unwrap" | "raw" | "other"
	how     string // rendering of the defining call
}

// c09Unwrappers finds, by role, the functions of package runtime that give the unwrapped reflect.Value of
// a value: they return a reflect.Value and call the Unwrap method of an interface type of the package.
func c09Unwrappers(r *Run) map[*types.Func]bool {
	out := map[*types.Func]bool{}
	for _, fi := range r.P.Funcs("internal/runtime") {
		if r.P.isTestFile(fi.File) || fi.Obj == nil {
			continue
		}
		sig := fi.Obj.Type().(*types.Signature)
		if sig.Results().Len() != 1 || typeStr(sig.Results().At(0).Type()) != "reflect.Value" {
			continue
		}
		for _, c := range calls(fi.Decl.Body, false) {
			if c09isUnwrapCall(fi.Pkg.TypesInfo, c, fi.Obj.Pkg()) {
				out[fi.Obj] = true
			}
		}
	}
	return out
}

// c09isUnwrapCall: a call of method Unwrap declared by an interface type of package pkg (ScriggoType).
func c09isUnwrapCall(info *types.Info, c *ast.CallExpr, pkg *types.Package) bool {
	fn := callee(info, c)
	if fn == nil || fn.Name() != "Unwrap" || fn.Pkg() != pkg {
		return false
	}
	sig := fn.Type().(*types.Signature)
	if sig.Recv() == nil {
		return false
	}
	_, isI := sig.Recv().Type().Underlying().(*types.Interface)
	return isI
}

// c09makesError reports whether a clause returns an error it builds itself (fmt.Errorf, errors.New): the
// "cannot show" answer, as opposed to handing on the error of a write or of a nested show.
func c09makesError(info *types.Info, k *ast.CaseClause) bool {
	found := false
	for _, s := range k.Body {
		ast.Inspect(s, func(n ast.Node) bool {
			rs, ok := n.(*ast.ReturnStmt)
			if !ok || len(rs.Results) == 0 {
				return true
			}
			if c, ok := ast.Unparen(rs.Results[len(rs.Results)-1]).(*ast.CallExpr); ok {
				if fn := callee(info, c); fn != nil && fn.Pkg() != nil {
					if p := fn.Pkg().Path(); (p == "fmt" && fn.Name() == "Errorf") || (p == "errors" && fn.Name() == "New") {
						found = true
					}
				}
			}
			return true
		})
	}
	return found
}

// c09singleDef returns the expression a local variable is defined with when it is assigned exactly once.
func c09singleDef(info *types.Info, body *ast.BlockStmt, obj types.Object) ast.Expr {
	var def ast.Expr
	n := 0
	ast.Inspect(body, func(m ast.Node) bool {
		switch a := m.(type) {
		case *ast.AssignStmt:
			for i, l := range a.Lhs {
				if objOfIdent(info, l) == obj && obj != nil {
					n++
					if len(a.Lhs) == len(a.Rhs) {
						def = a.Rhs[i]
					}
				}
			}
		case *ast.ValueSpec:
			for i, id := range a.Names {
				if info.Defs[id] == obj && obj != nil {
					n++
					if len(a.Values) == len(a.Names) {
						def = a.Values[i]
					}
				}
			}
		}
		return true
	})
	if n == 1 {
		return def
	}
	return nil
}

// c09KindReads lists the kind reads of the non-test functions of package runtime.
func c09KindReads(r *Run) []c09KindRead {
	kindT := r.P.ExtNamed("reflect", "Kind")
	if kindT == nil {
		return nil
	}
	unwr := c09Unwrappers(r)
	var out []c09KindRead
	fis := r.P.Funcs("internal/runtime")
	sort.Slice(fis, func(i, j int) bool { return fis[i].Decl.Pos() < fis[j].Decl.Pos() })
	for _, fi := range fis {
		if r.P.isTestFile(fi.File) || fi.Obj == nil {
			continue
		}
		info := fi.Pkg.TypesInfo
		// interface-typed parameters and the per-clause variables of type switches over them
		vars := map[types.Object]bool{}
		sig := fi.Obj.Type().(*types.Signature)
		sws := c09TypeSwitches(info, fi.Decl.Body)
		for i := 0; i < sig.Params().Len(); i++ {
			p := sig.Params().At(i)
			if _, ok := p.Type().Underlying().(*types.Interface); ok {
				for o := range c09Aliases(p, sws) {
					vars[o] = true
				}
			}
		}
		if len(vars) == 0 {
			continue
		}
		fromParam := func(c *ast.CallExpr) bool {
			for _, a := range c.Args {
				if id, ok := ast.Unparen(a).(*ast.Ident); ok && vars[info.Uses[id]] {
					return true
				}
			}
			return false
		}
		// classify a call that yields the reflect.Value
		classify := func(c *ast.CallExpr) (string, bool) {
			if c09isUnwrapCall(info, c, fi.Obj.Pkg()) {
				return "unwrap", true
			}
			fn := callee(info, c)
			if fn == nil || !fromParam(c) {
				return "", false
			}
			if unwr[fn] {
				return "unwrap", true
			}
			if isPkgFunc(fn, "reflect", "", "ValueOf") {
				return "raw", true
			}
			if fn.Pkg() == fi.Obj.Pkg() {
				return "raw", true // a helper of the package that does not unwrap
			}
			return "other", true
		}
		for _, s := range switchesOn(info, fi.Decl.Body, kindT) {
			tag := ast.Unparen(s.Tag)
			if id, ok := tag.(*ast.Ident); ok {
				// k := X.Kind(); switch k { … }
				if def := c09singleDef(info, fi.Decl.Body, info.Uses[id]); def != nil {
					tag = ast.Unparen(def)
				}
			}
			kc, ok := tag.(*ast.CallExpr)
			if !ok {
				continue
			}
			sel, ok := kc.Fun.(*ast.SelectorExpr)
			if !ok || sel.Sel.Name != "Kind" || typeStr(info.TypeOf(sel.X)) != "reflect.Value" {
				continue
			}
			kr := c09KindRead{fi: fi, sw: s}
			for _, st := range s.Body.List {
				if c09makesError(info, st.(*ast.CaseClause)) {
					kr.rejects = true
				}
			}
			origins := map[string]string{}
			switch x := ast.Unparen(sel.X).(type) {
			case *ast.CallExpr:
				if o, ok := classify(x); ok {
					origins[o] = exprStr(x)
				}
			case *ast.Ident:
				obj := info.Uses[x]
				ast.Inspect(fi.Decl.Body, func(n ast.Node) bool {
					switch a := n.(type) {
					case *ast.FuncLit:
						return false
					case *ast.AssignStmt:
						if len(a.Rhs) != 1 {
							return true
						}
						c, ok := ast.Unparen(a.Rhs[0]).(*ast.CallExpr)
						if !ok {
							return true
						}
						for _, l := range a.Lhs {
							if objOfIdent(info, l) == obj {
								if o, ok := classify(c); ok {
									origins[o] = exprStr(c)
								}
							}
						}
					case *ast.ValueSpec:
						for i, id := range a.Names {
							if info.Defs[id] == obj && len(a.Values) == len(a.Names) {
								if c, ok := ast.Unparen(a.Values[i]).(*ast.CallExpr); ok {
									if o, ok := classify(c); ok {
										origins[o] = exprStr(c)
									}
								}
							}
						}
					}
					return true
				})
			}
			switch {
			case origins["unwrap"] != "":
				kr.origin, kr.how = "unwrap", origins["unwrap"]
			case origins["raw"] != "":
				kr.origin, kr.how = "raw", origins["raw"]
			case origins["other"] != "":
				kr.origin, kr.how = "other", origins["other"]
			default:
				continue // the reflect.Value does not come from an interface-typed parameter
			}
			out = append(out, kr)
		}
	}
	return out
}

func c09KindOnUnwrapped(r *Run) {
	const R = "R-7"
	n := 0
	for _, kr := range c09KindReads(r) {
		if !kr.rejects {
			continue
		}
		n++
		o := r.Ob(R, kr.fi.Name()+"#switch "+exprStr(kr.sw.Tag), kr.sw.Pos())
		switch kr.origin {
		case "unwrap":
			o.OK("the kind is read from the unwrapped value (%s)", kr.how)
		case "raw":
			o.Bad("the kind switch of %s rejects kinds with an error and reads the kind from %s, which does not unwrap the value: a value of a type declared in the template and held in an interface is a proxy of kind Struct there, so a declared type whose underlying kind is accepted statically fails with 'cannot show value of type …'; the value must be obtained through the unwrapping helper (ScriggoType.Unwrap)", kr.fi.Name(), kr.how)
		default:
			o.Unknown("the reflect.Value whose kind is switched on comes from %s, which is neither the unwrapping helper nor reflect.ValueOf", kr.how)
		}
	}
	r.Anchor(R, "a kind switch of package runtime that rejects kinds with an error (toString)", n > 0)
	r.Require(R, 1)
}
