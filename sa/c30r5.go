package main

// C30 R-5 (added after seeded change C30-4): an iteration over a map that updates the cells of a container
// chosen by the key reads no OTHER cell of that container.
//
// R-1 accepts `for k, v := range m { W[k] = … }` as insensitive to the order of the iterations because two
// iterations never write the same cell. That is only half of the argument: the value stored must not depend
// on a cell that another iteration writes, otherwise an iteration sees the other cell before or after its
// update depending on the order in which the map is walked (a single propagation pass over a dependency
// map, a prefix sum over a map, "inherit what my parent has"). So, for every map range whose body writes
// cells W[f(key)] (directly, or by handing W[f(key)] to a callee that modifies it), every other use of W in
// the body is a use of the cell of the key: W is not indexed by anything else in a read position, not ranged
// over, not handed as a whole to a call (len and cap excepted), not aliased away. W is identified by the
// variable and the field path it is reached through (reference-typed local aliases resolved), never by its
// spelling. For the same reason the value stored into the cell of the key is not computed from a variable
// outside the iteration that the body itself updates (`n++; W[k] = n` numbers the keys in map order).
//
// Not covered: a container written only inside a callee (`x.declare(key, v)`, R-1's "call storing under the
// key") and then read through another method of the same receiver.

import (
	"fmt"
	"go/ast"
	"go/token"
	"go/types"
	"sort"
	"strings"
)

func init() {
	p := registry["C30"]
	if p == nil {
		return
	}
	run := p.run
	p.run = func(r *Run) { run(r); c30CrossReads(r) }
	p.explain += " R-5: a map range that writes the cells of a container chosen by the key reads no other cell of that container (no other index in a read position, no nested range over it, not passed whole to a call, not aliased away) and stores there no value computed from a variable outside the iteration that the body updates (a counter, a running value), so that no iteration observes whether another one has already run."
}

func c30CrossReads(r *Run) {
	const R = "R-5"
	x := c30cur
	if !r.Anchor(R, "state of the C30 run", x != nil && x.r == r) {
		return
	}
	for _, fi := range x.scoped() {
		info := fi.Pkg.TypesInfo
		fi := fi
		ast.Inspect(fi.Decl.Body, func(m ast.Node) bool {
			rs, ok := m.(*ast.RangeStmt)
			if !ok {
				return true
			}
			if t := info.TypeOf(rs.X); t != nil {
				if _, isMap := t.Underlying().(*types.Map); isMap {
					x.crossReads(R, fi, rs)
				}
			}
			return true
		})
	}
	r.Require(R, 9)
}

// c30pathID identifies a container: the variable at the root, the fields and the indexes it is reached through.
func c30pathID(p c30Path) string {
	if p.root == nil || p.viaCall {
		return ""
	}
	var b strings.Builder
	fmt.Fprintf(&b, "%p", p.root)
	for _, f := range p.fields {
		b.WriteString("." + f.Name())
	}
	for _, ix := range p.idx {
		b.WriteString("[" + exprStr(ix) + "]")
	}
	return b.String()
}

// c30keyCell: e denotes (something inside) a cell W[i] with i an injective function of the key; returns W.
// When several indexes on the way qualify, the one nearest to the variable is taken.
func (l *c30Loop) c30keyCell(e ast.Expr) ast.Expr {
	var found ast.Expr
	for cur := ast.Unparen(e); cur != nil; {
		switch v := cur.(type) {
		case *ast.IndexExpr:
			if l.inj(v.Index) {
				found = v.X
			}
			cur = ast.Unparen(v.X)
		case *ast.SelectorExpr:
			if l.info.Selections[v] == nil {
				return found
			}
			cur = ast.Unparen(v.X)
		case *ast.StarExpr:
			cur = ast.Unparen(v.X)
		case *ast.SliceExpr:
			cur = ast.Unparen(v.X)
		case *ast.UnaryExpr:
			if v.Op != token.AND {
				return found
			}
			cur = ast.Unparen(v.X)
		default:
			return found
		}
	}
	return found
}

func (x *c30) crossReads(R string, fi *FuncInfo, rs *ast.RangeStmt) {
	r := x.r
	info := fi.Pkg.TypesInfo
	l := &c30Loop{x: x, fi: fi, info: info, rs: rs, local: map[types.Object]bool{}, loopDep: map[types.Object]bool{}, keyInj: map[types.Object]bool{},
		facts: map[string]int{}, collect: map[types.Object]ast.Expr{}, outerSet: map[string][]string{}}
	id, ok := rs.Key.(*ast.Ident)
	if !ok || id.Name == "_" {
		return // no key: no cell is chosen by it
	}
	l.key = info.ObjectOf(id)
	if l.key == nil {
		return
	}
	l.local[l.key], l.loopDep[l.key], l.keyInj[l.key] = true, true, true
	if id, ok := rs.Value.(*ast.Ident); ok && id.Name != "_" {
		if l.val = info.ObjectOf(id); l.val != nil {
			l.local[l.val], l.loopDep[l.val] = true, true
		}
	}
	effs := x.effects(info, rs.Body, l.local)
	l.run(effs) // settles which locals are injective functions of the key

	// the containers whose cells are written under the key
	type cont struct {
		text   string
		pos    token.Pos
		writes int
	}
	written := map[string]*cont{}
	note := func(e ast.Expr) string {
		w := l.c30keyCell(e)
		if w == nil {
			return ""
		}
		p := x.pathOf(info, w, 0)
		if p.root == nil || l.local[p.root] {
			return ""
		}
		k := c30pathID(p)
		if k == "" {
			return ""
		}
		if written[k] == nil {
			written[k] = &cont{text: p.text, pos: w.Pos()}
		}
		written[k].writes++
		return k
	}
	// the variables outside the iteration that the body itself updates (counters, running values)
	updated := map[types.Object]bool{}
	for _, e := range effs {
		if e.kind == "store" && e.what != "range" {
			if obj := objOfIdent(info, e.lhs); obj != nil && !l.local[obj] {
				if _, isVar := obj.(*types.Var); isVar {
					updated[obj] = true
				}
			}
		}
	}
	// … and the locals of the iteration computed from them
	for pass := 0; pass < 3; pass++ {
		for _, e := range effs {
			if e.kind != "store" || e.rhs == nil || e.what == "range" {
				continue
			}
			obj := objOfIdent(info, e.lhs)
			if obj == nil || !l.local[obj] || updated[obj] {
				continue
			}
			ast.Inspect(e.rhs, func(n ast.Node) bool {
				if id, ok := n.(*ast.Ident); ok && updated[info.Uses[id]] {
					updated[obj] = true
				}
				return !updated[obj]
			})
		}
	}
	valueBad := map[string][]string{}
	for _, e := range effs {
		switch e.kind {
		case "store":
			if _, plain := ast.Unparen(e.lhs).(*ast.Ident); !plain {
				if k := note(e.lhs); k != "" && e.rhs != nil {
					ast.Inspect(e.rhs, func(n ast.Node) bool {
						if id, ok := n.(*ast.Ident); ok {
							if obj := info.Uses[id]; obj != nil && updated[obj] {
								valueBad[k] = append(valueBad[k], fmt.Sprintf("stores into it, at %s, a value computed from %s, which is, or is computed from, a variable outside the iteration that the body itself updates: its value at that point is the work of the iterations that happened to run before", r.P.Pos(e.pos), id.Name))
							}
						}
						return true
					})
				}
			}
		case "call":
			if isBuiltinCall(info, e.call, "append") || isBuiltinCall(info, e.call, "delete") {
				continue
			}
			for _, se := range x.callEffects(info, e.call, 1) {
				if se.kind == "unknown" || se.root < -1 {
					continue
				}
				if se.root == -1 {
					if sel, ok := ast.Unparen(e.call.Fun).(*ast.SelectorExpr); ok {
						note(sel.X)
					}
				} else if se.root < len(e.call.Args) {
					note(e.call.Args[se.root])
				}
			}
		}
	}
	if len(written) == 0 {
		return
	}

	// every use of such a container in the body
	type use struct{ bad, unk []string }
	uses := map[string]*use{}
	own := map[string]int{}
	for k := range written {
		uses[k] = &use{bad: valueBad[k]}
	}
	var stack []ast.Node
	storeTarget := func(i int) bool { // stack[i] is (inside) the target of a pure write or of an inc/dec
		for j := i; j > 0; j-- {
			switch p := stack[j-1].(type) {
			case *ast.SelectorExpr, *ast.IndexExpr, *ast.StarExpr, *ast.ParenExpr:
				continue
			case *ast.AssignStmt:
				for _, lh := range p.Lhs {
					if lh == stack[j] {
						return true
					}
				}
				return false
			case *ast.IncDecStmt:
				return true
			default:
				return false
			}
		}
		return false
	}
	ast.Inspect(rs.Body, func(n ast.Node) bool {
		if n == nil {
			stack = stack[:len(stack)-1]
			return true
		}
		stack = append(stack, n)
		e, ok := n.(ast.Expr)
		if !ok || len(stack) < 2 {
			return true
		}
		switch e.(type) {
		case *ast.Ident, *ast.SelectorExpr, *ast.IndexExpr, *ast.ParenExpr, *ast.StarExpr, *ast.SliceExpr, *ast.UnaryExpr, *ast.TypeAssertExpr:
		default:
			return true
		}
		par := stack[len(stack)-2]
		if sel, ok := par.(*ast.SelectorExpr); ok && sel.Sel == e {
			return true
		}
		if tv, ok := info.Types[e]; ok && (tv.IsType() || tv.Value != nil) {
			return true
		}
		k := c30pathID(x.pathOf(info, e, 0))
		u := uses[k]
		if k == "" || u == nil {
			return true
		}
		w := written[k].text
		at := r.P.Pos(e.Pos())
		switch p := par.(type) {
		case *ast.ParenExpr, *ast.StarExpr, *ast.SliceExpr, *ast.TypeAssertExpr:
			// the parent denotes the same container and is looked at in its turn
		case *ast.UnaryExpr:
			if p.Op != token.AND {
				u.unk = append(u.unk, fmt.Sprintf("%s is an operand of %s at %s", w, p.Op, at))
			}
		case *ast.IndexExpr:
			switch {
			case p.X != e:
				u.unk = append(u.unk, fmt.Sprintf("%s is used as an index at %s", w, at))
			case l.inj(p.Index):
				own[k]++
			case storeTarget(len(stack) - 2):
				// a write of another cell: R-1 decides it
			default:
				u.bad = append(u.bad, fmt.Sprintf("reads %s[%s] at %s, a cell that is not the one of the key", w, exprStr(p.Index), at))
			}
		case *ast.RangeStmt:
			if p.X == e {
				u.bad = append(u.bad, fmt.Sprintf("ranges over the whole of %s at %s", w, at))
			}
		case *ast.CallExpr:
			switch {
			case p.Fun == e:
				u.unk = append(u.unk, fmt.Sprintf("%s is called at %s", w, at))
			case isBuiltinCall(info, p, "len"), isBuiltinCall(info, p, "cap"), isBuiltinCall(info, p, "delete"):
			default:
				u.bad = append(u.bad, fmt.Sprintf("hands the whole of %s to %s at %s, which can read the cells of the other keys", w, exprStr(p.Fun), at))
			}
		case *ast.SelectorExpr:
			if p.X == e {
				u.bad = append(u.bad, fmt.Sprintf("calls %s on the whole of %s at %s", p.Sel.Name, w, at))
			}
		case *ast.BinaryExpr:
			if p.Op != token.EQL && p.Op != token.NEQ {
				u.unk = append(u.unk, fmt.Sprintf("%s is an operand of %s at %s", w, p.Op, at))
			}
		case *ast.AssignStmt:
			for i, rh := range p.Rhs {
				if rh != e {
					continue
				}
				aliased := false
				if len(p.Lhs) == len(p.Rhs) {
					if obj := objOfIdent(info, p.Lhs[i]); obj != nil && x.alias(obj) != nil {
						aliased = true // a local name for the container: its uses are resolved to the container
					}
				}
				if !aliased {
					u.unk = append(u.unk, fmt.Sprintf("%s is copied into %s at %s", w, exprStr(p.Lhs[min(i, len(p.Lhs)-1)]), at))
				}
			}
		case *ast.ValueSpec:
			for i, v := range p.Values {
				if v == e && (i >= len(p.Names) || x.alias(info.Defs[p.Names[i]]) == nil) {
					u.unk = append(u.unk, fmt.Sprintf("%s is copied into a variable at %s", w, at))
				}
			}
		default:
			u.unk = append(u.unk, fmt.Sprintf("%s escapes through a %T at %s", w, par, at))
		}
		return true
	})

	var keys []string
	for k := range written {
		keys = append(keys, k)
	}
	sort.Slice(keys, func(i, j int) bool { return written[keys[i]].text < written[keys[j]].text })
	for _, k := range keys {
		c, u := written[k], uses[k]
		o := r.Ob(R, fi.Name()+"#range:"+c30rangeName(rs)+"#cells:"+strings.ReplaceAll(c.text, " ", ""), c.pos)
		switch {
		case len(u.bad) > 0:
			o.Bad("the body updates the cell of %s chosen by the key and %s. What it reads there depends on which other iterations have already run, that is on the order in which the map is walked, and so does what it stores", c.text, strings.Join(c30dedup(u.bad), "; "))
		case len(u.unk) > 0:
			o.Unknown("the body updates the cell of %s chosen by the key; a use of %s is not understood: %s", c.text, c.text, strings.Join(c30dedup(u.unk), "; "))
		default:
			o.OK("%d updates of the cell of %s chosen by the key; the body uses %s %d times, always through the index of the key", c.writes, c.text, c.text, own[k])
		}
	}
}
