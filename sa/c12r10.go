package main

// C12 R-10 (added after seeded change C12-6): the interpreter recognises the native.Env parameter of a
// native function at every position at which the compiler takes it out of the function's type.
//
// Stop and Fatal are methods of the env that the interpreter injects into a native function whose type
// has a native.Env parameter. Two sides must agree on where that parameter may be: the type checker
// removes it from the type seen by the program (so the emitter passes no argument for it), the
// interpreter fills it with the env instead of reading a register. Both decide by comparing
// reflect.Type.In(k) with the reflect.Type of native.Env. If the compiler removes the parameter at a
// position k at which the runtime never compares (the seeded change looked at parameter 0 only; the env
// of a method called on a concrete receiver is parameter 1), the env parameter is filled from the
// registers: env.Stop / env.Fatal dereference nil (Run panics with a Go runtime error instead of
// returning the Stop error or panicking with the Fatal value) or the call fails with a reflect.Set
// panic that the program can even recover, after which interpreted code keeps running.
//
// The positions are computed from syntax on a finite domain: a constant index gives that position; a
// variable index gives the positions allowed by the comparisons of that variable with constants that
// guard the comparison (short-circuit operands, enclosing if/for/switch conditions); guards that are not
// comparisons of the index with constants are ignored, which can only enlarge the runtime's set.

import (
	"fmt"
	"go/ast"
	"go/token"
	"go/types"
	"sort"
	"strings"

	"golang.org/x/tools/go/cfg"
	"golang.org/x/tools/go/packages"
)

func init() {
	p := registry["C12"]
	if p == nil {
		return
	}
	run := p.run
	p.run = func(r *Run) { run(r); c12EnvPositions(r) }
	p.explain += " R-10: every parameter position at which a package of the module other than the runtime compares reflect.Type.In(k) with the type of native.Env (the type checker removing the env parameter from the type of a native function or method) is a position at which package runtime makes the same comparison (the interpreter injecting the env), positions being evaluated from constants and from the constant comparisons guarding a variable index."
}

const c12EnvDomain = 7

// c12EnvVars lists the package-level variables of pk of type reflect.Type whose initialiser names an
// interface type of the module that the runtime's env type implements.
func c12EnvVars(pk *packages.Package, envT *types.Named) map[types.Object]bool {
	out := map[types.Object]bool{}
	for _, f := range pk.Syntax {
		for _, d := range f.Decls {
			gd, ok := d.(*ast.GenDecl)
			if !ok || gd.Tok != token.VAR {
				continue
			}
			for _, sp := range gd.Specs {
				vs := sp.(*ast.ValueSpec)
				for i, id := range vs.Names {
					v, _ := pk.TypesInfo.Defs[id].(*types.Var)
					if v == nil || i >= len(vs.Values) {
						continue
					}
					if n := c11NamedOf(v.Type()); n == nil || n.Obj().Pkg() == nil || n.Obj().Pkg().Path() != "reflect" || n.Obj().Name() != "Type" {
						continue
					}
					names := false
					ast.Inspect(vs.Values[i], func(m ast.Node) bool {
						e, ok := m.(ast.Expr)
						if !ok {
							return true
						}
						tv, ok := pk.TypesInfo.Types[e]
						if !ok || !tv.IsType() {
							return true
						}
						nt, _ := tv.Type.(*types.Named)
						if nt == nil || nt.Obj().Pkg() == nil || !strings.HasPrefix(nt.Obj().Pkg().Path(), modulePath) {
							return true
						}
						if it, ok := nt.Underlying().(*types.Interface); ok && it.NumMethods() > 0 && types.Implements(types.NewPointer(envT), it) {
							names = true
						}
						return true
					})
					if names {
						out[v] = true
					}
				}
			}
		}
	}
	return out
}

type c12EnvSite struct {
	fi    *FuncInfo
	cmp   *ast.BinaryExpr
	index ast.Expr
	set   map[int64]bool
	why   string // non-empty: positions not computable
}

// c12EnvSites finds the comparisons reflect.Type.In(e) ==/!= envVar of a package and the positions e takes.
func c12EnvSites(r *Run, pk *packages.Package, vars map[types.Object]bool) []*c12EnvSite {
	var out []*c12EnvSite
	info := pk.TypesInfo
	for _, fi := range r.P.Funcs(c12Rel(pk)) {
		if r.P.isTestFile(fi.File) || fi.Obj == nil {
			continue
		}
		ast.Inspect(fi.Decl.Body, func(n ast.Node) bool {
			be, ok := n.(*ast.BinaryExpr)
			if !ok || (be.Op != token.EQL && be.Op != token.NEQ) {
				return true
			}
			for _, p := range [][2]ast.Expr{{be.X, be.Y}, {be.Y, be.X}} {
				if !vars[c11ObjOf(info, p[1])] {
					continue
				}
				call, ok := ast.Unparen(p[0]).(*ast.CallExpr)
				if !ok || len(call.Args) != 1 {
					continue
				}
				fn := callee(info, call)
				if fn == nil || fn.Pkg() == nil || fn.Pkg().Path() != "reflect" || fn.Name() != "In" {
					continue
				}
				s := &c12EnvSite{fi: fi, cmp: be, index: call.Args[0]}
				s.eval(r, info)
				out = append(out, s)
			}
			return true
		})
	}
	return out
}

func (s *c12EnvSite) eval(r *Run, info *types.Info) {
	s.set = map[int64]bool{}
	if k, ok := intValue(info, s.index); ok {
		s.set[k] = true
		return
	}
	v, _ := c11ObjOf(info, s.index).(*types.Var)
	if v == nil {
		s.why = "the index " + exprStr(s.index) + " is neither a constant nor a variable"
		return
	}
	isVar := isIdentOf(info, v)
	// the graph of the innermost function body holding the comparison
	body := c11Body(r.P, s.fi, s.cmp)
	c := r.P.CFG(info, s.fi.File, body)
	blk, _ := c.Locate(s.cmp)
	if blk == nil {
		s.why = "the comparison was not located in the control-flow graph"
		return
	}
	holds := func(l Lit, val int64) (res, ok bool) {
		if l.Tag != nil {
			if !isVar(ast.Unparen(l.Tag)) {
				return false, false
			}
			k, isConst := intValue(info, l.Expr)
			if !isConst {
				return false, false
			}
			return (val == k) == l.Truth, true
		}
		if !mentions(l.Expr, isVar) {
			return false, false
		}
		res, ok = evalPred(info, l.Expr, isVar, val)
		return res == l.Truth, ok
	}
	for val := int64(0); val <= c12EnvDomain; val++ {
		possible := true
		for _, l := range c.within(s.cmp) {
			if res, ok := holds(l, val); ok && !res {
				possible = false
			}
		}
		if possible {
			possible = c.reachable(c.G.Blocks[0], blk, func(b *cfg.Block, i int) bool {
				for _, l := range c.edgeLits(b, i) {
					if res, ok := holds(l, val); ok && !res {
						return true
					}
				}
				return false
			}, nil)
		}
		if possible {
			s.set[val] = true
		}
	}
}

func c12SetStr(m map[int64]bool) string {
	var ks []int
	for k := range m {
		ks = append(ks, int(k))
	}
	sort.Ints(ks)
	var out []string
	for _, k := range ks {
		out = append(out, fmt.Sprint(k))
	}
	return "{" + strings.Join(out, ",") + "}"
}

func c12EnvPositions(r *Run) {
	const R = "R-10"
	a := c11Resolve(r.P)
	if !c11Need(r, R, a) {
		return
	}
	rtVars := c12EnvVars(a.pk, a.envT)
	if !r.Anchor(R, "package runtime: variable holding the reflect.Type of the env interface", len(rtVars) > 0) {
		return
	}
	rtSites := c12EnvSites(r, a.pk, rtVars)
	rtSet := map[int64]bool{}
	var rtWhere []string
	for _, s := range rtSites {
		if s.why != "" {
			r.Ob(R, s.fi.Name()+"#env-parameter-position", s.cmp.Pos()).Unknown("%s", s.why)
			continue
		}
		for k := range s.set {
			rtSet[k] = true
		}
		rtWhere = append(rtWhere, fmt.Sprintf("%s: %s at %s", s.fi.Name(), exprStr(s.cmp), c12SetStr(s.set)))
	}
	n := 0
	for _, pk := range r.P.Pkgs {
		if pk == a.pk || r.P.Pkg(c12Rel(pk)) != pk {
			continue
		}
		vars := c12EnvVars(pk, a.envT)
		if len(vars) == 0 {
			continue
		}
		type need struct {
			sites []string
			pos   token.Pos
		}
		needs := map[int64]*need{}
		for _, s := range c12EnvSites(r, pk, vars) {
			if r.P.isTestFile(s.fi.File) {
				continue
			}
			if s.why != "" {
				n++
				r.Ob(R, s.fi.Name()+"#env-parameter-position", s.cmp.Pos()).Unknown("%s", s.why)
				continue
			}
			if len(s.set) > c12EnvDomain {
				// an unguarded variable index: every position; nothing to compare position by position
				n++
				o := r.Ob(R, s.fi.Name()+"#env-parameter-any-position", s.cmp.Pos())
				if len(rtSet) > c12EnvDomain {
					o.OK("both sides look at every parameter")
				} else {
					o.Bad("%s looks for the env parameter at every position, package runtime only at %s", s.fi.Name(), c12SetStr(rtSet))
				}
				continue
			}
			for k := range s.set {
				if needs[k] == nil {
					needs[k] = &need{pos: s.cmp.Pos()}
				}
				needs[k].sites = append(needs[k].sites, s.fi.Name())
			}
		}
		var ks []int
		for k := range needs {
			ks = append(ks, int(k))
		}
		sort.Ints(ks)
		for _, k := range ks {
			n++
			nd := needs[int64(k)]
			o := r.Ob(R, fmt.Sprintf("%s#env-parameter-position-%d", relOf(pk.Types), k), nd.pos)
			if rtSet[int64(k)] {
				o.OK("parameter %d: compared with the env type in %s and in package runtime (%s)", k, strings.Join(c12Dedup(nd.sites), ", "), strings.Join(rtWhere, "; "))
			} else {
				o.Bad("%s takes a parameter of the env type at position %d out of the type of a native function (so no argument is passed for it), but package runtime compares a parameter type with the env type only at position(s) %s (%s): at position %d the interpreter does not inject the env and fills the parameter from the registers. For 0 the callee is a function taking the env first, for 1 a method called on a concrete receiver (receiver, env, …): its env is nil or another argument, so env.Stop/env.Fatal end in a Go runtime error or a recoverable reflect panic instead of stopping Run as documented",
					strings.Join(c12Dedup(nd.sites), ", "), k, c12SetStr(rtSet), strings.Join(rtWhere, "; "), k)
			}
		}
	}
	if n == 0 {
		r.Ob(R, "module#env-parameter-positions", token.NoPos).Unknown("no package other than runtime compares a parameter type with the env type: the side that removes the env parameter was not found")
	}
	r.Require(R, 2)
}

func c12Dedup(xs []string) []string {
	seen := map[string]bool{}
	var out []string
	for _, x := range xs {
		if !seen[x] {
			seen[x] = true
			out = append(out, x)
		}
	}
	sort.Strings(out)
	return out
}
