package main

// C25 R-6 (added after defects reported on the unmodified tree: Capitalize and trimJSONSpace): the bounds
// engine E6 (C04 R-2) on every index and slice expression on a string or []byte in the non-test functions
// of package builtin. A builtin "documented to return an error never panics", and none documents an index
// or slice-bounds panic: every such site must be in range on every path.

var c25R6Exceptions = []boundsException{
	{"builtin.QueryEscape#$1[$2*]",
		"two-pass sizing, a counting argument: b has len(s)+2*numHex bytes, where numHex is the number of bytes of s[:last] outside the pass-through class; the second pass writes one byte for a byte in the class and three otherwise, with the SAME class test (the agreement of the two tests is obligation R-4 of this property), so j stays below len(b)"},
	{"builtin.CapitalizeAll#$1[$2:$3]",
		"range over a string: the next key is i plus the UTF-8 width of the rune at i, and last is set to i+size with size = the width returned by utf8.DecodeRuneInString(s[i:]) for that same rune, so last never exceeds the next key: last ≤ i at s[last:i]"},
	{"builtin.FormatFloat#$1[0]",
		"the switch just before returns (panics with the documented message) unless format is \"e\", \"f\" or \"g\": one byte"},
}

func init() {
	p := registry["C25"]
	if p == nil {
		return
	}
	run := p.run
	p.run = func(r *Run) { run(r); c25R6(r) }
	p.explain += " R-6: every index and slice expression on a string or []byte of package builtin is in range on every path (bounds engine of C04 R-2)."
}

func c25R6(r *Run) {
	const R = "R-6"
	var fns []*FuncInfo
	for _, f := range r.P.Funcs("builtin") {
		if !r.P.isTestFile(f.File) {
			fns = append(fns, f)
		}
	}
	runBounds(r, boundsConfig{rule: R, funcs: fns, allFuncs: fns, exceptions: c25R6Exceptions})
	r.Require(R, 12)
}
