package main

// C23 R-6 / R-7: which keys of the map belong to a directory, and the root.
//
// The Files map has no directory nodes: a directory D exists because some key starts with D + "/", and its
// children are derived from exactly those keys. Two places decide "key k is inside directory D": the method
// that opens a name (is D a directory at all?) and the method that lists a directory handle (which keys give
// a child?). The fs contract (and testing/fstest.TestFS) needs both to be the same relation:
//
//	inside(k, D)  <=>  D == "."  ||  strings.HasPrefix(k, D + "/")
//
// R-6 extracts, from the syntax, the per-key acceptance predicate of every range over the map that is reached
// from Open and from ReadDir of the handle Open returns, and evaluates it on a finite set of discriminating
// (D, k) pairs (siblings with a common prefix, deeper paths, multi-byte names). The predicate is obtained by
// substituting definitions: locals, guarded definitions (`var p string; if D != "." { p = D + "/" }`), the
// parameters of helpers at their call sites, and the fields of the handle as the constructor in Open sets
// them. So the rule also covers the link between the two methods: the string ReadDir builds its prefix from
// is the path the directory was opened with. A loop body is evaluated for ONE key bound to k, never iterated;
// no map is modelled (D is not a key: a comma-ok lookup of D misses; other lookups are unknown data and both
// branches are followed). A key is accepted when some path of the body reaches an effect (a return, a store
// to a variable that outlives the iteration, a call statement); it is rejected when every path ends the
// iteration without one. What an accepted key contributes (the child name) is not checked: the collected value
// may legitimately be post-processed later (collect paths, collapse them afterwards).
//
// R-7: the root always exists. With name == "." no path of Open returns a non-nil error — in particular not
// the path on which a loop over the map runs zero times (an empty map still has a root directory).
//
// Only string / integer / boolean expressions built from constants, the inputs, len, indexing, slicing, the
// pure functions of strings and path listed in c23PureCall, and functions of the package whose body the same
// evaluator can follow are understood. Anything else is "unknown"; when an unknown of an unsupported FORM
// decides a branch, a mismatch is reported as undecided, not as violated.

import (
	"fmt"
	"go/ast"
	"go/constant"
	"go/token"
	"go/types"
	"io/fs"
	"path"
	"sort"
	"strings"
)

func init() {
	p := registry["C23"]
	if p == nil {
		return
	}
	run := p.run
	p.run = func(r *Run) { run(r); c23KeyMembership(r) }
	p.explain += " R-6: every loop over the map reached from Open(D) or from ReadDir of the handle Open(D) returns accepts a key k exactly when D is \".\" or k starts with D+\"/\" (predicate extracted from syntax with definitions, helper parameters and the handle's fields substituted, evaluated on a finite set of discriminating (D,k) pairs). R-7: with name \".\" no path of Open returns a non-nil error, also when the map is empty."
	p.notCov = append(p.notCov, "R-6 evaluates the membership predicate on a finite set of names only (common-prefix siblings, deeper paths, multi-byte names); it does not follow predicates hidden behind data structures built earlier (an index of directories)")
	p.trusted = append(p.trusted, "R-6/R-7: the semantics of strings.HasPrefix/HasSuffix/Contains/Index*/LastIndex*/Trim*/Cut*, path.Base/Dir/Clean/Join/Ext and fs.ValidPath (the analyser calls the standard library for them)")
}

// ---------------------------------------------------------------------------------------------
// values

type c23Kind int

const (
	c23Unk    c23Kind = iota // unknown data (a map lookup, a length of a collected slice, …)
	c23Opq                   // unknown because the form is not understood by the evaluator
	c23Str                   // string
	c23Int                   // integer (also bytes and runes)
	c23Bool                  // boolean
	c23Nil                   // nil
	c23NonNil                // some non-nil reference
	c23Struct                // struct value (or pointer to one): fields by *types.Var
	c23Map                   // the map of the file system
)

type c23Val struct {
	k c23Kind
	s string
	i int64
	b bool
	t types.Type
	f map[*types.Var]c23Val
}

func c23S(s string) c23Val { return c23Val{k: c23Str, s: s} }
func c23I(i int64) c23Val  { return c23Val{k: c23Int, i: i} }
func c23B(b bool) c23Val   { return c23Val{k: c23Bool, b: b} }

func (v c23Val) known() bool { return v.k == c23Str || v.k == c23Int || v.k == c23Bool }

func (v c23Val) String() string {
	switch v.k {
	case c23Str:
		return fmt.Sprintf("%q", v.s)
	case c23Int:
		return fmt.Sprint(v.i)
	case c23Bool:
		return fmt.Sprint(v.b)
	case c23Nil:
		return "nil"
	case c23NonNil:
		return "non-nil"
	case c23Map:
		return "the map"
	case c23Struct:
		var parts []string
		for fv, x := range v.f {
			if x.k == c23Unk || x.k == c23Map {
				continue
			}
			parts = append(parts, fv.Name()+": "+x.String())
		}
		sort.Strings(parts)
		n := "struct"
		if nt := c21Named(types.Unalias(v.t)); v.t != nil && nt != nil {
			n = nt.Obj().Name()
		}
		return n + "{" + strings.Join(parts, ", ") + "}"
	case c23Opq:
		return "?(form not understood)"
	}
	return "?"
}

func c23Same(a, b c23Val) bool {
	if a.k != b.k {
		return false
	}
	switch a.k {
	case c23Str:
		return a.s == b.s
	case c23Int:
		return a.i == b.i
	case c23Bool:
		return a.b == b.b
	case c23Nil, c23Map:
		return true
	case c23Struct:
		return a.String() == b.String()
	}
	return false
}

// c23UnkOf: an unknown of type t; opaque marks "form not understood" for basic types.
func c23UnkOf(t types.Type, opaque bool) c23Val {
	if opaque && t != nil {
		if _, ok := t.Underlying().(*types.Basic); ok {
			return c23Val{k: c23Opq, t: t}
		}
	}
	return c23Val{k: c23Unk, t: t}
}

func c23Zero(t types.Type) c23Val {
	if t == nil {
		return c23Val{}
	}
	switch u := t.Underlying().(type) {
	case *types.Basic:
		switch {
		case u.Info()&types.IsString != 0:
			return c23S("")
		case u.Info()&types.IsInteger != 0:
			return c23I(0)
		case u.Info()&types.IsBoolean != 0:
			return c23B(false)
		}
		return c23Val{k: c23Unk, t: t}
	case *types.Struct:
		return c23Val{k: c23Struct, t: t, f: map[*types.Var]c23Val{}}
	case *types.Pointer, *types.Interface, *types.Slice, *types.Map, *types.Signature, *types.Chan:
		return c23Val{k: c23Nil, t: t}
	}
	return c23Val{k: c23Unk, t: t}
}

// c23IsFilesMap: map[string][]byte (the representation of the file system).
func c23IsFilesMap(t types.Type) bool {
	if t == nil {
		return false
	}
	m, ok := t.Underlying().(*types.Map)
	if !ok {
		return false
	}
	if b, ok := m.Key().Underlying().(*types.Basic); !ok || b.Info()&types.IsString == 0 {
		return false
	}
	sl, ok := m.Elem().Underlying().(*types.Slice)
	if !ok {
		return false
	}
	b, ok := sl.Elem().Underlying().(*types.Basic)
	return ok && b.Kind() == types.Byte
}

// ---------------------------------------------------------------------------------------------
// paths of the walk

type c23Ctl int

const (
	c23Next c23Ctl = iota
	c23Ret
	c23Brk
	c23Cont
)

type c23Path struct {
	vars      map[types.Object]c23Val
	ctl       c23Ctl
	rets      []c23Val
	uncertain bool // a branch was decided by a form the evaluator does not understand
	// evaluation of one iteration of a loop over the map
	loop   *ast.RangeStmt
	effect bool
}

func (p *c23Path) clone() *c23Path {
	q := *p
	q.vars = make(map[types.Object]c23Val, len(p.vars))
	for k, v := range p.vars {
		q.vars[k] = v
	}
	q.rets = append([]c23Val(nil), p.rets...)
	return &q
}

type c23Outcome struct {
	D, k      string
	role      string // "open" / "list"
	handle    string
	accepted  bool
	uncertain bool
}

type c23Interp struct {
	r        *Run
	info     *types.Info
	funcs    map[*types.Func]*FuncInfo
	D, key   string
	role     string
	handle   string
	sites    map[*ast.RangeStmt][]c23Outcome
	siteFn   map[*ast.RangeStmt]*FuncInfo
	curFn    []*FuncInfo
	inLoop   int
	depth    int
	overflow bool
}

const c23MaxPaths = 96

func c23ObjOfIdent(info *types.Info, e ast.Expr) types.Object {
	id, ok := ast.Unparen(e).(*ast.Ident)
	if !ok {
		return nil
	}
	if o := info.Defs[id]; o != nil {
		return o
	}
	return info.Uses[id]
}

// ---------------------------------------------------------------------------------------------
// expressions

func (it *c23Interp) eval(e ast.Expr, p *c23Path) c23Val {
	info := it.info
	t := info.TypeOf(e)
	if tv, ok := info.Types[e]; ok && tv.Value != nil {
		switch tv.Value.Kind() {
		case constant.String:
			return c23S(constant.StringVal(tv.Value))
		case constant.Bool:
			return c23B(constant.BoolVal(tv.Value))
		case constant.Int:
			if v, ok := constant.Int64Val(tv.Value); ok {
				return c23I(v)
			}
			if v, ok := constant.Uint64Val(tv.Value); ok {
				return c23I(int64(v))
			}
		}
		return c23UnkOf(t, true)
	}
	if tv, ok := info.Types[e]; ok && tv.IsNil() {
		return c23Val{k: c23Nil, t: t}
	}
	switch x := e.(type) {
	case *ast.ParenExpr:
		return it.eval(x.X, p)
	case *ast.Ident:
		o := info.Uses[x]
		if o == nil {
			o = info.Defs[x]
		}
		if v, ok := p.vars[o]; ok {
			return v
		}
		return c23UnkOf(t, false)
	case *ast.UnaryExpr:
		v := it.eval(x.X, p)
		switch x.Op {
		case token.NOT:
			if v.k == c23Bool {
				return c23B(!v.b)
			}
			return c23Val{k: v.k, t: t}.unknownLike()
		case token.SUB:
			if v.k == c23Int {
				return c23I(-v.i)
			}
			return c23Val{k: v.k, t: t}.unknownLike()
		case token.ADD:
			return v
		case token.AND:
			if v.k == c23Struct {
				return v
			}
			return c23Val{k: c23NonNil, t: t}
		}
		return c23UnkOf(t, true)
	case *ast.StarExpr:
		v := it.eval(x.X, p)
		if v.k == c23Struct {
			return v
		}
		return c23UnkOf(t, false)
	case *ast.BinaryExpr:
		return it.evalBinary(x, p)
	case *ast.CallExpr:
		vs := it.evalCall(x, p, 1)
		if len(vs) == 1 {
			return vs[0]
		}
		return c23UnkOf(t, false)
	case *ast.SelectorExpr:
		if sel, ok := info.Selections[x]; ok {
			if sel.Kind() != types.FieldVal {
				return c23UnkOf(t, false)
			}
			base := it.eval(x.X, p)
			if base.k != c23Struct {
				return c23UnkOf(t, false)
			}
			return c23Field(base, sel.Recv(), sel.Index(), t)
		}
		// qualified identifier: a package-level variable
		return c23UnkOf(t, false)
	case *ast.IndexExpr:
		base := it.eval(x.X, p)
		idx := it.eval(x.Index, p)
		if base.k == c23Str && idx.k == c23Int {
			if idx.i >= 0 && idx.i < int64(len(base.s)) {
				return c23I(int64(base.s[idx.i]))
			}
			return c23Val{k: c23Opq, t: t} // index out of range on this input
		}
		if base.k == c23Opq || idx.k == c23Opq {
			return c23UnkOf(t, true)
		}
		return c23UnkOf(t, false)
	case *ast.SliceExpr:
		base := it.eval(x.X, p)
		if base.k != c23Str {
			return c23UnkOf(t, base.k == c23Opq)
		}
		lo, hi := c23I(0), c23I(int64(len(base.s)))
		if x.Low != nil {
			lo = it.eval(x.Low, p)
		}
		if x.High != nil {
			hi = it.eval(x.High, p)
		}
		if lo.k != c23Int || hi.k != c23Int {
			return c23UnkOf(t, lo.k == c23Opq || hi.k == c23Opq)
		}
		if lo.i < 0 || hi.i > int64(len(base.s)) || lo.i > hi.i {
			return c23Val{k: c23Opq, t: t} // slice bounds out of range on this input
		}
		return c23S(base.s[lo.i:hi.i])
	case *ast.CompositeLit:
		lt := info.TypeOf(x)
		if pt, ok := lt.Underlying().(*types.Pointer); ok {
			lt = pt.Elem()
		}
		st, ok := lt.Underlying().(*types.Struct)
		if !ok {
			return c23Val{k: c23NonNil, t: t}
		}
		out := c23Val{k: c23Struct, t: lt, f: map[*types.Var]c23Val{}}
		for i, el := range x.Elts {
			if kv, ok := el.(*ast.KeyValueExpr); ok {
				if id, ok := kv.Key.(*ast.Ident); ok {
					if fv, ok := info.Uses[id].(*types.Var); ok {
						out.f[fv] = it.eval(kv.Value, p)
					}
				}
			} else if i < st.NumFields() {
				out.f[st.Field(i)] = it.eval(el, p)
			}
		}
		return out
	case *ast.FuncLit:
		return c23Val{k: c23NonNil, t: t}
	case *ast.TypeAssertExpr:
		return c23UnkOf(t, false)
	}
	return c23UnkOf(t, true)
}

func (v c23Val) unknownLike() c23Val {
	if v.k == c23Opq {
		return c23Val{k: c23Opq, t: v.t}
	}
	return c23Val{k: c23Unk, t: v.t}
}

// c23Field walks a selection path through (embedded) struct values.
func c23Field(base c23Val, recv types.Type, index []int, t types.Type) c23Val {
	cur := base
	ct := recv
	for n, i := range index {
		if pt, ok := ct.Underlying().(*types.Pointer); ok {
			ct = pt.Elem()
		}
		st, ok := ct.Underlying().(*types.Struct)
		if !ok || i >= st.NumFields() {
			return c23UnkOf(t, false)
		}
		fv := st.Field(i)
		v, has := cur.f[fv]
		if !has {
			v = c23Zero(fv.Type())
		}
		if n == len(index)-1 {
			return v
		}
		if v.k != c23Struct {
			return c23UnkOf(t, false)
		}
		cur, ct = v, fv.Type()
	}
	return cur
}

func (it *c23Interp) evalBinary(x *ast.BinaryExpr, p *c23Path) c23Val {
	t := it.info.TypeOf(x)
	l := it.eval(x.X, p)
	if x.Op == token.LAND || x.Op == token.LOR {
		if l.k == c23Bool {
			if (x.Op == token.LAND) != l.b {
				return l // false && _ , true || _
			}
			return it.eval(x.Y, p)
		}
		r := it.eval(x.Y, p)
		if r.k == c23Bool && (x.Op == token.LAND) != r.b {
			return r // _ && false, _ || true (the left operand has no effect the evaluator tracks)
		}
		return c23UnkOf(t, l.k == c23Opq || r.k == c23Opq)
	}
	r := it.eval(x.Y, p)
	unk := func() c23Val { return c23UnkOf(t, l.k == c23Opq || r.k == c23Opq) }
	isRef := func(v c23Val) bool { return v.k == c23NonNil || v.k == c23Struct || v.k == c23Map }
	switch {
	case l.k == c23Str && r.k == c23Str:
		switch x.Op {
		case token.ADD:
			return c23S(l.s + r.s)
		case token.EQL:
			return c23B(l.s == r.s)
		case token.NEQ:
			return c23B(l.s != r.s)
		case token.LSS:
			return c23B(l.s < r.s)
		case token.LEQ:
			return c23B(l.s <= r.s)
		case token.GTR:
			return c23B(l.s > r.s)
		case token.GEQ:
			return c23B(l.s >= r.s)
		}
	case l.k == c23Int && r.k == c23Int:
		switch x.Op {
		case token.ADD:
			return c23I(l.i + r.i)
		case token.SUB:
			return c23I(l.i - r.i)
		case token.MUL:
			return c23I(l.i * r.i)
		case token.QUO:
			if r.i != 0 {
				return c23I(l.i / r.i)
			}
		case token.REM:
			if r.i != 0 {
				return c23I(l.i % r.i)
			}
		case token.AND:
			return c23I(l.i & r.i)
		case token.OR:
			return c23I(l.i | r.i)
		case token.XOR:
			return c23I(l.i ^ r.i)
		case token.AND_NOT:
			return c23I(l.i &^ r.i)
		case token.EQL:
			return c23B(l.i == r.i)
		case token.NEQ:
			return c23B(l.i != r.i)
		case token.LSS:
			return c23B(l.i < r.i)
		case token.LEQ:
			return c23B(l.i <= r.i)
		case token.GTR:
			return c23B(l.i > r.i)
		case token.GEQ:
			return c23B(l.i >= r.i)
		}
	case l.k == c23Bool && r.k == c23Bool:
		switch x.Op {
		case token.EQL:
			return c23B(l.b == r.b)
		case token.NEQ:
			return c23B(l.b != r.b)
		}
	case (l.k == c23Nil && (isRef(r) || r.k == c23Nil)) || (r.k == c23Nil && isRef(l)):
		eq := l.k == c23Nil && r.k == c23Nil
		switch x.Op {
		case token.EQL:
			return c23B(eq)
		case token.NEQ:
			return c23B(!eq)
		}
	}
	return unk()
}

// c23PureCall evaluates the pure standard-library functions the membership predicates are written with.
func c23PureCall(name string, a []c23Val) ([]c23Val, bool) {
	str := func(i int) (string, bool) {
		if i < len(a) && a[i].k == c23Str {
			return a[i].s, true
		}
		return "", false
	}
	s0, ok0 := str(0)
	s1, ok1 := str(1)
	switch name {
	case "strings.HasPrefix", "strings.HasSuffix", "strings.Contains", "strings.Index", "strings.LastIndex",
		"strings.TrimPrefix", "strings.TrimSuffix", "strings.CutPrefix", "strings.CutSuffix", "strings.Cut",
		"strings.Count", "strings.Compare", "strings.ContainsAny", "strings.IndexAny":
		if !ok0 || !ok1 || len(a) != 2 {
			return nil, false
		}
		switch name {
		case "strings.HasPrefix":
			return []c23Val{c23B(strings.HasPrefix(s0, s1))}, true
		case "strings.HasSuffix":
			return []c23Val{c23B(strings.HasSuffix(s0, s1))}, true
		case "strings.Contains":
			return []c23Val{c23B(strings.Contains(s0, s1))}, true
		case "strings.ContainsAny":
			return []c23Val{c23B(strings.ContainsAny(s0, s1))}, true
		case "strings.Index":
			return []c23Val{c23I(int64(strings.Index(s0, s1)))}, true
		case "strings.IndexAny":
			return []c23Val{c23I(int64(strings.IndexAny(s0, s1)))}, true
		case "strings.LastIndex":
			return []c23Val{c23I(int64(strings.LastIndex(s0, s1)))}, true
		case "strings.Count":
			return []c23Val{c23I(int64(strings.Count(s0, s1)))}, true
		case "strings.Compare":
			return []c23Val{c23I(int64(strings.Compare(s0, s1)))}, true
		case "strings.TrimPrefix":
			return []c23Val{c23S(strings.TrimPrefix(s0, s1))}, true
		case "strings.TrimSuffix":
			return []c23Val{c23S(strings.TrimSuffix(s0, s1))}, true
		case "strings.CutPrefix":
			r, ok := strings.CutPrefix(s0, s1)
			return []c23Val{c23S(r), c23B(ok)}, true
		case "strings.CutSuffix":
			r, ok := strings.CutSuffix(s0, s1)
			return []c23Val{c23S(r), c23B(ok)}, true
		case "strings.Cut":
			b, af, ok := strings.Cut(s0, s1)
			return []c23Val{c23S(b), c23S(af), c23B(ok)}, true
		}
	case "strings.IndexByte", "strings.LastIndexByte", "strings.IndexRune", "strings.ContainsRune":
		if !ok0 || len(a) != 2 || a[1].k != c23Int {
			return nil, false
		}
		switch name {
		case "strings.IndexByte":
			return []c23Val{c23I(int64(strings.IndexByte(s0, byte(a[1].i))))}, true
		case "strings.LastIndexByte":
			return []c23Val{c23I(int64(strings.LastIndexByte(s0, byte(a[1].i))))}, true
		case "strings.IndexRune":
			return []c23Val{c23I(int64(strings.IndexRune(s0, rune(a[1].i))))}, true
		case "strings.ContainsRune":
			return []c23Val{c23B(strings.ContainsRune(s0, rune(a[1].i)))}, true
		}
	case "path.Base", "path.Dir", "path.Clean", "path.Ext", "io/fs.ValidPath", "path.IsAbs":
		if !ok0 || len(a) != 1 {
			return nil, false
		}
		switch name {
		case "path.Base":
			return []c23Val{c23S(path.Base(s0))}, true
		case "path.Dir":
			return []c23Val{c23S(path.Dir(s0))}, true
		case "path.Clean":
			return []c23Val{c23S(path.Clean(s0))}, true
		case "path.Ext":
			return []c23Val{c23S(path.Ext(s0))}, true
		case "path.IsAbs":
			return []c23Val{c23B(path.IsAbs(s0))}, true
		case "io/fs.ValidPath":
			return []c23Val{c23B(fs.ValidPath(s0))}, true
		}
	case "path.Split":
		if !ok0 || len(a) != 1 {
			return nil, false
		}
		d, f := path.Split(s0)
		return []c23Val{c23S(d), c23S(f)}, true
	case "path.Join":
		var parts []string
		for i := range a {
			s, ok := str(i)
			if !ok {
				return nil, false
			}
			parts = append(parts, s)
		}
		return []c23Val{c23S(path.Join(parts...))}, true
	}
	return nil, false
}

// evalCall evaluates a call that yields want values (1 for an expression, n for a tuple).
func (it *c23Interp) evalCall(c *ast.CallExpr, p *c23Path, want int) []c23Val {
	info := it.info
	resT := func(i int) types.Type {
		t := info.TypeOf(c)
		if tup, ok := t.(*types.Tuple); ok {
			if i < tup.Len() {
				return tup.At(i).Type()
			}
			return nil
		}
		return t
	}
	unk := func(opaque bool) []c23Val {
		out := make([]c23Val, want)
		for i := range out {
			out[i] = c23UnkOf(resT(i), opaque)
		}
		return out
	}
	// conversion
	if tv, ok := info.Types[c.Fun]; ok && tv.IsType() && len(c.Args) == 1 {
		v := it.eval(c.Args[0], p)
		to := tv.Type
		switch v.k {
		case c23Str:
			if b, ok := to.Underlying().(*types.Basic); ok && b.Info()&types.IsString != 0 {
				return []c23Val{v}
			}
			return unk(false)
		case c23Int:
			if b, ok := to.Underlying().(*types.Basic); ok && b.Info()&types.IsInteger != 0 {
				return []c23Val{v}
			}
			return unk(true)
		case c23Struct, c23Nil, c23NonNil, c23Map, c23Bool:
			return []c23Val{v}
		}
		return []c23Val{c23UnkOf(to, v.k == c23Opq)}
	}
	// builtins
	if id, ok := ast.Unparen(c.Fun).(*ast.Ident); ok {
		if _, isB := info.Uses[id].(*types.Builtin); isB {
			switch id.Name {
			case "len":
				v := it.eval(c.Args[0], p)
				if v.k == c23Str {
					return []c23Val{c23I(int64(len(v.s)))}
				}
				return unk(v.k == c23Opq)
			case "min", "max":
				best := c23Val{}
				for i, a := range c.Args {
					v := it.eval(a, p)
					if v.k != c23Int {
						return unk(v.k == c23Opq)
					}
					if i == 0 || (id.Name == "min" && v.i < best.i) || (id.Name == "max" && v.i > best.i) {
						best = v
					}
				}
				return []c23Val{best}
			case "make", "new":
				return []c23Val{{k: c23NonNil, t: resT(0)}}
			}
			return unk(false)
		}
	}
	fn := callee(info, c)
	if fn == nil {
		return unk(false)
	}
	var args []c23Val
	for _, a := range c.Args {
		args = append(args, it.eval(a, p))
	}
	if fn.Pkg() != nil {
		sig := fn.Type().(*types.Signature)
		if sig.Recv() == nil {
			if vs, ok := c23PureCall(fn.Pkg().Path()+"."+fn.Name(), args); ok && len(vs) == want {
				return vs
			}
		}
		switch fn.Pkg().Path() + "." + fn.Name() {
		case "errors.New", "fmt.Errorf":
			return []c23Val{{k: c23NonNil, t: resT(0)}}
		}
	}
	// a function of the package whose body can be followed
	if fi := it.funcs[fn]; fi != nil && it.depth < 4 && c.Ellipsis == token.NoPos {
		rets, ok := it.call(fi, c, args, p)
		if !ok {
			return unk(true)
		}
		out := make([]c23Val, want)
		for i := range out {
			out[i] = c23UnkOf(resT(i), false)
			for n, rp := range rets {
				if i >= len(rp.rets) {
					out[i] = c23UnkOf(resT(i), false)
					break
				}
				if n == 0 {
					out[i] = rp.rets[i]
				} else if !c23Same(out[i], rp.rets[i]) {
					out[i] = c23UnkOf(resT(i), out[i].k == c23Opq || rp.rets[i].k == c23Opq)
					break
				}
			}
		}
		return out
	}
	// anything else: a result of basic type decides nothing the evaluator can justify
	return unk(true)
}

// call follows the body of a function of the package with the parameters bound to the arguments.
func (it *c23Interp) call(fi *FuncInfo, c *ast.CallExpr, args []c23Val, p *c23Path) ([]*c23Path, bool) {
	info := it.info
	np := &c23Path{vars: map[types.Object]c23Val{}, uncertain: p.uncertain}
	if fi.Decl.Recv != nil && len(fi.Decl.Recv.List) == 1 && len(fi.Decl.Recv.List[0].Names) == 1 {
		var rv c23Val
		if c != nil {
			sel, ok := ast.Unparen(c.Fun).(*ast.SelectorExpr)
			if !ok {
				return nil, false
			}
			rv = it.eval(sel.X, p)
			if s, ok := info.Selections[sel]; ok && len(s.Index()) > 1 && rv.k == c23Struct {
				rv = c23Field(rv, s.Recv(), s.Index()[:len(s.Index())-1], nil)
			}
		}
		np.vars[info.Defs[fi.Decl.Recv.List[0].Names[0]]] = rv
	}
	i := 0
	for _, fl := range fi.Decl.Type.Params.List {
		for _, nm := range fl.Names {
			if i < len(args) {
				np.vars[info.Defs[nm]] = args[i]
			}
			i++
		}
		if len(fl.Names) == 0 {
			i++
		}
	}
	var named []types.Object
	if fi.Decl.Type.Results != nil {
		for _, fl := range fi.Decl.Type.Results.List {
			for _, nm := range fl.Names {
				o := info.Defs[nm]
				named = append(named, o)
				np.vars[o] = c23Zero(o.Type())
			}
		}
	}
	it.depth++
	it.curFn = append(it.curFn, fi)
	saved := it.inLoop
	if p.loop != nil {
		it.inLoop++
	}
	outs := it.execBlock(fi.Decl.Body.List, []*c23Path{np})
	it.inLoop = saved
	it.curFn = it.curFn[:len(it.curFn)-1]
	it.depth--
	var rets []*c23Path
	for _, o := range outs {
		if o.ctl != c23Ret || (len(o.rets) == 0 && len(named) > 0) {
			// falling off the end, or a bare return: the named results
			o.rets = nil
			for _, n := range named {
				o.rets = append(o.rets, o.vars[n])
			}
			o.ctl = c23Ret
		}
		if o.uncertain {
			p.uncertain = true
		}
		rets = append(rets, o)
	}
	return rets, true
}

// ---------------------------------------------------------------------------------------------
// statements

func (it *c23Interp) execBlock(list []ast.Stmt, paths []*c23Path) []*c23Path {
	for _, s := range list {
		var next []*c23Path
		live := false
		for _, p := range paths {
			if p.ctl != c23Next {
				next = append(next, p)
				continue
			}
			live = true
			next = append(next, it.execStmt(s, p)...)
		}
		paths = next
		if len(paths) > c23MaxPaths {
			it.overflow = true
			paths = paths[:c23MaxPaths]
		}
		if !live {
			break
		}
	}
	return paths
}

// outlives: the object is declared outside the loop whose single iteration is being evaluated.
func (p *c23Path) outlives(o types.Object) bool {
	if p.loop == nil || o == nil {
		return false
	}
	return o.Pos() < p.loop.Pos() || o.Pos() >= p.loop.End()
}

func (it *c23Interp) rootObj(e ast.Expr) types.Object {
	for {
		switch x := ast.Unparen(e).(type) {
		case *ast.Ident:
			return c23ObjOfIdent(it.info, x)
		case *ast.SelectorExpr:
			e = x.X
		case *ast.IndexExpr:
			e = x.X
		case *ast.StarExpr:
			e = x.X
		case *ast.SliceExpr:
			e = x.X
		default:
			return nil
		}
	}
}

func (it *c23Interp) assign(lhs ast.Expr, v c23Val, p *c23Path) {
	info := it.info
	lhs = ast.Unparen(lhs)
	if id, ok := lhs.(*ast.Ident); ok {
		if id.Name == "_" {
			return
		}
		o := c23ObjOfIdent(info, id)
		p.vars[o] = v
		if p.outlives(o) {
			p.effect = true
		}
		return
	}
	root := it.rootObj(lhs)
	if p.loop != nil && (root == nil || p.outlives(root)) {
		p.effect = true
	}
	// a field of a tracked struct variable
	if sel, ok := lhs.(*ast.SelectorExpr); ok {
		if s, ok := info.Selections[sel]; ok && s.Kind() == types.FieldVal && len(s.Index()) == 1 {
			if bo := c23ObjOfIdent(info, sel.X); bo != nil {
				if bv, ok := p.vars[bo]; ok && bv.k == c23Struct {
					nf := make(map[*types.Var]c23Val, len(bv.f)+1)
					for k, x := range bv.f {
						nf[k] = x
					}
					if fv, ok := s.Obj().(*types.Var); ok {
						nf[fv] = v
					}
					bv.f = nf
					p.vars[bo] = bv
				}
			}
		}
	}
}

// invalidate forgets every variable assigned inside n.
func (it *c23Interp) invalidate(n ast.Node, p *c23Path) {
	info := it.info
	forget := func(e ast.Expr) {
		if o := it.rootObj(e); o != nil {
			if _, ok := p.vars[o]; ok || true {
				p.vars[o] = c23UnkOf(o.Type(), false)
			}
		}
	}
	ast.Inspect(n, func(m ast.Node) bool {
		switch x := m.(type) {
		case *ast.FuncLit:
			return false
		case *ast.AssignStmt:
			for _, l := range x.Lhs {
				forget(l)
			}
		case *ast.IncDecStmt:
			forget(x.X)
		case *ast.RangeStmt:
			if x.Key != nil {
				forget(x.Key)
			}
			if x.Value != nil {
				forget(x.Value)
			}
		case *ast.UnaryExpr:
			if x.Op == token.AND {
				forget(x.X)
			}
		}
		return true
	})
	_ = info
}

// hasOuterEffect: a nested statement the evaluator does not follow stores to something that outlives the iteration.
func (it *c23Interp) hasOuterEffect(n ast.Node, p *c23Path) bool {
	found := false
	ast.Inspect(n, func(m ast.Node) bool {
		switch x := m.(type) {
		case *ast.AssignStmt:
			if x.Tok != token.ASSIGN && x.Tok != token.DEFINE {
				return true // a counter or an accumulator
			}
			for _, l := range x.Lhs {
				if o := it.rootObj(l); o == nil || p.outlives(o) {
					found = true
				}
			}
		case *ast.ReturnStmt, *ast.GoStmt, *ast.DeferStmt, *ast.SendStmt:
			found = true
		case *ast.ExprStmt:
			found = true
		}
		return !found
	})
	return found
}

func (it *c23Interp) branch(cond c23Val, p *c23Path) (t, f *c23Path) {
	if cond.k == c23Bool {
		if cond.b {
			return p, nil
		}
		return nil, p
	}
	q := p.clone()
	if cond.k != c23Unk {
		p.uncertain, q.uncertain = true, true
	}
	return p, q
}

func (it *c23Interp) execStmt(s ast.Stmt, p *c23Path) []*c23Path {
	info := it.info
	switch x := s.(type) {
	case *ast.EmptyStmt:
		return []*c23Path{p}
	case *ast.BlockStmt:
		return it.execBlock(x.List, []*c23Path{p})
	case *ast.LabeledStmt:
		return it.execStmt(x.Stmt, p)
	case *ast.DeclStmt:
		if gd, ok := x.Decl.(*ast.GenDecl); ok && gd.Tok == token.VAR {
			for _, sp := range gd.Specs {
				vs := sp.(*ast.ValueSpec)
				switch {
				case len(vs.Values) == len(vs.Names):
					for i, nm := range vs.Names {
						p.vars[info.Defs[nm]] = it.eval(vs.Values[i], p)
					}
				case len(vs.Values) == 0:
					for _, nm := range vs.Names {
						if o := info.Defs[nm]; o != nil {
							p.vars[o] = c23Zero(o.Type())
						}
					}
				case len(vs.Values) == 1:
					if c, ok := ast.Unparen(vs.Values[0]).(*ast.CallExpr); ok {
						vals := it.evalCall(c, p, len(vs.Names))
						for i, nm := range vs.Names {
							if nm.Name != "_" {
								p.vars[info.Defs[nm]] = vals[i]
							}
						}
					}
				}
			}
		}
		return []*c23Path{p}
	case *ast.AssignStmt:
		switch {
		case x.Tok != token.ASSIGN && x.Tok != token.DEFINE:
			// op-assignment: a counter or an accumulator, not a classification of the key
			if len(x.Lhs) == 1 && len(x.Rhs) == 1 {
				var op token.Token
				switch x.Tok {
				case token.ADD_ASSIGN:
					op = token.ADD
				case token.SUB_ASSIGN:
					op = token.SUB
				}
				o := c23ObjOfIdent(info, x.Lhs[0])
				if op != token.ILLEGAL && o != nil {
					l, r := it.eval(x.Lhs[0], p), it.eval(x.Rhs[0], p)
					switch {
					case l.k == c23Str && r.k == c23Str && op == token.ADD:
						p.vars[o] = c23S(l.s + r.s)
					case l.k == c23Int && r.k == c23Int && op == token.ADD:
						p.vars[o] = c23I(l.i + r.i)
					case l.k == c23Int && r.k == c23Int && op == token.SUB:
						p.vars[o] = c23I(l.i - r.i)
					default:
						p.vars[o] = c23UnkOf(o.Type(), l.k == c23Opq || r.k == c23Opq)
					}
				} else {
					it.invalidate(x, p)
				}
			}
		case len(x.Lhs) == len(x.Rhs):
			vals := make([]c23Val, len(x.Rhs))
			for i, rh := range x.Rhs {
				vals[i] = it.eval(rh, p)
			}
			for i, l := range x.Lhs {
				it.assign(l, vals[i], p)
			}
		case len(x.Rhs) == 1:
			vals := it.evalTuple(x.Rhs[0], p, len(x.Lhs))
			for i, l := range x.Lhs {
				it.assign(l, vals[i], p)
			}
		}
		return []*c23Path{p}
	case *ast.IncDecStmt:
		if o := c23ObjOfIdent(info, x.X); o != nil {
			if v, ok := p.vars[o]; ok && v.k == c23Int {
				if x.Tok == token.INC {
					p.vars[o] = c23I(v.i + 1)
				} else {
					p.vars[o] = c23I(v.i - 1)
				}
			}
		}
		return []*c23Path{p}
	case *ast.ExprStmt:
		if c, ok := ast.Unparen(x.X).(*ast.CallExpr); ok {
			it.evalCall(c, p, 0)
		}
		if p.loop != nil {
			p.effect = true
		}
		return []*c23Path{p}
	case *ast.ReturnStmt:
		p.ctl = c23Ret
		p.rets = nil
		if len(x.Results) == 1 {
			if tup, ok := info.TypeOf(x.Results[0]).(*types.Tuple); ok {
				p.rets = it.evalTuple(x.Results[0], p, tup.Len())
			}
		}
		if p.rets == nil {
			for _, e := range x.Results {
				p.rets = append(p.rets, it.eval(e, p))
			}
		}
		if p.loop != nil {
			p.effect = true
		}
		return []*c23Path{p}
	case *ast.BranchStmt:
		switch {
		case x.Tok == token.BREAK && x.Label == nil:
			p.ctl = c23Brk
		case x.Tok == token.CONTINUE && x.Label == nil:
			p.ctl = c23Cont
		default:
			p.uncertain = true
		}
		return []*c23Path{p}
	case *ast.IfStmt:
		if x.Init != nil {
			ps := it.execStmt(x.Init, p)
			if len(ps) != 1 {
				p.uncertain = true
			} else {
				p = ps[0]
			}
		}
		tp, fp := it.branch(it.eval(x.Cond, p), p)
		var out []*c23Path
		if tp != nil {
			out = append(out, it.execBlock(x.Body.List, []*c23Path{tp})...)
		}
		if fp != nil {
			if x.Else != nil {
				out = append(out, it.execStmt(x.Else, fp)...)
			} else {
				out = append(out, fp)
			}
		}
		return out
	case *ast.SwitchStmt:
		if x.Init != nil {
			if ps := it.execStmt(x.Init, p); len(ps) == 1 {
				p = ps[0]
			}
		}
		var tag c23Val
		if x.Tag != nil {
			tag = it.eval(x.Tag, p)
		}
		var out []*c23Path
		var def *ast.CaseClause
		cur := p
		for _, st := range x.Body.List {
			cc := st.(*ast.CaseClause)
			if cc.List == nil {
				def = cc
				continue
			}
			if cur == nil {
				break
			}
			// the clause is taken when one of its expressions matches
			match := c23B(false)
			for _, e := range cc.List {
				var m c23Val
				v := it.eval(e, cur)
				if x.Tag == nil {
					m = v
				} else if tag.known() && v.known() {
					m = c23B(c23Same(tag, v))
				} else {
					m = c23UnkOf(types.Typ[types.Bool], tag.k == c23Opq || v.k == c23Opq)
				}
				if m.k == c23Bool && m.b {
					match = m
					break
				}
				if m.k != c23Bool {
					if match.k == c23Bool || m.k == c23Opq {
						match = m
					}
				}
			}
			tp, fp := it.branch(match, cur)
			if tp != nil {
				res := it.execBlock(cc.Body, []*c23Path{tp})
				for _, rp := range res {
					if rp.ctl == c23Brk {
						rp.ctl = c23Next
					}
					if n := len(cc.Body); n > 0 {
						if b, ok := cc.Body[n-1].(*ast.BranchStmt); ok && b.Tok == token.FALLTHROUGH {
							rp.uncertain = true
						}
					}
				}
				out = append(out, res...)
			}
			cur = fp
		}
		if cur != nil {
			if def != nil {
				res := it.execBlock(def.Body, []*c23Path{cur})
				for _, rp := range res {
					if rp.ctl == c23Brk {
						rp.ctl = c23Next
					}
				}
				out = append(out, res...)
			} else {
				out = append(out, cur)
			}
		}
		return out
	case *ast.RangeStmt:
		if p.loop == nil && it.inLoop == 0 && c23IsFilesMap(info.TypeOf(x.X)) {
			return it.site(x, p)
		}
		if p.loop != nil && it.hasOuterEffect(x.Body, p) {
			p.effect = true
		}
		it.invalidate(x, p)
		return []*c23Path{p}
	case *ast.ForStmt:
		if p.loop != nil && it.hasOuterEffect(x.Body, p) {
			p.effect = true
		}
		it.invalidate(x, p)
		return []*c23Path{p}
	case *ast.DeferStmt:
		return []*c23Path{p}
	}
	// go, select, type switch, send, goto …: not followed
	if p.loop != nil && it.hasOuterEffect(s, p) {
		p.effect = true
	}
	it.invalidate(s, p)
	return []*c23Path{p}
}

// evalTuple evaluates the right-hand side of a multi-value assignment.
func (it *c23Interp) evalTuple(e ast.Expr, p *c23Path, n int) []c23Val {
	info := it.info
	unk := func() []c23Val {
		out := make([]c23Val, n)
		for i := range out {
			out[i] = c23Val{k: c23Unk}
		}
		return out
	}
	switch x := ast.Unparen(e).(type) {
	case *ast.CallExpr:
		return it.evalCall(x, p, n)
	case *ast.IndexExpr:
		if n == 2 && c23IsFilesMap(info.TypeOf(x.X)) {
			// domain assumption: D is a directory, not a file — looking D up misses
			if k := it.eval(x.Index, p); k.k == c23Str && k.s == it.D {
				return []c23Val{c23Zero(info.TypeOf(x)), c23B(false)}
			}
		}
	}
	return unk()
}

// site evaluates one iteration of a loop over the map with the key bound to k and records whether the key is
// accepted. It returns the continuations of the enclosing function: the paths that left the function from
// inside the iteration, and the path on which the loop had no (accepted) iteration.
func (it *c23Interp) site(rs *ast.RangeStmt, p *c23Path) []*c23Path {
	info := it.info
	it.siteFn[rs] = it.curFn[len(it.curFn)-1]
	body := p.clone()
	body.loop, body.effect = rs, false
	if rs.Key != nil {
		if o := c23ObjOfIdent(info, rs.Key); o != nil {
			body.vars[o] = c23S(it.key)
		}
	}
	if rs.Value != nil {
		if o := c23ObjOfIdent(info, rs.Value); o != nil {
			body.vars[o] = c23UnkOf(o.Type(), false)
		}
	}
	outs := it.execBlock(rs.Body.List, []*c23Path{body})
	oc := c23Outcome{D: it.D, k: it.key, role: it.role, handle: it.handle}
	// continuations of the enclosing function:
	//  - the loop ran no iteration, or only rejected ones: the state before the loop;
	//  - an iteration left the function;
	//  - an accepted iteration was followed by others: what the body assigns is unknown afterwards, except
	//    boolean flags (found = true), which further iterations do not reset in the idioms understood here.
	cont := []*c23Path{p}
	for _, o := range outs {
		if o.uncertain {
			oc.uncertain = true
		}
		if !o.effect {
			continue
		}
		oc.accepted = true
		o.loop, o.effect = nil, false
		if o.ctl != c23Ret {
			o.ctl = c23Next
			flags := map[types.Object]c23Val{}
			for ob, v := range o.vars {
				if v.k == c23Bool {
					flags[ob] = v
				}
			}
			it.invalidate(rs.Body, o)
			for ob, v := range flags {
				if pv, had := p.vars[ob]; had && pv.k == c23Bool {
					o.vars[ob] = v
				}
			}
		}
		cont = append(cont, o)
	}
	it.sites[rs] = append(it.sites[rs], oc)
	if oc.uncertain {
		p.uncertain = true
	}
	return cont
}

// ---------------------------------------------------------------------------------------------
// the rule

var c23Dirs = []string{".", "a", "a/b", "docs", "日本", "x/y/z"}
var c23Keys = []string{
	"a/b/c", "a/x", "a/b/c/d", "a/b/c/d/e", "ab/c", "a.b/c", "a/b.c", "a/bc/d", "b/c", "x",
	"docs/x", "docs/img/y", "docs.txt", "docs.old/y", "docsx", "img/docs/x",
	"日本/x", "日本語", "日本語/x", "x/y/z/w", "y/z/w", "z/w", "x/y/zz/w",
}

func c23Inside(k, D string) bool { return D == "." || strings.HasPrefix(k, D+"/") }

func c23Child(k, D string) string {
	pre := ""
	if D != "." {
		pre = D + "/"
	}
	rest := k[len(pre):]
	if i := strings.IndexByte(rest, '/'); i >= 0 {
		return pre + rest[:i]
	}
	return k
}

func c23KeyMembership(r *Run) {
	const R6, R7 = "R-6", "R-7"
	root := r.P.Pkg("")
	if !r.Anchor(R6, "root package", root != nil) {
		return
	}
	info := root.TypesInfo
	fsI := c23Iface(r, "io/fs", "FS")
	rdI := c23Iface(r, "io/fs", "ReadDirFile")
	if !r.Anchor(R6, "io/fs.FS", fsI != nil) || !r.Anchor(R6, "io/fs.ReadDirFile", rdI != nil) {
		return
	}
	funcs := map[*types.Func]*FuncInfo{}
	var fileFuncs []*FuncInfo
	for _, fi := range r.P.Funcs("") {
		if fi.Obj == nil || r.P.isTestFile(fi.File) {
			continue
		}
		funcs[fi.Obj] = fi
	}
	// the file system types by role: named types of the root package with a map[string][]byte representation
	// implementing fs.FS; the method is the one of the interface
	openName := fsI.Method(0).Name()
	var listName string
	for i := 0; i < rdI.NumMethods(); i++ {
		m := rdI.Method(i)
		if sig := m.Type().(*types.Signature); sig.Results().Len() == 2 {
			if _, ok := sig.Results().At(0).Type().(*types.Slice); ok {
				listName = m.Name()
			}
		}
	}
	if !r.Anchor(R6, "the listing method of io/fs.ReadDirFile", listName != "") {
		return
	}
	var opens []*FuncInfo
	for _, t := range implementers(root, fsI) {
		nt := c21Named(t)
		if nt == nil || !c23IsFilesMap(nt) {
			continue
		}
		ms := types.NewMethodSet(t)
		sel := ms.Lookup(root.Types, openName)
		if sel == nil {
			continue
		}
		if fi := funcs[sel.Obj().(*types.Func)]; fi != nil {
			opens = append(opens, fi)
		}
	}
	if !r.Anchor(R6, "the Open method of a map[string][]byte type of the root package implementing io/fs.FS", len(opens) > 0) {
		return
	}
	listOf := func(t types.Type) *FuncInfo {
		nt := c21Named(t)
		if nt == nil {
			return nil
		}
		pt := types.NewPointer(nt)
		if !types.Implements(pt, rdI) {
			return nil
		}
		sel := types.NewMethodSet(pt).Lookup(root.Types, listName)
		if sel == nil {
			return nil
		}
		return funcs[sel.Obj().(*types.Func)]
	}
	for _, open := range opens {
		file := r.P.FileOf(open.Decl.Pos())
		fileFuncs = nil
		for _, fi := range r.P.Funcs("") {
			if fi.Obj != nil && !r.P.isTestFile(fi.File) && r.P.FileOf(fi.Decl.Pos()) == file {
				fileFuncs = append(fileFuncs, fi)
			}
		}
		it := &c23Interp{r: r, info: info, funcs: funcs, sites: map[*ast.RangeStmt][]c23Outcome{}, siteFn: map[*ast.RangeStmt]*FuncInfo{}}
		var recvObj, nameObj types.Object
		if open.Decl.Recv != nil && len(open.Decl.Recv.List) == 1 && len(open.Decl.Recv.List[0].Names) == 1 {
			recvObj = info.Defs[open.Decl.Recv.List[0].Names[0]]
		}
		if pl := open.Decl.Type.Params.List; len(pl) == 1 && len(pl[0].Names) == 1 {
			nameObj = info.Defs[pl[0].Names[0]]
		}
		if !r.Anchor(R6, open.Name()+": named string parameter", nameObj != nil) {
			continue
		}
		runOpen := func(D, k string) []*c23Path {
			it.D, it.key, it.role, it.handle = D, k, "open", ""
			p := &c23Path{vars: map[types.Object]c23Val{nameObj: c23S(D)}}
			if recvObj != nil {
				p.vars[recvObj] = c23Val{k: c23Map, t: recvObj.Type()}
			}
			it.curFn = []*FuncInfo{open}
			return it.execBlock(open.Decl.Body.List, []*c23Path{p})
		}
		// R-7 and the handles
		type handle struct {
			v    c23Val
			list *FuncInfo
		}
		handles := map[string]map[string]handle{} // D -> printed handle -> value
		rootErr, rootUnk := "", ""
		rootPaths := 0
		for _, D := range c23Dirs {
			handles[D] = map[string]handle{}
			for _, k := range c23Keys {
				if k == D || strings.HasPrefix(D, k+"/") {
					continue
				}
				for _, rp := range runOpen(D, k) {
					if rp.ctl != c23Ret || len(rp.rets) != 2 {
						continue
					}
					if D == "." {
						rootPaths++
						switch rp.rets[1].k {
						case c23Nil:
						case c23NonNil, c23Struct:
							rootErr = rp.rets[1].String()
						default:
							rootUnk = "an error value the evaluator cannot resolve"
						}
						if rp.uncertain && rp.rets[1].k != c23Nil {
							rootUnk, rootErr = "a path decided by a form the evaluator does not understand", ""
						}
					}
					if hv := rp.rets[0]; hv.k == c23Struct {
						if lf := listOf(hv.t); lf != nil {
							handles[D][hv.String()] = handle{hv, lf}
						}
					}
				}
			}
		}
		o7 := r.Ob(R7, open.Name()+"#root-exists", open.Decl.Pos())
		switch {
		case rootPaths == 0:
			o7.Unknown("no path of %s with name \".\" was followed to a return", open.Name())
		case rootErr != "":
			o7.Bad("with name \".\" a path of %s returns the error %s: the root directory does not exist for some map (the path on which a loop over the map runs zero times is the empty map: fs.ReadDir(Files{}, \".\") and fstest.TestFS(Files{}) fail)", open.Name(), rootErr)
		case rootUnk != "":
			o7.Unknown("with name \".\" %s may return %s", open.Name(), rootUnk)
		default:
			o7.OK("every path of %s followed with name \".\" (%d, loops over the map taken with zero and with one iteration) returns a nil error", open.Name(), rootPaths)
		}
		// listing through every handle Open returns for D
		nh := 0
		for _, D := range c23Dirs {
			var hs []string
			for s := range handles[D] {
				hs = append(hs, s)
			}
			sort.Strings(hs)
			oh := r.Ob(R6, open.Name()+"#opens-directory:"+D, open.Decl.Pos())
			if len(hs) == 0 {
				oh.Unknown("for no key of the domain %s(%q) was followed to a return of a directory handle (a struct implementing fs.ReadDirFile): the link between opening and listing cannot be checked", open.Name(), D)
				continue
			}
			oh.Trivial("%s(%q) returns %s", open.Name(), D, strings.Join(hs, " / "))
			for _, s := range hs {
				h := handles[D][s]
				nh++
				lf := h.list
				var lrecv types.Object
				if lf.Decl.Recv != nil && len(lf.Decl.Recv.List) == 1 && len(lf.Decl.Recv.List[0].Names) == 1 {
					lrecv = info.Defs[lf.Decl.Recv.List[0].Names[0]]
				}
				if lrecv == nil {
					r.Ob(R6, lf.Name()+"#receiver", lf.Decl.Pos()).Unknown("receiver without a name")
					continue
				}
				for _, k := range c23Keys {
					if k == D || strings.HasPrefix(D, k+"/") {
						continue
					}
					it.D, it.key, it.role, it.handle = D, k, "list", s
					p := &c23Path{vars: map[types.Object]c23Val{lrecv: h.v}}
					it.curFn = []*FuncInfo{lf}
					it.execBlock(lf.Decl.Body.List, []*c23Path{p})
				}
			}
		}
		r.Stats["r6_handles"] = nh
		// verdict per site
		var sites []*ast.RangeStmt
		for rs := range it.sites {
			sites = append(sites, rs)
		}
		sort.Slice(sites, func(i, j int) bool { return sites[i].Pos() < sites[j].Pos() })
		for _, rs := range sites {
			fn := it.siteFn[rs]
			o := r.Ob(R6, fn.Name()+"#keys-inside-directory", rs.Pos())
			var bad, unsure string
			nAcc, nRej := 0, 0
			for _, oc := range it.sites[rs] {
				if oc.role == "open" && oc.D == "." {
					continue // the root is R-7's subject: whether a loop is reached at all with "." depends on the map
				}
				exp := c23Inside(oc.k, oc.D)
				via := fmt.Sprintf("opening %q", oc.D)
				if oc.role == "list" {
					via = fmt.Sprintf("listing the handle %s that Open(%q) returns", oc.handle, oc.D)
				}
				if exp {
					nAcc++
				} else {
					nRej++
				}
				if oc.accepted != exp {
					var msg string
					if exp {
						msg = fmt.Sprintf("%s, the key %q is skipped although it is inside the directory (it starts with %q): with Files{%q: …} the directory %q is implied by the map but %s", via, oc.k, oc.D+"/", oc.k, oc.D,
							map[string]string{"open": "cannot be opened", "list": "its listing misses " + c23Child(oc.k, oc.D)}[oc.role])
					} else {
						msg = fmt.Sprintf("%s, the key %q is taken as being inside the directory although it does not start with %q: with Files{%q: …} %s", via, oc.k, oc.D+"/", oc.k,
							map[string]string{"open": "a directory that does not exist opens", "list": "the listing contains an entry that is not a child of the directory"}[oc.role])
					}
					if oc.uncertain {
						if unsure == "" {
							unsure = msg
						}
					} else if bad == "" {
						bad = msg
					}
				}
			}
			nAccepted := 0
			for _, oc := range it.sites[rs] {
				if oc.accepted {
					nAccepted++
				}
			}
			switch {
			case nAccepted == 0 && !it.hasOuterEffect(rs.Body, &c23Path{loop: rs}):
				o.Trivial("the loop has no per-key effect the rule tracks (a counter): it decides no membership")
			case nAccepted == len(it.sites[rs]) && nRej > 0 && unsure == "":
				o.Unknown("the loop treats every key alike, whatever the directory (%d (D,k) pairs, %d of them outside the directory): either the comparison of the key with the directory path is missing, or membership is decided elsewhere (an index built earlier), which this rule does not follow", len(it.sites[rs]), nRej)
			case bad != "":
				o.Bad("%s", bad)
			case unsure != "":
				o.Unknown("(a branch of the loop is decided by a form the evaluator does not understand) %s", unsure)
			case it.overflow:
				o.Unknown("too many paths to follow")
			case nAcc == 0 || nRej == 0:
				o.Unknown("the loop was reached with %d pairs expected inside and %d expected outside: not enough to compare the predicate", nAcc, nRej)
			default:
				o.OK("the key is accepted exactly when D is \".\" or it starts with D+\"/\": %d (D,k) pairs inside, %d outside", nAcc, nRej)
			}
		}
		// loops over the map that the walk never reached although they belong to the mechanism: in a function
		// of the file that Open or a listing method of a handle calls (transitively)
		reach := map[*FuncInfo]bool{open: true}
		for _, hm := range handles {
			for _, h := range hm {
				reach[h.list] = true
			}
		}
		for changed := true; changed; {
			changed = false
			for fi := range reach {
				for _, c := range calls(fi.Decl.Body, true) {
					if cf := callee(info, c); cf != nil {
						if g := funcs[cf]; g != nil && !reach[g] {
							reach[g], changed = true, true
						}
					}
				}
			}
		}
		for _, fi := range fileFuncs {
			if !reach[fi] {
				continue
			}
			ast.Inspect(fi.Decl.Body, func(n ast.Node) bool {
				rs, ok := n.(*ast.RangeStmt)
				if !ok || !c23IsFilesMap(info.TypeOf(rs.X)) {
					return true
				}
				if _, seen := it.sites[rs]; !seen {
					r.Ob(R6, fi.Name()+"#keys-inside-directory", rs.Pos()).Unknown("a loop over the map of the file system in a function called from %s or from the listing of the handle it returns, but not on a path the evaluator followed: the rule does not know which directory its keys are compared with", open.Name())
				}
				return true
			})
		}
	}
	r.Require(R6, 2+len(c23Dirs))
	r.Require(R7, 1)
}
