package main

// Who may set the cancellation flag (added after seeded change C13-3).
//
// After the interpreter loop ends the run driver gives the flag precedence over everything else: when
// it is set, Run returns ctx.Err(). So a store of the flag anywhere except (a) the watcher's case that
// received from ctx.Done() and (b) the stop function the loop returns through when it saw the flag or
// the done case, replaces the code's own outcome (a *PanicError, the writer's error) by ctx.Err() —
// which is nil for a context that was not cancelled.
//
// Registered twice: C11 R-5 ("if the code finishes before cancellation, Run returns the code's own
// outcome") and C13 R-5 ("Run returns E").

import (
	"go/ast"
	"go/types"
)

func init() {
	for _, id := range []string{"C11", "C13"} {
		prev := registry[id]
		if prev == nil {
			continue
		}
		run := prev.run
		prev.run = func(r *Run) {
			run(r)
			c11FlagWriters(r, "R-5")
		}
		prev.explain += " R-5: the cancellation flag is stored only by the watcher (on ctx.Done()) and by the stop function the interpreter loop returns through; any other writer would make Run return ctx.Err() instead of the code's own outcome."
	}
}

func c11FlagWriters(r *Run, R string) {
	a := c11Resolve(r.P)
	if !r.Anchor(R, "env.done (the cancellation flag), the run driver and the interpreter loop", a != nil && a.fDone != nil && a.driver != nil && a.loop != nil) {
		return
	}
	var fns []*FuncInfo
	for _, f := range r.P.Funcs("internal/runtime") {
		if !r.P.isTestFile(f.File) {
			fns = append(fns, f)
		}
	}
	// stores of the flag
	type site struct {
		fi   *FuncInfo
		node ast.Node
	}
	var sites []site
	for _, fi := range fns {
		info := fi.Pkg.TypesInfo
		ast.Inspect(fi.Decl.Body, func(n ast.Node) bool {
			switch x := n.(type) {
			case *ast.CallExpr:
				if kind, f, _ := c11Atomic(info, x); (kind == "store" || kind == "rmw") && f == a.fDone {
					sites = append(sites, site{fi, x})
				}
			case *ast.AssignStmt:
				for _, l := range x.Lhs {
					if c11FieldOf(info, l) == a.fDone {
						sites = append(sites, site{fi, x})
					}
				}
			case *ast.IncDecStmt:
				if c11FieldOf(info, x.X) == a.fDone {
					sites = append(sites, site{fi, x})
				}
			}
			return true
		})
	}
	for _, s := range sites {
		info := s.fi.Pkg.TypesInfo
		par := r.P.Parents(s.fi.File)
		o := r.Ob(R, s.fi.Name()+"#stores-done-flag", s.node.Pos())
		// (a) watcher: inside a function literal started with `go` in the driver, in a select clause that
		// receives from a Done() channel
		inGo, onDone := false, false
		for p := par[s.node]; p != nil; p = par[p] {
			if cc, ok := p.(*ast.CommClause); ok && cc.Comm != nil {
				ast.Inspect(cc.Comm, func(m ast.Node) bool {
					if c, ok := m.(*ast.CallExpr); ok {
						if f := callee(info, c); f != nil && f.Name() == "Done" {
							onDone = true
						}
					}
					return true
				})
			}
			if lit, ok := p.(*ast.FuncLit); ok {
				if c, ok := par[lit].(*ast.CallExpr); ok {
					if _, ok := par[c].(*ast.GoStmt); ok && s.fi.Obj == a.driver.Obj {
						inGo = true
					}
				}
			}
		}
		if inGo && onDone {
			o.OK("the watcher goroutine of %s, in the case that received from ctx.Done()", a.driver.Name())
			continue
		}
		// (b) stop function: every call of it is the operand of a return statement of the interpreter loop
		ncalls, okAll := 0, true
		var unguarded []string
		for _, caller := range fns {
			cinfo := caller.Pkg.TypesInfo
			cpar := r.P.Parents(caller.File)
			for _, c := range calls(caller.Decl.Body, true) {
				if callee(cinfo, c) != s.fi.Obj {
					continue
				}
				ncalls++
				_, isRet := cpar[c].(*ast.ReturnStmt)
				if !isRet || caller.Obj != a.loop.Obj {
					okAll = false
					continue
				}
				// … and the call is taken only after the cancellation was observed: on the true edge of a
				// test of the flag (an atomic load of it) or of the index reflect.Select chose
				g := r.P.CFGOf(caller)
				selRes := map[types.Object]bool{}
				ast.Inspect(caller.Decl.Body, func(m ast.Node) bool {
					if as, ok := m.(*ast.AssignStmt); ok && len(as.Rhs) == 1 && len(as.Lhs) >= 1 {
						if rc, ok := ast.Unparen(as.Rhs[0]).(*ast.CallExpr); ok {
							if f := callee(cinfo, rc); f != nil && isPkgFunc(f, "reflect", "", "Select") {
								if o := objOfIdent(cinfo, as.Lhs[0]); o != nil {
									selRes[o] = true
								}
							}
						}
					}
					return true
				})
				// … or the result by which a helper holding the Select reports that the done case was chosen
				for fo := range c11FlagVars(cinfo, caller.Decl.Body, c11ObservationFlags(r.P)) {
					selRes[fo] = true
				}
				observed := g.GuardedBy(c, func(l Lit) bool {
					if l.Tag != nil || !l.Truth {
						return false
					}
					found := false
					ast.Inspect(l.Expr, func(m ast.Node) bool {
						switch y := m.(type) {
						case *ast.CallExpr:
							if kind, f, _ := c11Atomic(cinfo, y); kind == "load" && f == a.fDone {
								found = true
							}
						case *ast.Ident:
							if selRes[cinfo.Uses[y]] {
								found = true
							}
						}
						return true
					})
					return found
				})
				if !observed {
					okAll = false
					unguarded = append(unguarded, r.P.Pos(c.Pos()))
				}
			}
		}
		sig := s.fi.Obj.Type().(*types.Signature)
		if ncalls > 0 && okAll && sig.Recv() != nil {
			o.OK("%s is the stop function: all %d calls are `return %s()` in the interpreter loop (taken when the flag or the done case was seen)", s.fi.Name(), ncalls, s.fi.Decl.Name.Name)
			continue
		}
		if len(unguarded) > 0 {
			o.Bad("%s, which stores the cancellation flag, is called at %v without having observed the cancellation (no test of the flag or of the case reflect.Select chose on the way): Run then returns ctx.Err() — nil for a live context — instead of the code's own outcome, and a program that does not terminate returns before any cancellation", s.fi.Name(), unguarded)
			continue
		}
		o.Bad("%s stores the cancellation flag outside the watcher and the stop function: after the loop ends the run driver returns ctx.Err() whenever the flag is set, so the code's own outcome (a panic, the writer's error) is replaced — by nil when the context was not cancelled", s.fi.Name())
	}
	r.Require(R, 2)
}
