package main

// C24 R-1, size counter (added after seeded change C24-4): the number n of extra bytes that sizes the
// output buffer (make([]byte, len(s)+n)) is produced by the counting pass that R-1 compares with the
// writing pass, and by nothing else.
//
// R-1 proves "the first pass counts len(entity)-1 for each of the five characters" on the counting switch
// (or on the `n += len(e)-1` of the entity form). That says something about the buffer only if every value
// n can have comes from there. Every other write of n must therefore be
//   - the initialisation to the constant 0, or
//   - a SECOND way to count that is the same count: an assignment `n = L` where L is a linear combination
//     (+, -, constant factors) of strings.Count(s, "c") / bytes.Count for one-byte constants c, whose total
//     coefficient is len(entity)-1 for each of the five characters and 0 for any other byte, with no
//     constant term, and from which the counting pass cannot be reached (no double counting).
// A combination with another coefficient for a character (a character counted twice, one not counted) makes
// the buffer too short or too long for the inputs that contain that character: the result is truncated /
// panics, or ends with NUL bytes. Anything else that writes n is not understood (undecided).

import (
	"fmt"
	"go/ast"
	"go/token"
	"go/types"
	"sort"
	"strings"

	"golang.org/x/tools/go/cfg"
)

func init() {
	if p := registry["C24"]; p != nil {
		p.explain += " The counter n that sizes the buffer is written only by its initialisation to 0, by the counting pass, or by a linear combination of strings.Count(s, c) with exactly len(entity)-1 per character."
		for i, s := range p.notCov {
			if strings.HasPrefix(s, "that n is the only thing") {
				p.notCov = append(p.notCov[:i], p.notCov[i+1:]...)
				break
			}
		}
	}
}

// c24CountLin reads e as sum(coef[c] * count of byte c in subj) + k.
func c24CountLin(info *types.Info, e ast.Expr, subj *types.Var) (coef map[int64]int64, k int64, ok bool) {
	e = ast.Unparen(e)
	if v, isC := intValue(info, e); isC {
		return map[int64]int64{}, v, true
	}
	switch x := e.(type) {
	case *ast.CallExpr:
		if tv, isT := info.Types[x.Fun]; isT && tv.IsType() && len(x.Args) == 1 {
			if b, isB := tv.Type.Underlying().(*types.Basic); isB && b.Info()&types.IsInteger != 0 {
				return c24CountLin(info, x.Args[0], subj)
			}
			return nil, 0, false
		}
		fn := callee(info, x)
		if fn == nil || fn.Pkg() == nil || fn.Name() != "Count" || len(x.Args) != 2 || (fn.Pkg().Path() != "strings" && fn.Pkg().Path() != "bytes") {
			return nil, 0, false
		}
		// the subject: s, or []byte(s) / string(s)
		a := ast.Unparen(x.Args[0])
		if c, isCall := a.(*ast.CallExpr); isCall && len(c.Args) == 1 {
			if tv, isT := info.Types[c.Fun]; isT && tv.IsType() {
				a = ast.Unparen(c.Args[0])
			}
		}
		if objOfIdent(info, a) != types.Object(subj) {
			return nil, 0, false
		}
		sep := ast.Unparen(x.Args[1])
		if c, isCall := sep.(*ast.CallExpr); isCall && len(c.Args) == 1 {
			if tv, isT := info.Types[c.Fun]; isT && tv.IsType() {
				sep = ast.Unparen(c.Args[0])
			}
		}
		sv, isS := stringValue(info, sep)
		if !isS || len(sv) != 1 {
			return nil, 0, false
		}
		return map[int64]int64{int64(sv[0]): 1}, 0, true
	case *ast.BinaryExpr:
		switch x.Op {
		case token.ADD, token.SUB:
			c1, k1, ok1 := c24CountLin(info, x.X, subj)
			c2, k2, ok2 := c24CountLin(info, x.Y, subj)
			if !ok1 || !ok2 {
				return nil, 0, false
			}
			sign := int64(1)
			if x.Op == token.SUB {
				sign = -1
			}
			out := map[int64]int64{}
			for c, v := range c1 {
				out[c] += v
			}
			for c, v := range c2 {
				out[c] += sign * v
			}
			return out, k1 + sign*k2, true
		case token.MUL:
			c1, k1, ok1 := c24CountLin(info, x.X, subj)
			c2, k2, ok2 := c24CountLin(info, x.Y, subj)
			if !ok1 || !ok2 {
				return nil, 0, false
			}
			if len(c1) != 0 && len(c2) != 0 {
				return nil, 0, false
			}
			if len(c1) == 0 {
				c1, k1, c2, k2 = c2, k2, c1, k1
			}
			// (c1 + k1) * k2
			out := map[int64]int64{}
			for c, v := range c1 {
				out[c] = v * k2
			}
			return out, k1 * k2, true
		}
	}
	return nil, 0, false
}

// c24CounterWrites: every write of the size counter nObj outside the statements R-1 has read (checked).
func c24CounterWrites(r *Run, key string, fi *FuncInfo, nObj types.Object, subj *types.Var, want map[int64]int64, checked ...ast.Node) {
	const R1 = "R-1"
	info := fi.Pkg.TypesInfo
	g := r.P.CFGOf(fi)
	inChecked := func(n ast.Node) bool {
		for _, c := range checked {
			if c != nil && containsNode(c, n) {
				return true
			}
		}
		return false
	}
	o := r.Ob(R1, key+"#size-counter", fi.Decl.Pos())
	var bad, unk, okFacts []string
	nInit, nSecond := 0, 0
	judge := func(at ast.Node, rhs ast.Expr, tok token.Token) {
		if v, isC := intValue(info, rhs); isC && v == 0 && (tok == token.ASSIGN || tok == token.DEFINE) {
			nInit++
			return
		}
		coef, k, ok := c24CountLin(info, rhs, subj)
		if !ok || len(coef) == 0 {
			unk = append(unk, fmt.Sprintf("%s is assigned %s at %s, which is neither 0 nor a combination of strings.Count(%s, c)", nObj.Name(), exprStr(rhs), r.P.Pos(at.Pos()), subj.Name()))
			return
		}
		if tok != token.ASSIGN && tok != token.DEFINE {
			unk = append(unk, fmt.Sprintf("%s %s %s at %s adds a second count to the counter", nObj.Name(), tok, exprStr(rhs), r.P.Pos(at.Pos())))
			return
		}
		// no double counting: the counting pass must not be reachable from here
		ab, _ := g.Locate(at)
		for _, c := range checked {
			// a switch is not a node of the graph itself: any node inside it stands for it
			var inside []*cfg.Block
			for _, blk := range g.G.Blocks {
				for _, nd := range blk.Nodes {
					if c != nil && containsNode(c, nd) {
						inside = append(inside, blk)
						break
					}
				}
			}
			if ab == nil || len(inside) == 0 {
				unk = append(unk, fmt.Sprintf("%s = %s at %s: the counting pass was not found in the control-flow graph", nObj.Name(), exprStr(rhs), r.P.Pos(at.Pos())))
				return
			}
			again := false
			for _, cb := range inside {
				again = again || ab == cb || g.reachable(ab, cb, nil, nil)
			}
			if again {
				unk = append(unk, fmt.Sprintf("after %s = %s at %s the counting pass can still run and add to it", nObj.Name(), exprStr(rhs), r.P.Pos(at.Pos())))
				return
			}
		}
		var diffs []string
		chars := map[int64]bool{}
		for c := range coef {
			chars[c] = true
		}
		for c := range want {
			chars[c] = true
		}
		var cs []int64
		for c := range chars {
			cs = append(cs, c)
		}
		sort.Slice(cs, func(i, j int) bool { return cs[i] < cs[j] })
		for _, c := range cs {
			if coef[c] != want[c] {
				diffs = append(diffs, fmt.Sprintf("%s is counted %d time(s) its occurrences, the writing pass adds %d byte(s) for it", c07Ch(c), coef[c], want[c]))
			}
		}
		if k != 0 {
			diffs = append(diffs, fmt.Sprintf("a constant %d is added", k))
		}
		if len(diffs) > 0 {
			bad = append(bad, fmt.Sprintf("%s = %s at %s: %s: for an input with such a character the buffer of len(%s)+%s bytes is not what the writing pass fills (truncated output or a slice-bounds panic when too short, trailing NUL bytes when too long)", nObj.Name(), exprStr(rhs), r.P.Pos(at.Pos()), strings.Join(diffs, "; "), subj.Name(), nObj.Name()))
			return
		}
		nSecond++
		okFacts = append(okFacts, fmt.Sprintf("%s at %s counts len(entity)-1 per character like the counting pass", exprStr(rhs), r.P.Pos(at.Pos())))
	}
	ast.Inspect(fi.Decl.Body, func(m ast.Node) bool {
		if m == nil || inChecked(m) {
			return m != nil && !inChecked(m)
		}
		switch x := m.(type) {
		case *ast.AssignStmt:
			for i, l := range x.Lhs {
				if objOfIdent(info, l) != nObj {
					continue
				}
				if len(x.Lhs) != len(x.Rhs) {
					unk = append(unk, fmt.Sprintf("%s is assigned from a multi-value expression at %s", nObj.Name(), r.P.Pos(x.Pos())))
					continue
				}
				judge(x, x.Rhs[i], x.Tok)
			}
		case *ast.ValueSpec:
			for i, id := range x.Names {
				if info.Defs[id] != nObj {
					continue
				}
				switch {
				case len(x.Values) == 0:
					nInit++
				case len(x.Values) == len(x.Names):
					judge(x, x.Values[i], token.DEFINE)
				default:
					unk = append(unk, fmt.Sprintf("%s is declared from a multi-value expression at %s", nObj.Name(), r.P.Pos(x.Pos())))
				}
			}
		case *ast.IncDecStmt:
			if objOfIdent(info, x.X) == nObj {
				unk = append(unk, fmt.Sprintf("%s%s at %s outside the counting pass", nObj.Name(), x.Tok, r.P.Pos(x.Pos())))
			}
		case *ast.RangeStmt:
			if objOfIdent(info, x.Key) == nObj || objOfIdent(info, x.Value) == nObj {
				unk = append(unk, fmt.Sprintf("%s is a range variable at %s", nObj.Name(), r.P.Pos(x.Pos())))
			}
		case *ast.UnaryExpr:
			if x.Op == token.AND && objOfIdent(info, x.X) == nObj {
				unk = append(unk, fmt.Sprintf("the address of %s is taken at %s", nObj.Name(), r.P.Pos(x.Pos())))
			}
		}
		return true
	})
	switch {
	case len(bad) > 0:
		o.Bad("the size counter is also computed outside the counting pass, differently: %s", strings.Join(bad, " | "))
	case len(unk) > 0:
		o.Unknown("the size counter %s is written outside the counting pass that R-1 compares with the writing pass: %s", nObj.Name(), strings.Join(unk, "; "))
	case nSecond > 0:
		o.OK("%s is 0 initially, incremented by the counting pass, and otherwise: %s", nObj.Name(), strings.Join(okFacts, "; "))
	default:
		o.OK("%s is written only by its initialisation to 0 (%d) and by the counting pass", nObj.Name(), nInit)
	}
}
