package main

// C15 R-9 (added after seeded change C15-2): a function that emits one token leaves the line counter alone
// after the emission.
//
// The token emitter stamps every token with the lexer's line counter at the moment of the emission (the
// field of the token that the emitter fills from a field of the lexer: token.lin from lexer.line). The
// template parser decides with that stamp when a line ends, and therefore which text is the leading and
// trailing blank of a statement-only line. For a token that spans several lines (a comment, a raw string, a
// text) the stamp must be the line on which the token ENDS: the lexer counts the newlines of the token's
// bytes first and emits afterwards, passing the saved start line for the position.
//
// Take a lexer function that emits exactly one token on any way through it (no emission can follow another)
// and returns to the loop that called it. Whatever it adds to the line counter after the emission is wrong:
//   * if the bytes it counts belong to the token, the token was stamped too early (its `lin` is its first
//     line: the parser's per-line bookkeeping lags by the token's height and the cut rules look at the
//     wrong neighbourhood — blanks before a multi-line comment are deleted although a show follows it);
//   * if they come after the token, they are still in front of the cursor and the calling loop counts them
//     again.
// So: in every single-token function no line advance (an assignment to the line field, or a call of a lexer
// function that assigns it) is reachable from the emission.
//
// Functions that emit several tokens in sequence or in a loop (scan, lexCode, lexShow, lexStatement …) are
// outside the rule: there an advance after an emission counts the bytes of the next token.

import (
	"go/ast"
	"go/types"
	"sort"
	"strings"

	"golang.org/x/tools/go/cfg"
)

func init() {
	p := registry["C15"]
	if p == nil {
		return
	}
	run := p.run
	p.run = func(r *Run) { run(r); c15StampAfterCount(r) }
	p.explain += " R-9: in a lexer function that emits exactly one token on every way through it, no advance of the line counter is reachable from the emission (the emitter stamps the token with the current line: lines are counted before the token is emitted)."
}

func c15StampAfterCount(r *Run) {
	const R = "R-9"
	const rel = "internal/compiler"
	ro := c15Resolve(r, R)
	if ro == nil {
		return
	}
	emObj, _ := ro.emitter.Object().(*types.Func)
	if !r.Anchor(R, "declaration of the token emitter", emObj != nil) {
		return
	}
	// lexer methods
	type fn struct {
		fi   *FuncInfo
		recv types.Object
	}
	fns := map[*types.Func]*fn{}
	var order []*types.Func
	for _, fi := range r.P.Funcs(rel) {
		if r.P.isTestFile(fi.File) || fi.Obj == nil {
			continue
		}
		sig := fi.Obj.Type().(*types.Signature)
		if sig.Recv() == nil || c10NamedOf(sig.Recv().Type()) != ro.lexer {
			continue
		}
		var recv types.Object
		if fi.Decl.Recv != nil && len(fi.Decl.Recv.List) > 0 && len(fi.Decl.Recv.List[0].Names) > 0 {
			recv = fi.Pkg.TypesInfo.Defs[fi.Decl.Recv.List[0].Names[0]]
		}
		fns[fi.Obj] = &fn{fi, recv}
		order = append(order, fi.Obj)
	}
	em := fns[emObj]
	if !r.Anchor(R, "the token emitter is a method of the lexer", em != nil && em.recv != nil) {
		return
	}
	// the line field: the lexer field the emitter copies into the token it sends
	var lineField, stampField *types.Var
	ambiguous := false
	einfo := em.fi.Pkg.TypesInfo
	ast.Inspect(em.fi.Decl.Body, func(n ast.Node) bool {
		cl, ok := n.(*ast.CompositeLit)
		if !ok || c10NamedOf(einfo.TypeOf(cl)) != ro.tok {
			return true
		}
		for _, el := range cl.Elts {
			kv, ok := el.(*ast.KeyValueExpr)
			if !ok {
				continue
			}
			sel, ok := ast.Unparen(kv.Value).(*ast.SelectorExpr)
			if !ok {
				continue
			}
			id, ok := ast.Unparen(sel.X).(*ast.Ident)
			if !ok || einfo.Uses[id] != em.recv {
				continue
			}
			fv, ok := einfo.Uses[sel.Sel].(*types.Var)
			if !ok || !fv.IsField() {
				continue
			}
			if b, ok := fv.Type().(*types.Basic); !ok || b.Kind() != types.Int {
				continue
			}
			if lineField != nil && lineField != fv {
				ambiguous = true
			}
			lineField = fv
			if k, ok := kv.Key.(*ast.Ident); ok {
				stampField, _ = einfo.Uses[k].(*types.Var)
			}
		}
		return false
	})
	if !r.Anchor(R, "the int field of the lexer that the emitter copies into the token (the line stamp, token.lin = lexer.line)", lineField != nil && !ambiguous) {
		return
	}

	// may-emit and may-advance closures over the lexer's methods
	callsOf := func(f *fn) []*ast.CallExpr {
		var out []*ast.CallExpr
		ast.Inspect(f.fi.Decl.Body, func(n ast.Node) bool {
			if _, ok := n.(*ast.FuncLit); ok {
				return false
			}
			if c, ok := n.(*ast.CallExpr); ok {
				out = append(out, c)
			}
			return true
		})
		return out
	}
	writesLine := func(f *fn) []ast.Node {
		info := f.fi.Pkg.TypesInfo
		var out []ast.Node
		isLine := func(e ast.Expr) bool {
			sel, ok := ast.Unparen(e).(*ast.SelectorExpr)
			return ok && info.Uses[sel.Sel] == lineField
		}
		ast.Inspect(f.fi.Decl.Body, func(n ast.Node) bool {
			switch x := n.(type) {
			case *ast.FuncLit:
				return false
			case *ast.AssignStmt:
				for _, l := range x.Lhs {
					if isLine(l) {
						out = append(out, x)
					}
				}
			case *ast.IncDecStmt:
				if isLine(x.X) {
					out = append(out, x)
				}
			}
			return true
		})
		return out
	}
	emits := map[*types.Func]bool{emObj: true}
	advances := map[*types.Func]bool{}
	for _, o := range order {
		if len(writesLine(fns[o])) > 0 {
			advances[o] = true
		}
	}
	for changed := true; changed; {
		changed = false
		for _, o := range order {
			f := fns[o]
			for _, c := range callsOf(f) {
				cal := callee(f.fi.Pkg.TypesInfo, c)
				if cal == nil {
					continue
				}
				if emits[cal] && !emits[o] {
					emits[o], changed = true, true
				}
				if advances[cal] && !advances[o] {
					advances[o], changed = true, true
				}
			}
		}
	}

	n := 0
	var multi []string
	for _, o := range order {
		f := fns[o]
		if o == emObj || !emits[o] {
			continue
		}
		info := f.fi.Pkg.TypesInfo
		g := r.P.CFGOf(f.fi)
		var emitSites, advSites []ast.Node
		for _, c := range callsOf(f) {
			cal := callee(info, c)
			if cal == nil {
				continue
			}
			if emits[cal] {
				emitSites = append(emitSites, c)
			}
			if advances[cal] {
				advSites = append(advSites, c)
			}
		}
		advSites = append(advSites, writesLine(f)...)
		after := func(from, to ast.Node) bool {
			fb, fi := g.Locate(from)
			tb, ti := g.Locate(to)
			if fb == nil || tb == nil {
				return true
			}
			if fb == tb && fi < ti {
				return true
			}
			for _, s := range fb.Succs {
				if s == tb || g.reachable(s, tb, nil, func(*cfg.Block) bool { return false }) {
					return true
				}
			}
			return false
		}
		single := true
		for _, a := range emitSites {
			for _, b := range emitSites {
				if after(a, b) {
					single = false
				}
			}
		}
		if !single {
			multi = append(multi, f.fi.Decl.Name.Name)
			continue
		}
		n++
		ob := r.Ob(R, f.fi.Name()+"#count-before-stamp", f.fi.Decl.Pos())
		if len(advSites) == 0 {
			ob.Trivial("emits one token and never touches the line counter")
			continue
		}
		var late []string
		for _, e := range emitSites {
			for _, a := range advSites {
				if a != e && after(e, a) {
					late = append(late, r.P.Pos(a.Pos()))
				}
			}
		}
		// a function that moves the cursor itself after the emission may legitimately count what it skips
		movesSrc := false
		ast.Inspect(f.fi.Decl.Body, func(m ast.Node) bool {
			if as, ok := m.(*ast.AssignStmt); ok {
				for _, l := range as.Lhs {
					if sel, ok := ast.Unparen(l).(*ast.SelectorExpr); ok && info.Uses[sel.Sel] == ro.src {
						for _, e := range emitSites {
							if after(e, as) {
								movesSrc = true
							}
						}
					}
				}
			}
			return true
		})
		if len(late) > 0 && movesSrc {
			ob.Unknown("%s advances the line counter after its emission and also moves the cursor itself after it: whether the bytes counted are the ones skipped is not decided", f.fi.Name())
		} else if len(late) > 0 {
			sort.Strings(late)
			ob.Bad("%s emits one token and advances the line counter %s.%s after the emission (at %s): the token's %s stamp is taken before its own newlines are counted (or the bytes counted are still in front of the cursor and are counted again by the caller); for a token spanning several lines the parser's line bookkeeping lags and the statement-only-line rule cuts, or keeps, the wrong blanks", f.fi.Name(), ro.lexer.Obj().Name(), lineField.Name(), strings.Join(late, ", "), c15StampName(stampField))
		} else {
			ob.OK("every advance of %s.%s (%d site(s)) precedes the emission of the function's token", ro.lexer.Obj().Name(), lineField.Name(), len(advSites))
		}
	}
	sort.Strings(multi)
	r.Note("R-9: lexer functions emitting several tokens (outside the rule): %s", strings.Join(multi, ", "))
	r.Require(R, 6)
}

func c15StampName(v *types.Var) string {
	if v == nil {
		return "line"
	}
	return v.Name()
}
