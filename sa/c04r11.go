package main

// C04 R-11: a file parsed for a render expression is parsed with `extends` forbidden.
//
// The template expansion parses the file named by an Extends, Import or Render node with one method and
// decides with one boolean field of its state whether an `{% extends %}` declaration found in that file is
// accepted. The type checker wraps the tree of a rendered file in the body of a macro and its statement
// walker has no case for an Extends node ("checkNodes not implemented for nodes with type *ast.Extends", a
// plain panic that leaves BuildTemplate): a rendered tree must therefore never contain one, i.e. on every
// path to the parse of the file of a *ast.Render node the field has been set to false.
// (An imported file that extends is type checked as a package and only builds something wrong: it is not a
// crash, so Import nodes are not obligations of C04.)
//
// Anchors, by role: the clause `case *ast.Extends:` of a type switch of package compiler in which a call
// taking the node is reached only on the true edge of a test of a boolean field — that field is the
// "extends allowed" flag and the callee is the file parser. Every other call of the file parser whose node
// argument has static type *ast.Render is an obligation; when the argument is an ast.Node parameter of the
// enclosing function, the obligation moves to that function's call sites.

import (
	"go/ast"
	"go/token"
	"go/types"
)

func init() {
	p := registry["C04"]
	if p == nil {
		return
	}
	run := p.run
	p.run = func(r *Run) { run(r); c04RenderNoExtends(r) }
	p.explain += " R-11: on every path to the parse of the file of a Render node the template expansion has cleared the flag that allows `extends` (the checker panics on an Extends node inside a rendered tree)."
}

func c04RenderNoExtends(r *Run) {
	const R = "R-11"
	const rel = "internal/compiler"
	extendsT := r.P.Named("ast", "Extends")
	renderT := r.P.Named("ast", "Render")
	if !r.Anchor(R, "ast.Extends and ast.Render", extendsT != nil && renderT != nil) {
		return
	}
	isPtrTo := func(t types.Type, n *types.Named) bool {
		pt, ok := t.(*types.Pointer)
		return ok && types.Identical(pt.Elem(), n)
	}
	var fns []*FuncInfo
	byObj := map[*types.Func]*FuncInfo{}
	for _, fi := range r.P.Funcs(rel) {
		if !r.P.isTestFile(fi.File) && fi.Obj != nil {
			fns = append(fns, fi)
			byObj[fi.Obj] = fi
		}
	}
	boolField := func(info *types.Info, e ast.Expr) *types.Var {
		sel, ok := ast.Unparen(e).(*ast.SelectorExpr)
		if !ok {
			return nil
		}
		v, ok := info.Uses[sel.Sel].(*types.Var)
		if !ok || !v.IsField() {
			return nil
		}
		if b, ok := v.Type().Underlying().(*types.Basic); !ok || b.Kind() != types.Bool {
			return nil
		}
		return v
	}
	// 1. the flag and the file parser
	var flag *types.Var
	var parser *types.Func
	ambiguous := false
	for _, fi := range fns {
		info := fi.Pkg.TypesInfo
		ast.Inspect(fi.Decl.Body, func(n ast.Node) bool {
			ts, ok := n.(*ast.TypeSwitchStmt)
			if !ok {
				return true
			}
			for _, st := range ts.Body.List {
				cc := st.(*ast.CaseClause)
				if len(cc.List) != 1 || !isPtrTo(info.TypeOf(cc.List[0]), extendsT) {
					continue
				}
				sym := info.Implicits[cc]
				if sym == nil {
					continue
				}
				var g *CFGInfo
				for _, s := range cc.Body {
					for _, c := range calls(s, false) {
						f := callee(info, c)
						if f == nil || byObj[f] == nil {
							continue
						}
						takes := false
						for _, a := range c.Args {
							if id, ok := ast.Unparen(a).(*ast.Ident); ok && info.Uses[id] == sym {
								takes = true
							}
						}
						if !takes {
							continue
						}
						if g == nil {
							g = r.P.CFGOf(fi)
						}
						var fl *types.Var
						g.GuardedBy(c, func(l Lit) bool {
							if l.Tag != nil {
								return false
							}
							if v, truth := c04BoolFieldLit(info, fi, l.Expr, l.Truth, boolField); v != nil && truth {
								fl = v
								return true
							}
							return false
						})
						if fl == nil {
							continue
						}
						if flag != nil && (flag != fl || parser != f) {
							ambiguous = true
						}
						flag, parser = fl, f
					}
				}
			}
			return true
		})
	}
	if !r.Anchor(R, "the `case *ast.Extends` clause that parses the extended file only when a boolean field of the expansion state allows it", flag != nil && !ambiguous) {
		return
	}
	// 2. obligations
	isClear := func(info *types.Info) func(n ast.Node) bool {
		return func(n ast.Node) bool {
			as, ok := n.(*ast.AssignStmt)
			if !ok || len(as.Lhs) != len(as.Rhs) {
				return false
			}
			for i, l := range as.Lhs {
				if boolField(info, l) == flag {
					if tv, ok := info.Types[as.Rhs[i]]; ok && tv.Value != nil && tv.Value.String() == "false" {
						return true
					}
				}
			}
			return false
		}
	}
	// a function that can set the flag to something other than the constant false is not readable
	setsOther := func(fi *FuncInfo) bool {
		info := fi.Pkg.TypesInfo
		bad := false
		ast.Inspect(fi.Decl.Body, func(n ast.Node) bool {
			if as, ok := n.(*ast.AssignStmt); ok {
				for i, l := range as.Lhs {
					if boolField(info, l) != flag {
						continue
					}
					if len(as.Lhs) != len(as.Rhs) {
						bad = true
					} else if tv, ok := info.Types[as.Rhs[i]]; !ok || tv.Value == nil || tv.Value.String() != "false" {
						bad = true
					}
				}
			}
			return true
		})
		return bad
	}
	var check func(target *types.Func, argIndex func(c *ast.CallExpr) ast.Expr, depth int)
	check = func(target *types.Func, argOf func(c *ast.CallExpr) ast.Expr, depth int) {
		for _, fi := range fns {
			info := fi.Pkg.TypesInfo
			for _, c := range calls(fi.Decl.Body, true) {
				if callee(info, c) != target {
					continue
				}
				arg := argOf(c)
				if arg == nil {
					continue
				}
				at := info.TypeOf(arg)
				if at == nil {
					continue
				}
				_, isIface := at.Underlying().(*types.Interface)
				if !isPtrTo(at, renderT) && !isIface {
					continue // Extends, Import: not obligations of this rule
				}
				o := r.Ob(R, fi.Name()+"#"+target.Name()+"("+typeStr(at)+")", c.Pos())
				g := r.P.CFGOf(fi)
				if blk, _ := g.Locate(c); blk == nil {
					o.Unknown("the call is inside a function literal: the path to it is not readable")
					continue
				}
				if setsOther(fi) {
					o.Unknown("%s assigns %s something other than the constant false: which value it has at the call is not readable", fi.Name(), flag.Name())
					continue
				}
				if g.MustPassNode(c, isClear(info)) {
					o.OK("%s = false on every path to the call", flag.Name())
					continue
				}
				// the node is a parameter of the enclosing function: the obligation is the callers'
				if depth < 2 {
					if id, ok := ast.Unparen(arg).(*ast.Ident); ok {
						sig := fi.Obj.Type().(*types.Signature)
						pi := -1
						for i := 0; i < sig.Params().Len(); i++ {
							if sig.Params().At(i) == info.Uses[id] {
								pi = i
							}
						}
						if pi >= 0 {
							o.OK("the node is parameter %d of %s: decided at its call sites", pi, fi.Name())
							check(fi.Obj, func(c *ast.CallExpr) ast.Expr {
								if pi < len(c.Args) {
									return c.Args[pi]
								}
								return nil
							}, depth+1)
							continue
						}
					}
				}
				if isIface {
					o.Unknown("the node passed to %s has static type %s: whether it can be a Render node is not readable", target.Name(), typeStr(at))
					continue
				}
				o.Bad("the file of a Render node is parsed by %s on a path that has not set %s to false: when this is the first import or render expanded, an `{%% extends %%}` declaration in the rendered file is accepted and the type checker panics on the Extends node inside the macro body it builds for the rendered tree (BuildTemplate panics)", target.Name(), flag.Name())
			}
		}
	}
	// the parser's node parameter: the argument that, in the Extends clause, was the node — take every
	// argument whose parameter type is an interface implemented by *ast.Render
	psig := parser.Type().(*types.Signature)
	nodeParam := -1
	for i := 0; i < psig.Params().Len(); i++ {
		if it, ok := psig.Params().At(i).Type().Underlying().(*types.Interface); ok && types.Implements(types.NewPointer(renderT), it) {
			nodeParam = i
			break
		}
	}
	if !r.Anchor(R, "the node parameter of "+parser.Name(), nodeParam >= 0) {
		return
	}
	check(parser, func(c *ast.CallExpr) ast.Expr {
		if nodeParam < len(c.Args) {
			return c.Args[nodeParam]
		}
		return nil
	}, 0)
	r.Require(R, 1)
}

// c04BoolFieldLit reads a literal as "field is truth": the field itself, its negation (litsOf already
// strips !), a comparison with the constants true / false, or a local defined once from the field.
func c04BoolFieldLit(info *types.Info, fi *FuncInfo, e ast.Expr, truth bool, boolField func(*types.Info, ast.Expr) *types.Var) (*types.Var, bool) {
	for depth := 0; depth < 4; depth++ {
		e = ast.Unparen(e)
		if v := boolField(info, e); v != nil {
			return v, truth
		}
		switch x := e.(type) {
		case *ast.UnaryExpr:
			if x.Op != token.NOT {
				return nil, false
			}
			e, truth = x.X, !truth
		case *ast.BinaryExpr:
			if x.Op != token.EQL && x.Op != token.NEQ {
				return nil, false
			}
			other, cst := x.X, x.Y
			tv, ok := info.Types[cst]
			if !ok || tv.Value == nil {
				other, cst = x.Y, x.X
				tv, ok = info.Types[cst]
			}
			if !ok || tv.Value == nil {
				return nil, false
			}
			c := tv.Value.String() == "true"
			if (x.Op == token.EQL) != c {
				truth = !truth
			}
			e = other
		case *ast.Ident:
			obj := info.Uses[x]
			var def ast.Expr
			ndefs := 0
			ast.Inspect(fi.Decl.Body, func(n ast.Node) bool {
				if as, ok := n.(*ast.AssignStmt); ok {
					for i, l := range as.Lhs {
						if id, ok := l.(*ast.Ident); ok && obj != nil && (info.Defs[id] == obj || info.Uses[id] == obj) {
							ndefs++
							if len(as.Lhs) == len(as.Rhs) {
								def = as.Rhs[i]
							}
						}
					}
				}
				return true
			})
			if ndefs != 1 || def == nil {
				return nil, false
			}
			e = def
		default:
			return nil, false
		}
	}
	return nil, false
}
