package main

// C17 R-5 (added after seeded change C17-2): copy versus share is decided by exact type identity.
//
// "A pointer value is shared with the caller, a non-pointer value is copied": in the function that binds
// the variables passed to Run, the branch that COPIES the initialiser into a fresh cell must be taken only
// when the initialiser's type is identical to the variable's type (`typ == variable.Type`), and the branch
// that SHARES the caller's storage (`….Elem()` of the initialiser) only when the initialiser is a pointer
// whose element type is identical to the variable's type. A weaker test (AssignableTo, ConvertibleTo,
// Kind equality) boxes a `*interface{}` passed for an `interface{}` variable and copies it, so the
// template never sees nor updates the caller's value.

import (
	"go/ast"
	"go/token"
	"go/types"
	"strings"
)

func init() {
	p := registry["C17"]
	if p == nil {
		return
	}
	run := p.run
	p.run = func(r *Run) { run(r); c17CopyOrShare(r) }
	p.explain += " R-5: when binding the variables given to Run, the copy branch is guarded by identity of the initialiser's type with the variable's type and the share branch by identity of the pointer's element type with it."
}

func c17CopyOrShare(r *Run) {
	const R = "R-5"
	// by role: function of the root package taking []compiler.Global and returning []reflect.Value
	var binder *FuncInfo
	for _, fi := range r.P.Funcs("") {
		if r.P.isTestFile(fi.File) || fi.Decl.Recv != nil {
			continue
		}
		sig := fi.Obj.Type().(*types.Signature)
		if sig.Params().Len() >= 1 && strings.HasSuffix(typeStr(sig.Params().At(0).Type()), "[]compiler.Global") && sig.Results().Len() == 1 && typeStr(sig.Results().At(0).Type()) == "[]reflect.Value" {
			binder = fi
		}
	}
	if !r.Anchor(R, "the function binding Run's variables (func([]compiler.Global, map[string]any) []reflect.Value)", binder != nil) {
		return
	}
	info := binder.Pkg.TypesInfo
	// X.Type where X is a compiler.Global
	isVarType := func(e ast.Expr) bool {
		sel, ok := ast.Unparen(e).(*ast.SelectorExpr)
		if !ok || sel.Sel.Name != "Type" {
			return false
		}
		t := info.TypeOf(sel.X)
		return t != nil && strings.HasSuffix(typeStr(t), "compiler.Global")
	}
	// expression denoting the dynamic type of the initialiser: a local defined as <v>.Type(), or <v>.Type() itself
	isInitType := func(e ast.Expr) bool {
		e = ast.Unparen(e)
		if c, ok := e.(*ast.CallExpr); ok {
			if sel, ok := c.Fun.(*ast.SelectorExpr); ok && sel.Sel.Name == "Type" && typeStr(info.TypeOf(sel.X)) == "reflect.Value" {
				return true
			}
		}
		if id, ok := e.(*ast.Ident); ok {
			return typeStr(info.TypeOf(id)) == "reflect.Type"
		}
		return false
	}
	isElemOfInitType := func(e ast.Expr) bool {
		c, ok := ast.Unparen(e).(*ast.CallExpr)
		if !ok || len(c.Args) != 0 {
			return false
		}
		sel, ok := c.Fun.(*ast.SelectorExpr)
		return ok && sel.Sel.Name == "Elem" && isInitType(sel.X)
	}
	eqLit := func(l Lit, a, b func(ast.Expr) bool) bool {
		if l.Tag != nil {
			return false
		}
		be, ok := ast.Unparen(l.Expr).(*ast.BinaryExpr)
		if !ok {
			return false
		}
		if !((a(be.X) && b(be.Y)) || (a(be.Y) && b(be.X))) {
			return false
		}
		return (be.Op == token.EQL && l.Truth) || (be.Op == token.NEQ && !l.Truth)
	}
	ncopy, nshare := 0, 0
	// scan reads one function; in a helper that returns the cell (viaReturn) the share branch is the
	// returned ….Elem() instead of the one stored into the result slice
	var scan func(fn *FuncInfo, viaReturn bool)
	scan = func(fn *FuncInfo, viaReturn bool) {
		g := r.P.CFGOf(fn)
		ast.Inspect(fn.Decl.Body, func(n ast.Node) bool {
			c, ok := n.(*ast.CallExpr)
			if !ok {
				return true
			}
			sel, ok := c.Fun.(*ast.SelectorExpr)
			if !ok {
				return true
			}
			f := callee(info, c)
			if f == nil || f.Pkg() == nil || f.Pkg().Path() != "reflect" {
				return true
			}
			switch {
			case f.Name() == "Set" && len(c.Args) == 1:
				// v.Set(val): the copy of the initialiser into a fresh cell
				ncopy++
				o := r.Ob(R, binder.Name()+"#copy-branch", c.Pos())
				if g.GuardedBy(c, func(l Lit) bool { return eqLit(l, isInitType, isVarType) }) {
					o.OK("the copy is taken only when the initialiser's type == the variable's type")
				} else {
					o.Bad("the copy of the initialiser into a fresh cell is not guarded by identity of its type with the variable's type: a pointer (or another assignable value) passed for an interface-typed variable is copied instead of shared")
				}
			case f.Name() == "Elem" && len(c.Args) == 0 && typeStr(info.TypeOf(sel.X)) == "reflect.Value":
				// ….Elem() of the initialiser stored as the variable's cell: only when its value is assigned to the result slice
				if rc, ok := ast.Unparen(sel.X).(*ast.CallExpr); ok {
					if rf := callee(info, rc); rf != nil && rf.Name() == "New" {
						return true // a fresh cell (reflect.New(T).Elem()), not the caller's storage
					}
				}
				par := r.P.Parents(fn.File)
				if viaReturn {
					if _, isRet := par[ast.Node(c)].(*ast.ReturnStmt); !isRet {
						return true
					}
				} else {
					as, ok := par[ast.Node(c)].(*ast.AssignStmt)
					if !ok {
						return true
					}
					if _, isIdx := ast.Unparen(as.Lhs[0]).(*ast.IndexExpr); !isIdx {
						return true
					}
				}
				nshare++
				o := r.Ob(R, binder.Name()+"#share-branch", c.Pos())
				if g.GuardedBy(c, func(l Lit) bool { return eqLit(l, isElemOfInitType, isVarType) }) {
					o.OK("the caller's storage is shared only when the pointer's element type == the variable's type")
				} else {
					o.Bad("sharing the caller's storage is not guarded by identity of the pointer's element type with the variable's type")
				}
			}
			return true
		})
	}
	scan(binder, false)
	if ncopy == 0 && nshare == 0 {
		// the cell may be built by a helper of the package: `values[i] = helper(variable, value)`
		seen := map[types.Object]bool{}
		ast.Inspect(binder.Decl.Body, func(n ast.Node) bool {
			as, ok := n.(*ast.AssignStmt)
			if !ok || len(as.Lhs) != 1 || len(as.Rhs) != 1 {
				return true
			}
			if _, isIdx := ast.Unparen(as.Lhs[0]).(*ast.IndexExpr); !isIdx {
				return true
			}
			hc, ok := ast.Unparen(as.Rhs[0]).(*ast.CallExpr)
			if !ok {
				return true
			}
			hf := callee(info, hc)
			if hf == nil || hf.Pkg() != binder.Obj.Pkg() || seen[hf] {
				return true
			}
			seen[hf] = true
			for _, h := range r.P.Funcs("") {
				if h.Obj == hf && !r.P.isTestFile(h.File) {
					scan(h, true)
					break
				}
			}
			return true
		})
	}
	if ncopy == 0 || nshare == 0 {
		r.Ob(R, binder.Name()+"#shape", binder.Decl.Pos()).Unknown("expected one copy (Set into a fresh cell) and one share (Elem of the initialiser) branch, found %d and %d", ncopy, nshare)
	}
	r.Require(R, 2)
}
