package main

// C11 — cancelling the run context stops any execution promptly (DESIGN.md §5 C11).
//
// The file also holds the helpers shared by c12.go and c13.go (anchors of package runtime resolved by
// role, node-level walks on go/cfg); they carry the c11 prefix. c12.go and c13.go need this file.
//
//	R-1  every cycle of the interpreter loop through the opcode dispatch passes the poll of env.done,
//	     and the poll's "set" edge leaves the loop through the stop function (which stores done).
//	R-2  every blocking site of package runtime (reflect.Value.Recv/Send, reflect.Select, channel
//	     statements) is only reached without a context, or is a Select that carries env.doneCase, tests
//	     the chosen index against the position of that case and leaves through the stop function.
//	     R-2 also decides that this position is determined: a constant index needs a slice that is
//	     provably empty before the append (reset on every way out of the site, the recovered panic included).
//	R-3  the watcher of the run driver.
//	R-4  wiring: SetContext sets doneChan and doneCase together, both public Run methods call it when a
//	     context is given, every VM created while running shares the env.

import (
	"fmt"
	"go/ast"
	"go/constant"
	"go/token"
	"go/types"
	"sort"
	"strings"

	"golang.org/x/tools/go/cfg"
	"golang.org/x/tools/go/packages"
)

func init() {
	register("C11", &ruleSet{
		explain: "Structural necessary conditions of prompt cancellation, decided on the typed AST and go/cfg of package runtime and of the two public Run methods: " +
			"(R-1) with the blocks that poll the atomic flag env.done removed, the opcode dispatch of the interpreter loop is reachable neither from the function entry nor from any of its case bodies, the poll only adds 'a context is set' to the test, and its 'set' edge returns the result of the stop function, which stores the flag; " +
			"(R-2) each of the calls to reflect.Value.Recv, reflect.Value.Send and reflect.Select and each channel statement of package runtime is dominated by the no-context test, or is a Select whose case slice got env.doneCase appended on every path, whose chosen index is compared with the position of that case on every path leaving the site, and whose 'done chosen' edge returns through the stop function; a constant position is accepted only when the slice is provably empty before the append (zero-length base, or reset on every path back to the dispatch and on the recovered-panic path); " +
			"(R-3) the run driver starts, whenever doneChan is set, a goroutine that stores the flag on <-ctx.Done(), closes the watcher's stop channel exactly once on every return path, and returns ctx.Err() when the flag is set after the loop; " +
			"(R-4) the context setter sets doneChan and doneCase from the same Done channel and is the only writer of both, both public Run methods call it before VM.Run when RunOptions.Context is non-nil, and every VM created while running receives the running env.",
		notCov: []string{
			"latency bounds (how long one instruction or one native call may take)",
			"native functions that block: only the interpreter's own blocking sites are decided",
			"the value returned by the stop function makes every enclosing recursive run call return (trusted: maxAddr is no range address)",
			"host loops inside one opcode (range over a slice, recover scan) are not required to poll: each iteration that runs interpreted code calls the loop function, which polls first",
		},
		trusted: []string{"reflect.Select blocks until one case can proceed and returns its index", "sync/atomic load/store semantics", "context.Context.Done is closed on cancellation"},
		run:     runC11,
	})
}

const c11RT = "internal/runtime"

// ---------------------------------------------------------------------------
// Anchors of package runtime, resolved by role (DESIGN.md §10.1).

type c11Anchors struct {
	pk   *packages.Package
	info *types.Info

	vmT, envT, opT *types.Named

	fDone, fDoneChan, fDoneCase, fCtx *types.Var // fields of env
	fPanic, fCases                    *types.Var // fields of VM
	storeK                            int64      // the constant stored in env.done
	storeSites                        int

	loop, recoverable, classifier, driver, entry, setCtx, create *FuncInfo

	loopFor    *ast.ForStmt
	dispatch   *ast.SwitchStmt
	recoverLit *ast.FuncLit
	classCall  *ast.CallExpr
	driverFor  *ast.ForStmt
	driverCall *ast.CallExpr

	missing []string
}

var c11AnchorCache = map[*Prog]*c11Anchors{}

func c11StructFields(n *types.Named) []*types.Var {
	if n == nil {
		return nil
	}
	st, ok := n.Underlying().(*types.Struct)
	if !ok {
		return nil
	}
	var out []*types.Var
	for i := 0; i < st.NumFields(); i++ {
		out = append(out, st.Field(i))
	}
	return out
}

func c11UniqueField(n *types.Named, pred func(*types.Var) bool) *types.Var {
	var found *types.Var
	for _, f := range c11StructFields(n) {
		if pred(f) {
			if found != nil {
				return nil
			}
			found = f
		}
	}
	return found
}

// c11NamedOf strips pointers and returns the named type.
func c11NamedOf(t types.Type) *types.Named {
	if t == nil {
		return nil
	}
	if p, ok := t.(*types.Pointer); ok {
		t = p.Elem()
	}
	n, _ := t.(*types.Named)
	return n
}

func c11RecvNamed(fn *types.Func) *types.Named {
	if fn == nil {
		return nil
	}
	sig, _ := fn.Type().(*types.Signature)
	if sig == nil || sig.Recv() == nil {
		return nil
	}
	return c11NamedOf(sig.Recv().Type())
}

// c11FieldOf returns the struct field a selector expression denotes (nil otherwise).
func c11FieldOf(info *types.Info, e ast.Expr) *types.Var {
	se, ok := ast.Unparen(e).(*ast.SelectorExpr)
	if !ok {
		return nil
	}
	if s := info.Selections[se]; s != nil && s.Kind() == types.FieldVal {
		v, _ := s.Obj().(*types.Var)
		return v
	}
	return nil
}

func c11ObjOf(info *types.Info, e ast.Expr) types.Object {
	id, ok := ast.Unparen(e).(*ast.Ident)
	if !ok {
		return nil
	}
	if o := info.Uses[id]; o != nil {
		return o
	}
	return info.Defs[id]
}

func c11CallsTo(info *types.Info, n ast.Node, fn *types.Func, lits bool) []*ast.CallExpr {
	var out []*ast.CallExpr
	if fn == nil || n == nil {
		return nil
	}
	for _, c := range calls(n, lits) {
		if callee(info, c) == fn {
			out = append(out, c)
		}
	}
	return out
}

// c11Atomic recognises sync/atomic load/store calls on a struct field: atomic.LoadInt32(&x.f),
// atomic.StoreInt32(&x.f, v), x.f.Load(), x.f.Store(v).
func c11Atomic(info *types.Info, call *ast.CallExpr) (kind string, field *types.Var, val ast.Expr) {
	fn := callee(info, call)
	if fn == nil || fn.Pkg() == nil || fn.Pkg().Path() != "sync/atomic" {
		return "", nil, nil
	}
	name := fn.Name()
	switch {
	case strings.HasPrefix(name, "Load"):
		kind = "load"
	case strings.HasPrefix(name, "Store"):
		kind = "store"
	case strings.HasPrefix(name, "Swap"), strings.HasPrefix(name, "CompareAndSwap"), strings.HasPrefix(name, "Add"), strings.HasPrefix(name, "And"), strings.HasPrefix(name, "Or"):
		kind = "rmw"
	default:
		return "", nil, nil
	}
	sig := fn.Type().(*types.Signature)
	if sig.Recv() != nil {
		if se, ok := ast.Unparen(call.Fun).(*ast.SelectorExpr); ok {
			field = c11FieldOf(info, se.X)
		}
		if kind == "store" && len(call.Args) == 1 {
			val = call.Args[0]
		}
		return kind, field, val
	}
	if len(call.Args) == 0 {
		return "", nil, nil
	}
	if u, ok := ast.Unparen(call.Args[0]).(*ast.UnaryExpr); ok && u.Op == token.AND {
		field = c11FieldOf(info, u.X)
	}
	if kind == "store" && len(call.Args) == 2 {
		val = call.Args[1]
	}
	return kind, field, val
}

func c11Resolve(p *Prog) *c11Anchors {
	if a, ok := c11AnchorCache[p]; ok {
		return a
	}
	a := &c11Anchors{}
	c11AnchorCache[p] = a
	a.pk = p.Pkg(c11RT)
	if a.pk == nil {
		a.missing = append(a.missing, "package internal/runtime")
		return a
	}
	a.info = a.pk.TypesInfo
	info := a.info
	miss := func(what string) { a.missing = append(a.missing, what) }
	var funcs []*FuncInfo
	for _, fi := range p.Funcs(c11RT) {
		if !p.isTestFile(fi.File) && fi.Obj != nil {
			funcs = append(funcs, fi)
		}
	}

	// interpreter loop: a method with a condition-less `for` whose body switches on a named integer
	// type of the package in 50 or more clauses.
	var loops []*FuncInfo
	for _, fi := range funcs {
		if fi.Decl.Recv == nil {
			continue
		}
		for _, st := range fi.Decl.Body.List {
			fs, ok := st.(*ast.ForStmt)
			if !ok || fs.Cond != nil {
				continue
			}
			for _, s2 := range fs.Body.List {
				sw, ok := s2.(*ast.SwitchStmt)
				if !ok || sw.Tag == nil || len(sw.Body.List) < 50 {
					continue
				}
				nt, _ := info.TypeOf(sw.Tag).(*types.Named)
				if nt == nil || nt.Obj().Pkg() != a.pk.Types {
					continue
				}
				if b, ok := nt.Underlying().(*types.Basic); !ok || b.Info()&types.IsInteger == 0 {
					continue
				}
				loops = append(loops, fi)
				a.loopFor, a.dispatch, a.opT = fs, sw, nt
			}
		}
	}
	if len(loops) != 1 {
		miss(fmt.Sprintf("interpreter loop (method with `for { switch op {…} }` over the opcode type): %d candidates", len(loops)))
		return a
	}
	a.loop = loops[0]
	a.vmT = c11RecvNamed(a.loop.Obj)
	if a.vmT == nil {
		miss("receiver type of the interpreter loop")
		return a
	}

	// env: the struct of the package with a context.Context field that VM points to.
	for _, f := range c11StructFields(a.vmT) {
		n := c11NamedOf(f.Type())
		if n == nil || n.Obj().Pkg() != a.pk.Types {
			continue
		}
		if c11UniqueField(n, func(v *types.Var) bool { return typeStr(v.Type()) == "context.Context" }) != nil {
			if a.envT != nil && a.envT != n {
				a.envT = nil
				break
			}
			a.envT = n
		}
	}
	if a.envT == nil {
		miss("execution environment type (struct with a context.Context field referenced by the VM)")
		return a
	}
	a.fCtx = c11UniqueField(a.envT, func(v *types.Var) bool { return typeStr(v.Type()) == "context.Context" })
	a.fDoneChan = c11UniqueField(a.envT, func(v *types.Var) bool { _, ok := v.Type().Underlying().(*types.Chan); return ok })
	a.fDoneCase = c11UniqueField(a.envT, func(v *types.Var) bool { return typeStr(v.Type()) == "reflect.SelectCase" })
	a.fCases = c11UniqueField(a.vmT, func(v *types.Var) bool { return typeStr(v.Type()) == "[]reflect.SelectCase" })
	a.fPanic = c11UniqueField(a.vmT, func(v *types.Var) bool {
		pt, ok := v.Type().(*types.Pointer)
		if !ok {
			return false
		}
		n, _ := pt.Elem().(*types.Named)
		if n == nil || n.Obj().Pkg() != a.pk.Types {
			return false
		}
		errT := types.Universe.Lookup("error").Type().Underlying().(*types.Interface)
		if !types.Implements(pt, errT) {
			return false
		}
		return c11UniqueField(n, func(w *types.Var) bool { return types.Identical(w.Type(), pt) }) != nil
	})
	if a.fDoneChan == nil {
		miss("env field of channel type (doneChan)")
	}
	if a.fDoneCase == nil {
		miss("env field of type reflect.SelectCase (doneCase)")
	}
	if a.fCases == nil {
		miss("VM field of type []reflect.SelectCase (cases)")
	}
	if a.fPanic == nil {
		miss("VM field pointing to the self-linked panic record (panic)")
	}

	// done flag: the env field used with sync/atomic; all stores must store the same non-zero constant.
	flags := map[*types.Var]bool{}
	ks := map[int64]bool{}
	for _, fi := range funcs {
		for _, c := range calls(fi.Decl.Body, true) {
			kind, f, val := c11Atomic(info, c)
			if kind == "" || f == nil {
				continue
			}
			owner := false
			for _, ef := range c11StructFields(a.envT) {
				if ef == f {
					owner = true
				}
			}
			if !owner {
				continue
			}
			flags[f] = true
			if kind == "store" {
				a.storeSites++
				if k, ok := intValue(info, val); ok {
					ks[k] = true
				} else {
					ks[-1<<40] = true
				}
			}
			if kind == "rmw" {
				ks[-1<<41] = true
			}
		}
	}
	if len(flags) == 1 {
		for f := range flags {
			a.fDone = f
		}
	}
	if a.fDone == nil {
		miss(fmt.Sprintf("env field accessed with sync/atomic (done flag): %d candidates", len(flags)))
	}
	if len(ks) == 1 {
		for k := range ks {
			a.storeK = k
		}
	}
	if len(ks) != 1 || a.storeK <= 0 {
		miss("the stores to the done flag do not all store one positive constant")
	}

	// recoverable section and classifier.
	for _, fi := range funcs {
		if len(c11CallsTo(info, fi.Decl.Body, a.loop.Obj, false)) == 0 || fi == a.loop {
			continue
		}
		ast.Inspect(fi.Decl.Body, func(n ast.Node) bool {
			ds, ok := n.(*ast.DeferStmt)
			if !ok {
				return true
			}
			lit, ok := ds.Call.Fun.(*ast.FuncLit)
			if !ok {
				return true
			}
			rec := false
			for _, c := range calls(lit.Body, false) {
				if isBuiltinCall(info, c, "recover") {
					rec = true
				}
			}
			if rec {
				if a.recoverable != nil && a.recoverable != fi {
					miss("several recoverable sections")
				}
				a.recoverable, a.recoverLit = fi, lit
			}
			return true
		})
	}
	if a.recoverable == nil {
		miss("recoverable section (function deferring a closure that calls recover and calling the interpreter loop)")
	} else {
		recVars := map[types.Object]bool{}
		ast.Inspect(a.recoverLit.Body, func(n ast.Node) bool {
			if as, ok := n.(*ast.AssignStmt); ok && len(as.Lhs) == 1 && len(as.Rhs) == 1 {
				if c, ok := ast.Unparen(as.Rhs[0]).(*ast.CallExpr); ok && isBuiltinCall(info, c, "recover") {
					if o := c11ObjOf(info, as.Lhs[0]); o != nil {
						recVars[o] = true
					}
				}
			}
			return true
		})
		for _, c := range calls(a.recoverLit.Body, false) {
			fn := callee(info, c)
			if fn == nil || fn.Pkg() != a.pk.Types {
				continue
			}
			for _, arg := range c.Args {
				isRec := recVars[c11ObjOf(info, arg)]
				if ac, ok := ast.Unparen(arg).(*ast.CallExpr); ok && isBuiltinCall(info, ac, "recover") {
					isRec = true
				}
				if isRec {
					for _, fi := range funcs {
						if fi.Obj == fn {
							a.classifier, a.classCall = fi, c
						}
					}
				}
			}
		}
		if a.classifier == nil {
			miss("panic classifier (function receiving the recovered value)")
		}
		// run driver: calls the recoverable section inside a for statement.
		for _, fi := range funcs {
			ast.Inspect(fi.Decl.Body, func(n ast.Node) bool {
				fs, ok := n.(*ast.ForStmt)
				if !ok {
					return true
				}
				if cs := c11CallsTo(info, fs.Body, a.recoverable.Obj, false); len(cs) > 0 {
					if a.driver != nil && a.driver != fi {
						miss("several run drivers")
					}
					a.driver, a.driverFor, a.driverCall = fi, fs, cs[0]
					return false
				}
				return true
			})
		}
		if a.driver == nil {
			miss("run driver (function calling the recoverable section in a loop)")
		}
	}
	if a.driver != nil {
		var entries []*FuncInfo
		for _, fi := range funcs {
			if fi.Obj.Exported() && c11RecvNamed(fi.Obj) == a.vmT && len(c11CallsTo(info, fi.Decl.Body, a.driver.Obj, false)) > 0 {
				entries = append(entries, fi)
			}
		}
		if len(entries) == 1 {
			a.entry = entries[0]
		} else {
			miss(fmt.Sprintf("VM entry point (exported method of the VM calling the run driver): %d candidates", len(entries)))
		}
	}
	// context setter and VM constructor.
	var setters, creators []*FuncInfo
	for _, fi := range funcs {
		sig := fi.Obj.Type().(*types.Signature)
		if c11RecvNamed(fi.Obj) == a.vmT {
			for i := 0; i < sig.Params().Len(); i++ {
				if typeStr(sig.Params().At(i).Type()) == "context.Context" {
					setters = append(setters, fi)
				}
			}
		}
		if sig.Recv() == nil {
			mk := false
			ast.Inspect(fi.Decl.Body, func(n ast.Node) bool {
				if _, ok := n.(*ast.FuncLit); ok {
					return false
				}
				if cl, ok := n.(*ast.CompositeLit); ok {
					if c11NamedOf(info.TypeOf(cl)) == a.vmT {
						mk = true
					}
				}
				return true
			})
			if mk {
				creators = append(creators, fi)
			}
		}
	}
	if len(setters) == 1 {
		a.setCtx = setters[0]
	} else {
		miss(fmt.Sprintf("context setter (method of the VM with a context.Context parameter): %d candidates", len(setters)))
	}
	if len(creators) == 1 {
		a.create = creators[0]
	} else {
		miss(fmt.Sprintf("VM constructor (function building a VM composite literal): %d candidates", len(creators)))
	}
	return a
}

// c11Need reports missing anchors as undecided obligations of rule and returns false when any is missing.
func c11Need(r *Run, rule string, a *c11Anchors) bool {
	for _, m := range a.missing {
		r.Anchor(rule, m, false)
	}
	return len(a.missing) == 0
}

// ---------------------------------------------------------------------------
// Generic helpers.

// c11Body returns the innermost function body (literal or declaration) enclosing n.
func c11Body(p *Prog, fi *FuncInfo, n ast.Node) *ast.BlockStmt {
	par := p.Parents(fi.File)
	for m := par[n]; m != nil; m = par[m] {
		switch x := m.(type) {
		case *ast.FuncLit:
			return x.Body
		case *ast.FuncDecl:
			return x.Body
		}
	}
	return fi.Decl.Body
}

// c11Walk visits, in control-flow order, the nodes reachable from node index i of block b. visit returns
// true to end the path at that node. cut removes edges. end is called for every block reached whose
// nodes were all passed and that has no successor (the walk fell off a return-less exit or a panic).
func c11Walk(c *CFGInfo, b *cfg.Block, i int, cut func(b *cfg.Block, i int) bool, visit func(b *cfg.Block, i int, n ast.Node) bool, end func(b *cfg.Block)) {
	seen := map[*cfg.Block]bool{}
	var walk func(b *cfg.Block, start int)
	walk = func(b *cfg.Block, start int) {
		for j := start; j < len(b.Nodes); j++ {
			if visit(b, j, b.Nodes[j]) {
				return
			}
		}
		if len(b.Succs) == 0 {
			if end != nil {
				end(b)
			}
			return
		}
		for k, s := range b.Succs {
			if cut != nil && cut(b, k) {
				continue
			}
			if !seen[s] {
				seen[s] = true
				walk(s, 0)
			}
		}
	}
	walk(b, i)
}

// c11LitNil decomposes a literal "x == nil" / "x != nil": it returns x and whether the literal states
// that x is nil.
func c11LitNil(info *types.Info, l Lit) (x ast.Expr, isNil bool, ok bool) {
	if l.Tag != nil {
		return nil, false, false
	}
	be, isBin := ast.Unparen(l.Expr).(*ast.BinaryExpr)
	if !isBin || (be.Op != token.EQL && be.Op != token.NEQ) {
		return nil, false, false
	}
	nilSide := func(e ast.Expr) bool { tv, ok := info.Types[e]; return ok && tv.IsNil() }
	switch {
	case nilSide(be.Y):
		x = be.X
	case nilSide(be.X):
		x = be.Y
	default:
		return nil, false, false
	}
	return x, (be.Op == token.EQL) == l.Truth, true
}

// c11Defs lists the right-hand sides assigned to the local variable obj in body. clean is false when
// the variable is also defined in a way the rule does not follow (tuple assignment, range, address
// taken, ++/--).
func c11Defs(info *types.Info, body ast.Node, obj types.Object) (rhs []ast.Expr, clean bool) {
	clean = true
	ast.Inspect(body, func(n ast.Node) bool {
		switch s := n.(type) {
		case *ast.AssignStmt:
			for i, l := range s.Lhs {
				if c11ObjOf(info, l) != obj {
					continue
				}
				if len(s.Lhs) == len(s.Rhs) && (s.Tok == token.ASSIGN || s.Tok == token.DEFINE) {
					rhs = append(rhs, s.Rhs[i])
				} else {
					clean = false
				}
			}
		case *ast.ValueSpec:
			for i, id := range s.Names {
				if info.Defs[id] == obj {
					if len(s.Values) == len(s.Names) {
						rhs = append(rhs, s.Values[i])
					} else if len(s.Values) != 0 {
						clean = false
					}
					// `var x T` is the zero value: no right-hand side recorded
				}
			}
		case *ast.RangeStmt:
			if c11ObjOf(info, s.Key) == obj || (s.Value != nil && c11ObjOf(info, s.Value) == obj) {
				clean = false
			}
		case *ast.IncDecStmt:
			if c11ObjOf(info, s.X) == obj {
				clean = false
			}
		case *ast.UnaryExpr:
			if s.Op == token.AND && c11ObjOf(info, s.X) == obj {
				clean = false
			}
		}
		return true
	})
	return rhs, clean
}

// c11Derives reports whether e denotes the field f, directly (x.f) or through a local variable whose
// only definition is x.f.
func c11Derives(info *types.Info, body ast.Node, e ast.Expr, f *types.Var) bool {
	if f == nil {
		return false
	}
	if c11FieldOf(info, e) == f {
		return true
	}
	obj := c11ObjOf(info, e)
	if v, ok := obj.(*types.Var); ok && !v.IsField() {
		rhs, clean := c11Defs(info, body, obj)
		return clean && len(rhs) == 1 && c11FieldOf(info, rhs[0]) == f
	}
	return false
}

// c11ClauseName names the clause of the dispatch switch containing n ("" outside).
func c11ClauseName(info *types.Info, sw *ast.SwitchStmt, n ast.Node) string {
	if sw == nil {
		return ""
	}
	for _, st := range sw.Body.List {
		cc := st.(*ast.CaseClause)
		if containsNode(cc, n) {
			return c11ClauseLabel(info, cc)
		}
	}
	return ""
}

func c11ClauseLabel(info *types.Info, cc *ast.CaseClause) string {
	if cc.List == nil {
		return "default"
	}
	for _, e := range cc.List {
		if k := constOf(info, e); k != nil {
			return k.Name()
		}
	}
	return exprStr(cc.List[0])
}

func c11CalleeName(info *types.Info, call *ast.CallExpr) string {
	if fn := callee(info, call); fn != nil {
		s := funcKey(fn)
		if fn.Pkg() != nil && !strings.HasPrefix(fn.Pkg().Path(), modulePath) {
			s = strings.TrimPrefix(s, relOf(fn.Pkg())+".")
			s = fn.Pkg().Name() + "." + s
		}
		return s
	}
	return exprStr(call.Fun)
}

// ---------------------------------------------------------------------------

type c11 struct {
	r    *Run
	a    *c11Anchors
	info *types.Info
	lc   *CFGInfo   // graph of the interpreter loop
	disp *cfg.Block // block evaluating the dispatch tag
	poll map[*cfg.Block]bool
}

func runC11(r *Run) {
	a := c11Resolve(r.P)
	if !c11Need(r, "R-1", a) {
		return
	}
	x := &c11{r: r, a: a, info: a.info, poll: map[*cfg.Block]bool{}}
	x.lc = r.P.CFGOf(a.loop)
	x.disp, _ = x.lc.Locate(a.dispatch.Tag)
	if !r.Anchor("R-1", "dispatch block of the interpreter loop", x.disp != nil) {
		return
	}
	x.r1()
	x.r2()
	x.r3()
	x.r4()
	r.Require("R-1", 95)
	r.Require("R-2", 12)
	r.Require("R-3", 5)
	r.Require("R-4", 10)
}

// doneTest recognises a comparison of the atomically loaded flag with a constant and reports whether
// the comparison being true means "flag set".
func (x *c11) doneTest(e ast.Expr) (setWhenTrue bool, ok bool) {
	be, isBin := ast.Unparen(e).(*ast.BinaryExpr)
	if !isBin || (be.Op != token.EQL && be.Op != token.NEQ) {
		return false, false
	}
	for _, sides := range [][2]ast.Expr{{be.X, be.Y}, {be.Y, be.X}} {
		call, isCall := ast.Unparen(sides[0]).(*ast.CallExpr)
		if !isCall {
			continue
		}
		kind, f, _ := c11Atomic(x.info, call)
		if kind != "load" || f != x.a.fDone {
			continue
		}
		k, isConst := intValue(x.info, sides[1])
		if !isConst {
			return false, false
		}
		switch {
		case k == x.a.storeK:
			return be.Op == token.EQL, true
		case k == 0:
			return be.Op == token.NEQ, true
		}
		return false, false
	}
	return false, false
}

func (x *c11) mentionsDoneLoad(e ast.Node) bool {
	found := false
	ast.Inspect(e, func(n ast.Node) bool {
		if c, ok := n.(*ast.CallExpr); ok {
			if kind, f, _ := c11Atomic(x.info, c); kind == "load" && f == x.a.fDone {
				found = true
			}
		}
		return true
	})
	return found
}

// storesDone reports whether fn's body (a function of package runtime) atomically stores the flag.
func (x *c11) storesDone(fn *types.Func) bool {
	for _, fi := range x.r.P.Funcs(c11RT) {
		if fi.Obj != fn {
			continue
		}
		for _, c := range calls(fi.Decl.Body, false) {
			if kind, f, val := c11Atomic(x.info, c); kind == "store" && f == x.a.fDone {
				if k, ok := intValue(x.info, val); ok && k == x.a.storeK {
					return true
				}
			}
		}
	}
	return false
}

// exitsViaStop decides that every path starting at block b (node index i) ends, before the dispatch is
// evaluated again, at a return statement that hands back the result of a function storing the flag
// (or follows such a store).
func (x *c11) exitsViaStop(c *CFGInfo, b *cfg.Block, i int) (ok bool, why string) {
	ok = true
	found := 0
	stored := false
	c11Walk(c, b, i, nil, func(bb *cfg.Block, j int, n ast.Node) bool {
		if !ok {
			return true
		}
		if bb == x.disp && c == x.lc && n == ast.Node(x.a.dispatch.Tag) {
			ok, why = false, "the next instruction is dispatched"
			return true
		}
		for _, cl := range calls(n, false) {
			if kind, f, val := c11Atomic(x.info, cl); kind == "store" && f == x.a.fDone {
				if k, isK := intValue(x.info, val); isK && k == x.a.storeK {
					stored = true
				}
			}
		}
		if rs, isRet := n.(*ast.ReturnStmt); isRet {
			viaStop := stored
			for _, res := range rs.Results {
				if cl, isCall := ast.Unparen(res).(*ast.CallExpr); isCall {
					if fn := callee(x.info, cl); fn != nil && x.storesDone(fn) {
						viaStop = true
					}
				}
			}
			if !viaStop {
				ok, why = false, fmt.Sprintf("the return at %s does not go through a function that stores the done flag", x.r.P.Pos(rs.Pos()))
			}
			found++
			return true
		}
		return false
	}, func(bb *cfg.Block) {
		ok, why = false, "a path ends without returning (panic or fall-through)"
	})
	if ok && found == 0 {
		return false, "no return statement reached"
	}
	return ok, why
}

// ---------------------------------------------------------------------------
// R-1

func (x *c11) r1() {
	const R = "R-1"
	r, a := x.r, x.a
	key := a.loop.Name()
	body := a.loop.Decl.Body
	// the polls: conditional blocks of the loop function whose condition loads the flag.
	npoll := 0
	for _, b := range x.lc.G.Blocks {
		if !b.Live {
			continue
		}
		cd := x.lc.CondOf(b)
		if cd == nil || cd.Tag != nil || !x.mentionsDoneLoad(cd.Expr) {
			continue
		}
		npoll++
		o := r.Ob(R, key+"#poll-condition", cd.Expr.Pos())
		good, hasTest := true, false
		var extra []string
		for _, l := range litsOf(cd.Expr, nil, true) {
			if set, ok := x.doneTest(l.Expr); ok && l.Truth == set {
				hasTest = true
				continue
			}
			if e, isNil, ok := c11LitNil(x.info, l); ok && !isNil && c11Derives(x.info, body, e, a.fDoneChan) {
				extra = append(extra, exprStr(e)+" != nil")
				continue
			}
			good = false
			extra = append(extra, "unrecognised conjunct "+exprStr(l.Expr))
		}
		if !good || !hasTest {
			o.Unknown("the condition %s is not `flag set` optionally conjoined with `a context is set`: %s", exprStr(cd.Expr), strings.Join(extra, "; "))
			continue
		}
		o.OK("true edge of %s holds exactly when a context is set and the flag is %d (other conjuncts: %s)", exprStr(cd.Expr), a.storeK, strings.Join(extra, ", "))
		x.poll[b] = true
		o2 := r.Ob(R, key+"#poll-exit", cd.Expr.Pos())
		if ok, why := x.exitsViaStop(x.lc, b.Succs[0], 0); ok {
			o2.OK("every path from the true edge of the poll returns the result of the stop function, which stores %d in env.%s", a.storeK, a.fDone.Name())
		} else {
			o2.Bad("the true edge of the poll does not leave the loop through the stop function: %s", why)
		}
	}
	if npoll == 0 {
		r.Ob(R, key+"#poll-condition", a.loopFor.Pos()).Bad("the interpreter loop has no conditional that atomically loads env.%s", a.fDone.Name())
	}
	isPoll := func(b *cfg.Block) bool { return x.poll[b] }
	// edges on which no context is set need no poll (nested form: if done != nil { if flag … })
	noCtx := func(b *cfg.Block, i int) bool {
		for _, l := range x.lc.edgeLits(b, i) {
			if e, isNil, ok := c11LitNil(x.info, l); ok && isNil && c11Derives(x.info, body, e, a.fDoneChan) {
				return true
			}
		}
		return false
	}
	o := r.Ob(R, key+"#entry-to-dispatch", a.dispatch.Pos())
	if x.lc.reachable(x.lc.G.Blocks[0], x.disp, noCtx, isPoll) {
		o.Bad("the first instruction can be dispatched without polling env.%s", a.fDone.Name())
	} else {
		o.OK("with the %d poll block(s) removed the dispatch is unreachable from the entry of %s", len(x.poll), key)
	}
	// one obligation per opcode clause: after the clause the next dispatch is preceded by a poll.
	bodyOf := map[ast.Stmt]*cfg.Block{}
	for _, b := range x.lc.G.Blocks {
		if b.Kind == cfg.KindSwitchCaseBody && b.Stmt != nil {
			if _, dup := bodyOf[b.Stmt]; !dup {
				bodyOf[b.Stmt] = b
			}
		}
	}
	for _, st := range a.dispatch.Body.List {
		cc := st.(*ast.CaseClause)
		o := r.Ob(R, key+"#after:"+c11ClauseLabel(x.info, cc), cc.Pos())
		b := bodyOf[cc]
		if b == nil {
			o.Unknown("no body block found for the clause in the control-flow graph")
			continue
		}
		if x.lc.reachable(b, x.disp, noCtx, isPoll) {
			o.Bad("after this clause the next instruction can be dispatched without polling env.%s (a back edge of the loop bypasses the poll)", a.fDone.Name())
		} else {
			o.OK("every path from the clause body back to the dispatch passes a poll block")
		}
	}
}

// ---------------------------------------------------------------------------
// R-2

// deadOrDefaultFlag accepts a disjunct that is a boolean local variable which is never true, or is set
// to true only under a test for reflect.SelectDefault (the select has a default case: it cannot block).
func (x *c11) deadOrDefaultFlag(c *CFGInfo, body ast.Node, e ast.Expr, allowDefault bool) (string, bool) {
	v, ok := c11ObjOf(x.info, e).(*types.Var)
	if !ok || v.IsField() {
		return "", false
	}
	if b, ok := v.Type().Underlying().(*types.Basic); !ok || b.Kind() != types.Bool {
		return "", false
	}
	rhs, clean := c11Defs(x.info, body, v)
	if !clean {
		return "", false
	}
	never := true
	for _, e := range rhs {
		tv := x.info.Types[e]
		if tv.Value == nil || tv.Value.Kind() != constant.Bool {
			return "", false
		}
		if constant.BoolVal(tv.Value) {
			never = false
			if !allowDefault {
				return "", false
			}
			isDefault := func(l Lit) bool {
				var k *types.Const
				if l.Tag != nil {
					k = constOf(x.info, l.Expr)
					return l.Truth && k != nil && k.Pkg() != nil && k.Pkg().Path() == "reflect" && k.Name() == "SelectDefault"
				}
				be, ok := ast.Unparen(l.Expr).(*ast.BinaryExpr)
				if !ok || (be.Op == token.EQL) != l.Truth || (be.Op != token.EQL && be.Op != token.NEQ) {
					return false
				}
				for _, s := range []ast.Expr{be.X, be.Y} {
					if k = constOf(x.info, s); k != nil && k.Pkg() != nil && k.Pkg().Path() == "reflect" && k.Name() == "SelectDefault" {
						return true
					}
				}
				return false
			}
			if !c.GuardedBy(e, isDefault) {
				return "", false
			}
		}
	}
	if never {
		return v.Name() + " is never true (every assignment is the constant false)", true
	}
	return v.Name() + " is set only under a test for reflect.SelectDefault (a select with a default case does not block)", true
}

func (x *c11) r2() {
	const R = "R-2"
	r := x.r
	for _, fi := range r.P.Funcs(c11RT) {
		if r.P.isTestFile(fi.File) {
			continue
		}
		for _, call := range calls(fi.Decl.Body, true) {
			fn := callee(x.info, call)
			kind := ""
			switch {
			case isPkgFunc(fn, "reflect", "Value", "Recv"):
				kind = "reflect.Value.Recv"
			case isPkgFunc(fn, "reflect", "Value", "Send"):
				kind = "reflect.Value.Send"
			case isPkgFunc(fn, "reflect", "", "Select"):
				kind = "reflect.Select"
			default:
				continue
			}
			x.blockingCall(R, fi, call, kind)
		}
		// channel statements of the host: select, <-ch, ch <- v, range over a channel.
		par := r.P.Parents(fi.File)
		ast.Inspect(fi.Decl.Body, func(n ast.Node) bool {
			switch s := n.(type) {
			case *ast.SelectStmt:
				x.hostSelect(R, fi, s)
				return false // its communication clauses are decided with it
			case *ast.UnaryExpr:
				if s.Op == token.ARROW {
					if _, inSel := par[par[s]].(*ast.CommClause); !inSel {
						r.Ob(R, fi.Name()+"#receive:"+exprStr(s.X), s.Pos()).Unknown("host channel receive outside a select that also waits for the context: not understood by the rule")
					}
				}
			case *ast.SendStmt:
				r.Ob(R, fi.Name()+"#send:"+exprStr(s.Chan), s.Pos()).Unknown("host channel send outside a select that also waits for the context: not understood by the rule")
			case *ast.RangeStmt:
				if _, isChan := x.info.TypeOf(s.X).Underlying().(*types.Chan); isChan {
					r.Ob(R, fi.Name()+"#range:"+exprStr(s.X), s.Pos()).Unknown("host range over a channel: not understood by the rule")
				}
			}
			return true
		})
	}
}

// hostSelect: a select statement of the host is accepted when one of its cases receives from the
// context's Done channel (or env.doneChan), or when it has a default clause.
func (x *c11) hostSelect(R string, fi *FuncInfo, s *ast.SelectStmt) {
	o := x.r.Ob(R, fi.Name()+"#select", s.Pos())
	body := c11Body(x.r.P, fi, s)
	for _, st := range s.Body.List {
		cc := st.(*ast.CommClause)
		if cc.Comm == nil {
			o.OK("the select has a default clause: it does not block")
			return
		}
		var rx ast.Expr
		switch c := cc.Comm.(type) {
		case *ast.ExprStmt:
			rx = c.X
		case *ast.AssignStmt:
			if len(c.Rhs) == 1 {
				rx = c.Rhs[0]
			}
		}
		if u, ok := ast.Unparen(rx).(*ast.UnaryExpr); ok && u.Op == token.ARROW {
			if x.isCtxDone(body, u.X) {
				o.OK("one case receives from %s, which is closed on cancellation", exprStr(u.X))
				return
			}
		}
	}
	o.Bad("no case of the select waits for the context's Done channel")
}

// isCtxDone: e is <env>.ctx.Done() or the doneChan field (or a local holding it).
func (x *c11) isCtxDone(body ast.Node, e ast.Expr) bool {
	if c11Derives(x.info, body, e, x.a.fDoneChan) {
		return true
	}
	if c, ok := ast.Unparen(e).(*ast.CallExpr); ok {
		if fn := callee(x.info, c); fn != nil && fn.Name() == "Done" && fn.Pkg() != nil && fn.Pkg().Path() == "context" {
			if se, ok := ast.Unparen(c.Fun).(*ast.SelectorExpr); ok {
				return c11Derives(x.info, body, se.X, x.a.fCtx) || typeStr(x.info.TypeOf(se.X)) == "context.Context"
			}
		}
	}
	return false
}

func (x *c11) blockingCall(R string, fi *FuncInfo, call *ast.CallExpr, kind string) {
	r, a := x.r, x.a
	body := c11Body(r.P, fi, call)
	c := r.P.CFG(x.info, fi.File, body)
	where := fi.Name()
	if fi.Obj == a.loop.Obj {
		if cl := c11ClauseName(x.info, a.dispatch, call); cl != "" {
			where += "#" + cl + ":"
		} else {
			where += "#"
		}
	} else {
		where += "#"
	}
	o := r.Ob(R, where+kind, call.Pos())
	isSelect := kind == "reflect.Select"

	var guardFact string
	noCtx := func(l Lit) bool {
		if e, isNil, ok := c11LitNil(x.info, l); ok && isNil && c11Derives(x.info, body, e, a.fDoneChan) {
			guardFact = exprStr(e) + " == nil"
			return true
		}
		// true edge of a disjunction all of whose members are the no-context test or a flag that is
		// never true / marks a select with a default case
		if l.Tag == nil && l.Truth {
			ds := splitOr(l.Expr)
			if len(ds) < 2 {
				return false
			}
			var facts []string
			for _, d := range ds {
				ok := false
				for _, dl := range litsOf(d, nil, true) {
					if e, isNil, isLit := c11LitNil(x.info, dl); isLit && isNil && c11Derives(x.info, body, e, a.fDoneChan) && len(litsOf(d, nil, true)) == 1 {
						facts = append(facts, exprStr(e)+" == nil")
						ok = true
					}
				}
				if !ok {
					if f, isFlag := x.deadOrDefaultFlag(c, body, d, isSelect); isFlag {
						facts = append(facts, f)
						ok = true
					}
				}
				if !ok {
					return false
				}
			}
			guardFact = strings.Join(facts, " or ")
			return true
		}
		return false
	}
	if c.GuardedBy(call, noCtx) {
		o.OK("only reached when no context is set: dominated by %s", guardFact)
		return
	}
	if !isSelect {
		o.Bad("blocking %s is reachable while a context is set and cannot be interrupted (not dominated by a `%s == nil` test)", kind, a.fDoneChan.Name())
		return
	}
	if len(call.Args) != 1 {
		o.Unknown("unexpected argument list")
		return
	}
	slice := call.Args[0]
	sliceStr := exprStr(slice)
	// gen: E = append(E', …, env.doneCase) ; kill: any other assignment to E
	var gens []*ast.AssignStmt
	isAssignTo := func(n ast.Node) *ast.AssignStmt {
		as, ok := n.(*ast.AssignStmt)
		if !ok {
			return nil
		}
		for _, l := range as.Lhs {
			if exprStr(l) == sliceStr {
				return as
			}
		}
		return nil
	}
	isGen := func(n ast.Node) bool {
		as := isAssignTo(n)
		if as == nil || len(as.Lhs) != 1 || len(as.Rhs) != 1 {
			return false
		}
		ap, ok := ast.Unparen(as.Rhs[0]).(*ast.CallExpr)
		if !ok || !isBuiltinCall(x.info, ap, "append") || len(ap.Args) < 2 || ap.Ellipsis.IsValid() {
			return false
		}
		return c11FieldOf(x.info, ap.Args[len(ap.Args)-1]) == a.fDoneCase
	}
	if !c.MustPassNode(call, isGen) {
		o.Bad("reflect.Select on %s is reachable while a context is set on a path that did not append env.%s to the case slice", sliceStr, a.fDoneCase.Name())
		return
	}
	// no path from a kill to the site without a later gen
	killed := ""
	for _, b := range c.G.Blocks {
		for i, n := range b.Nodes {
			if as := isAssignTo(n); as != nil && !isGen(n) {
				c11Walk(c, b, i+1, nil, func(bb *cfg.Block, j int, m ast.Node) bool {
					if isGen(m) {
						return true
					}
					if containsNode(m, call) {
						killed = r.P.Pos(as.Pos())
						return true
					}
					return false
				}, nil)
			}
			if isGen(n) {
				gens = append(gens, n.(*ast.AssignStmt))
			}
		}
	}
	if killed != "" {
		o.Bad("the case slice %s is reassigned at %s after env.%s was appended and before the Select", sliceStr, killed, a.fDoneCase.Name())
		return
	}
	// the gen(s) that reach the site: those from which the site is reachable without another gen
	var reach []*ast.AssignStmt
	for _, g := range gens {
		gb, gi := c.Locate(g)
		hit := false
		c11Walk(c, gb, gi+1, nil, func(bb *cfg.Block, j int, m ast.Node) bool {
			if containsNode(m, call) {
				hit = true
				return true
			}
			return isGen(m)
		}, nil)
		if hit {
			reach = append(reach, g)
		}
	}
	if len(reach) != 1 {
		o.Unknown("%d appends of env.%s reach this Select; the rule follows exactly one", len(reach), a.fDoneCase.Name())
		return
	}
	gen := reach[0]
	ap := ast.Unparen(gen.Rhs[0]).(*ast.CallExpr)
	nApp := len(ap.Args) - 1
	base := ap.Args[0]

	// the chosen index
	par := r.P.Parents(fi.File)
	as, ok := par[call].(*ast.AssignStmt)
	if !ok || len(as.Rhs) != 1 || len(as.Lhs) != 3 {
		o.Unknown("the results of reflect.Select are not assigned in a three-value assignment")
		return
	}
	chosen := c11ObjOf(x.info, as.Lhs[0])
	if id, isID := as.Lhs[0].(*ast.Ident); !isID || id.Name == "_" || chosen == nil {
		o.Bad("the index chosen by reflect.Select is discarded: the done case cannot be recognised")
		return
	}
	// tests of chosen against an index, met on every path leaving the site
	type test struct {
		b   *cfg.Block
		idx ast.Expr
	}
	var tests []test
	sb, si := c.Locate(as)
	leak := ""
	c11Walk(c, sb, si+1, nil, func(bb *cfg.Block, j int, m ast.Node) bool {
		if j == len(bb.Nodes)-1 {
			if cd := c.CondOf(bb); cd != nil {
				var idx ast.Expr
				if cd.Tag != nil && c11ObjOf(x.info, cd.Tag) == chosen {
					idx = cd.Expr
				} else if be, ok := ast.Unparen(cd.Expr).(*ast.BinaryExpr); ok && cd.Tag == nil && be.Op == token.EQL {
					if c11ObjOf(x.info, be.X) == chosen {
						idx = be.Y
					} else if c11ObjOf(x.info, be.Y) == chosen {
						idx = be.X
					}
				}
				if idx != nil {
					tests = append(tests, test{bb, idx})
					return true
				}
			}
		}
		if _, isRet := m.(*ast.ReturnStmt); isRet {
			leak = "a return at " + r.P.Pos(m.Pos())
			return true
		}
		if c == x.lc && bb == x.disp && m == ast.Node(a.dispatch.Tag) {
			leak = "the dispatch of the next instruction"
			return true
		}
		if m == ast.Node(as) {
			leak = "the Select itself (loop)"
			return true
		}
		return false
	}, func(bb *cfg.Block) { leak = "the end of the function" })
	if leak != "" || len(tests) == 0 {
		o.Bad("a path from the Select reaches %s without comparing the chosen index with the position of env.%s", leak, a.fDoneCase.Name())
		return
	}
	viaFlag := false
	for _, t := range tests {
		if ok, why := x.exitsViaStop(c, t.b.Succs[0], 0); !ok {
			// the Select may sit in a helper that reports the done case to its callers
			if fok, fwhy := x.exitsViaFlag(fi, c, t.b.Succs[0]); fok {
				viaFlag = true
				continue
			} else if fwhy != "" {
				why = fwhy
			}
			o.Bad("when the done case is chosen (%s == %s) the loop is not left through the stop function: %s", chosen.Name(), exprStr(t.idx), why)
			return
		}
	}
	if viaFlag {
		o.OK("env.%s is appended to %s on every path to the Select, %s is compared with the done index on every path leaving it, the equal edge reports the done case to the caller, and every caller tests that result and returns through the stop function", a.fDoneCase.Name(), sliceStr, chosen.Name())
	} else {
		o.OK("env.%s is appended to %s on every path to the Select, %s is compared with the done index on every path leaving it, and the equal edge returns through the stop function", a.fDoneCase.Name(), sliceStr, chosen.Name())
	}

	// position agreement
	o2 := r.Ob(R, where+kind+"/done-index", tests[0].idx.Pos())
	for _, t := range tests {
		if k, isConst := intValue(x.info, t.idx); isConst {
			if k != int64(nApp-1) {
				o2.Bad("%s is compared with %d but append adds %d case(s) with env.%s last: on an empty slice its index is %d", chosen.Name(), k, nApp, a.fDoneCase.Name(), nApp-1)
				return
			}
			if fact, ok := x.baseEmpty(c, fi, gen, base, as); ok {
				o2.OK("constant index %d = %d appended - 1 and the slice is empty before the append: %s", k, nApp, fact)
			} else {
				o2.Bad("the constant index %d is the position of env.%s only if %s is empty before the append, which is not established: %s", k, a.fDoneCase.Name(), exprStr(base), fact)
			}
			return
		}
		// variable index: n := len(E) defined before the append of exactly one case
		v := c11ObjOf(x.info, t.idx)
		rhs, clean := []ast.Expr(nil), false
		if v != nil {
			rhs, clean = c11Defs(x.info, body, v)
		}
		if v == nil || !clean || len(rhs) != 1 {
			o2.Unknown("index expression %s is neither a constant nor a variable with one definition", exprStr(t.idx))
			return
		}
		lc, isCall := ast.Unparen(rhs[0]).(*ast.CallExpr)
		if !isCall || !isBuiltinCall(x.info, lc, "len") || exprStr(lc.Args[0]) != sliceStr || exprStr(base) != sliceStr {
			o2.Unknown("index variable %s is not defined as len(%s)", v.Name(), sliceStr)
			return
		}
		if nApp != 1 {
			o2.Bad("%s holds len(%s) before the append, but %d cases are appended: env.%s is at len+%d", v.Name(), sliceStr, nApp, a.fDoneCase.Name(), nApp-1)
			return
		}
		// the definition must reach the append with no assignment to the slice in between
		db, di := c.Locate(rhs[0])
		clobber := false
		reached := false
		isDef := func(m ast.Node) bool { return containsNode(m, rhs[0]) }
		c11Walk(c, db, di+1, nil, func(bb *cfg.Block, j int, m ast.Node) bool {
			if m == ast.Node(gen) {
				reached = true
				return true
			}
			if isDef(m) {
				return true
			}
			if isAssignTo(m) != nil {
				// a reassignment matters only if the append is then reached without a new definition
				c11Walk(c, bb, j+1, nil, func(b3 *cfg.Block, j3 int, m3 ast.Node) bool {
					if m3 == ast.Node(gen) {
						clobber = true
						return true
					}
					return isDef(m3)
				}, nil)
				return true
			}
			return false
		}, nil)
		if clobber || !reached || !c.MustPassNode(gen, func(n ast.Node) bool { return containsNode(n, rhs[0]) }) {
			o2.Unknown("the definition %s := len(%s) does not provably hold at the append", v.Name(), sliceStr)
			return
		}
		o2.OK("%s = len(%s) taken before the append of exactly one case: it is the index of env.%s whatever the slice held", v.Name(), sliceStr, a.fDoneCase.Name())
		return
	}
}

// isEmptySliceExpr: E[:0], E[0:0], nil, or an empty composite literal.
func (x *c11) isEmptySliceExpr(e ast.Expr) bool {
	e = ast.Unparen(e)
	if tv, ok := x.info.Types[e]; ok && tv.IsNil() {
		return true
	}
	if se, ok := e.(*ast.SliceExpr); ok && se.High != nil && !se.Slice3 {
		if k, ok := intValue(x.info, se.High); ok && k == 0 {
			return true
		}
	}
	if cl, ok := e.(*ast.CompositeLit); ok && len(cl.Elts) == 0 {
		return true
	}
	return false
}

// baseEmpty decides that the slice is empty before the append `gen`: its base is a zero-length
// expression, or the slice is emptied on every path from the Select back to the dispatch AND on the
// recovered-panic path (reflect.Select panics on a send on a closed channel; the recoverable section then
// resumes the program with whatever the slice held).
func (x *c11) baseEmpty(c *CFGInfo, fi *FuncInfo, gen *ast.AssignStmt, base ast.Expr, sel *ast.AssignStmt) (string, bool) {
	a := x.a
	if x.isEmptySliceExpr(base) {
		return "the append starts from the zero-length " + exprStr(base), true
	}
	f := c11FieldOf(x.info, base)
	if f == nil || f != c11FieldOf(x.info, gen.Lhs[0]) {
		return "the base is not the appended field itself", false
	}
	isReset := func(n ast.Node) bool {
		as, ok := n.(*ast.AssignStmt)
		if !ok || len(as.Lhs) != 1 || len(as.Rhs) != 1 || c11FieldOf(x.info, as.Lhs[0]) != f {
			return false
		}
		return x.isEmptySliceExpr(as.Rhs[0])
	}
	// normal paths: from the Select to the next dispatch
	sb, si := c.Locate(sel)
	normal := true
	c11Walk(c, sb, si+1, nil, func(bb *cfg.Block, j int, m ast.Node) bool {
		if isReset(m) {
			return true
		}
		if c == x.lc && bb == x.disp && m == ast.Node(a.dispatch.Tag) {
			normal = false
			return true
		}
		return false
	}, nil)
	if !normal {
		return fmt.Sprintf("a path from the Select back to the dispatch does not reset %s", exprStr(base)), false
	}
	// recovered-panic path: the deferred closure (next to recover) or the entry block of the classifier
	if x.resetOnRecover(f) {
		return fmt.Sprintf("%s is reset on every path from the Select back to the dispatch and on the recovered-panic path", exprStr(base)), true
	}
	return fmt.Sprintf("%s is reset after a Select that returns, but not when reflect.Select panics (send on a closed channel) and the program recovers: the recoverable section %s and the classifier %s leave the stale cases, so the next Select sees them before its own and the constant index no longer denotes the done case",
		exprStr(base), a.recoverable.Name(), a.classifier.Name()), false
}

func (x *c11) resetOnRecover(f *types.Var) bool {
	a := x.a
	isReset := func(n ast.Node) bool {
		as, ok := n.(*ast.AssignStmt)
		return ok && len(as.Lhs) == 1 && len(as.Rhs) == 1 && c11FieldOf(x.info, as.Lhs[0]) == f && x.isEmptySliceExpr(as.Rhs[0])
	}
	// in the deferred closure: every path from the recover() call to the closure's end passes a reset
	lc := x.r.P.CFG(x.info, a.recoverable.File, a.recoverLit.Body)
	for _, cl := range calls(a.recoverLit.Body, false) {
		if !isBuiltinCall(x.info, cl, "recover") {
			continue
		}
		b, i := lc.Locate(cl)
		if b == nil {
			continue
		}
		if lc.MustPassNode(cl, isReset) {
			return true
		}
		missed := false
		c11Walk(lc, b, i+1, nil, func(bb *cfg.Block, j int, m ast.Node) bool {
			if isReset(m) {
				return true
			}
			if _, isRet := m.(*ast.ReturnStmt); isRet {
				missed = true
				return true
			}
			return false
		}, func(bb *cfg.Block) { missed = true })
		if !missed {
			return true
		}
	}
	// in the classifier: every return is preceded by a reset
	cc := x.r.P.CFGOf(a.classifier)
	all := true
	rets := cc.Returns()
	for _, rs := range rets {
		if !cc.MustPassNode(rs, isReset) {
			all = false
		}
	}
	return all && len(rets) > 0
}

// ---------------------------------------------------------------------------
// R-3

func (x *c11) r3() {
	const R = "R-3"
	r, a := x.r, x.a
	fi := a.driver
	key := fi.Name()
	c := r.P.CFGOf(fi)
	body := fi.Decl.Body
	// the watcher: go statements of the driver whose literal stores the flag
	var watcher *ast.GoStmt
	var wlit *ast.FuncLit
	ast.Inspect(body, func(n ast.Node) bool {
		gs, ok := n.(*ast.GoStmt)
		if !ok {
			return true
		}
		if lit, ok := gs.Call.Fun.(*ast.FuncLit); ok {
			for _, cl := range calls(lit.Body, false) {
				if kind, f, _ := c11Atomic(x.info, cl); kind == "store" && f == a.fDone {
					watcher, wlit = gs, lit
				}
			}
		}
		return true
	})
	o := r.Ob(R, key+"#watcher-started", fi.Decl.Pos())
	if watcher == nil {
		o.Bad("the run driver starts no goroutine that stores env.%s", a.fDone.Name())
		return
	}
	// when doneChan != nil the loop is entered only after the go statement
	loopBlk, _ := c.Locate(a.driverCall)
	noCtxEdge := func(b *cfg.Block, i int) bool {
		for _, l := range c.edgeLits(b, i) {
			if e, isNil, ok := c11LitNil(x.info, l); ok && isNil && c11Derives(x.info, body, e, a.fDoneChan) {
				return true
			}
		}
		return false
	}
	hasGo := func(b *cfg.Block) bool {
		for _, n := range b.Nodes {
			if n == ast.Node(watcher) {
				return true
			}
		}
		return false
	}
	if loopBlk == nil {
		o.Unknown("call of the recoverable section not located in the graph")
	} else if c.reachable(c.G.Blocks[0], loopBlk, noCtxEdge, hasGo) {
		o.Bad("with env.%s != nil the driver can reach %s without starting the watcher goroutine", a.fDoneChan.Name(), a.recoverable.Name())
	} else {
		o.OK("every path to %s on which env.%s != nil passes the go statement at %s", a.recoverable.Name(), a.fDoneChan.Name(), r.P.Pos(watcher.Pos()))
	}

	// the watcher body: the store is the body of a select case (or follows a plain receive) on ctx.Done()
	o = r.Ob(R, key+"$watcher#stores-on-done", wlit.Pos())
	var stopChan types.Object
	storeOK := false
	problem := "the store of the flag is not the reaction to a receive from the context's Done channel"
	ast.Inspect(wlit.Body, func(n ast.Node) bool {
		sel, ok := n.(*ast.SelectStmt)
		if !ok {
			return true
		}
		for _, st := range sel.Body.List {
			cc := st.(*ast.CommClause)
			var rx ast.Expr
			switch cm := cc.Comm.(type) {
			case *ast.ExprStmt:
				rx = cm.X
			case *ast.AssignStmt:
				if len(cm.Rhs) == 1 {
					rx = cm.Rhs[0]
				}
			}
			u, isRecv := ast.Unparen(rx).(*ast.UnaryExpr)
			if cc.Comm == nil {
				problem = "the watcher's select has a default clause: it would not wait"
				storeOK = false
				return false
			}
			if !isRecv || u.Op != token.ARROW {
				continue
			}
			stores := false
			for _, s := range cc.Body {
				for _, cl := range calls(s, false) {
					if kind, f, val := c11Atomic(x.info, cl); kind == "store" && f == a.fDone {
						if k, ok := intValue(x.info, val); ok && k == a.storeK {
							stores = true
						}
					}
				}
			}
			if x.isCtxDone(wlit.Body, u.X) {
				if stores {
					storeOK = true
				}
			} else {
				if stores {
					problem = "the flag is stored on a receive from " + exprStr(u.X) + ", which is not the context's Done channel"
					storeOK = false
					return false
				}
				if ob := c11ObjOf(x.info, u.X); ob != nil {
					stopChan = ob
				}
			}
		}
		return false
	})
	if !storeOK {
		// plain form: <-ctx.Done(); store
		var seenRecv bool
		for _, st := range wlit.Body.List {
			if es, ok := st.(*ast.ExprStmt); ok {
				if u, ok := ast.Unparen(es.X).(*ast.UnaryExpr); ok && u.Op == token.ARROW && x.isCtxDone(wlit.Body, u.X) {
					seenRecv = true
					continue
				}
				if cl, ok := es.X.(*ast.CallExpr); ok && seenRecv {
					if kind, f, _ := c11Atomic(x.info, cl); kind == "store" && f == a.fDone {
						storeOK = true
					}
				}
			}
		}
	}
	if storeOK {
		o.OK("the goroutine stores %d in env.%s in the case that receives from the context's Done channel", a.storeK, a.fDone.Name())
	} else {
		o.Bad("%s", problem)
	}

	// the stop channel is closed exactly once on every return path after the go statement
	o = r.Ob(R, key+"#stop-channel-closed", watcher.Pos())
	if stopChan == nil {
		o.Trivial("the watcher waits for no stop channel")
	} else {
		rhs, clean := c11Defs(x.info, body, stopChan)
		if !clean || len(rhs) != 1 {
			o.Unknown("the stop channel %s has %d definitions; the rule needs exactly one (a make)", stopChan.Name(), len(rhs))
		} else {
			isClose := func(n ast.Node) bool {
				es, ok := n.(*ast.ExprStmt)
				if !ok {
					return false
				}
				cl, ok := es.X.(*ast.CallExpr)
				return ok && isBuiltinCall(x.info, cl, "close") && len(cl.Args) == 1 && c11ObjOf(x.info, cl.Args[0]) == stopChan
			}
			nilEdge := func(b *cfg.Block, i int) bool {
				for _, l := range c.edgeLits(b, i) {
					if e, isNil, ok := c11LitNil(x.info, l); ok && isNil && c11ObjOf(x.info, e) == stopChan {
						return true
					}
				}
				return false
			}
			wb, wi := c.Locate(watcher)
			var missed []string
			c11Walk(c, wb, wi+1, nilEdge, func(bb *cfg.Block, j int, m ast.Node) bool {
				if isClose(m) {
					return true
				}
				if _, isRet := m.(*ast.ReturnStmt); isRet {
					missed = append(missed, r.P.Pos(m.Pos()))
					return true
				}
				return false
			}, func(bb *cfg.Block) { missed = append(missed, "end of function") })
			// at most once
			twice := ""
			for _, b := range c.G.Blocks {
				for i, n := range b.Nodes {
					if isClose(n) {
						c11Walk(c, b, i+1, nilEdge, func(bb *cfg.Block, j int, m ast.Node) bool {
							if isClose(m) {
								twice = r.P.Pos(m.Pos())
								return true
							}
							return false
						}, nil)
					}
				}
			}
			switch {
			case len(missed) > 0:
				o.Bad("the watcher's stop channel %s is not closed before the return(s) at %s: the goroutine outlives the run", stopChan.Name(), strings.Join(missed, ", "))
			case twice != "":
				o.Bad("the stop channel %s can be closed a second time at %s (host panic)", stopChan.Name(), twice)
			default:
				o.OK("on every path from the go statement to a return (edges with %s == nil removed) close(%s) is executed, and never twice", stopChan.Name(), stopChan.Name())
			}
		}
	}

	// after the loop: flag set -> ctx.Err()
	var testBlk *cfg.Block
	for _, b := range c.G.Blocks {
		if cd := c.CondOf(b); cd != nil && cd.Tag == nil && b.Live {
			for _, l := range litsOf(cd.Expr, nil, true) {
				if set, ok := x.doneTest(l.Expr); ok && set == l.Truth {
					testBlk = b
				}
			}
		}
	}
	o = r.Ob(R, key+"#flag-set-returns-ctx-error", fi.Decl.Pos())
	if testBlk == nil {
		o.Bad("the run driver never tests env.%s after the loop: a cancelled run would return nil", a.fDone.Name())
		return
	}
	good, why := true, ""
	nret := 0
	c11Walk(c, testBlk.Succs[0], 0, nil, func(bb *cfg.Block, j int, m ast.Node) bool {
		if rs, ok := m.(*ast.ReturnStmt); ok {
			nret++
			isErr := false
			if len(rs.Results) == 1 {
				if cl, ok := ast.Unparen(rs.Results[0]).(*ast.CallExpr); ok {
					if fn := callee(x.info, cl); fn != nil && fn.Name() == "Err" && fn.Pkg() != nil && fn.Pkg().Path() == "context" {
						if se, ok := ast.Unparen(cl.Fun).(*ast.SelectorExpr); ok && c11Derives(x.info, body, se.X, a.fCtx) {
							isErr = true
						}
					}
				}
			}
			if !isErr {
				good, why = false, "the return at "+r.P.Pos(rs.Pos())+" does not return env."+a.fCtx.Name()+".Err()"
			}
			return true
		}
		if containsNode(m, a.driverCall) {
			good, why = false, "the loop is re-entered"
			return true
		}
		return false
	}, func(bb *cfg.Block) { good, why = false, "a path ends without return" })
	if good && nret > 0 {
		o.OK("the true edge of the flag test returns env.%s.Err()", a.fCtx.Name())
	} else {
		o.Bad("flag set does not lead to returning the context's error: %s", why)
	}
	// every return after the loop (not inside it) is behind the flag test unless no watcher exists
	o = r.Ob(R, key+"#normal-returns-behind-flag-test", fi.Decl.Pos())
	var open []string
	nAfter := 0
	for _, rs := range c.Returns() {
		if containsNode(a.driverFor, rs) {
			continue
		}
		rb, _ := c.Locate(rs)
		if rb == nil || rb == testBlk.Succs[0] {
			continue
		}
		nAfter++
		nilEdge := func(b *cfg.Block, i int) bool {
			for _, l := range c.edgeLits(b, i) {
				if e, isNil, ok := c11LitNil(x.info, l); ok && isNil && stopChan != nil && c11ObjOf(x.info, e) == stopChan {
					return true
				}
			}
			return false
		}
		wb, _ := c.Locate(watcher)
		if c.reachable(wb, rb, nilEdge, func(b *cfg.Block) bool { return b == testBlk }) {
			open = append(open, r.P.Pos(rs.Pos()))
		}
	}
	if len(open) > 0 {
		o.Bad("with a watcher running, the return(s) at %s after the loop are reachable without testing env.%s: a run stopped by cancellation would report the code's outcome", strings.Join(open, ", "), a.fDone.Name())
	} else {
		o.OK("the %d return(s) after the driver loop are reachable from the go statement only through the flag test", nAfter)
	}
}

// ---------------------------------------------------------------------------
// R-4

func (x *c11) r4() {
	const R = "R-4"
	r, a := x.r, x.a
	// (a) the setter: each non-zero assignment of doneChan comes with a doneCase receiving from the same channel
	fi := a.setCtx
	key := fi.Name()
	c := r.P.CFGOf(fi)
	n := 0
	ast.Inspect(fi.Decl.Body, func(nd ast.Node) bool {
		as, ok := nd.(*ast.AssignStmt)
		if !ok || len(as.Lhs) != 1 || len(as.Rhs) != 1 || c11FieldOf(x.info, as.Lhs[0]) != a.fDoneChan {
			return true
		}
		if tv, ok := x.info.Types[as.Rhs[0]]; ok && tv.IsNil() {
			return true
		}
		n++
		o := r.Ob(R, key+"#doneChan-with-doneCase", as.Pos())
		src := c11ObjOf(x.info, as.Rhs[0])
		if src == nil {
			o.Unknown("env.%s is assigned from %s, not from a variable holding ctx.Done()", a.fDoneChan.Name(), exprStr(as.Rhs[0]))
			return true
		}
		rhs, clean := c11Defs(x.info, fi.Decl.Body, src)
		isDone := false
		if clean && len(rhs) == 1 {
			isDone = x.isCtxDone(fi.Decl.Body, rhs[0])
		}
		if !isDone {
			o.Bad("env.%s is not set from the Done channel of the context given", a.fDoneChan.Name())
			return true
		}
		blk, _ := c.Locate(as)
		paired := ""
		for _, m := range blk.Nodes {
			as2, ok := m.(*ast.AssignStmt)
			if !ok || len(as2.Lhs) != 1 || c11FieldOf(x.info, as2.Lhs[0]) != a.fDoneCase {
				continue
			}
			cl, ok := ast.Unparen(as2.Rhs[0]).(*ast.CompositeLit)
			if !ok {
				paired = "assigned from a non-literal"
				continue
			}
			dirOK, chanOK := false, false
			for _, el := range cl.Elts {
				kv, ok := el.(*ast.KeyValueExpr)
				if !ok {
					continue
				}
				switch exprStr(kv.Key) {
				case "Dir":
					if k := constOf(x.info, kv.Value); k != nil && k.Name() == "SelectRecv" && k.Pkg().Path() == "reflect" {
						dirOK = true
					}
				case "Chan":
					if vc, ok := ast.Unparen(kv.Value).(*ast.CallExpr); ok && isPkgFunc(callee(x.info, vc), "reflect", "", "ValueOf") && len(vc.Args) == 1 && c11ObjOf(x.info, vc.Args[0]) == src {
						chanOK = true
					}
				}
			}
			if dirOK && chanOK {
				paired = "ok"
			} else {
				paired = fmt.Sprintf("literal has Dir==SelectRecv:%v Chan==reflect.ValueOf(%s):%v", dirOK, src.Name(), chanOK)
			}
		}
		switch paired {
		case "ok":
			o.OK("same block sets env.%s = reflect.SelectCase{Dir: SelectRecv, Chan: reflect.ValueOf(%s)} for the channel stored in env.%s", a.fDoneCase.Name(), src.Name(), a.fDoneChan.Name())
		case "":
			o.Bad("env.%s is set without setting env.%s in the same block: blocking operations would select on a stale or zero case", a.fDoneChan.Name(), a.fDoneCase.Name())
		default:
			o.Bad("env.%s is set but env.%s does not receive from the same channel: %s", a.fDoneChan.Name(), a.fDoneCase.Name(), paired)
		}
		return true
	})
	if n == 0 {
		r.Ob(R, key+"#doneChan-with-doneCase", fi.Decl.Pos()).Bad("the context setter never sets env.%s", a.fDoneChan.Name())
	}
	// the setter stores the context itself
	o := r.Ob(R, key+"#stores-context", fi.Decl.Pos())
	stored := false
	ast.Inspect(fi.Decl.Body, func(nd ast.Node) bool {
		if as, ok := nd.(*ast.AssignStmt); ok && len(as.Lhs) == 1 && len(as.Rhs) == 1 && c11FieldOf(x.info, as.Lhs[0]) == a.fCtx {
			if v, ok := c11ObjOf(x.info, as.Rhs[0]).(*types.Var); ok && typeStr(v.Type()) == "context.Context" {
				blk, _ := c.Locate(as)
				if blk == c.G.Blocks[0] {
					stored = true
				}
			}
		}
		return true
	})
	o.Set(stored, "env."+a.fCtx.Name()+" is assigned the parameter unconditionally", "env."+a.fCtx.Name()+" is not unconditionally assigned the context parameter (the watcher and ctx.Err() read it)")

	// (b) who may write doneChan / doneCase / ctx
	for _, f := range []*types.Var{a.fDoneChan, a.fDoneCase, a.fCtx} {
		o := r.Ob(R, "runtime.env."+f.Name()+"#writers", f.Pos())
		var others []string
		for _, g := range r.P.Funcs(c11RT) {
			if r.P.isTestFile(g.File) || g.Obj == a.setCtx.Obj {
				continue
			}
			ast.Inspect(g.Decl.Body, func(nd ast.Node) bool {
				switch s := nd.(type) {
				case *ast.AssignStmt:
					for _, l := range s.Lhs {
						if c11FieldOf(x.info, l) == f {
							others = append(others, g.Name())
						}
					}
				case *ast.UnaryExpr:
					if s.Op == token.AND && c11FieldOf(x.info, s.X) == f {
						others = append(others, g.Name()+" (address taken)")
					}
				case *ast.CompositeLit:
					if c11NamedOf(x.info.TypeOf(s)) == a.envT {
						for _, el := range s.Elts {
							if kv, ok := el.(*ast.KeyValueExpr); ok && exprStr(kv.Key) == f.Name() {
								others = append(others, g.Name()+" (literal)")
							}
						}
					}
				}
				return true
			})
		}
		if len(others) > 0 {
			sort.Strings(others)
			o.Bad("env.%s is also written outside %s: %s", f.Name(), a.setCtx.Name(), strings.Join(others, ", "))
		} else {
			o.OK("%s is the only function of package runtime writing env.%s", a.setCtx.Name(), f.Name())
		}
	}

	// (c) both public Run methods
	root := r.P.Pkg("")
	nrun := 0
	if root != nil {
		rinfo := root.TypesInfo
		for _, g := range r.P.Funcs("") {
			if r.P.isTestFile(g.File) {
				continue
			}
			runs := c11CallsTo(rinfo, g.Decl.Body, a.entry.Obj, false)
			if len(runs) == 0 {
				continue
			}
			nrun++
			x.publicRun(R, g, rinfo, runs[0])
		}
	}
	if nrun < 2 {
		r.Ob(R, "scriggo#callers-of-VM.Run", token.NoPos).Unknown("found %d functions of the root package calling %s, expected the two Run methods", nrun, a.entry.Name())
	}

	// (d) every VM created in package runtime while running shares the env
	for _, g := range r.P.Funcs(c11RT) {
		if r.P.isTestFile(g.File) {
			continue
		}
		for _, cl := range c11CallsTo(x.info, g.Decl.Body, a.create.Obj, true) {
			o := r.Ob(R, g.Name()+"#"+a.create.Name(), cl.Pos())
			if len(cl.Args) != 1 {
				o.Unknown("unexpected arguments")
				continue
			}
			arg := ast.Unparen(cl.Args[0])
			if c11FieldOf(x.info, arg) != nil && c11NamedOf(x.info.TypeOf(arg)) == a.envT {
				o.OK("the new VM receives %s, the env of the running VM (same done flag, doneChan and doneCase)", exprStr(arg))
				continue
			}
			if v, ok := c11ObjOf(x.info, arg).(*types.Var); ok && c11NamedOf(v.Type()) == a.envT {
				// a parameter or captured variable of type *env
				rhs, clean := c11Defs(x.info, g.Decl.Body, v)
				if clean && len(rhs) == 0 {
					o.OK("the new VM receives the env passed in (%s)", v.Name())
					continue
				}
			}
			if g.Obj.Exported() && g.Decl.Recv == nil {
				o.Trivial("exported constructor %s starts a fresh env; the context is set on it afterwards through %s", g.Name(), a.setCtx.Name())
				continue
			}
			o.Bad("a VM is created with %s instead of the running env: code it runs ignores the cancellation", exprStr(arg))
		}
	}
	// the goroutine VM is started on the driver (which polls through the loop)
	for _, g := range r.P.Funcs(c11RT) {
		if r.P.isTestFile(g.File) {
			continue
		}
		ast.Inspect(g.Decl.Body, func(nd ast.Node) bool {
			gs, ok := nd.(*ast.GoStmt)
			if !ok {
				return true
			}
			if fn := callee(x.info, gs.Call); fn != nil && c11RecvNamed(fn) == a.vmT {
				o := r.Ob(R, g.Name()+"#go:"+fn.Name(), gs.Pos())
				if fn == a.driver.Obj {
					o.OK("interpreted goroutines run %s, i.e. the polled loop", a.driver.Name())
				} else {
					o.Bad("an interpreted goroutine is started on %s, not on the run driver", funcKey(fn))
				}
			}
			return true
		})
	}
}

// wiredHelper decides the context wiring when the public Run method obtains its VM from a helper of the
// package: every return of the helper hands back the VM on which the setter was called, and a return is
// reached without the setter only over an edge on which the options (or their context) are nil.
func (x *c11) wiredHelper(o *Obl, g, h *FuncInfo) {
	r, a := x.r, x.a
	info := h.Pkg.TypesInfo
	var set *ast.CallExpr
	var ctxField *types.Var
	var hv types.Object
	for _, cl := range c11CallsTo(info, h.Decl.Body, a.setCtx.Obj, false) {
		se, ok := ast.Unparen(cl.Fun).(*ast.SelectorExpr)
		if !ok || len(cl.Args) != 1 {
			continue
		}
		if f := c11FieldOf(info, cl.Args[0]); f != nil && typeStr(f.Type()) == "context.Context" {
			set, ctxField, hv = cl, f, c11ObjOf(info, se.X)
		}
	}
	if set == nil || hv == nil {
		o.Bad("%s runs the VM made by %s, which does not pass RunOptions' context to %s", g.Name(), h.Name(), a.setCtx.Name())
		return
	}
	optObj := types.Object(nil)
	if se, ok := ast.Unparen(set.Args[0]).(*ast.SelectorExpr); ok {
		optObj = c11ObjOf(info, se.X)
	}
	c := r.P.CFGOf(h)
	nilEdge := func(b *cfg.Block, i int) bool {
		for _, l := range c.edgeLits(b, i) {
			if e, isNil, ok := c11LitNil(info, l); ok && isNil {
				if c11FieldOf(info, e) == ctxField || (optObj != nil && c11ObjOf(info, e) == optObj) {
					return true
				}
			}
		}
		return false
	}
	setBlk, _ := c.Locate(set)
	if setBlk == nil {
		o.Unknown("setter call not located in the graph of %s", h.Name())
		return
	}
	nret := 0
	bad := ""
	ast.Inspect(h.Decl.Body, func(n ast.Node) bool {
		if _, ok := n.(*ast.FuncLit); ok {
			return false
		}
		rs, ok := n.(*ast.ReturnStmt)
		if !ok {
			return true
		}
		nret++
		if len(rs.Results) < 1 || c11ObjOf(info, rs.Results[0]) != hv {
			bad = "a return of " + h.Name() + " does not hand back the VM the context was set on"
			return true
		}
		rb, _ := c.Locate(rs)
		if rb == nil {
			bad = "return not located in the graph"
			return true
		}
		if c.reachable(c.G.Blocks[0], rb, nilEdge, func(b *cfg.Block) bool { return b == setBlk }) {
			bad = "with a non-nil " + exprStr(set.Args[0]) + " " + h.Name() + " can return the VM without " + a.setCtx.Name() + " having been called"
		}
		return true
	})
	switch {
	case nret == 0:
		o.Unknown("%s has no return statement", h.Name())
	case strings.HasPrefix(bad, "return not"):
		o.Unknown("%s", bad)
	case bad != "":
		o.Bad("%s", bad)
	default:
		o.OK("%s takes its VM from %s, every return of which is reached with %s != nil only after %s(%s) on the returned VM", g.Name(), h.Name(), exprStr(set.Args[0]), a.setCtx.Name(), exprStr(set.Args[0]))
	}
}

func (x *c11) publicRun(R string, g *FuncInfo, info *types.Info, run *ast.CallExpr) {
	r, a := x.r, x.a
	o := r.Ob(R, g.Name()+"#context-wired", run.Pos())
	c := r.P.CFGOf(g)
	vmObj := types.Object(nil)
	if se, ok := ast.Unparen(run.Fun).(*ast.SelectorExpr); ok {
		vmObj = c11ObjOf(info, se.X)
	}
	var set *ast.CallExpr
	var ctxField *types.Var
	for _, cl := range c11CallsTo(info, g.Decl.Body, a.setCtx.Obj, false) {
		se, ok := ast.Unparen(cl.Fun).(*ast.SelectorExpr)
		if !ok || c11ObjOf(info, se.X) != vmObj || len(cl.Args) != 1 {
			continue
		}
		if f := c11FieldOf(info, cl.Args[0]); f != nil && typeStr(f.Type()) == "context.Context" {
			set, ctxField = cl, f
		}
	}
	if set == nil {
		// the VM may come from a constructor helper of the package that wires the options: `vm := newVM(options)`
		if v, ok := vmObj.(*types.Var); ok {
			rhs, clean := c11Defs(info, g.Decl.Body, v)
			if clean && len(rhs) == 1 {
				if hc, ok := ast.Unparen(rhs[0]).(*ast.CallExpr); ok {
					if hf := callee(info, hc); hf != nil {
						for _, h := range r.P.Funcs("") {
							if h.Obj == hf && !r.P.isTestFile(h.File) {
								x.wiredHelper(o, g, h)
								return
							}
						}
					}
				}
			}
		}
		o.Bad("%s runs the VM without passing RunOptions' context to %s on the same VM", g.Name(), a.setCtx.Name())
		return
	}
	optObj := types.Object(nil)
	if se, ok := ast.Unparen(set.Args[0]).(*ast.SelectorExpr); ok {
		optObj = c11ObjOf(info, se.X)
	}
	nilEdge := func(b *cfg.Block, i int) bool {
		for _, l := range c.edgeLits(b, i) {
			if e, isNil, ok := c11LitNil(info, l); ok && isNil {
				if c11FieldOf(info, e) == ctxField || (optObj != nil && c11ObjOf(info, e) == optObj) {
					return true
				}
			}
		}
		return false
	}
	setBlk, _ := c.Locate(set)
	runBlk, _ := c.Locate(run)
	if setBlk == nil || runBlk == nil {
		o.Unknown("calls not located in the graph")
		return
	}
	if c.reachable(c.G.Blocks[0], runBlk, nilEdge, func(b *cfg.Block) bool { return b == setBlk }) {
		o.Bad("with a non-nil %s the VM can be run without %s having been called", exprStr(set.Args[0]), a.setCtx.Name())
		return
	}
	o.OK("every path to %s on which %s != nil passes %s(%s) on the same VM", a.entry.Name(), exprStr(set.Args[0]), a.setCtx.Name(), exprStr(set.Args[0]))
}
