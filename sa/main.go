package main

import (
	"encoding/json"
	"flag"
	"fmt"
	"os"
	"runtime/debug"
	"runtime/pprof"
	"sort"
	"strconv"
	"strings"
	"time"
)

// ruleSet is the set of rules deciding the structural clauses of one property.
type ruleSet struct {
	explain string   // the clause decided
	notCov  []string // what the rules do not decide
	trusted []string
	run     func(r *Run)
	arch386 bool // thorough: repeat under GOARCH=386 (word-size dependent rules)
	tests   bool // thorough: also load _test files (who-may-write rules)
}

var registry = map[string]*ruleSet{}

func register(id string, rs *ruleSet) { registry[id] = rs }

func main() {
	prop := flag.String("property", "", "property id (Cxx) or 'all'")
	tier := flag.String("tier", "quick", "quick|thorough")
	repo := flag.String("repo", "/repo", "repository to analyse")
	verif := flag.String("verif", "/verif", "verification directory (known_findings.txt, evidence/)")
	replay := flag.String("replay", "", "report file to replay")
	list := flag.Bool("list", false, "list registered properties")
	prof := flag.String("cpuprofile", "", "write a CPU profile (development)")
	flag.Parse()
	if *prof != "" {
		f, _ := os.Create(*prof)
		pprof.StartCPUProfile(f)
		defer pprof.StopCPUProfile()
		exit = func(c int) { pprof.StopCPUProfile(); os.Exit(c) }
	}
	if *list {
		for _, k := range sortedKeys(registry) {
			fmt.Println(k)
		}
		return
	}
	if *replay != "" {
		b, err := os.ReadFile(*replay)
		if err != nil {
			fmt.Println(err)
			os.Exit(2)
		}
		var rep struct {
			PropertyID string `json:"property_id"`
			Violations []*Obl `json:"violations"`
		}
		if err := json.Unmarshal(b, &rep); err != nil {
			fmt.Println(err)
			os.Exit(2)
		}
		fmt.Printf("replaying %d reported obligations of %s against %s\n", len(rep.Violations), rep.PropertyID, *repo)
		for _, o := range rep.Violations {
			fmt.Printf("  reported: %s %s %s at %s: %s\n", o.Verdict, o.Rule, o.Construct, o.Pos, o.Fact)
		}
		*prop = rep.PropertyID
	}
	seed, _ := strconv.Atoi(os.Getenv("VERIF_SEED"))
	var ids []string
	if *prop == "all" {
		ids = sortedKeys(registry)
	} else {
		ids = strings.Split(*prop, ",")
	}
	sort.Strings(ids)
	for _, id := range ids {
		if registry[id] == nil {
			fmt.Printf("unknown property %q\n", id)
			os.Exit(2)
		}
	}
	start := time.Now()
	prog, err := Load(*repo, "", false)
	if err != nil {
		failAll(ids, *verif, *tier, seed, start, err.Error())
		os.Exit(1)
	}
	var prog386, progTests *Prog
	code := 0
	for _, id := range ids {
		rs := registry[id]
		t0 := time.Now()
		if *prop != "all" {
			t0 = start
		}
		r := NewRun(id, *tier, prog)
		r.Explain, r.NotCov, r.Trusted = rs.explain, rs.notCov, rs.trusted
		safeRun(r, rs.run)
		if *tier == "thorough" {
			if rs.arch386 {
				if prog386 == nil {
					prog386, err = Load(*repo, "386", false)
				}
				runVariant(r, rs, prog386, err, "@386")
			}
			if rs.tests {
				if progTests == nil {
					progTests, err = Load(*repo, "", true)
				}
				runVariant(r, rs, progTests, err, "@tests")
			}
		}
		cmdline := fmt.Sprintf("bin/scriggosa -property %s -tier %s -repo %s", id, *tier, *repo)
		if c := r.Finish(*verif, t0, seed, cmdline); c > code {
			code = c
		}
	}
	exit(code)
}

var exit = os.Exit

func runVariant(r *Run, rs *ruleSet, p *Prog, err error, suffix string) {
	if err != nil || p == nil {
		r.Ob("core", "load"+suffix, 0).Unknown("loading variant failed: %v", err)
		return
	}
	r2 := NewRun(r.Prop, r.Tier, p)
	safeRun(r2, rs.run)
	for _, o := range r2.Obls {
		o.Construct += suffix
		r.Obls = append(r.Obls, o)
	}
	for k, v := range r2.Stats {
		r.Stats[k+suffix] = v
	}
}

func safeRun(r *Run, f func(*Run)) {
	defer func() {
		if e := recover(); e != nil {
			r.Ob("core", "analyser-panic", 0).Unknown("analyser panicked: %v\n%s", e, debug.Stack())
		}
	}()
	f(r)
}

func failAll(ids []string, verif, tier string, seed int, start time.Time, msg string) {
	for _, id := range ids {
		r := &Run{Prop: id, Tier: tier, P: &Prog{Repo: "/repo"}, Min: map[string]int{}, seen: map[string]*Obl{}, Stats: map[string]int{}}
		r.Explain = registry[id].explain
		r.Ob("core", "load", 0).Unknown("%s", msg)
		r.Finish(verif, start, seed, "bin/scriggosa -property "+id)
	}
}
