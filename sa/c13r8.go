package main

// C13 R-8 (added after seeded change C13-7): the recover instruction stops a panic only for the deferred
// function the panic itself is running.
//
// "Run returns E unless the template itself recovers the panic": a template recovers a panic, as in Go,
// only with a recover() called directly by a deferred function that runs because of that panic. The
// instruction decides it by walking down the call stack from the frame of its caller: frames whose
// status is `deferred` (deferred calls still pending, pushed by the caller itself) lie between the caller
// and the frame that tells why the caller runs; the first frame of any other status is that frame, and
// the panic is recovered only if its status is `panicked`. Hence, for every store of the status
// `recovered` into a frame of the call stack:
//
//	(a) the store is reached only when the status read from that very frame is `panicked`;
//	(b) the walk moves on to another frame, inside a loop, only when the status read from the current
//	    frame is `deferred`.
//
// Both are decided by a finite-domain evaluation: for every value v of the status enumeration the
// control-flow graph is walked from every point where the inspected frame changes (the start of the
// region, every assignment of the index variable), following only the edges whose conditions are
// compatible with "status of the inspected frame == v" (three-valued: conditions about anything else are
// unknown and both edges are followed). If (a) or (b) fails for some v there is a template in which a
// recover() that must return nil (called by a helper of the deferred function, or by the deferred
// closure of a helper that returns normally) stops the output-error panic of a failed write: the
// deferred calls go on, the function returns normally and Run returns nil instead of E.
//
// Accepted idioms: switch on the status / if chains / `a == K`, `K == a`, `!=`, &&, ||, !; the status or
// the frame held in a local (`st := vm.calls[i].status`, `call := &vm.calls[i]`); the skip of the
// deferred frames made in the loop condition with the store after the loop; the walk in a helper; the
// search in a helper that returns the index of (or a pointer to) the frame, or a sentinel (-1, nil), with
// the mark in the caller guarded by `i >= 0` / `i != -1` / `f != nil`: the helper is summarised per status
// value (for which values a frame is returned; where it steps to another frame) and a comparison of its
// result with a constant is decided from the sentinels when no frame is returned for the value at hand.
//
// The frame model and the walker are shared with R-9 (c13r9.go).

import (
	"go/ast"
	"go/constant"
	"go/token"
	"go/types"
	"sort"
	"strings"

	"golang.org/x/tools/go/cfg"
)

func init() {
	p := registry["C13"]
	if p == nil {
		return
	}
	run := p.run
	p.run = func(r *Run) { run(r); c13RecoverWalk(r) }
	p.explain += " R-8: a frame of the call stack is marked recovered only when the status read from that frame is `panicked`, and the walk of the recover instruction steps to another frame only over frames whose status is `deferred` (finite-domain evaluation of the walk for every status value)."
}

// c13Frames is the model of the call stack: VM.calls, callFrame.status and the status enumeration.
type c13Frames struct {
	a       *c11Anchors
	info    *types.Info
	fCalls  *types.Var   // the VM field holding the call stack
	frameT  *types.Named // element type
	fStatus *types.Var   // its status field
	statusT *types.Named
	consts  []*types.Const
	byName  map[string]int64
	nameOf  map[int64]string
	defs    map[types.Object][]ast.Expr // memo of single clean definitions, per function body
	body    ast.Node
	results map[types.Object]*c13Finder // locals holding the result of a frame-finding helper
}

// c13Finder summarises a helper of the package that returns a frame of the call stack (its index or a
// pointer to it) or a sentinel (a constant, nil): for which status values of the returned frame a return
// of a frame is reached, and the sentinels.
type c13Finder struct {
	fn       *FuncInfo
	ns       map[int64]bool // status values for which a frame is returned
	sentInts []int64
	sentNil  bool
	nsteps   int
	badStep  []string // status values (other than deferred) for which the walk steps to another frame
	rangeWk  bool
	why      string // non-empty: not understood
}

func c13ResolveFrames(a *c11Anchors) *c13Frames {
	if a == nil || a.vmT == nil {
		return nil
	}
	m := &c13Frames{a: a, info: a.info, byName: map[string]int64{}, nameOf: map[int64]string{}}
	n := 0
	for _, f := range c11StructFields(a.vmT) {
		sl, ok := f.Type().Underlying().(*types.Slice)
		if !ok {
			continue
		}
		ft, _ := sl.Elem().(*types.Named)
		if ft == nil || ft.Obj().Pkg() != a.pk.Types {
			continue
		}
		for _, ff := range c11StructFields(ft) {
			st, _ := ff.Type().(*types.Named)
			if st == nil || st.Obj().Pkg() != a.pk.Types {
				continue
			}
			if b, ok := st.Underlying().(*types.Basic); !ok || b.Info()&types.IsInteger == 0 {
				continue
			}
			cs := EnumConsts(st)
			if len(cs) < 4 {
				continue
			}
			m.fCalls, m.frameT, m.fStatus, m.statusT, m.consts = f, ft, ff, st, cs
			n++
		}
	}
	if n != 1 {
		return nil
	}
	for _, k := range m.consts {
		if v, ok := constantInt64(k); ok {
			m.byName[k.Name()] = v
			if _, dup := m.nameOf[v]; !dup {
				m.nameOf[v] = k.Name()
			}
		}
	}
	return m
}

// in binds the model to one function body (definitions of locals are looked up there).
func (m *c13Frames) in(body ast.Node) *c13Frames {
	c := *m
	c.body = body
	c.defs = map[types.Object][]ast.Expr{}
	c.results = map[types.Object]*c13Finder{}
	return &c
}

func (m *c13Frames) singleDef(o types.Object) ast.Expr {
	if d, ok := m.defs[o]; ok {
		if len(d) == 1 {
			return d[0]
		}
		return nil
	}
	m.defs[o] = nil
	rhs, clean := c11Defs(m.info, m.body, o)
	if clean && len(rhs) == 1 {
		m.defs[o] = rhs
		return rhs[0]
	}
	return nil
}

// isStack: e denotes the whole call stack field.
func (m *c13Frames) isStack(e ast.Expr) bool {
	return c11FieldOf(m.info, e) == m.fCalls
}

// frameID returns the identity of the frame e denotes: the index variable of `calls[i]` (also through
// & and *, and through a local whose only definition is such an expression), or the variable itself
// for a local of frame type that is not defined from an indexing (a range value).
func (m *c13Frames) frameID(e ast.Expr) types.Object {
	switch v := ast.Unparen(e).(type) {
	case *ast.IndexExpr:
		if in, _ := m.stackRange(v.X); in != "" { // the stack, a slice of it, or a local alias of either
			return c11ObjOf(m.info, v.Index)
		}
	case *ast.UnaryExpr:
		if v.Op == token.AND {
			return m.frameID(v.X)
		}
	case *ast.StarExpr:
		return m.frameID(v.X)
	case *ast.Ident:
		o := c11ObjOf(m.info, v)
		vr, ok := o.(*types.Var)
		if !ok || c11NamedOf(vr.Type()) != m.frameT {
			return nil
		}
		if d := m.singleDef(o); d != nil {
			if id := m.frameID(d); id != nil {
				return id
			}
			if _, isCall := ast.Unparen(d).(*ast.CallExpr); isCall {
				return o // the frame a helper returned: identified by the local itself
			}
			return nil
		}
		return o
	}
	return nil
}

// statusOf returns the identity of the frame whose status e reads (nil when e is not a status read).
func (m *c13Frames) statusOf(e ast.Expr) types.Object {
	e = ast.Unparen(e)
	if se, ok := e.(*ast.SelectorExpr); ok && c11FieldOf(m.info, se) == m.fStatus {
		return m.frameID(se.X)
	}
	if id, ok := e.(*ast.Ident); ok {
		o := c11ObjOf(m.info, id)
		if vr, ok := o.(*types.Var); ok && types.Identical(vr.Type(), m.statusT) {
			if d := m.singleDef(o); d != nil {
				return m.statusOf(d)
			}
		}
	}
	return nil
}

func (m *c13Frames) statusIn(e ast.Expr, ids map[types.Object]bool) bool {
	id := m.statusOf(e)
	return id != nil && ids[id]
}

// eval3 evaluates e under "status of the frames in ids == v": (value, known).
func (m *c13Frames) eval3(e ast.Expr, ids map[types.Object]bool, v int64) (bool, bool) {
	e = ast.Unparen(e)
	if tv, ok := m.info.Types[e]; ok && tv.Value != nil {
		if tv.Value.Kind() == constant.Bool {
			return constant.BoolVal(tv.Value), true
		}
	}
	switch x := e.(type) {
	case *ast.UnaryExpr:
		if x.Op == token.NOT {
			r, k := m.eval3(x.X, ids, v)
			return !r, k
		}
	case *ast.BinaryExpr:
		switch x.Op {
		case token.LAND, token.LOR:
			l, lk := m.eval3(x.X, ids, v)
			r, rk := m.eval3(x.Y, ids, v)
			if x.Op == token.LAND {
				if (lk && !l) || (rk && !r) {
					return false, true
				}
				return true, lk && rk
			}
			if (lk && l) || (rk && r) {
				return true, true
			}
			return false, lk && rk
		case token.LSS, token.LEQ, token.GTR, token.GEQ:
			return m.evalResult(x, ids, v)
		case token.EQL, token.NEQ:
			if val, known := m.evalResult(x, ids, v); known {
				return val, true
			}
			var k ast.Expr
			switch {
			case m.statusIn(x.X, ids):
				k = x.Y
			case m.statusIn(x.Y, ids):
				k = x.X
			default:
				return false, false
			}
			kv, ok := intValue(m.info, k)
			if !ok {
				return false, false
			}
			return (kv == v) == (x.Op == token.EQL), true
		}
	}
	return false, false
}

// evalResult evaluates a comparison between a local holding the result of a frame-finding helper and a
// constant (or nil): when the helper returns no frame for the status value v, the local is one of the
// helper's sentinels.
func (m *c13Frames) evalResult(x *ast.BinaryExpr, ids map[types.Object]bool, v int64) (bool, bool) {
	finder := func(e ast.Expr) *c13Finder {
		if o := c11ObjOf(m.info, e); o != nil && ids[o] {
			return m.results[o]
		}
		return nil
	}
	f, other, swapped := finder(x.X), x.Y, false
	if f == nil {
		f, other, swapped = finder(x.Y), x.X, true
	}
	if f == nil || f.why != "" || f.ns[v] {
		return false, false
	}
	if tv, ok := m.info.Types[other]; ok && tv.IsNil() {
		if !f.sentNil || len(f.sentInts) > 0 || (x.Op != token.EQL && x.Op != token.NEQ) {
			return false, false
		}
		return x.Op == token.EQL, true
	}
	k, ok := intValue(m.info, other)
	if !ok || f.sentNil || len(f.sentInts) == 0 {
		return false, false
	}
	res, first := false, true
	for _, sv := range f.sentInts {
		a, b := constant.MakeInt64(sv), constant.MakeInt64(k)
		if swapped {
			a, b = b, a
		}
		r := constant.Compare(a, x.Op, b)
		if !first && r != res {
			return false, false
		}
		res, first = r, false
	}
	return res, true
}

// feasible: can the edge be taken when the status of the frames in ids is v (v < 0: unknown)?
func (m *c13Frames) feasible(c *CFGInfo, b *cfg.Block, k int, ids map[types.Object]bool, v int64) bool {
	if v < 0 {
		return true
	}
	for _, l := range c.edgeLits(b, k) {
		if l.Tag != nil {
			if id := m.statusOf(l.Tag); id != nil && ids[id] {
				if kv, ok := intValue(m.info, l.Expr); ok && (kv == v) != l.Truth {
					return false
				}
			}
			continue
		}
		if val, known := m.eval3(l.Expr, ids, v); known && val != l.Truth {
			return false
		}
	}
	return true
}

// assignsVar: the CFG node n assigns (or defines, increments, ranges into) one of the variables in ids.
func (m *c13Frames) assignsVar(n ast.Node, ids map[types.Object]bool) bool {
	switch s := n.(type) {
	case *ast.AssignStmt:
		for _, l := range s.Lhs {
			if o := c11ObjOf(m.info, l); o != nil && ids[o] {
				return true
			}
		}
	case *ast.IncDecStmt:
		if o := c11ObjOf(m.info, s.X); o != nil && ids[o] {
			return true
		}
	case *ast.ValueSpec:
		for _, id := range s.Names {
			if ids[m.info.Defs[id]] {
				return true
			}
		}
	case *ast.Ident: // range key / value
		if o := c11ObjOf(m.info, s); o != nil && ids[o] {
			if _, isDef := m.info.Defs[s]; isDef {
				return true
			}
		}
	}
	return false
}

// statusStore: n stores the constant k into the status of a frame; returns the frame identity.
func (m *c13Frames) statusStore(n ast.Node) (id types.Object, k int64, lhs ast.Expr, ok bool) {
	as, isAs := n.(*ast.AssignStmt)
	if !isAs || len(as.Lhs) != len(as.Rhs) || as.Tok != token.ASSIGN {
		return nil, 0, nil, false
	}
	for i, l := range as.Lhs {
		se, isSel := ast.Unparen(l).(*ast.SelectorExpr)
		if !isSel || c11FieldOf(m.info, se) != m.fStatus {
			continue
		}
		kv, isK := intValue(m.info, as.Rhs[i])
		if !isK {
			kv = -1
		}
		return m.frameID(se.X), kv, se, true
	}
	return nil, 0, nil, false
}

// walk walks the graph from node index i of block b with the status of the frames in ids fixed to v.
// The path ends at nodes outside [lo,hi], at nodes that assign a variable of ids (reported in `changes`),
// and the status becomes unknown after a store to the status of one of the frames. It returns the nodes
// executed (change nodes included).
func (m *c13Frames) walk(c *CFGInfo, b *cfg.Block, i int, ids map[types.Object]bool, v int64, lo, hi token.Pos) map[ast.Node]bool {
	type state struct {
		b *cfg.Block
		v int64
	}
	visited := map[ast.Node]bool{}
	seen := map[state]bool{}
	var walk func(b *cfg.Block, start int, v int64)
	walk = func(b *cfg.Block, start int, v int64) {
		for j := start; j < len(b.Nodes); j++ {
			n := b.Nodes[j]
			if n.Pos() < lo || n.End() > hi {
				return
			}
			visited[n] = true
			if m.assignsVar(n, ids) {
				return
			}
			if id, _, _, ok := m.statusStore(n); ok && (id == nil || ids[id]) {
				v = -1
			}
		}
		for k, s := range b.Succs {
			if !m.feasible(c, b, k, ids, v) {
				continue
			}
			st := state{s, v}
			if !seen[st] {
				seen[st] = true
				walk(s, 0, v)
			}
		}
	}
	walk(b, i, v)
	return visited
}

func c13RecoverWalk(r *Run) {
	const R = "R-8"
	a := c11Resolve(r.P)
	if !r.Anchor(R, "interpreter loop and VM type", a != nil && len(a.missing) == 0 && a.loop != nil && a.vmT != nil) {
		return
	}
	m0 := c13ResolveFrames(a)
	if !r.Anchor(R, "call stack of the VM (slice of frames with a status field of an enumeration type)", m0 != nil) {
		return
	}
	need := map[string]int64{}
	for _, nm := range []string{"deferred", "panicked", "recovered"} {
		v, ok := m0.byName[nm]
		if !r.Anchor(R, "constant "+nm+" of "+m0.statusT.Obj().Name(), ok) {
			return
		}
		need[nm] = v
	}
	// role cross-check: `panicked` is the status of the frame the run driver pushes after a panic
	if a.driver != nil {
		found := false
		ast.Inspect(a.driver.Decl.Body, func(n ast.Node) bool {
			cl, ok := n.(*ast.CompositeLit)
			if !ok || c11NamedOf(m0.info.TypeOf(cl)) != m0.frameT {
				return true
			}
			for _, el := range cl.Elts {
				if kv, ok := el.(*ast.KeyValueExpr); ok {
					if id, ok := kv.Key.(*ast.Ident); ok && m0.info.Uses[id] == m0.fStatus {
						if v, ok := intValue(m0.info, kv.Value); ok && v == need["panicked"] {
							found = true
						}
					}
				}
			}
			return true
		})
		if !r.Anchor(R, "the frame pushed by "+a.driver.Name()+" after a panic has the status `panicked`", found) {
			return
		}
	}
	vals := make([]int64, 0, len(m0.nameOf))
	for v := range m0.nameOf {
		vals = append(vals, v)
	}
	sort.Slice(vals, func(i, j int) bool { return vals[i] < vals[j] })

	nstores := 0
	for _, fi := range r.P.Funcs(c11RT) {
		if r.P.isTestFile(fi.File) || fi.Obj == nil {
			continue
		}
		m := m0.in(fi.Decl.Body)
		c := (*CFGInfo)(nil)
		// stores of `recovered`
		var stores []*ast.AssignStmt
		ast.Inspect(fi.Decl.Body, func(n ast.Node) bool {
			if _, ok := n.(*ast.FuncLit); ok {
				return false
			}
			if as, ok := n.(*ast.AssignStmt); ok {
				if _, k, _, ok := m.statusStore(as); ok && k == need["recovered"] {
					stores = append(stores, as)
				}
			}
			return true
		})
		for _, S := range stores {
			nstores++
			if c == nil {
				c = r.P.CFGOf(fi)
			}
			label := fi.Name() + "#"
			var region ast.Node = fi.Decl.Body
			if fi.Obj == a.loop.Obj {
				for _, st := range a.dispatch.Body.List {
					if cc := st.(*ast.CaseClause); containsNode(cc, S) {
						region = cc
						label += c11ClauseLabel(m.info, cc) + ":"
					}
				}
			}
			oa := r.Ob(R, label+"marks-recovered-only-panicked", S.Pos())
			ob := r.Ob(R, label+"steps-over-deferred-only", S.Pos())
			id, _, _, _ := m.statusStore(S)
			if id == nil {
				oa.Unknown("the frame whose status is set to recovered is not an element of the call stack selected by a variable")
				ob.Unknown("see %s", oa.Construct)
				continue
			}
			ids := map[types.Object]bool{id: true}
			// the index may be the result of a frame-finding helper: summarise it first
			var finder *c13Finder
			if d := m.singleDef(id); d != nil {
				if hc, ok := ast.Unparen(d).(*ast.CallExpr); ok {
					finder = c13SummariseFinder(r, m0, m.info, hc, vals, need["deferred"])
					m.results[id] = finder
				}
			}
			rg := c13ScanRegion(r, fi, m, c, region, ids)
			if len(rg.starts) == 0 {
				oa.Unknown("no start point located in the graph")
				ob.Unknown("see %s", oa.Construct)
				continue
			}
			steps, rangeWalk := rg.steps, rg.rangeWalk
			var badStore, badStep []string
			okStore := false
			for _, v := range vals {
				vis := rg.visit(m, c, ids, v)
				reachStep := false
				for _, sn := range steps {
					if vis[sn] {
						reachStep = true
					}
				}
				if vis[S] {
					if v == need["panicked"] {
						okStore = true
					} else {
						badStore = append(badStore, m.nameOf[v])
					}
				}
				if reachStep && v != need["deferred"] {
					badStep = append(badStep, m.nameOf[v])
				}
			}
			via := ""
			if finder != nil && finder.why == "" {
				via = " (the frame is the one " + finder.fn.Name() + " returns: a frame is returned only for the status " + c13StatusNames(m, finder.ns) + ")"
				nsteps := len(steps) + finder.nsteps
				for _, b := range finder.badStep {
					dup := false
					for _, x := range badStep {
						dup = dup || x == b
					}
					if !dup {
						badStep = append(badStep, b)
					}
				}
				rangeWalk = rangeWalk || finder.rangeWk
				if nsteps > len(steps) {
					steps = append(steps, finder.fn.Decl) // only the count matters below
				}
			}
			switch {
			case len(badStore) > 0 && finder != nil && finder.why != "":
				oa.Unknown("the frame marked recovered is the result of a helper that is not understood (%s): under which status it is returned is not decided", finder.why)
			case len(badStore) > 0:
				oa.Bad("the frame is marked recovered also when its status is %s: a recover() that must return nil stops the panic in flight (the output error of a failed write) and Run returns nil instead of the writer's error", strings.Join(badStore, ", "))
			case !okStore:
				oa.Unknown("the store is not reached for the status panicked")
			default:
				oa.OK("the store of recovered into %s[%s] is reached only when the status read from that frame is panicked (evaluated for the %d status values)%s", m.fCalls.Name(), id.Name(), len(vals), via)
			}
			switch {
			case rangeWalk:
				ob.Unknown("the frames are visited by a range statement: the order and the end of the walk are not understood")
			case len(badStep) > 0:
				ob.Bad("the walk of recover steps to another frame also over a frame whose status is %s: a recover() called below a deferred function (by a helper it calls, or by the deferred closure of a helper that returns normally) reaches the panicked frame and stops the panic in flight — for the output error of a failed write Run returns nil instead of the writer's error", strings.Join(badStep, ", "))
			case len(steps) == 0:
				ob.OK("the index %s is not changed inside a loop: one frame is inspected", id.Name())
			default:
				ob.OK("inside the loop the index %s is changed only when the status read from the current frame is deferred (evaluated for the %d status values)%s", id.Name(), len(vals), via)
			}
		}
	}
	if nstores == 0 {
		r.Ob(R, "runtime#stores-of-recovered", token.NoPos).Unknown("no store of the status recovered into a frame of the call stack was found in package runtime: how recover marks the frame is not understood")
	}
	r.Require(R, 2)
}

// c13Region holds the start points of the walks in a region (its entry and every assignment of the frame
// index) and the assignments of the index made inside a loop.
type c13Region struct {
	lo, hi token.Pos
	starts []struct {
		b *cfg.Block
		i int
	}
	steps     []ast.Node
	rangeWalk bool
}

func c13ScanRegion(r *Run, fi *FuncInfo, m *c13Frames, c *CFGInfo, region ast.Node, ids map[types.Object]bool) *c13Region {
	rg := &c13Region{lo: region.Pos(), hi: region.End()}
	add := func(b *cfg.Block, i int) {
		rg.starts = append(rg.starts, struct {
			b *cfg.Block
			i int
		}{b, i})
	}
	switch x := region.(type) {
	case *ast.CaseClause:
		for _, b := range c.G.Blocks {
			if b.Kind == cfg.KindSwitchCaseBody && b.Stmt == ast.Stmt(x) {
				add(b, 0)
			}
		}
	default:
		add(c.G.Blocks[0], 0)
	}
	par := r.P.Parents(fi.File)
	for _, b := range c.G.Blocks {
		for i, n := range b.Nodes {
			if n.Pos() < rg.lo || n.End() > rg.hi || !m.assignsVar(n, ids) {
				continue
			}
			add(b, i+1)
			for p := par[n]; p != nil && p != region; p = par[p] {
				if fs, ok := p.(*ast.ForStmt); ok {
					if fs.Init == nil || !containsNode(fs.Init, n) {
						rg.steps = append(rg.steps, n)
					}
					break
				}
				if _, ok := p.(*ast.RangeStmt); ok {
					rg.rangeWalk = true
					break
				}
				if _, ok := p.(*ast.FuncLit); ok {
					break
				}
			}
		}
	}
	return rg
}

// visit returns the nodes executed from any start point with the status of the inspected frame == v.
func (rg *c13Region) visit(m *c13Frames, c *CFGInfo, ids map[types.Object]bool, v int64) map[ast.Node]bool {
	all := map[ast.Node]bool{}
	for _, st := range rg.starts {
		for n := range m.walk(c, st.b, st.i, ids, v, rg.lo, rg.hi) {
			all[n] = true
		}
	}
	return all
}

func c13StatusNames(m *c13Frames, set map[int64]bool) string {
	var vs []int64
	for v, in := range set {
		if in {
			vs = append(vs, v)
		}
	}
	sort.Slice(vs, func(i, j int) bool { return vs[i] < vs[j] })
	var out []string
	for _, v := range vs {
		out = append(out, m.nameOf[v])
	}
	if len(out) == 0 {
		return "(none)"
	}
	return strings.Join(out, ", ")
}

var c13FinderCache = map[*types.Func]*c13Finder{}

// c13SummariseFinder reads the helper called by hc: a function of package runtime with one result (an
// integer or a pointer to a frame) whose returns are either a sentinel (a constant, nil) or the frame
// selected by ONE index variable. Its body is evaluated like the inline walk: for every status value of
// the frame selected by that variable, is a return of the frame reached, and is the variable changed
// inside a loop.
func c13SummariseFinder(r *Run, m0 *c13Frames, info *types.Info, hc *ast.CallExpr, vals []int64, deferredV int64) *c13Finder {
	fn := callee(info, hc)
	if fn == nil {
		return &c13Finder{why: "the callee is not a declared function"}
	}
	if f, ok := c13FinderCache[fn]; ok {
		return f
	}
	f := &c13Finder{ns: map[int64]bool{}}
	c13FinderCache[fn] = f
	for _, fi := range r.P.Funcs(c11RT) {
		if fi.Obj == fn && fi.Decl.Body != nil && !r.P.isTestFile(fi.File) {
			f.fn = fi
		}
	}
	if f.fn == nil {
		f.why = "the callee is not a function of package runtime"
		return f
	}
	sig := fn.Type().(*types.Signature)
	if sig.Results().Len() != 1 {
		f.why = "the helper does not have exactly one result"
		return f
	}
	rt := sig.Results().At(0).Type()
	isPtr := false
	if _, ok := rt.(*types.Pointer); ok && c11NamedOf(rt) == m0.frameT {
		isPtr = true
	} else if b, ok := rt.Underlying().(*types.Basic); !ok || b.Info()&types.IsInteger == 0 {
		f.why = "the result of the helper is neither an integer nor a pointer to a frame"
		return f
	}
	m := m0.in(f.fn.Decl.Body)
	c := r.P.CFGOf(f.fn)
	var idx types.Object
	var frameRets []ast.Node
	for _, rs := range c.Returns() {
		if len(rs.Results) != 1 {
			f.why = "a return of the helper has no explicit result"
			return f
		}
		e := rs.Results[0]
		if tv, ok := m.info.Types[e]; ok && tv.IsNil() {
			f.sentNil = true
			continue
		}
		if k, ok := intValue(m.info, e); ok && !isPtr {
			f.sentInts = append(f.sentInts, k)
			continue
		}
		var o types.Object
		if isPtr {
			o = m.frameID(e)
		} else if vr, ok := c11ObjOf(m.info, e).(*types.Var); ok && !vr.IsField() {
			o = vr
		}
		if o == nil || (idx != nil && idx != o) {
			f.why = "a return of the helper is neither a constant nor the frame selected by one index variable"
			return f
		}
		idx = o
		frameRets = append(frameRets, rs)
	}
	if idx == nil {
		f.why = "the helper never returns a frame"
		return f
	}
	ids := map[types.Object]bool{idx: true}
	rg := c13ScanRegion(r, f.fn, m, c, f.fn.Decl.Body, ids)
	f.nsteps, f.rangeWk = len(rg.steps), rg.rangeWalk
	for _, v := range vals {
		vis := rg.visit(m, c, ids, v)
		for _, rn := range frameRets {
			if vis[rn] {
				f.ns[v] = true
			}
		}
		if v != deferredV {
			for _, sn := range rg.steps {
				if vis[sn] {
					f.badStep = append(f.badStep, m.nameOf[v])
					break
				}
			}
		}
	}
	return f
}
