package main

// C13 R-8 (added after seeded change C13-7): the recover instruction stops a panic only for the deferred
// function the panic itself is running.
//
// "Run returns E unless the template itself recovers the panic": a template recovers a panic, as in Go,
// only with a recover() called directly by a deferred function that runs because of that panic. The
// instruction decides it by walking down the call stack from the frame of its caller: frames whose
// status is `deferred` (deferred calls still pending, pushed by the caller itself) lie between the caller
// and the frame that tells why the caller runs; the first frame of any other status is that frame, and
// the panic is recovered only if its status is `panicked`. Hence, for every store of the status
// `recovered` into a frame of the call stack:
//
//	(a) the store is reached only when the status read from that very frame is `panicked`;
//	(b) the walk moves on to another frame, inside a loop, only when the status read from the current
//	    frame is `deferred`.
//
// Both are decided by a finite-domain evaluation: for every value v of the status enumeration the
// control-flow graph is walked from every point where the inspected frame changes (the start of the
// region, every assignment of the index variable), following only the edges whose conditions are
// compatible with "status of the inspected frame == v" (three-valued: conditions about anything else are
// unknown and both edges are followed). If (a) or (b) fails for some v there is a template in which a
// recover() that must return nil (called by a helper of the deferred function, or by the deferred
// closure of a helper that returns normally) stops the output-error panic of a failed write: the
// deferred calls go on, the function returns normally and Run returns nil instead of E.
//
// Accepted idioms: switch on the status / if chains / `a == K`, `K == a`, `!=`, &&, ||, !; the status or
// the frame held in a local (`st := vm.calls[i].status`, `call := &vm.calls[i]`); the skip of the
// deferred frames made in the loop condition with the store after the loop; the walk in a helper.
//
// The frame model and the walker are shared with R-9 (c13r9.go).

import (
	"go/ast"
	"go/constant"
	"go/token"
	"go/types"
	"sort"
	"strings"

	"golang.org/x/tools/go/cfg"
)

func init() {
	p := registry["C13"]
	if p == nil {
		return
	}
	run := p.run
	p.run = func(r *Run) { run(r); c13RecoverWalk(r) }
	p.explain += " R-8: a frame of the call stack is marked recovered only when the status read from that frame is `panicked`, and the walk of the recover instruction steps to another frame only over frames whose status is `deferred` (finite-domain evaluation of the walk for every status value)."
}

// c13Frames is the model of the call stack: VM.calls, callFrame.status and the status enumeration.
type c13Frames struct {
	a       *c11Anchors
	info    *types.Info
	fCalls  *types.Var   // the VM field holding the call stack
	frameT  *types.Named // element type
	fStatus *types.Var   // its status field
	statusT *types.Named
	consts  []*types.Const
	byName  map[string]int64
	nameOf  map[int64]string
	defs    map[types.Object][]ast.Expr // memo of single clean definitions, per function body
	body    ast.Node
}

func c13ResolveFrames(a *c11Anchors) *c13Frames {
	if a == nil || a.vmT == nil {
		return nil
	}
	m := &c13Frames{a: a, info: a.info, byName: map[string]int64{}, nameOf: map[int64]string{}}
	n := 0
	for _, f := range c11StructFields(a.vmT) {
		sl, ok := f.Type().Underlying().(*types.Slice)
		if !ok {
			continue
		}
		ft, _ := sl.Elem().(*types.Named)
		if ft == nil || ft.Obj().Pkg() != a.pk.Types {
			continue
		}
		for _, ff := range c11StructFields(ft) {
			st, _ := ff.Type().(*types.Named)
			if st == nil || st.Obj().Pkg() != a.pk.Types {
				continue
			}
			if b, ok := st.Underlying().(*types.Basic); !ok || b.Info()&types.IsInteger == 0 {
				continue
			}
			cs := EnumConsts(st)
			if len(cs) < 4 {
				continue
			}
			m.fCalls, m.frameT, m.fStatus, m.statusT, m.consts = f, ft, ff, st, cs
			n++
		}
	}
	if n != 1 {
		return nil
	}
	for _, k := range m.consts {
		if v, ok := constantInt64(k); ok {
			m.byName[k.Name()] = v
			if _, dup := m.nameOf[v]; !dup {
				m.nameOf[v] = k.Name()
			}
		}
	}
	return m
}

// in binds the model to one function body (definitions of locals are looked up there).
func (m *c13Frames) in(body ast.Node) *c13Frames {
	c := *m
	c.body = body
	c.defs = map[types.Object][]ast.Expr{}
	return &c
}

func (m *c13Frames) singleDef(o types.Object) ast.Expr {
	if d, ok := m.defs[o]; ok {
		if len(d) == 1 {
			return d[0]
		}
		return nil
	}
	m.defs[o] = nil
	rhs, clean := c11Defs(m.info, m.body, o)
	if clean && len(rhs) == 1 {
		m.defs[o] = rhs
		return rhs[0]
	}
	return nil
}

// isStack: e denotes the whole call stack field.
func (m *c13Frames) isStack(e ast.Expr) bool {
	return c11FieldOf(m.info, e) == m.fCalls
}

// frameID returns the identity of the frame e denotes: the index variable of `calls[i]` (also through
// & and *, and through a local whose only definition is such an expression), or the variable itself
// for a local of frame type that is not defined from an indexing (a range value).
func (m *c13Frames) frameID(e ast.Expr) types.Object {
	switch v := ast.Unparen(e).(type) {
	case *ast.IndexExpr:
		if in, _ := m.stackRange(v.X); in != "" { // the stack, a slice of it, or a local alias of either
			return c11ObjOf(m.info, v.Index)
		}
	case *ast.UnaryExpr:
		if v.Op == token.AND {
			return m.frameID(v.X)
		}
	case *ast.StarExpr:
		return m.frameID(v.X)
	case *ast.Ident:
		o := c11ObjOf(m.info, v)
		vr, ok := o.(*types.Var)
		if !ok || c11NamedOf(vr.Type()) != m.frameT {
			return nil
		}
		if d := m.singleDef(o); d != nil {
			if id := m.frameID(d); id != nil {
				return id
			}
			return nil
		}
		return o
	}
	return nil
}

// statusOf returns the identity of the frame whose status e reads (nil when e is not a status read).
func (m *c13Frames) statusOf(e ast.Expr) types.Object {
	e = ast.Unparen(e)
	if se, ok := e.(*ast.SelectorExpr); ok && c11FieldOf(m.info, se) == m.fStatus {
		return m.frameID(se.X)
	}
	if id, ok := e.(*ast.Ident); ok {
		o := c11ObjOf(m.info, id)
		if vr, ok := o.(*types.Var); ok && types.Identical(vr.Type(), m.statusT) {
			if d := m.singleDef(o); d != nil {
				return m.statusOf(d)
			}
		}
	}
	return nil
}

func (m *c13Frames) statusIn(e ast.Expr, ids map[types.Object]bool) bool {
	id := m.statusOf(e)
	return id != nil && ids[id]
}

// eval3 evaluates e under "status of the frames in ids == v": (value, known).
func (m *c13Frames) eval3(e ast.Expr, ids map[types.Object]bool, v int64) (bool, bool) {
	e = ast.Unparen(e)
	if tv, ok := m.info.Types[e]; ok && tv.Value != nil {
		if tv.Value.Kind() == constant.Bool {
			return constant.BoolVal(tv.Value), true
		}
	}
	switch x := e.(type) {
	case *ast.UnaryExpr:
		if x.Op == token.NOT {
			r, k := m.eval3(x.X, ids, v)
			return !r, k
		}
	case *ast.BinaryExpr:
		switch x.Op {
		case token.LAND, token.LOR:
			l, lk := m.eval3(x.X, ids, v)
			r, rk := m.eval3(x.Y, ids, v)
			if x.Op == token.LAND {
				if (lk && !l) || (rk && !r) {
					return false, true
				}
				return true, lk && rk
			}
			if (lk && l) || (rk && r) {
				return true, true
			}
			return false, lk && rk
		case token.EQL, token.NEQ:
			var k ast.Expr
			switch {
			case m.statusIn(x.X, ids):
				k = x.Y
			case m.statusIn(x.Y, ids):
				k = x.X
			default:
				return false, false
			}
			kv, ok := intValue(m.info, k)
			if !ok {
				return false, false
			}
			return (kv == v) == (x.Op == token.EQL), true
		}
	}
	return false, false
}

// feasible: can the edge be taken when the status of the frames in ids is v (v < 0: unknown)?
func (m *c13Frames) feasible(c *CFGInfo, b *cfg.Block, k int, ids map[types.Object]bool, v int64) bool {
	if v < 0 {
		return true
	}
	for _, l := range c.edgeLits(b, k) {
		if l.Tag != nil {
			if id := m.statusOf(l.Tag); id != nil && ids[id] {
				if kv, ok := intValue(m.info, l.Expr); ok && (kv == v) != l.Truth {
					return false
				}
			}
			continue
		}
		if val, known := m.eval3(l.Expr, ids, v); known && val != l.Truth {
			return false
		}
	}
	return true
}

// assignsVar: the CFG node n assigns (or defines, increments, ranges into) one of the variables in ids.
func (m *c13Frames) assignsVar(n ast.Node, ids map[types.Object]bool) bool {
	switch s := n.(type) {
	case *ast.AssignStmt:
		for _, l := range s.Lhs {
			if o := c11ObjOf(m.info, l); o != nil && ids[o] {
				return true
			}
		}
	case *ast.IncDecStmt:
		if o := c11ObjOf(m.info, s.X); o != nil && ids[o] {
			return true
		}
	case *ast.ValueSpec:
		for _, id := range s.Names {
			if ids[m.info.Defs[id]] {
				return true
			}
		}
	case *ast.Ident: // range key / value
		if o := c11ObjOf(m.info, s); o != nil && ids[o] {
			if _, isDef := m.info.Defs[s]; isDef {
				return true
			}
		}
	}
	return false
}

// statusStore: n stores the constant k into the status of a frame; returns the frame identity.
func (m *c13Frames) statusStore(n ast.Node) (id types.Object, k int64, lhs ast.Expr, ok bool) {
	as, isAs := n.(*ast.AssignStmt)
	if !isAs || len(as.Lhs) != len(as.Rhs) || as.Tok != token.ASSIGN {
		return nil, 0, nil, false
	}
	for i, l := range as.Lhs {
		se, isSel := ast.Unparen(l).(*ast.SelectorExpr)
		if !isSel || c11FieldOf(m.info, se) != m.fStatus {
			continue
		}
		kv, isK := intValue(m.info, as.Rhs[i])
		if !isK {
			kv = -1
		}
		return m.frameID(se.X), kv, se, true
	}
	return nil, 0, nil, false
}

// walk walks the graph from node index i of block b with the status of the frames in ids fixed to v.
// The path ends at nodes outside [lo,hi], at nodes that assign a variable of ids (reported in `changes`),
// and the status becomes unknown after a store to the status of one of the frames. It returns the nodes
// executed (change nodes included).
func (m *c13Frames) walk(c *CFGInfo, b *cfg.Block, i int, ids map[types.Object]bool, v int64, lo, hi token.Pos) map[ast.Node]bool {
	type state struct {
		b *cfg.Block
		v int64
	}
	visited := map[ast.Node]bool{}
	seen := map[state]bool{}
	var walk func(b *cfg.Block, start int, v int64)
	walk = func(b *cfg.Block, start int, v int64) {
		for j := start; j < len(b.Nodes); j++ {
			n := b.Nodes[j]
			if n.Pos() < lo || n.End() > hi {
				return
			}
			visited[n] = true
			if m.assignsVar(n, ids) {
				return
			}
			if id, _, _, ok := m.statusStore(n); ok && (id == nil || ids[id]) {
				v = -1
			}
		}
		for k, s := range b.Succs {
			if !m.feasible(c, b, k, ids, v) {
				continue
			}
			st := state{s, v}
			if !seen[st] {
				seen[st] = true
				walk(s, 0, v)
			}
		}
	}
	walk(b, i, v)
	return visited
}

func c13RecoverWalk(r *Run) {
	const R = "R-8"
	a := c11Resolve(r.P)
	if !r.Anchor(R, "interpreter loop and VM type", a != nil && len(a.missing) == 0 && a.loop != nil && a.vmT != nil) {
		return
	}
	m0 := c13ResolveFrames(a)
	if !r.Anchor(R, "call stack of the VM (slice of frames with a status field of an enumeration type)", m0 != nil) {
		return
	}
	need := map[string]int64{}
	for _, nm := range []string{"deferred", "panicked", "recovered"} {
		v, ok := m0.byName[nm]
		if !r.Anchor(R, "constant "+nm+" of "+m0.statusT.Obj().Name(), ok) {
			return
		}
		need[nm] = v
	}
	// role cross-check: `panicked` is the status of the frame the run driver pushes after a panic
	if a.driver != nil {
		found := false
		ast.Inspect(a.driver.Decl.Body, func(n ast.Node) bool {
			cl, ok := n.(*ast.CompositeLit)
			if !ok || c11NamedOf(m0.info.TypeOf(cl)) != m0.frameT {
				return true
			}
			for _, el := range cl.Elts {
				if kv, ok := el.(*ast.KeyValueExpr); ok {
					if id, ok := kv.Key.(*ast.Ident); ok && m0.info.Uses[id] == m0.fStatus {
						if v, ok := intValue(m0.info, kv.Value); ok && v == need["panicked"] {
							found = true
						}
					}
				}
			}
			return true
		})
		if !r.Anchor(R, "the frame pushed by "+a.driver.Name()+" after a panic has the status `panicked`", found) {
			return
		}
	}
	vals := make([]int64, 0, len(m0.nameOf))
	for v := range m0.nameOf {
		vals = append(vals, v)
	}
	sort.Slice(vals, func(i, j int) bool { return vals[i] < vals[j] })

	nstores := 0
	for _, fi := range r.P.Funcs(c11RT) {
		if r.P.isTestFile(fi.File) || fi.Obj == nil {
			continue
		}
		m := m0.in(fi.Decl.Body)
		c := (*CFGInfo)(nil)
		// stores of `recovered`
		var stores []*ast.AssignStmt
		ast.Inspect(fi.Decl.Body, func(n ast.Node) bool {
			if _, ok := n.(*ast.FuncLit); ok {
				return false
			}
			if as, ok := n.(*ast.AssignStmt); ok {
				if _, k, _, ok := m.statusStore(as); ok && k == need["recovered"] {
					stores = append(stores, as)
				}
			}
			return true
		})
		for _, S := range stores {
			nstores++
			if c == nil {
				c = r.P.CFGOf(fi)
			}
			label := fi.Name() + "#"
			var region ast.Node = fi.Decl.Body
			if fi.Obj == a.loop.Obj {
				for _, st := range a.dispatch.Body.List {
					if cc := st.(*ast.CaseClause); containsNode(cc, S) {
						region = cc
						label += c11ClauseLabel(m.info, cc) + ":"
					}
				}
			}
			oa := r.Ob(R, label+"marks-recovered-only-panicked", S.Pos())
			ob := r.Ob(R, label+"steps-over-deferred-only", S.Pos())
			id, _, _, _ := m.statusStore(S)
			if id == nil {
				oa.Unknown("the frame whose status is set to recovered is not an element of the call stack selected by a variable")
				ob.Unknown("see %s", oa.Construct)
				continue
			}
			ids := map[types.Object]bool{id: true}
			lo, hi := region.Pos(), region.End()
			// start points: the start of the region and every node assigning the index
			type start struct {
				b *cfg.Block
				i int
			}
			var starts []start
			switch rg := region.(type) {
			case *ast.CaseClause:
				for _, b := range c.G.Blocks {
					if b.Kind == cfg.KindSwitchCaseBody && b.Stmt == ast.Stmt(rg) {
						starts = append(starts, start{b, 0})
					}
				}
			default:
				starts = append(starts, start{c.G.Blocks[0], 0})
			}
			rangeWalk := false
			var steps []ast.Node // assignments of the index made inside a loop (body or post statement)
			par := r.P.Parents(fi.File)
			for _, b := range c.G.Blocks {
				for i, n := range b.Nodes {
					if n.Pos() < lo || n.End() > hi || !m.assignsVar(n, ids) {
						continue
					}
					starts = append(starts, start{b, i + 1})
					for p := par[n]; p != nil && p != region; p = par[p] {
						if fs, ok := p.(*ast.ForStmt); ok {
							if fs.Init == nil || !containsNode(fs.Init, n) {
								steps = append(steps, n)
							}
							break
						}
						if _, ok := p.(*ast.RangeStmt); ok {
							rangeWalk = true
							break
						}
						if _, ok := p.(*ast.FuncLit); ok {
							break
						}
					}
				}
			}
			if len(starts) == 0 {
				oa.Unknown("no start point located in the graph")
				ob.Unknown("see %s", oa.Construct)
				continue
			}
			var badStore, badStep []string
			okStore := false
			for _, v := range vals {
				reachS, reachStep := false, false
				for _, st := range starts {
					vis := m.walk(c, st.b, st.i, ids, v, lo, hi)
					if vis[S] {
						reachS = true
					}
					for _, sn := range steps {
						if vis[sn] {
							reachStep = true
						}
					}
				}
				if reachS {
					if v == need["panicked"] {
						okStore = true
					} else {
						badStore = append(badStore, m.nameOf[v])
					}
				}
				if reachStep && v != need["deferred"] {
					badStep = append(badStep, m.nameOf[v])
				}
			}
			switch {
			case len(badStore) > 0:
				oa.Bad("the frame is marked recovered also when its status is %s: a recover() that must return nil stops the panic in flight (the output error of a failed write) and Run returns nil instead of the writer's error", strings.Join(badStore, ", "))
			case !okStore:
				oa.Unknown("the store is not reached for the status panicked")
			default:
				oa.OK("the store of recovered into %s[%s] is reached only when the status read from that frame is panicked (evaluated for the %d status values)", m.fCalls.Name(), id.Name(), len(vals))
			}
			switch {
			case rangeWalk:
				ob.Unknown("the frames are visited by a range statement: the order and the end of the walk are not understood")
			case len(badStep) > 0:
				ob.Bad("the walk of recover steps to another frame also over a frame whose status is %s: a recover() called below a deferred function (by a helper it calls, or by the deferred closure of a helper that returns normally) reaches the panicked frame and stops the panic in flight — for the output error of a failed write Run returns nil instead of the writer's error", strings.Join(badStep, ", "))
			case len(steps) == 0:
				ob.OK("the index %s is not changed inside a loop: one frame is inspected", id.Name())
			default:
				ob.OK("inside the loop the index %s is changed only when the status read from the current frame is deferred (evaluated for the %d status values)", id.Name(), len(vals))
			}
		}
	}
	if nstores == 0 {
		r.Ob(R, "runtime#stores-of-recovered", token.NoPos).Unknown("no store of the status recovered into a frame of the call stack was found in package runtime: how recover marks the frame is not understood")
	}
	r.Require(R, 2)
}
