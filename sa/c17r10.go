package main

// C17 R-10 (added after seeded change C17-8): an assignment through a non-local variable is stored back into it.
//
// A template global (as every non-local variable) is read with GetVar, which copies a composite value into a
// register. When the target of an assignment is the variable itself, an element of it or a field of it, the
// emitter modifies the register; for a container that is a value (an array, a struct) the change exists only
// in that copy until the register is stored back with SetVar. Without the store the assignment is lost for
// every other reference and for the caller that passed a pointer to Run.
//
// The rule reads the three places that cooperate:
//
//	- the constructors of compiler.address that set both `target` and `nonLocal` (the non-local targets);
//	- their call sites: the kinds of the container, from the enclosing `switch <type>.Kind()` clause (none: any);
//	- the function that performs the assignment (a switch on address.target in which some clause stores with
//	  functionBuilder.emitSetVar(…, a.nonLocal, …)): for every non-local target whose container can be a value
//	  (or that is the variable itself) every path through its clause calls emitSetVar with the address's
//	  nonLocal. A target only ever built for maps, slices or pointers needs no store (the container is shared).

import (
	"go/ast"
	"go/token"
	"go/types"
	"sort"
	"strings"

	"golang.org/x/tools/go/cfg"
)

func init() {
	p := registry["C17"]
	if p == nil {
		return
	}
	run := p.run
	p.run = func(r *Run) { run(r); c17StoreBack(r) }
	p.explain += " R-10: for every assignment target of compiler.address whose constructor records a non-local variable (field nonLocal) and whose container can be a value - the kinds of the enclosing `switch T.Kind()` clause at the constructor's call sites include Array or Struct, or there is no such clause - every path through the clause of that target in the function performing the assignment calls functionBuilder.emitSetVar with the address's nonLocal."
}

func c17StoreBack(r *Run) {
	const R = "R-10"
	r.Require(R, 3)
	addrT := r.P.Named("internal/compiler", "address")
	fbT := r.P.Named("internal/compiler", "functionBuilder")
	targetF, nlF := c17structField(addrT, "target"), c17structField(addrT, "nonLocal")
	if !r.Anchor(R, "compiler.address.target/.nonLocal, functionBuilder", targetF != nil && nlF != nil && fbT != nil) {
		return
	}
	var fns []*FuncInfo
	byObj := map[*types.Func]*FuncInfo{}
	var setVar *types.Func
	for _, fi := range r.P.Funcs("internal/compiler") {
		if fi.Obj == nil || r.P.isTestFile(fi.File) {
			continue
		}
		fns = append(fns, fi)
		byObj[fi.Obj] = fi
		if sig := fi.Obj.Type().(*types.Signature); sig.Recv() != nil && fi.Obj.Name() == "emitSetVar" {
			t := sig.Recv().Type()
			if p, ok := t.(*types.Pointer); ok {
				t = p.Elem()
			}
			if types.Identical(t, fbT) {
				setVar = fi.Obj
			}
		}
	}
	sort.Slice(fns, func(i, j int) bool { return c17less(fns[i], fns[j]) })
	if !r.Anchor(R, "functionBuilder.emitSetVar", setVar != nil) {
		return
	}
	// constructors of non-local targets
	type ctor struct {
		fn     *types.Func
		target *types.Const
	}
	var ctors []ctor
	for _, fi := range fns {
		info := fi.Pkg.TypesInfo
		sig := fi.Obj.Type().(*types.Signature)
		ast.Inspect(fi.Decl.Body, func(n ast.Node) bool {
			lit, ok := n.(*ast.CompositeLit)
			if !ok || info.TypeOf(lit) == nil || !types.Identical(info.TypeOf(lit), addrT) {
				return true
			}
			var tgt *types.Const
			nl := false
			for _, el := range lit.Elts {
				kv, ok := el.(*ast.KeyValueExpr)
				if !ok {
					continue
				}
				id, _ := kv.Key.(*ast.Ident)
				if id == nil {
					continue
				}
				switch info.Uses[id] {
				case types.Object(targetF):
					tgt = constOf(info, kv.Value)
				case types.Object(nlF):
					o := cgxObj(info, kv.Value)
					for i := 0; i < sig.Params().Len(); i++ {
						if o != nil && o == types.Object(sig.Params().At(i)) {
							nl = true
						}
					}
				}
			}
			if tgt != nil && nl {
				ctors = append(ctors, ctor{fi.Obj, tgt})
			}
			return true
		})
	}
	if !r.Anchor(R, "constructors of compiler.address that set target and nonLocal from a parameter", len(ctors) >= 2) {
		return
	}
	// kinds of the container at the call sites
	isKindCall := func(info *types.Info, e ast.Expr) bool {
		call, ok := ast.Unparen(e).(*ast.CallExpr)
		if !ok {
			return false
		}
		f := callee(info, call)
		return f != nil && f.Name() == "Kind" && f.Pkg() != nil && f.Pkg().Path() == "reflect"
	}
	kindsOf := map[*types.Const]map[string]bool{}
	for _, fi := range fns {
		info := fi.Pkg.TypesInfo
		par := r.P.Parents(fi.File)
		for _, call := range calls(fi.Decl.Body, true) {
			f := callee(info, call)
			for _, ct := range ctors {
				if ct.fn != f {
					continue
				}
				if kindsOf[ct.target] == nil {
					kindsOf[ct.target] = map[string]bool{}
				}
				found := false
				for m := par[ast.Node(call)]; m != nil && !found; m = par[m] {
					cc, ok := m.(*ast.CaseClause)
					if !ok {
						continue
					}
					sw, ok := par[par[m]].(*ast.SwitchStmt)
					if !ok || sw.Tag == nil || !isKindCall(info, sw.Tag) {
						continue
					}
					found = true
					if len(cc.List) == 0 {
						kindsOf[ct.target]["any"] = true
					}
					for _, e := range cc.List {
						if k := constOf(info, e); k != nil && k.Pkg() != nil && k.Pkg().Path() == "reflect" {
							kindsOf[ct.target][k.Name()] = true
						} else {
							kindsOf[ct.target]["any"] = true
						}
					}
				}
				if !found {
					kindsOf[ct.target]["any"] = true
				}
			}
		}
	}
	reference := map[string]bool{"Map": true, "Slice": true, "Pointer": true, "Ptr": true, "Chan": true, "Func": true, "UnsafePointer": true}
	needsStore := func(t *types.Const) (bool, string) {
		ks := kindsOf[t]
		if len(ks) == 0 {
			return true, "never constructed outside its constructor (any container)"
		}
		var names []string
		need := false
		for k := range ks {
			names = append(names, k)
			if !reference[k] {
				need = true
			}
		}
		sort.Strings(names)
		return need, strings.Join(names, ", ")
	}
	// the functions that perform the assignment
	storeHelpers := map[*types.Func]bool{}
	isStoreCall := func(info *types.Info, n ast.Node) bool {
		found := false
		ast.Inspect(n, func(m ast.Node) bool {
			if _, ok := m.(*ast.FuncLit); ok {
				return false
			}
			call, ok := m.(*ast.CallExpr)
			if !ok {
				return true
			}
			f := callee(info, call)
			if storeHelpers[f] {
				found = true
			}
			if f != setVar {
				return true
			}
			for _, a := range call.Args {
				if c17fieldOf(info, a) == nlF {
					found = true
				}
			}
			return true
		})
		return found
	}
	// helpers: functions of the compiler that store with the address's nonLocal on every path
	for _, fi := range fns {
		info := fi.Pkg.TypesInfo
		direct := false
		for _, s := range fi.Decl.Body.List {
			if isStoreCall(info, s) {
				direct = true
			}
		}
		if !direct || len(switchesOn(info, fi.Decl.Body, targetF.Type())) > 0 {
			continue
		}
		c := r.P.CFGOf(fi)
		if len(c.G.Blocks) == 0 {
			continue
		}
		lo, hi := fi.Decl.Body.Pos(), fi.Decl.Body.End()
		if _, all := c17fwdAll(c, c.G.Blocks[0], 0, func(n ast.Node) bool { return isStoreCall(info, n) }, func(n ast.Node) bool { return lo <= n.Pos() && n.End() <= hi }); all {
			storeHelpers[fi.Obj] = true
		}
	}
	// a path on which the container is known to be of a reference kind needs no store
	refKindEdge := func(c *CFGInfo, info *types.Info) func(b *cfg.Block, i int) bool {
		return func(b *cfg.Block, i int) bool {
			return cgxEdgeHas(c, b, i, func(l Lit) bool {
				if l.Tag != nil {
					k := constOf(info, l.Expr)
					return l.Truth && isKindCall(info, l.Tag) && k != nil && k.Pkg() != nil && k.Pkg().Path() == "reflect" && reference[k.Name()]
				}
				be, ok := ast.Unparen(l.Expr).(*ast.BinaryExpr)
				if !ok || (be.Op != token.EQL && be.Op != token.NEQ) || (be.Op == token.EQL) != l.Truth {
					return false
				}
				for _, pair := range [][2]ast.Expr{{be.X, be.Y}, {be.Y, be.X}} {
					if isKindCall(info, pair[0]) {
						if k := constOf(info, pair[1]); k != nil && k.Pkg() != nil && k.Pkg().Path() == "reflect" && reference[k.Name()] {
							return true
						}
					}
				}
				return false
			})
		}
	}
	nstore := 0
	for _, fi := range fns {
		info := fi.Pkg.TypesInfo
		var sws []*ast.SwitchStmt
		ast.Inspect(fi.Decl.Body, func(n ast.Node) bool {
			if sw, ok := n.(*ast.SwitchStmt); ok && sw.Tag != nil && c17fieldOf(info, sw.Tag) == targetF {
				sws = append(sws, sw)
			}
			return true
		})
		for _, sw := range sws {
			stores := false
			for _, st := range sw.Body.List {
				for _, s := range st.(*ast.CaseClause).Body {
					if isStoreCall(info, s) {
						stores = true
					}
				}
			}
			if !stores {
				continue
			}
			nstore++
			c := r.P.CFGOf(fi)
			seen := map[*types.Const]bool{}
			for _, ct := range ctors {
				if seen[ct.target] {
					continue
				}
				seen[ct.target] = true
				o := r.Ob(R, funcKey(fi.Obj)+"#"+ct.target.Name()+":stored-back", sw.Pos())
				need, kinds := needsStore(ct.target)
				if !need {
					o.Trivial("the target is only built for containers of kind %s, which are shared with the variable: no store is needed", kinds)
					continue
				}
				var clause *ast.CaseClause
				for _, st := range sw.Body.List {
					cc := st.(*ast.CaseClause)
					for _, e := range cc.List {
						if constOf(info, e) == ct.target {
							clause = cc
						}
					}
				}
				if clause == nil || len(clause.Body) == 0 {
					o.Bad("%s has no statements for the target %s, built by %s with a non-local variable (container kinds: %s): the assignment never reaches the variable", funcKey(fi.Obj), ct.target.Name(), ct.fn.Name(), kinds)
					continue
				}
				lo, hi := clause.Colon, clause.End()
				blk, idx := cgxFirstNodeIn(c, &c17span{clause.Body[0].Pos(), clause.End()})
				if blk == nil {
					o.Unknown("the clause of %s is not in the control-flow graph", ct.target.Name())
					continue
				}
				_, all := c17fwdAllCut(c, blk, idx, func(n ast.Node) bool { return isStoreCall(info, n) }, func(n ast.Node) bool { return lo <= n.Pos() && n.End() <= hi }, refKindEdge(c, info))
				if all {
					o.OK("every path through the clause of %s (container kinds: %s) stores the register back with emitSetVar(…, nonLocal, …)", ct.target.Name(), kinds)
				} else {
					o.Bad("a path through the clause of %s does not store the modified register back into the non-local variable (no emitSetVar with the address's nonLocal), and the target is built by %s for containers of kind %s: GetVar copied the value into the register, so for an array or a struct the assignment changes only that copy - it is lost for every other reference to the global and for the caller that passed a pointer to Run", ct.target.Name(), ct.fn.Name(), kinds)
				}
			}
		}
	}
	if nstore == 0 {
		r.Ob(R, "anchor:assignment-performer", token.NoPos).Unknown("no function switches on address.target and stores with emitSetVar(…, nonLocal, …)")
	}
}
