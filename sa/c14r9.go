package main

// C14 R-9 (added after seeded change C14-6): every result of a callee has its own register in the frame, on
// both sides of a call.
//
// A Scriggo call frame is laid out twice and independently: by the emitter at the call site (one register per
// result of the function type, then the arguments) and by the prologue of the callee (one register per result,
// then the parameters). OpReturn writes result i into the i-th register of its kind and the callee reads
// parameter j right after the results; `go f(x)` copies the caller's frame registers into the new machine as
// they are. The two layouts agree only if each of them reserves a register for EVERY result: a layout loop
// over the results of a function type that skips the reservation on some path (because the results are
// "not used" by a go or defer statement, for a blank result, for some kind) shifts every parameter of the
// same register class by one: the goroutine reads the next argument or stale registers.
//
// Sites: the loops of the emitter that iterate over the results of a function type — `range T.NumOut()`,
// `i < T.NumOut()`, `range F.Result` (also through a local holding the count) — and reserve registers in
// their body (a call of the function builder's method func(reflect.Kind) int8). Condition, on go/cfg: no
// path from the entry of the loop body to the next iteration, the exit of the loop or a return avoids the
// reservation.

import (
	"go/ast"
	"go/types"

	"golang.org/x/tools/go/cfg"
)

func init() {
	p := registry["C14"]
	if p == nil {
		return
	}
	run := p.run
	p.run = func(r *Run) { run(r); c14R9(r) }
	p.explain += " R-9: every emitter loop that iterates over the results of a function type and reserves registers reserves one on every iteration (the call-site layout and the callee prologue both give each result its own register, whatever the kind of statement the call belongs to)."
}

func c14R9(r *Run) {
	const R = "R-9"
	const rel = "internal/compiler"
	if !r.Anchor(R, "package internal/compiler", r.P.Pkg(rel) != nil) {
		return
	}
	n := 0
	for _, fi := range r.P.Funcs(rel) {
		if r.P.isTestFile(fi.File) {
			continue
		}
		info := fi.Pkg.TypesInfo
		// single-definition locals: ident -> defining expression
		defs := map[types.Object]ast.Expr{}
		ndef := map[types.Object]int{}
		ast.Inspect(fi.Decl.Body, func(m ast.Node) bool {
			if as, ok := m.(*ast.AssignStmt); ok && len(as.Lhs) == len(as.Rhs) {
				for i, l := range as.Lhs {
					if id, ok := l.(*ast.Ident); ok {
						o := info.Defs[id]
						if o == nil {
							o = info.Uses[id]
						}
						if o != nil {
							ndef[o]++
							defs[o] = as.Rhs[i]
						}
					}
				}
			}
			return true
		})
		var isResults func(e ast.Expr, depth int) bool
		isResults = func(e ast.Expr, depth int) bool {
			e = ast.Unparen(e)
			if depth > 3 {
				return false
			}
			switch x := e.(type) {
			case *ast.Ident:
				if o := info.Uses[x]; o != nil && ndef[o] == 1 {
					return isResults(defs[o], depth+1)
				}
			case *ast.CallExpr:
				if isBuiltinCall(info, x, "len") && len(x.Args) == 1 {
					return isResults(x.Args[0], depth+1)
				}
				if fn := callee(info, x); fn != nil && fn.Name() == "NumOut" && fn.Pkg() != nil && fn.Pkg().Path() == "reflect" {
					return true
				}
			case *ast.SelectorExpr:
				if s := info.Selections[x]; s != nil && s.Kind() == types.FieldVal && s.Obj().Name() == "Result" {
					if sl, ok := s.Obj().Type().Underlying().(*types.Slice); ok {
						if n := c10ElemNamed(sl.Elem()); n != nil && n.Obj().Name() == "Parameter" {
							return true
						}
					}
				}
			}
			return false
		}
		isReserve := func(m ast.Node) bool {
			found := false
			ast.Inspect(m, func(k ast.Node) bool {
				if _, ok := k.(*ast.FuncLit); ok {
					return false
				}
				c, ok := k.(*ast.CallExpr)
				if !ok || found {
					return !found
				}
				fn := callee(info, c)
				if fn == nil || fn.Pkg() == nil || fn.Pkg() != fi.Pkg.Types {
					return true
				}
				sig := fn.Type().(*types.Signature)
				if sig.Recv() != nil && sig.Params().Len() == 1 && sig.Results().Len() == 1 &&
					typeStr(sig.Params().At(0).Type()) == "reflect.Kind" && typeStr(sig.Results().At(0).Type()) == "int8" {
					found = true
				}
				return !found
			})
			return found
		}
		var loops []ast.Stmt
		ast.Inspect(fi.Decl.Body, func(m ast.Node) bool {
			switch s := m.(type) {
			case *ast.FuncLit:
				return false
			case *ast.RangeStmt:
				if isResults(s.X, 0) && isReserve(s.Body) {
					loops = append(loops, s)
				}
			case *ast.ForStmt:
				if be, ok := ast.Unparen(s.Cond).(*ast.BinaryExpr); ok && (isResults(be.Y, 0) || isResults(be.X, 0)) && isReserve(s.Body) {
					loops = append(loops, s)
				}
			}
			return true
		})
		if len(loops) == 0 {
			continue
		}
		c := r.P.CFGOf(fi)
		for _, lp := range loops {
			n++
			o := r.Ob(R, fi.Name()+"#results-loop", lp.Pos())
			var body *cfg.Block
			for _, b := range c.G.Blocks {
				if b.Stmt == lp && (b.Kind == cfg.KindForBody || b.Kind == cfg.KindRangeBody) {
					body = b
				}
			}
			if body == nil {
				o.Unknown("the body block of the loop was not found in the control-flow graph")
				continue
			}
			has := func(b *cfg.Block) bool {
				for _, nd := range b.Nodes {
					if isReserve(nd) {
						return true
					}
				}
				return false
			}
			escaped := ""
			for _, b := range c.G.Blocks {
				out := false
				switch {
				case b.Stmt == lp && (b.Kind == cfg.KindForLoop || b.Kind == cfg.KindForPost || b.Kind == cfg.KindForDone || b.Kind == cfg.KindRangeLoop || b.Kind == cfg.KindRangeDone):
					out = true
				case len(b.Succs) == 0 && b.Live:
					out = true
				}
				if !out || b == body {
					continue
				}
				if c.reachable(body, b, nil, has) {
					escaped = b.Kind.String()
					break
				}
			}
			if escaped != "" {
				o.Bad("an iteration over the results of the function type can end (%s) without reserving a register for the result: the frame laid out here has fewer result registers than the callee's prologue (or the caller) assumes, so the parameters of the same register class are read one register off — in a goroutine started with go, from the registers copied out of the spawner's stack", escaped)
			} else {
				o.OK("every iteration over the results reserves a register before the next iteration, the end of the loop or a return")
			}
		}
	}
	r.Anchor(R, "emitter loops over the results of a function type that reserve registers (call-site layout and callee prologue)", n >= 2)
	r.Require(R, 2)
}
