package main

// C22 R-6 (added after seeded change C22-3): the once-per-name set is fresh for every lookup.
//
// "LookupFunc calls the callback once per distinct name" is a statement about ONE call of LookupFunc. The
// set of names already seen must therefore start empty in every call: in each LookupFunc method of
// package native, a map indexed by the declaration name to decide whether to call the callback must be
// a local whose only definition is a fresh map (make or a composite literal) in the same call — not a
// value taken from a pool, a field or a package-level variable, which can carry names of an earlier,
// interrupted lookup.

import (
	"go/ast"
	"go/types"
)

func init() {
	p := registry["C22"]
	if p == nil {
		return
	}
	run := p.run
	p.run = func(r *Run) { run(r); c22FreshSet(r) }
	p.explain += " R-6: the set of names already passed to the callback is a map made fresh in the same call of LookupFunc."
}

func c22FreshSet(r *Run) {
	const R = "R-6"
	n := 0
	for _, fi := range r.P.Funcs("native") {
		if r.P.isTestFile(fi.File) || fi.Decl.Name.Name != "LookupFunc" || fi.Decl.Recv == nil {
			continue
		}
		info := fi.Pkg.TypesInfo
		// maps with string keys that are indexed inside the method (including its closures)
		maps := map[types.Object]ast.Node{}
		ast.Inspect(fi.Decl.Body, func(m ast.Node) bool {
			ix, ok := m.(*ast.IndexExpr)
			if !ok {
				return true
			}
			mt, ok := info.TypeOf(ix.X).Underlying().(*types.Map)
			if !ok {
				return true
			}
			if b, ok := mt.Key().Underlying().(*types.Basic); !ok || b.Info()&types.IsString == 0 {
				return true
			}
			if id, ok := ast.Unparen(ix.X).(*ast.Ident); ok {
				if o := info.Uses[id]; o != nil {
					if _, seen := maps[o]; !seen {
						maps[o] = ix
					}
				}
			} else {
				// a field, a call result, a package variable indexed directly
				n++
				r.Ob(R, fi.Name()+"#seen-set:"+exprStr(ix.X), ix.Pos()).Bad("the set of names is %s, not a local made in this call: names recorded by an earlier (stopped, failed or concurrent) lookup suppress callbacks of this one", exprStr(ix.X))
			}
			return true
		})
		for obj, at := range maps {
			n++
			o := r.Ob(R, fi.Name()+"#seen-set:"+obj.Name(), at.Pos())
			v, isVar := obj.(*types.Var)
			if !isVar || v.IsField() || v.Parent() == v.Pkg().Scope() {
				o.Bad("the set of names %s is not a local of the call", obj.Name())
				continue
			}
			var defs []ast.Expr
			clean := true
			ast.Inspect(fi.Decl.Body, func(m ast.Node) bool {
				switch s := m.(type) {
				case *ast.AssignStmt:
					for i, l := range s.Lhs {
						if objOfIdent(info, l) == obj {
							if len(s.Lhs) == len(s.Rhs) {
								defs = append(defs, s.Rhs[i])
							} else {
								clean = false
							}
						}
					}
				case *ast.ValueSpec:
					for i, nm := range s.Names {
						if info.Defs[nm] == obj {
							if i < len(s.Values) {
								defs = append(defs, s.Values[i])
							}
						}
					}
				}
				return true
			})
			fresh := clean && len(defs) == 1
			if fresh {
				switch d := ast.Unparen(defs[0]).(type) {
				case *ast.CompositeLit:
				case *ast.CallExpr:
					if !isBuiltinCall(info, d, "make") {
						fresh = false
					}
				default:
					fresh = false
				}
			}
			// parameters are supplied by the caller: not fresh
			sig := fi.Obj.Type().(*types.Signature)
			for i := 0; i < sig.Params().Len(); i++ {
				if sig.Params().At(i) == obj {
					fresh = false
				}
			}
			if fresh {
				o.OK("%s is defined once, as a fresh map, in the call", obj.Name())
			} else {
				o.Bad("the set of names %s is not a map made fresh in this call (it is taken from a pool, a call or assigned more than once): names recorded by an earlier stopped or failed lookup suppress callbacks of a later one", obj.Name())
			}
		}
	}
	r.Require(R, 1)
}
