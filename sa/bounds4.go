package main

// alphaStr renders an expression with every local variable, parameter and receiver replaced by $1, $2 …
// in order of first appearance, so that the keys of the reviewed exception tables survive a rename of a
// local (fields, functions, constants and package-level names keep their names).

import (
	"fmt"
	"go/ast"
	"go/types"
)

func alphaStr(info *types.Info, e ast.Expr) string {
	names := map[types.Object]string{}
	var cp func(e ast.Expr) ast.Expr
	cp = func(e ast.Expr) ast.Expr {
		switch x := e.(type) {
		case nil:
			return nil
		case *ast.Ident:
			if v, ok := info.Uses[x].(*types.Var); ok && !v.IsField() && v.Pkg() != nil && v.Parent() != v.Pkg().Scope() {
				if _, seen := names[v]; !seen {
					names[v] = fmt.Sprintf("$%d", len(names)+1)
				}
				return &ast.Ident{Name: names[v]}
			}
			return x
		case *ast.ParenExpr:
			return &ast.ParenExpr{X: cp(x.X)}
		case *ast.SelectorExpr:
			return &ast.SelectorExpr{X: cp(x.X), Sel: x.Sel}
		case *ast.IndexExpr:
			return &ast.IndexExpr{X: cp(x.X), Index: cp(x.Index)}
		case *ast.SliceExpr:
			return &ast.SliceExpr{X: cp(x.X), Low: cp(x.Low), High: cp(x.High), Max: cp(x.Max), Slice3: x.Slice3}
		case *ast.StarExpr:
			return &ast.StarExpr{X: cp(x.X)}
		case *ast.UnaryExpr:
			return &ast.UnaryExpr{Op: x.Op, X: cp(x.X)}
		case *ast.BinaryExpr:
			return &ast.BinaryExpr{X: cp(x.X), Op: x.Op, Y: cp(x.Y)}
		case *ast.CallExpr:
			c := &ast.CallExpr{Fun: cp(x.Fun), Ellipsis: x.Ellipsis}
			for _, a := range x.Args {
				c.Args = append(c.Args, cp(a))
			}
			return c
		case *ast.TypeAssertExpr:
			return &ast.TypeAssertExpr{X: cp(x.X), Type: x.Type}
		}
		return e
	}
	return types.ExprString(cp(e))
}
