package main

// C23 R-4: the bounds engine E6 (C04 R-2) on the string and []byte index/slice expressions of files.go —
// a listing or a read of the in-memory file system never faults on an index, whatever the names in the map.

var c23R4Exceptions = []boundsException{
	{"scriggo.(*filesFile).Read#$1.data[$1.offset:]",
		"invariant of the handle: offset is written only by Read, which advances it by the result of copy (at most len(f.data)-offset), and by Close, which sets -1 (rejected at the entry of Read); data is never reassigned after Open. Hence 0 ≤ offset ≤ len(data) here"},
}

func init() {
	p := registry["C23"]
	if p == nil {
		return
	}
	run := p.run
	p.run = func(r *Run) { run(r); c23R4(r) }
	p.explain += " R-4: every index and slice expression on a string or []byte in files.go is in range on every path (bounds engine of C04 R-2)."
}

func c23R4(r *Run) {
	const R = "R-4"
	var fns, all []*FuncInfo
	for _, f := range r.P.Funcs("") {
		if r.P.isTestFile(f.File) {
			continue
		}
		all = append(all, f)
		if r.P.FileOf(f.Decl.Pos()) == "files.go" {
			fns = append(fns, f)
		}
	}
	runBounds(r, boundsConfig{rule: R, funcs: fns, allFuncs: all, exceptions: c23R4Exceptions})
	r.Require(R, 3)
}
